package main

import (
	"fmt"
	"go/token"
	"go/types"
	"os"
	"sort"
	"strings"

	"golang.org/x/tools/go/ssa"
)

// Affine delta accounting (E8).
//
// A struct keeps a cached total (the "account" field) of values held in maps
// of the same struct ("items"). The invariant `account == Σ items` is kept by
// updating the account by exactly the change of the item on every path. The
// engine enumerates the edge-simple paths of one loop iteration (or of the
// whole function) around every item change, interprets the path over affine
// forms of symbolic atoms (SSA registers, versioned memory cells, map
// elements named structurally by map and key) and requires that, per owner
// object, the net change written to the account equals the sum of the item
// changes. No solver: forms are compared after normalisation.
//
// Assumptions (documented in DESIGN.md): distinct symbolic addresses do not
// alias; calls do not write the tracked fields (writers are restricted by a
// who-may-write rule of the same property); inner loops are traversed at most
// once per path.

type aff struct {
	k     int64
	terms map[string]int64
}

func affConst(k int64) aff { return aff{k: k} }
func affAtom(a string) aff { return aff{terms: map[string]int64{a: 1}} }

func (a aff) add(b aff, sign int64) aff {
	out := aff{k: a.k + sign*b.k, terms: map[string]int64{}}
	for t, c := range a.terms {
		out.terms[t] += c
	}
	for t, c := range b.terms {
		out.terms[t] += sign * c
	}
	for t, c := range out.terms {
		if c == 0 {
			delete(out.terms, t)
		}
	}
	return out
}

func (a aff) scale(k int64) aff {
	out := aff{k: a.k * k, terms: map[string]int64{}}
	for t, c := range a.terms {
		if c*k != 0 {
			out.terms[t] = c * k
		}
	}
	return out
}

func (a aff) isConst() (int64, bool) { return a.k, len(a.terms) == 0 }

func (a aff) String() string {
	var ts []string
	for t := range a.terms {
		ts = append(ts, t)
	}
	sort.Strings(ts)
	s := ""
	for _, t := range ts {
		c := a.terms[t]
		switch {
		case c == 1:
			s += " + " + t
		case c == -1:
			s += " - " + t
		case c > 0:
			s += fmt.Sprintf(" + %d·%s", c, t)
		default:
			s += fmt.Sprintf(" - %d·%s", -c, t)
		}
	}
	if a.k != 0 || s == "" {
		s = fmt.Sprintf("%d", a.k) + s
	}
	return strings.TrimPrefix(strings.TrimSpace(s), "+ ")
}

func (a aff) equal(b aff) bool {
	d := a.add(b, -1)
	return d.k == 0 && len(d.terms) == 0
}

type acctSpec struct {
	Account string   // field key of the cached total
	IntMaps []string // field keys of map[K]int items of the same struct
	// pointer-valued maps: map field key -> field key of the int inside the element
	PtrMaps map[string]string
}

type acctState struct {
	mem       map[string]aff    // symbolic memory: address -> value
	ptr       map[string]string // address -> symbolic pointer/other non-int value
	inserted  map[string]bool   // element pointers known to be in a tracked map
	owner     map[string]string // element pointer -> owner object
	acct      map[string]aff    // owner -> net change written to the account
	items     map[string]aff    // owner -> Σ item changes
	undecided []string
	events    int
	regA      map[ssa.Value]aff // values of loads / lookups, fixed when the instruction executed
	regS      map[ssa.Value]string
}

func (s *acctState) clone() *acctState {
	n := &acctState{mem: map[string]aff{}, ptr: map[string]string{}, inserted: map[string]bool{}, owner: map[string]string{}, acct: map[string]aff{}, items: map[string]aff{}, events: s.events, regA: map[ssa.Value]aff{}, regS: map[ssa.Value]string{}}
	for k, v := range s.regA {
		n.regA[k] = v
	}
	for k, v := range s.regS {
		n.regS[k] = v
	}
	for k, v := range s.mem {
		n.mem[k] = v
	}
	for k, v := range s.ptr {
		n.ptr[k] = v
	}
	for k, v := range s.inserted {
		n.inserted[k] = v
	}
	for k, v := range s.owner {
		n.owner[k] = v
	}
	for k, v := range s.acct {
		n.acct[k] = v
	}
	for k, v := range s.items {
		n.items[k] = v
	}
	n.undecided = append([]string(nil), s.undecided...)
	return n
}

type acctEval struct {
	spec acctSpec
	st   *acctState
	pred *ssa.BasicBlock // predecessor on the current path (for phis)
	phi  map[*ssa.Phi]string
	phiA map[*ssa.Phi]aff
	// while a straight-line callee is interpreted inline: its parameters stand for the caller's arguments
	paramSym    map[*ssa.Parameter]string
	paramAff    map[*ssa.Parameter]aff
	inlineDepth int
}

func fieldKeyOfAddr(v ssa.Value) (string, ssa.Value) {
	f, base := fieldAddrOf(v)
	if f == nil {
		return "", nil
	}
	return fieldKeyOf(base, f), base
}

// addr: symbolic name of an address-valued SSA value.
func (e *acctEval) addr(v ssa.Value) string {
	switch x := v.(type) {
	case *ssa.FieldAddr:
		k, base := fieldKeyOfAddr(x)
		_ = base
		return "F(" + e.sym(x.X) + "," + shortKey(k) + ")"
	case *ssa.IndexAddr:
		return "I(" + e.sym(x.X) + "," + e.sym(x.Index) + ")"
	case *ssa.Alloc:
		return "A(" + x.Name() + ")"
	case *ssa.Global:
		return "G(" + x.Name() + ")"
	case *ssa.FreeVar:
		// a captured variable is the enclosing function's cell
		if al := boundCell(x); al != nil {
			return "A(" + al.Name() + ")"
		}
	}
	return "P(" + e.sym(v) + ")"
}

func shortKey(k string) string {
	if i := strings.LastIndex(k, "/"); i >= 0 {
		return k[i+1:]
	}
	return k
}

// mapOf classifies a map-valued SSA value: which tracked map field of which owner.
func (e *acctEval) mapOf(m ssa.Value) (fieldKey, owner, loc string) {
	m = strip2(m)
	ld, ok := m.(*ssa.UnOp)
	if !ok || ld.Op != token.MUL {
		return "", "", ""
	}
	k, base := fieldKeyOfAddr(ld.X)
	if k == "" {
		return "", "", ""
	}
	_ = base
	fa := ld.X.(*ssa.FieldAddr)
	return k, e.sym(fa.X), e.addr(ld.X)
}

func (e *acctEval) isIntMap(k string) bool {
	for _, m := range e.spec.IntMaps {
		if m == k {
			return true
		}
	}
	return false
}

// sym: structural symbolic name of a (non-integer or opaque) value.
func (e *acctEval) sym(v ssa.Value) string {
	if s, ok := e.st.regS[v]; ok {
		return s
	}
	if a, ok := e.st.regA[v]; ok {
		return "(" + a.String() + ")"
	}
	switch x := v.(type) {
	case *ssa.Parameter:
		if s, ok := e.paramSym[x]; ok {
			return s
		}
		return v.Name()
	case *ssa.FreeVar:
		return v.Name()
	case *ssa.Const:
		if x.Value == nil {
			return "nil"
		}
		return x.Value.ExactString()
	case *ssa.ChangeType:
		return e.sym(x.X)
	case *ssa.Convert:
		return e.sym(x.X)
	case *ssa.ChangeInterface:
		return e.sym(x.X)
	case *ssa.MakeInterface:
		return e.sym(x.X)
	case *ssa.TypeAssert:
		if !x.CommaOk {
			return e.sym(x.X)
		}
	case *ssa.Field:
		return fmt.Sprintf("field(%s,%d)", e.sym(x.X), x.Field)
	case *ssa.FieldAddr, *ssa.IndexAddr:
		return "&" + e.addr(v)
	case *ssa.Alloc:
		return "&A(" + x.Name() + ")"
	case *ssa.Phi:
		if s, ok := e.phi[x]; ok {
			return s
		}
		return x.Name()
	case *ssa.UnOp:
		if x.Op == token.MUL {
			a := e.addr(x.X)
			if p, ok := e.st.ptr[a]; ok {
				return p
			}
			if isIntType(x.Type()) {
				if val, ok := e.st.mem[a]; ok {
					return "(" + val.String() + ")"
				}
			}
			return "load(" + a + ")"
		}
	case *ssa.Extract:
		switch t := x.Tuple.(type) {
		case *ssa.Next:
			if rng, ok := t.Iter.(*ssa.Range); ok {
				fk, _, loc := e.mapOf(rng.X)
				if fk != "" && x.Index == 2 {
					return "elem(" + loc + ",key(" + t.Name() + "))"
				}
				if x.Index == 1 {
					return "key(" + t.Name() + ")"
				}
			}
		case *ssa.Lookup:
			if x.Index == 0 {
				return e.lookupSym(t)
			}
		}
		return fmt.Sprintf("%s#%d", x.Tuple.Name(), x.Index)
	case *ssa.Lookup:
		if !x.CommaOk {
			return e.lookupSym(x)
		}
	}
	return v.Name()
}

func (e *acctEval) lookupSym(l *ssa.Lookup) string {
	fk, _, loc := e.mapOf(l.X)
	if fk != "" {
		return "elem(" + loc + "," + e.sym(l.Index) + ")"
	}
	return "elem(" + e.sym(l.X) + "," + e.sym(l.Index) + ")"
}

func isIntType(t types.Type) bool {
	b, ok := t.Underlying().(*types.Basic)
	return ok && b.Info()&types.IsInteger != 0
}

// val: affine value of an integer SSA value.
func (e *acctEval) val(v ssa.Value) aff {
	if a, ok := e.st.regA[v]; ok {
		return a
	}
	switch x := v.(type) {
	case *ssa.Parameter:
		if a, ok := e.paramAff[x]; ok {
			return a
		}
	case *ssa.Call:
		// len(x[l:h]) = (h | len(x)) - l ; len(x) is named by what x is
		if calleeKey(x) == "builtin.len" && len(x.Call.Args) == 1 {
			return e.lenOf(x.Call.Args[0], 0)
		}
	case *ssa.Const:
		if k, ok := constInt(x); ok {
			return affConst(k)
		}
	case *ssa.Convert:
		if isIntType(x.X.Type()) {
			return e.val(x.X)
		}
	case *ssa.ChangeType:
		return e.val(x.X)
	case *ssa.BinOp:
		switch x.Op {
		case token.ADD:
			return e.val(x.X).add(e.val(x.Y), 1)
		case token.SUB:
			return e.val(x.X).add(e.val(x.Y), -1)
		case token.MUL:
			a, b := e.val(x.X), e.val(x.Y)
			if k, ok := a.isConst(); ok {
				return b.scale(k)
			}
			if k, ok := b.isConst(); ok {
				return a.scale(k)
			}
		}
		return affAtom("(" + e.val(x.X).String() + " " + x.Op.String() + " " + e.val(x.Y).String() + ")")
	case *ssa.UnOp:
		switch x.Op {
		case token.SUB:
			return e.val(x.X).scale(-1)
		case token.MUL:
			a := e.addr(x.X)
			if val, ok := e.st.mem[a]; ok {
				return val
			}
			return affAtom("load(" + a + ")")
		}
	case *ssa.Phi:
		if a, ok := e.phiA[x]; ok {
			return a
		}
	case *ssa.Lookup:
		if !x.CommaOk {
			return e.elemVal(x)
		}
	case *ssa.Extract:
		if l, ok := x.Tuple.(*ssa.Lookup); ok && x.Index == 0 {
			return e.elemVal(l)
		}
	}
	return affAtom(e.sym(v))
}

func (e *acctEval) lenOf(v ssa.Value, d int) aff {
	v = strip2(v)
	if sl, ok := v.(*ssa.Slice); ok && d < 6 {
		var hi aff
		if sl.High != nil {
			hi = e.val(sl.High)
		} else {
			hi = e.lenOf(sl.X, d+1)
		}
		if sl.Low != nil {
			return hi.add(e.val(sl.Low), -1)
		}
		return hi
	}
	// address of an array: its length is a constant
	if p, ok := v.Type().Underlying().(*types.Pointer); ok {
		if arr, ok := p.Elem().Underlying().(*types.Array); ok {
			return affConst(arr.Len())
		}
	}
	if arr, ok := v.Type().Underlying().(*types.Array); ok {
		return affConst(arr.Len())
	}
	return affAtom("len(" + e.sym(v) + ")")
}

func (e *acctEval) elemVal(l *ssa.Lookup) aff {
	a := e.lookupSym(l)
	if val, ok := e.st.mem[a]; ok {
		return val
	}
	return affAtom(a)
}

func (st *acctState) addTo(m map[string]aff, owner string, d aff, sign int64) {
	cur, ok := m[owner]
	if !ok {
		cur = affConst(0)
	}
	m[owner] = cur.add(d, sign)
}

// step interprets one instruction.
func (e *acctEval) step(in ssa.Instruction) {
	st := e.st
	if os.Getenv("LP2P_DEBUG_ACCT") != "" {
		if st2, ok := in.(*ssa.Store); ok {
			k, _ := fieldKeyOfAddr(st2.Addr)
			fmt.Fprintf(os.Stderr, "acct: store %s key=%q val=%s\n", e.addr(st2.Addr), k, e.val(st2.Val).String())
		}
	}
	// memory-dependent values are fixed at the point of execution
	switch x := in.(type) {
	case *ssa.UnOp:
		if x.Op == token.MUL {
			if isIntType(x.Type()) {
				st.regA[x] = e.val(x)
			} else {
				st.regS[x] = e.sym(x)
			}
		}
		return
	case *ssa.Lookup:
		if !x.CommaOk {
			if isIntType(x.Type()) {
				st.regA[x] = e.val(x)
			} else {
				st.regS[x] = e.sym(x)
			}
		}
		return
	case *ssa.Extract:
		if l, ok := x.Tuple.(*ssa.Lookup); ok && x.Index == 0 {
			if isIntType(x.Type()) {
				st.regA[x] = e.elemVal(l)
			} else {
				st.regS[x] = e.lookupSym(l)
			}
		}
		return
	case *ssa.Slice:
		// the bounds are fixed when the slice is made
		st.regS[x] = e.sym(x)
		return
	case *ssa.Call:
		if calleeKey(x) == "builtin.len" && len(x.Call.Args) == 1 {
			st.regA[x] = e.lenOf(x.Call.Args[0], 0)
			return
		}
		// a straight-line module helper (one block, no calls into further helpers of its own kind) is interpreted inline
		if callee := x.Call.StaticCallee(); callee != nil && e.inlineDepth < 2 && callee.Pkg != nil && strings.HasPrefix(callee.Pkg.Pkg.Path()+"/", Mod) && straightLine(callee) {
			ie := &acctEval{spec: e.spec, st: st, phi: map[*ssa.Phi]string{}, phiA: map[*ssa.Phi]aff{}, paramSym: map[*ssa.Parameter]string{}, paramAff: map[*ssa.Parameter]aff{}, inlineDepth: e.inlineDepth + 1}
			for i, p := range callee.Params {
				if i < len(x.Call.Args) {
					if isIntType(p.Type()) {
						ie.paramAff[p] = e.val(x.Call.Args[i])
					}
					ie.paramSym[p] = e.sym(x.Call.Args[i])
				}
			}
			for _, ci := range callee.Blocks[0].Instrs {
				ie.step(ci)
			}
			return
		}
	}
	switch x := in.(type) {
	case *ssa.Phi:
		// resolved by the caller (needs the predecessor)
	case *ssa.Store:
		a := e.addr(x.Addr)
		k, _ := fieldKeyOfAddr(x.Addr)
		if k != "" && k == e.spec.Account {
			owner := e.sym(x.Addr.(*ssa.FieldAddr).X)
			old, ok := st.mem[a]
			if !ok {
				old = affAtom("load(" + a + ")")
			}
			nv := e.val(x.Val)
			st.addTo(st.acct, owner, nv.add(old, -1), 1)
			st.mem[a] = nv
			st.events++
			return
		}
		// the int inside an element of a pointer map
		for _, vf := range e.spec.PtrMaps {
			if k != "" && k == vf {
				p := e.sym(x.Addr.(*ssa.FieldAddr).X)
				old, ok := st.mem[a]
				if !ok {
					old = affAtom("load(" + a + ")")
				}
				nv := e.val(x.Val)
				if _, fresh := x.Addr.(*ssa.FieldAddr).X.(*ssa.Alloc); fresh && !st.inserted[p] {
					st.mem[a] = nv
					return
				}
				owner, ok := st.owner[p]
				if !ok {
					if strings.HasPrefix(p, "elem(") {
						// elem(F(owner,field),key)
						owner = ownerOfElem(p)
					} else {
						st.undecided = append(st.undecided, "store to "+a+": element of unknown owner")
						owner = "?"
					}
				}
				st.addTo(st.items, owner, nv.add(old, -1), 1)
				st.mem[a] = nv
				st.events++
				return
			}
		}
		if isIntType(x.Val.Type()) {
			st.mem[a] = e.val(x.Val)
		} else {
			st.ptr[a] = e.sym(x.Val)
		}
	case *ssa.MapUpdate:
		fk, owner, loc := e.mapOf(x.Map)
		if fk == "" {
			return
		}
		if e.isIntMap(fk) {
			ea := "elem(" + loc + "," + e.sym(x.Key) + ")"
			old, ok := st.mem[ea]
			if !ok {
				old = affAtom(ea)
			}
			nv := e.val(x.Value)
			st.addTo(st.items, owner, nv.add(old, -1), 1)
			st.mem[ea] = nv
			st.events++
			return
		}
		if vf, ok := e.spec.PtrMaps[fk]; ok {
			p := e.sym(x.Value)
			va := "F(" + p + "," + shortKey(vf) + ")"
			cur, ok := st.mem[va]
			if !ok {
				cur = affAtom("load(" + va + ")")
			}
			// insertion of a new element (overwriting an existing key is not modelled: old element's value would leave)
			st.addTo(st.items, owner, cur, 1)
			st.inserted[p] = true
			st.owner[p] = owner
			// the element is now also reachable as elem(map,key)
			alias := "elem(" + loc + "," + e.sym(x.Key) + ")"
			st.owner[alias] = owner
			st.events++
		}
	case *ssa.Call:
		if calleeKey(x) == "builtin.delete" && len(x.Call.Args) == 2 {
			fk, owner, loc := e.mapOf(x.Call.Args[0])
			if fk == "" {
				return
			}
			ea := "elem(" + loc + "," + e.sym(x.Call.Args[1]) + ")"
			if e.isIntMap(fk) {
				old, ok := st.mem[ea]
				if !ok {
					old = affAtom(ea)
				}
				st.addTo(st.items, owner, old, -1)
				st.mem[ea] = affConst(0)
				st.events++
				return
			}
			if vf, ok := e.spec.PtrMaps[fk]; ok {
				va := "F(" + ea + "," + shortKey(vf) + ")"
				cur, ok := st.mem[va]
				if !ok {
					cur = affAtom("load(" + va + ")")
				}
				st.addTo(st.items, owner, cur, -1)
				st.events++
			}
		}
	}
}

func ownerOfElem(p string) string {
	// elem(F(<owner>,<field>),<key>)
	if !strings.HasPrefix(p, "elem(F(") {
		return "?"
	}
	rest := p[len("elem(F("):]
	depth := 0
	for i, ch := range rest {
		switch ch {
		case '(':
			depth++
		case ')':
			depth--
		case ',':
			if depth == 0 {
				return rest[:i]
			}
		}
	}
	return "?"
}

// isAcctEvent: does the instruction change an item or the account?
func isAcctEvent(spec acctSpec, in ssa.Instruction) bool {
	switch x := in.(type) {
	case *ssa.Store:
		k, _ := fieldKeyOfAddr(x.Addr)
		if k == "" {
			return false
		}
		if k == spec.Account {
			return true
		}
		for _, vf := range spec.PtrMaps {
			if k == vf {
				if _, fresh := x.Addr.(*ssa.FieldAddr).X.(*ssa.Alloc); fresh {
					return false
				}
				return true
			}
		}
	case *ssa.MapUpdate:
		k := mapFieldKey(x.Map)
		return k != "" && (inList(spec.IntMaps, k) || spec.PtrMaps[k] != "")
	case *ssa.Call:
		if calleeKey(x) == "builtin.delete" && len(x.Call.Args) == 2 {
			k := mapFieldKey(x.Call.Args[0])
			return k != "" && (inList(spec.IntMaps, k) || spec.PtrMaps[k] != "")
		}
	}
	return false
}

func mapFieldKey(m ssa.Value) string {
	ld, ok := strip2(m).(*ssa.UnOp)
	if !ok || ld.Op != token.MUL {
		return ""
	}
	k, _ := fieldKeyOfAddr(ld.X)
	return k
}

func inList(l []string, s string) bool {
	for _, x := range l {
		if x == s {
			return true
		}
	}
	return false
}

// innermostLoop: header and body of the smallest natural loop containing b
// (nil when b is in no loop).
func innermostLoop(f *ssa.Function, b *ssa.BasicBlock) (*ssa.BasicBlock, map[*ssa.BasicBlock]bool) {
	// natural loops, merged per header
	loops := map[*ssa.BasicBlock]map[*ssa.BasicBlock]bool{}
	for _, t := range f.Blocks {
		for _, h := range t.Succs {
			if !h.Dominates(t) {
				continue
			}
			body := loops[h]
			if body == nil {
				body = map[*ssa.BasicBlock]bool{h: true}
				loops[h] = body
			}
			stack := []*ssa.BasicBlock{t}
			for len(stack) > 0 {
				n := stack[len(stack)-1]
				stack = stack[:len(stack)-1]
				if body[n] {
					continue
				}
				body[n] = true
				stack = append(stack, n.Preds...)
			}
		}
	}
	var bestH *ssa.BasicBlock
	var best map[*ssa.BasicBlock]bool
	for _, blk := range f.Blocks { // deterministic order
		body := loops[blk]
		if body == nil || !body[b] {
			continue
		}
		if best == nil || len(body) < len(best) {
			bestH, best = blk, body
		}
	}
	return bestH, best
}

type acctResult struct {
	paths    int
	events   int
	failures []string // one per unbalanced path (deduplicated by message)
	overflow bool
}

// acctCheck runs the accounting over every item/account event of f.
func acctCheck(c *Ctx, f *ssa.Function, spec acctSpec) acctResult {
	var res acctResult
	seenFail := map[string]bool{}
	doneRegion := map[*ssa.BasicBlock]bool{}
	for _, b := range f.Blocks {
		for _, in := range b.Instrs {
			if !isAcctEvent(spec, in) {
				continue
			}
			res.events++
			h, body := innermostLoop(f, b)
			start := h
			if h == nil {
				start = f.Blocks[0]
			}
			if doneRegion[start] {
				continue
			}
			doneRegion[start] = true
			budget := 20000
			used := map[[2]int]bool{}
			var walk func(blk, pred *ssa.BasicBlock, st *acctState, first bool, trace []int)
			finish := func(st *acctState, trace []int) {
				res.paths++
				if st.events == 0 {
					return
				}
				owners := map[string]bool{}
				for o := range st.acct {
					owners[o] = true
				}
				for o := range st.items {
					owners[o] = true
				}
				for o := range owners {
					a, okA := st.acct[o]
					i, okI := st.items[o]
					if !okA {
						a = affConst(0)
					}
					if !okI {
						i = affConst(0)
					}
					if !a.equal(i) {
						msg := fmt.Sprintf("owner %s: account changes by [%s] but items change by [%s]", o, a.String(), i.String())
						if !seenFail[msg] {
							seenFail[msg] = true
							res.failures = append(res.failures, msg+fmt.Sprintf(" (path b%v)", trace))
						}
					}
				}
				for _, u := range st.undecided {
					if !seenFail[u] {
						seenFail[u] = true
						res.failures = append(res.failures, "undecided: "+u)
					}
				}
			}
			walk = func(blk, pred *ssa.BasicBlock, st *acctState, first bool, trace []int) {
				if budget <= 0 {
					res.overflow = true
					return
				}
				budget--
				e := &acctEval{spec: spec, st: st, pred: pred, phi: map[*ssa.Phi]string{}, phiA: map[*ssa.Phi]aff{}}
				trace = append(trace, blk.Index)
				// phis first (parallel assignment), resolved by the predecessor
				e.loadPhis(f)
				newA := map[string]aff{}
				newP := map[string]string{}
				for _, in := range blk.Instrs {
					p, ok := in.(*ssa.Phi)
					if !ok {
						break
					}
					if pred == nil {
						// region entry: the phi is an opaque per-iteration value
						delete(st.mem, "phi:"+p.Name())
						delete(st.ptr, "phi:"+p.Name())
						continue
					}
					for i, pb := range blk.Preds {
						if pb == pred {
							if isIntType(p.Type()) {
								newA["phi:"+p.Name()] = e.val(p.Edges[i])
							} else {
								newP["phi:"+p.Name()] = e.sym(p.Edges[i])
							}
						}
					}
				}
				for k, v := range newA {
					st.mem[k] = v
				}
				for k, v := range newP {
					st.ptr[k] = v
				}
				e.phi, e.phiA = map[*ssa.Phi]string{}, map[*ssa.Phi]aff{}
				e.loadPhis(f)
				for _, in := range blk.Instrs {
					e.step(in)
				}
				last := blk.Instrs[len(blk.Instrs)-1]
				if _, isRet := last.(*ssa.Return); isRet {
					finish(st, trace)
					return
				}
				if len(blk.Succs) == 0 {
					finish(st, trace)
					return
				}
				for si, s := range blk.Succs {
					ek := [2]int{blk.Index, si}
					if used[ek] {
						continue
					}
					if h != nil && (s == h || !body[s]) {
						// back edge or loop exit: the iteration is over
						finish(st.clone(), append(trace, s.Index))
						continue
					}
					used[ek] = true
					walk(s, blk, st.clone(), false, trace)
					delete(used, ek)
				}
			}
			walk(start, nil, &acctState{mem: map[string]aff{}, ptr: map[string]string{}, inserted: map[string]bool{}, owner: map[string]string{}, acct: map[string]aff{}, items: map[string]aff{}, regA: map[ssa.Value]aff{}, regS: map[ssa.Value]string{}}, true, nil)
		}
	}
	return res
}

// loadPhis makes the phi values resolved so far (kept in the state under
// "phi:<name>") visible to sym/val.
func (e *acctEval) loadPhis(f *ssa.Function) {
	for _, b := range f.Blocks {
		for _, in := range b.Instrs {
			p, ok := in.(*ssa.Phi)
			if !ok {
				break
			}
			if a, ok := e.st.mem["phi:"+p.Name()]; ok {
				e.phiA[p] = a
			}
			if s, ok := e.st.ptr["phi:"+p.Name()]; ok {
				e.phi[p] = s
			}
		}
	}
}

// straightLine: a function whose body is one basic block (plus the synthetic recover block).
func straightLine(f *ssa.Function) bool {
	if f.Blocks == nil {
		return false
	}
	n := 0
	for _, b := range f.Blocks {
		if b.Comment == "recover" {
			continue
		}
		n++
	}
	return n == 1 && len(f.Blocks[0].Instrs) < 40
}
