// Code generated from /verif/properties.jsonl (anchors.files) by gen_anchors.py; DO NOT EDIT.

package main

// anchorPkgs: the package directories each property is anchored in.
var anchorPkgs = map[string][]string{
	"C01": {"core/sec", "p2p/net/swarm", "p2p/net/upgrader", "p2p/security/noise", "p2p/security/tls", "p2p/transport/quic"},
	"C02": {"p2p/host/basic", "p2p/muxer/yamux", "p2p/net/pnet", "p2p/net/swarm", "p2p/security/noise", "p2p/security/tls", "p2p/transport/tcpreuse/internal/sampledconn"},
	"C03": {"core/network", "p2p/host/resource-manager"},
	"C04": {"p2p/host/basic", "p2p/net/swarm", "p2p/net/upgrader", "p2p/transport/quic", "p2p/transport/tcp", "p2p/transport/tcpreuse", "p2p/transport/websocket"},
	"C05": {"p2p/net/swarm"},
	"C06": {"p2p/net/swarm"},
	"C07": {"core/protocol", "p2p/host/basic", "p2p/host/blank", "p2p/net/swarm"},
	"C08": {"core/crypto", "core/peer", "core/record", "p2p/protocol/circuitv2/proto"},
	"C09": {"core/peerstore", "p2p/host/peerstore/pstoreds", "p2p/host/peerstore/pstoremem"},
	"C10": {"core/connmgr", "p2p/net/conngater", "p2p/net/swarm", "p2p/net/upgrader", "p2p/transport/quic", "p2p/transport/webrtc", "p2p/transport/webtransport"},
	"C11": {"p2p/protocol/circuitv2/client", "p2p/protocol/circuitv2/proto", "p2p/protocol/circuitv2/relay"},
	"C12": {"core/network", "p2p/host/basic", "p2p/net/swarm", "p2p/protocol/holepunch"},
	"C13": {"p2p/host/peerstore/pstoremem", "p2p/protocol/identify"},
	"C14": {"core/connmgr", "p2p/net/connmgr"},
	"C15": {"core/event", "p2p/host/eventbus"},
	"C16": {"p2p/protocol/autonatv2"},
	"C17": {"p2p/host/basic", "p2p/host/observedaddrs"},
	"C18": {"p2p/transport/webtransport"},
	"C19": {"p2p/http/auth", "p2p/http/auth/internal/handshake"},
	"C20": {"p2p/net/swarm"},
}
