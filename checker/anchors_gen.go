// Code generated from /verif/properties.jsonl (anchors.files) by gen_anchors.py; DO NOT EDIT.

package main

// anchorPkgs: the package directories each property is anchored in.
var anchorPkgs = map[string][]string{
	"C01": {"core/sec", "p2p/net/swarm", "p2p/net/upgrader", "p2p/security/noise", "p2p/security/tls", "p2p/transport/quic"},
	"C02": {"p2p/host/basic", "p2p/muxer/yamux", "p2p/net/pnet", "p2p/net/swarm", "p2p/security/noise", "p2p/security/tls", "p2p/transport/tcpreuse/internal/sampledconn"},
	"C03": {"core/network", "p2p/host/resource-manager"},
	"C04": {"p2p/host/basic", "p2p/net/swarm", "p2p/net/upgrader", "p2p/transport/quic", "p2p/transport/tcp", "p2p/transport/tcpreuse", "p2p/transport/websocket"},
	"C05": {"p2p/net/swarm"},
	"C06": {"p2p/net/swarm"},
	"C07": {"core/protocol", "p2p/host/basic", "p2p/host/blank", "p2p/net/swarm"},
	"C08": {"core/crypto", "core/peer", "core/record", "p2p/protocol/circuitv2/proto"},
	"C09": {"core/peerstore", "p2p/host/peerstore/pstoreds", "p2p/host/peerstore/pstoremem"},
	"C10": {"core/connmgr", "p2p/net/conngater", "p2p/net/swarm", "p2p/net/upgrader", "p2p/transport/quic", "p2p/transport/webrtc", "p2p/transport/webtransport"},
	"C11": {"p2p/protocol/circuitv2/client", "p2p/protocol/circuitv2/proto", "p2p/protocol/circuitv2/relay"},
	"C12": {"core/network", "p2p/host/basic", "p2p/net/swarm", "p2p/protocol/holepunch"},
	"C13": {"p2p/host/peerstore/pstoremem", "p2p/protocol/identify"},
	"C14": {"core/connmgr", "p2p/net/connmgr"},
	"C15": {"core/event", "p2p/host/eventbus"},
	"C16": {"p2p/protocol/autonatv2"},
	"C17": {"p2p/host/basic", "p2p/host/observedaddrs"},
	"C18": {"p2p/transport/webtransport"},
	"C19": {"p2p/http/auth", "p2p/http/auth/internal/handshake"},
	"C20": {"p2p/net/swarm"},
}

// anchorFiles: the files (or directories) each property names as its anchors.
var anchorFiles = map[string][]string{
	"C01": {"core/sec/security.go", "p2p/net/swarm/swarm_dial.go", "p2p/net/upgrader/upgrader.go", "p2p/security/noise/handshake.go", "p2p/security/noise/session.go", "p2p/security/noise/session_transport.go", "p2p/security/noise/transport.go", "p2p/security/tls/crypto.go", "p2p/security/tls/transport.go", "p2p/transport/quic/listener.go", "p2p/transport/quic/transport.go"},
	"C02": {"p2p/host/basic/basic_host.go", "p2p/muxer/yamux/conn.go", "p2p/muxer/yamux/stream.go", "p2p/net/pnet/psk_conn.go", "p2p/net/swarm/swarm_stream.go", "p2p/security/noise/crypto.go", "p2p/security/noise/rw.go", "p2p/security/tls/conn.go", "p2p/transport/tcpreuse/internal/sampledconn/sampledconn.go"},
	"C03": {"core/network/rcmgr.go", "p2p/host/resource-manager/allowlist.go", "p2p/host/resource-manager/conn_limiter.go", "p2p/host/resource-manager/extapi.go", "p2p/host/resource-manager/limit.go", "p2p/host/resource-manager/rcmgr.go", "p2p/host/resource-manager/scope.go"},
	"C04": {"p2p/host/basic/basic_host.go", "p2p/net/swarm/swarm.go", "p2p/net/swarm/swarm_conn.go", "p2p/net/swarm/swarm_listen.go", "p2p/net/swarm/swarm_stream.go", "p2p/net/upgrader/conn.go", "p2p/net/upgrader/listener.go", "p2p/net/upgrader/threshold.go", "p2p/net/upgrader/upgrader.go", "p2p/transport/quic/listener.go", "p2p/transport/quic/transport.go", "p2p/transport/tcp/tcp.go", "p2p/transport/tcpreuse/listener.go", "p2p/transport/websocket/websocket.go"},
	"C05": {"p2p/net/swarm/black_hole_detector.go", "p2p/net/swarm/dial_error.go", "p2p/net/swarm/dial_ranker.go", "p2p/net/swarm/dial_sync.go", "p2p/net/swarm/dial_worker.go", "p2p/net/swarm/limiter.go", "p2p/net/swarm/swarm_dial.go"},
	"C06": {"p2p/net/swarm/connection_events_emitter.go", "p2p/net/swarm/swarm.go", "p2p/net/swarm/swarm_conn.go"},
	"C07": {"core/protocol/switch.go", "p2p/host/basic/basic_host.go", "p2p/host/blank/blank.go", "p2p/net/swarm/swarm_conn.go", "p2p/net/swarm/swarm_stream.go"},
	"C08": {"core/crypto/ecdsa.go", "core/crypto/ed25519.go", "core/crypto/key.go", "core/crypto/rsa_go.go", "core/crypto/secp256k1.go", "core/peer/addrinfo.go", "core/peer/peer.go", "core/peer/peer_serde.go", "core/peer/record.go", "core/record/envelope.go", "core/record/record.go", "p2p/protocol/circuitv2/proto/voucher.go"},
	"C09": {"core/peerstore/peerstore.go", "p2p/host/peerstore/pstoreds/addr_book.go", "p2p/host/peerstore/pstoreds/addr_book_gc.go", "p2p/host/peerstore/pstoreds/peerstore.go", "p2p/host/peerstore/pstoremem/addr_book.go", "p2p/host/peerstore/pstoremem/peerstore.go"},
	"C10": {"core/connmgr/gater.go", "p2p/net/conngater/conngater.go", "p2p/net/swarm/swarm.go", "p2p/net/swarm/swarm_dial.go", "p2p/net/upgrader/listener.go", "p2p/net/upgrader/upgrader.go", "p2p/transport/quic/listener.go", "p2p/transport/webrtc/listener.go", "p2p/transport/webtransport/listener.go"},
	"C11": {"p2p/protocol/circuitv2/client/dial.go", "p2p/protocol/circuitv2/client/handlers.go", "p2p/protocol/circuitv2/client/reservation.go", "p2p/protocol/circuitv2/proto/voucher.go", "p2p/protocol/circuitv2/relay/acl.go", "p2p/protocol/circuitv2/relay/constraints.go", "p2p/protocol/circuitv2/relay/relay.go", "p2p/protocol/circuitv2/relay/resources.go"},
	"C12": {"core/network/context.go", "p2p/host/basic/basic_host.go", "p2p/net/swarm/dial_worker.go", "p2p/net/swarm/swarm.go", "p2p/net/swarm/swarm_conn.go", "p2p/net/swarm/swarm_dial.go", "p2p/protocol/holepunch/holepuncher.go", "p2p/protocol/holepunch/svc.go", "p2p/protocol/holepunch/util.go"},
	"C13": {"p2p/host/peerstore/pstoremem/addr_book.go", "p2p/protocol/identify/id.go", "p2p/protocol/identify/opts.go"},
	"C14": {"core/connmgr/manager.go", "p2p/net/connmgr/connmgr.go", "p2p/net/connmgr/decay.go", "p2p/net/connmgr/options.go"},
	"C15": {"core/event/bus.go", "p2p/host/eventbus/basic.go", "p2p/host/eventbus/opts.go"},
	"C16": {"p2p/protocol/autonatv2/autonat.go", "p2p/protocol/autonatv2/msg_reader.go", "p2p/protocol/autonatv2/options.go", "p2p/protocol/autonatv2/server.go"},
	"C17": {"p2p/host/basic/addrs_manager.go", "p2p/host/observedaddrs/manager.go"},
	"C18": {"p2p/transport/webtransport/cert_manager.go", "p2p/transport/webtransport/crypto.go", "p2p/transport/webtransport/multiaddr.go", "p2p/transport/webtransport/transport.go"},
	"C19": {"p2p/http/auth/client.go", "p2p/http/auth/internal/handshake/client.go", "p2p/http/auth/internal/handshake/handshake.go", "p2p/http/auth/internal/handshake/server.go", "p2p/http/auth/server.go"},
	"C20": {"p2p/net/swarm/black_hole_detector.go", "p2p/net/swarm/swarm_dial.go"},
}
