package main

import (
	"go/token"

	"golang.org/x/tools/go/ssa"
)

// Bound analysis (E7c): "at this site the integer h / the length of slice v
// is at most C on every path". Decided by cutting the CFG at the edges on
// which the bound is known (a comparison with a constant, interpreted through
// the order-abstract evaluator, so the spelling of the comparison does not
// matter) and at phi edges that carry an already bounded operand, and asking
// whether the site is still reachable.

// constOperand finds the integer constant a condition compares against.
func constOperand(cond ssa.Value) (int64, bool) {
	v, _ := stripNot(cond)
	b, ok := v.(*ssa.BinOp)
	if !ok {
		return 0, false
	}
	if k, ok := constInt(b.Y); ok {
		return k, true
	}
	if k, ok := constInt(b.X); ok {
		return k, true
	}
	return 0, false
}

// leEdges: CFG edges on which `a <= C` is known, a being any value matching isA.
func leEdges(isA func(ssa.Value) bool, C int64) EdgePred {
	return func(b *ssa.BasicBlock, s int) bool {
		ifi := ifOf(b)
		if ifi == nil {
			return false
		}
		K, ok := constOperand(condOf(b))
		if !ok {
			return false
		}
		tab := condTable(condOf(b), isA, func(v ssa.Value) bool { k, ok := constInt(v); return ok && k == K })
		takes := func(t tri) int {
			if t == triTrue {
				return 0
			}
			return 1
		}
		// the edge excludes A > K ?
		if tab[ordGT] == triUnknown || takes(tab[ordGT]) == s {
			return false
		}
		bound := K
		if tab[ordEQ] != triUnknown && takes(tab[ordEQ]) != s {
			bound = K - 1 // the edge also excludes A == K
		}
		return bound <= C
	}
}

func isConstLE(C int64) func(ssa.Value) bool {
	return func(v ssa.Value) bool { k, ok := constInt(v); return ok && k <= C }
}

// intBoundedAt: h <= C whenever control reaches site.
func intBoundedAt(c *Ctx, f *ssa.Function, site ssa.Instruction, h ssa.Value, C int64) (string, int) {
	enterScan(f)
	if isConstLE(C)(h) {
		return "", 1
	}
	var cuts []EdgePred
	if p, ok := h.(*ssa.Phi); ok {
		cuts = append(cuts, edgeSet(phiEdgesWhere(p, isConstLE(C))))
	}
	for _, l := range phiLeaves(h) {
		l := l
		if isConstLE(C)(l) {
			continue
		}
		cuts = append(cuts, leEdges(func(v ssa.Value) bool { return v == l }, C))
	}
	// min(x, C) is bounded outright
	if call, ok := h.(*ssa.Call); ok && calleeKey(call) == "builtin.min" {
		for _, a := range call.Call.Args {
			if isConstLE(C)(a) {
				return "", 1
			}
		}
	}
	return (&Cut{Fn: f, Target: isInstr(site), EdgeCut: anyEdge(cuts...)}).Run(c)
}

func isLenOf(l ssa.Value) func(ssa.Value) bool {
	return func(v ssa.Value) bool {
		call, ok := v.(*ssa.Call)
		if !ok || calleeKey(call) != "builtin.len" || len(call.Call.Args) != 1 {
			return false
		}
		a := resolveLoad(call.Call.Args[0]) // (inside a local predicate: the variable read through its free variable)
		return a == l || strip2(a) == strip2(l)
	}
}

// sliceBoundedAt: len(v) <= C whenever control reaches site.
func sliceBoundedAt(c *Ctx, f *ssa.Function, site ssa.Instruction, v ssa.Value, C int64) (string, int) {
	enterScan(f)
	v = strip2(v)
	boundedSlice := func(x ssa.Value) bool {
		s, ok := strip2(x).(*ssa.Slice)
		return ok && s.High != nil && isConstLE(C)(s.High)
	}
	if s, ok := v.(*ssa.Slice); ok {
		if s.High == nil {
			return sliceBoundedAt(c, f, site, s.X, C)
		}
		return intBoundedAt(c, f, site, s.High, C)
	}
	var cuts []EdgePred
	if p, ok := v.(*ssa.Phi); ok {
		// direct operands only: a nested phi is bounded through a check on the nested phi itself
		var es []CFGEdge
		for i, e := range p.Edges {
			if boundedSlice(e) {
				pb := p.Block().Preds[i]
				for s, succ := range pb.Succs {
					if succ == p.Block() {
						es = append(es, CFGEdge{pb, s})
					}
				}
				continue
			}
			cuts = append(cuts, leEdges(isLenOf(e), C))
		}
		cuts = append(cuts, edgeSet(es))
	}
	cuts = append(cuts, leEdges(isLenOf(v), C))
	return (&Cut{Fn: f, Target: isInstr(site), EdgeCut: anyEdge(cuts...)}).Run(c)
}

var _ = token.ADD

// diffBoundedAt: high - low <= C whenever control reaches site (low == nil
// means 0). Leaves of high that are `low + k` (k <= C) or min(.., low + k, ..)
// are bounded outright; any other leaf X must be guarded by a comparison of
// X - low with a constant, or of X with low + k.
func diffBoundedAt(c *Ctx, f *ssa.Function, site ssa.Instruction, high, low ssa.Value, C int64) (string, int) {
	enterScan(f)
	isLowPlusK := func(v ssa.Value) bool {
		if low == nil {
			return isConstLE(C)(v)
		}
		b, ok := v.(*ssa.BinOp)
		if !ok || b.Op != token.ADD {
			return false
		}
		return (b.X == low && isConstLE(C)(b.Y)) || (b.Y == low && isConstLE(C)(b.X))
	}
	var okLeaf func(v ssa.Value) bool
	okLeaf = func(v ssa.Value) bool {
		if isLowPlusK(v) {
			return true
		}
		if call, ok := v.(*ssa.Call); ok && calleeKey(call) == "builtin.min" {
			for _, a := range call.Call.Args {
				if okLeaf(a) {
					return true
				}
			}
		}
		return false
	}
	if okLeaf(high) {
		return "", 1
	}
	var cuts []EdgePred
	if p, ok := high.(*ssa.Phi); ok {
		cuts = append(cuts, edgeSet(phiEdgesWhere(p, okLeaf)))
	}
	for _, l := range phiLeaves(high) {
		l := l
		if okLeaf(l) {
			continue
		}
		// X - low compared with a constant
		cuts = append(cuts, leEdges(func(v ssa.Value) bool {
			b, ok := v.(*ssa.BinOp)
			if low == nil {
				return v == l
			}
			return ok && b.Op == token.SUB && b.X == l && b.Y == low
		}, C))
		// X compared with low + k
		if low != nil {
			cuts = append(cuts, edgeExcl(func(v ssa.Value) bool { return v == l }, isLowPlusK, ordGT))
		}
	}
	return (&Cut{Fn: f, Target: isInstr(site), EdgeCut: anyEdge(cuts...)}).Run(c)
}

const intInf = int64(1) << 62

// edgeIntBound: taking the edge implies lo <= A <= hi for the integer value A
// (intInf / -intInf for unbounded sides), whatever constant and operator the
// comparison is spelled with (`x <= 0`, `x < 1`, `!(x > 0)`, `0 >= x`).
// nonNeg: A is known to be >= 0 (a len, a count).
func edgeIntBound(isA func(ssa.Value) bool, lo, hi int64, nonNeg bool) EdgePred {
	return func(b *ssa.BasicBlock, s int) bool {
		ifi := ifOf(b)
		if ifi == nil {
			return false
		}
		K, ok := constOperand(condOf(b))
		if !ok {
			return false
		}
		tab := condTable(condOf(b), isA, func(v ssa.Value) bool { k, ok := constInt(v); return ok && k == K })
		if tab[0] == triUnknown && tab[1] == triUnknown && tab[2] == triUnknown {
			return false
		}
		possible := func(o ordering) bool {
			if tab[o] == triUnknown {
				return true
			}
			takes := 1
			if tab[o] == triTrue {
				takes = 0
			}
			return takes == s
		}
		pLT, pEQ, pGT := possible(ordLT), possible(ordEQ), possible(ordGT)
		lower, upper := -intInf, intInf
		switch {
		case pLT:
		case pEQ:
			lower = K
		case pGT:
			lower = K + 1
		default:
			return true // unreachable edge
		}
		switch {
		case pGT:
		case pEQ:
			upper = K
		case pLT:
			upper = K - 1
		}
		if nonNeg && lower < 0 {
			lower = 0
		}
		if nonNeg && K <= 0 && !pEQ && !pGT {
			return true // A < K <= 0 is impossible for a non-negative value
		}
		if nonNeg && K == 0 && pLT && !pEQ && pGT {
			lower = 1 // A != 0 and A >= 0
		}
		return lower >= lo && upper <= hi
	}
}
