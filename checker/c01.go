package main

import (
	"fmt"
	"go/token"
	"go/types"
	"strings"

	"golang.org/x/tools/go/ssa"
)

func init() {
	register("C01", checkC01,
		"Decides the ordering and binding of verification and identity attribution in the Noise, TLS and QUIC handshakes and the swarm's re-check, on every CFG path: "+
			"identity fields are stored only past a successful signature verification of the very key stored, over the remote static key / certificate key; every successful handshake stores them; "+
			"the expected-peer comparison guards the stores for every role; each role's handshake passes the payload check with the handshake's own remote static key; "+
			"only the listed functions write identity fields; the swarm returns a dialled connection only past RemotePeer()==p; every SecureTransport implementer is classified.",
		"that flynn/noise and crypto/tls reject altered/replayed/truncated wire data and bind the prologue (trusted libraries); outcomes of byte-position mutations; key-type x role matrix beyond every key type's Verify being real (C08-R2)")
}

const (
	noiseP = "p2p/security/noise"
	tlsP   = "p2p/security/tls"
	quicP  = "p2p/transport/quic"
	swarmP = "p2p/net/swarm"
)

// isRecvFrom: v is received from a channel satisfying ch (plain receive or
// a select case).
func isRecvFrom(ch func(ssa.Value) bool) func(ssa.Value) bool {
	return func(v ssa.Value) bool {
		switch x := v.(type) {
		case *ssa.UnOp:
			return x.Op == token.ARROW && ch(strip(x.X))
		case *ssa.Extract:
			if sel, ok := x.Tuple.(*ssa.Select); ok && x.Index >= 2 {
				n := 0
				for _, st := range sel.States {
					if st.Dir == types.RecvOnly {
						if n == x.Index-2 {
							return ch(strip(st.Chan))
						}
						n++
					}
				}
			}
		}
		return false
	}
}

func successReturns(fn *ssa.Function) []ssa.Instruction {
	var out []ssa.Instruction
	for _, r := range returnsOf(fn) {
		if isSuccessReturn(r) {
			out = append(out, r)
		}
	}
	return out
}

func isInstr(want ssa.Instruction) func(ssa.Instruction) bool {
	return func(in ssa.Instruction) bool { return in == want }
}

func inSet(set []ssa.Instruction) func(ssa.Instruction) bool {
	return func(in ssa.Instruction) bool {
		for _, s := range set {
			if s == in {
				return true
			}
		}
		return false
	}
}

// implementers lists the named non-interface types of the module (non-test)
// that implement the interface.
func implementers(c *Ctx, iface *types.Interface) []*types.Named {
	var out []*types.Named
	for _, p := range c.Pkgs {
		sc := p.Types.Scope()
		for _, name := range sc.Names() {
			tn, ok := sc.Lookup(name).(*types.TypeName)
			if !ok || tn.IsAlias() {
				continue
			}
			nt, ok := tn.Type().(*types.Named)
			if !ok || types.IsInterface(nt) || nt.TypeParams().Len() > 0 {
				continue
			}
			if types.Implements(nt, iface) || types.Implements(types.NewPointer(nt), iface) {
				out = append(out, nt)
			}
		}
	}
	return out
}

func namedKey(n *types.Named) string {
	p, name := typeNameOf(n)
	return p + "." + name
}

func checkC01(c *Ctx, r *Report) {
	verifyK := "(core/crypto.*).Verify"
	idFromK := "core/peer.IDFromPublicKey"
	sessT := noiseP + ".secureSession"
	hrpK := "(*" + noiseP + ".secureSession).handleRemoteHandshakePayload"

	// ---- R1: Noise verify-before-identity ---------------------------------
	r1 := r.Rule("C01-R1", "E1/E6", 8, "Noise: remoteID/remoteKey stored only past Verify(ok, err==nil) of the stored key over prefix+remoteStatic; every success return stores them")
	hrp := r1.need(hrpK)
	var idStores, keyStores []ssa.Instruction
	if hrp != nil {
		idStores = findInstrs(hrp, fieldWritePred(sessT+".remoteID"))
		keyStores = findInstrs(hrp, fieldWritePred(sessT+".remoteKey"))
		verifies := callsIn(hrp, verifyK)
		if len(verifies) != 1 {
			r1.Fail(hrpK+": one Verify call", hrp.Pos(), "expected exactly one signature verification", "")
		} else {
			v := verifies[0]
			vv := v.(ssa.Value)
			okEdge := edgeBool(func(x ssa.Value) bool { e, ok := x.(*ssa.Extract); return ok && e.Tuple == vv && e.Index == 0 }, true)
			errEdge := edgeNil(func(x ssa.Value) bool { e, ok := x.(*ssa.Extract); return ok && e.Tuple == vv && e.Index == 1 }, true)
			stores := append(append([]ssa.Instruction{}, idStores...), keyStores...)
			r1.guard(hrp, "store remoteID/remoteKey", stores, "Verify ok==true", okEdge, nil)
			r1.guard(hrp, "store remoteID/remoteKey", stores, "Verify err==nil", errEdge, nil)
			key := strip(callArgs(v)[0])
			for _, st := range keyStores {
				r1.Check(strip(st.(*ssa.Store).Val) == key, hrpK+": remoteKey = the verified key", instrPos(st), 1, "", "the key stored is not the key whose signature was verified", "")
			}
			for _, st := range idStores {
				ci := isResultOfCall(st.(*ssa.Store).Val, 0, idFromK)
				r1.Check(ci != nil && strip(ci.Common().Args[0]) == key, hrpK+": remoteID = IDFromPublicKey(the verified key)", instrPos(st), 1, "",
					"the ID stored is not derived from the verified key", "")
			}
			// what is verified
			args := callArgs(v) // key, msg, sig
			prefix := ""
			if k, ok := c.Obj(noiseP, "payloadSigPrefix").(*types.Const); ok {
				prefix = constStringVal(k)
			}
			msgOK := derivesFrom(args[1], isParam(hrp, "remoteStatic")) && prefix != "" &&
				derivesFrom(args[1], func(x ssa.Value) bool { s, ok := constString(x); return ok && s == prefix })
			r1.Check(msgOK, hrpK+": Verify message = payloadSigPrefix || remoteStatic", instrPos(v.(ssa.Instruction)), 1, "", "the verified message is not bound to the remote static Noise key", "")
			r1.Check(derivesFrom(args[2], isFieldOrGetter(noiseP+"/pb.NoiseHandshakePayload.IdentitySig")), hrpK+": Verify signature = payload.IdentitySig", instrPos(v.(ssa.Instruction)), 1, "",
				"the signature verified is not the payload's identity signature", "")
			uk := isResultOfCall(key, 0, "core/crypto.UnmarshalPublicKey")
			r1.Check(uk != nil && derivesFrom(uk.Common().Args[0], isFieldOrGetter(noiseP+"/pb.NoiseHandshakePayload.IdentityKey")), hrpK+": key = UnmarshalPublicKey(payload.IdentityKey)", instrPos(v.(ssa.Instruction)), 1, "",
				"the verifying key is not the payload's identity key", "")
		}
		for _, ret := range successReturns(hrp) {
			for _, part := range []struct {
				name string
				set  []ssa.Instruction
			}{{"remoteID", idStores}, {"remoteKey", keyStores}} {
				q := &Cut{Fn: hrp, Target: isInstr(ret), EdgeCut: failCut(ret), Sep: inSet(part.set)}
				w, n := q.Run(c)
				r1.Check(w == "" && len(part.set) > 0, hrpK+": success return passes store "+part.name, instrPos(ret), n+1, "", "a successful payload check can return without recording the authenticated "+part.name, w)
			}
		}
	}

	// ---- R2: expected peer ------------------------------------------------
	r2 := r.Rule("C01-R2", "E1/E6", 6, "Noise: identity stores guarded by (!checkPeerID or remoteID==id); checkPeerID argument forms at the newSecureSession call sites")
	if hrp != nil {
		stores := append(append([]ssa.Instruction{}, idStores...), keyStores...)
		isID := isCallResult(0, idFromK)
		r2.guard(hrp, "store remoteID/remoteKey", stores, "!checkPeerID || remoteID==id",
			anyEdge(edgeBool(isLoadOfField(sessT+".checkPeerID"), false), eqEdge(isLoadOfField(sessT+".remoteID"), isID, true)), nil)
	}
	nssK := noiseP + ".newSecureSession"
	nsites := 0
	for _, f := range c.FnsOfPkg(noiseP) {
		for _, call := range callsInOnly(f, nssK) {
			nsites++
			a := call.Common().Args // tpt, ctx, insecure, remote, prologue, iEDH, rEDH, initiator, checkPeerID
			key := fnKey(f) + ": newSecureSession(checkPeerID)"
			if len(a) != 9 {
				r2.Fail(key, instrPos(call.(ssa.Instruction)), "unexpected signature of newSecureSession", "")
				continue
			}
			form := checkPeerIDForm(f, call.(ssa.Instruction), a[8])
			r2.Check(form != "" && isParamVar(c, a[3], "p"), key, instrPos(call.(ssa.Instruction)), 1, "form: "+form,
				"checkPeerID argument is not one of the confirmed forms (true; p != \"\"; !disablePeerIDCheck; !disablePeerIDCheck && p != \"\") or the expected peer is not the caller's p", describeVal(a[8]))
		}
	}
	if nsites == 0 {
		r2.Fail("newSecureSession call sites", token.NoPos, "no call site of newSecureSession found", "")
	}
	// initiator must always check when a peer is expected: outbound forms are `true` or `!disablePeerIDCheck`
	// (checked by the form table above: the initiator argument true pairs with these two forms)

	// ---- R3: both roles pass the payload check ----------------------------
	r3 := r.Rule("C01-R3", "E1", 2, "Noise runHandshake: every success return passed handleRemoteHandshakePayload(.., hs.PeerStatic()) on its err==nil edge")
	if rh := r3.need("(*" + noiseP + ".secureSession).runHandshake"); rh != nil {
		hcalls := findInstrs(rh, callPred(hrpK))
		okArgs := len(hcalls) > 0
		for _, h := range hcalls {
			a := callArgs(h.(ssa.CallInstruction))
			ps := isResultOfCall(a[2], 0, "(*github.com/flynn/noise.HandshakeState).PeerStatic")
			if ps == nil || isResultOfCall(callArgs(ps)[0], 0, "github.com/flynn/noise.NewHandshakeState") == nil {
				okArgs = false
				r3.Fail("runHandshake: handleRemoteHandshakePayload second argument", instrPos(h), "the static key checked is not hs.PeerStatic() of this handshake", "")
			}
		}
		rets := successReturns(rh)
		if len(rets) == 0 {
			r3.Fail("runHandshake: success returns", rh.Pos(), "no success return recognised", "")
		}
		for _, ret := range rets {
			q := &Cut{Fn: rh, Target: isInstr(ret), EdgeCut: failCut(ret), Sep: inSet(hcalls)}
			w, n := q.Run(c)
			r3.Check(w == "" && okArgs, "runHandshake: success return passes handleRemoteHandshakePayload", instrPos(ret), n+1, "", "a role can finish the handshake without checking the remote payload", w)
			q2 := &Cut{Fn: rh, Target: isInstr(ret), EdgeCut: edgeNil(isCallResult(1, hrpK), true)}
			w2, n2 := q2.Run(c)
			r3.Check(w2 == "", "runHandshake: success return only on payload err==nil", instrPos(ret), n2+1, "", "handshake succeeds although the payload check failed", w2)
		}
	}

	// ---- R4: writers of identity fields ------------------------------------
	r4 := r.Rule("C01-R4", "E3", 9, "only the listed functions write the identity / cipher-state fields of noise, tls and quic connections, and the shared switch that disables the peer-ID comparison")
	type wr struct {
		pkg, field string
		allowed    []string
	}
	for _, w := range []wr{
		{noiseP, sessT + ".remoteID", []string{nssK, hrpK}},
		{noiseP, sessT + ".remoteKey", []string{nssK, hrpK}},
		{noiseP, sessT + ".enc", []string{"(*" + noiseP + ".secureSession).setCipherStates"}},
		{noiseP, sessT + ".dec", []string{"(*" + noiseP + ".secureSession).setCipherStates"}},
		{tlsP, tlsP + ".conn.remotePeer", []string{"(*" + tlsP + ".Transport).setupConn"}},
		{tlsP, tlsP + ".conn.remotePubKey", []string{"(*" + tlsP + ".Transport).setupConn"}},
		{quicP, quicP + ".conn.remotePeerID", []string{"(*" + quicP + ".transport).dialWithScope", "(*" + quicP + ".listener).wrapConnWithScope"}},
		{quicP, quicP + ".conn.remotePubKey", []string{"(*" + quicP + ".transport).dialWithScope", "(*" + quicP + ".listener).wrapConnWithScope"}},
		// the switch that turns the peer-ID comparison off lives in a SessionTransport shared by all its handshakes:
		// only the option the caller asked for may set it (a handshake that sets it changes every later handshake)
		{noiseP, noiseP + ".SessionTransport.disablePeerIDCheck", []string{noiseP + ".DisablePeerIDCheck"}},
	} {
		n := r4.onlyIn("write "+w.field, fieldWritePred(w.field), c.FnsOfPkg(w.pkg), w.allowed...)
		if n == 0 {
			r4.Fail("write "+w.field, token.NoPos, "no writer of the field found (field renamed?)", "")
		}
	}
	// the constructor literal stores the caller's expectation only (param remote)
	if nss := c.Fn(nssK); nss != nil {
		for _, st := range findInstrs(nss, fieldWritePred(sessT+".remoteID")) {
			r4.Check(isParamVar(c, st.(*ssa.Store).Val, "remote"), nssK+": literal remoteID = remote (expectation)", instrPos(st), 1, "", "constructor stores something else than the expected peer", "")
		}
		for _, st := range findInstrs(nss, fieldWritePred(sessT+".remoteKey")) {
			r4.Fail(nssK+": literal remoteKey", instrPos(st), "constructor must not set remoteKey", "")
		}
	}

	// ---- R5: TLS ------------------------------------------------------------
	r5 := r.Rule("C01-R5", "E1/E6/E7", 12, "TLS: PubKeyFromCertChain returns a key only past chain length, cert.Verify and signature Verify on that key; ConfigForPeer callback; tls.Config constants; handshake/setupConn")
	if pk := r5.need(tlsP + ".PubKeyFromCertChain"); pk != nil {
		var keyRets []ssa.Instruction
		for _, ret := range returnsOf(pk) {
			if !isNilConst(retVal(ret, 0)) {
				keyRets = append(keyRets, ret)
			}
		}
		verifies := callsIn(pk, verifyK)
		if len(verifies) != 1 || len(keyRets) == 0 {
			r5.Fail(tlsP+".PubKeyFromCertChain: shape", pk.Pos(), "expected one signature Verify and at least one key-returning exit", "")
		} else {
			v := verifies[0].(ssa.Value)
			ext := func(i int) func(ssa.Value) bool {
				return func(x ssa.Value) bool { e, ok := x.(*ssa.Extract); return ok && e.Tuple == v && e.Index == i }
			}
			r5.guard(pk, "return key", keyRets, "signature Verify valid==true", edgeBool(ext(0), true), nil)
			r5.guard(pk, "return key", keyRets, "signature Verify err==nil", edgeNil(ext(1), true), nil)
			r5.guard(pk, "return key", keyRets, "cert.Verify err==nil", edgeNil(isCallResult(1, "(*crypto/x509.Certificate).Verify"), true), nil)
			r5.guard(pk, "return key", keyRets, "len(chain)==1", edgeIntBound(isLenCall, 1, 1, true), nil)
			key := strip(callArgs(verifies[0])[0])
			for _, ret := range keyRets {
				r5.Check(strip(retVal(ret.(*ssa.Return), 0)) == key, tlsP+".PubKeyFromCertChain: returned key is the verified key", instrPos(ret), 1, "", "the key returned is not the key whose signature was verified", "")
			}
			a := callArgs(verifies[0])
			mk := func(x ssa.Value) bool {
				ci := isResultOfCall(x, 0, "crypto/x509.MarshalPKIXPublicKey")
				return ci != nil && derivesFrom(ci.Common().Args[0], func(y ssa.Value) bool {
					f, _ := loadOfField(y)
					return f != nil && f.Name() == "PublicKey" && f.Pkg() != nil && f.Pkg().Path() == "crypto/x509"
				})
			}
			prefix := ""
			if k, ok := c.Obj(tlsP, "certificatePrefix").(*types.Const); ok {
				prefix = constStringVal(k)
			}
			r5.Check(derivesFrom(a[1], mk) && prefix != "" && derivesFrom(a[1], func(x ssa.Value) bool { s, ok := constString(x); return ok && s == prefix }),
				tlsP+".PubKeyFromCertChain: message = certificatePrefix || PKIX(cert.PublicKey)", pk.Pos(), 1, "", "the signature is not checked over the certificate's own public key", "")
			r5.Check(derivesFrom(a[2], func(x ssa.Value) bool { f, _ := loadOfField(x); return f != nil && f.Name() == "Signature" }) ||
				derivesFrom(a[2], func(x ssa.Value) bool {
					// the local the extension value was unmarshalled into (its address is handed to asn1.Unmarshal)
					al, ok := x.(*ssa.Alloc)
					if !ok {
						return false
					}
					for _, ref := range *al.Referrers() {
						if ci, isC := ref.(ssa.CallInstruction); isC && calleeNameIs(ci.(ssa.Instruction), "Unmarshal") {
							return true
						}
						if mi, isMI := ref.(*ssa.MakeInterface); isMI {
							for _, r2 := range *mi.Referrers() {
								if ci, isC := r2.(ssa.CallInstruction); isC && calleeNameIs(ci.(ssa.Instruction), "Unmarshal") {
									return true
								}
							}
						}
					}
					return false
				}),
				tlsP+".PubKeyFromCertChain: signature = extension's Signature", pk.Pos(), 1, "", "the signature verified is not the one in the key extension", "")
		}
	}
	cfpK := "(*" + tlsP + ".Identity).ConfigForPeer"
	if cfp := r5.need(cfpK); cfp != nil {
		var cb *ssa.Function
		for _, a := range cfp.AnonFuncs {
			if len(callsIn(a, tlsP+".PubKeyFromCertChain")) > 0 {
				cb = a
			}
		}
		if cb == nil {
			r5.Fail(cfpK+": VerifyPeerCertificate callback", cfp.Pos(), "callback calling PubKeyFromCertChain not found", "")
		} else {
			sends := findInstrs(cb, func(in ssa.Instruction) bool { _, ok := in.(*ssa.Send); return ok })
			isKey := isCallResult(0, tlsP+".PubKeyFromCertChain")
			matches := func(v ssa.Value) bool {
				ci := isResultOfCall(v, 0, "(core/peer.ID).MatchesPublicKey")
				return ci != nil && isKey(strip(callArgs(ci)[1])) && isParamVar(c, callArgs(ci)[0], "remote")
			}
			emptyRemoteEq := eqEdge(func(v ssa.Value) bool { return isParamVar(c, v, "remote") }, func(v ssa.Value) bool { s, ok := constString(v); return ok && s == "" }, true)
			r5.guard(cb, "send on keyCh", sends, "remote==\"\" || remote.MatchesPublicKey(pubKey)", anyEdge(emptyRemoteEq, edgeBool(matches, true)), nil)
			r5.guard(cb, "send on keyCh", sends, "PubKeyFromCertChain err==nil", edgeNil(isCallResult(1, tlsP+".PubKeyFromCertChain"), true), nil)
			for _, s := range sends {
				r5.Check(isKey(strip(s.(*ssa.Send).X)), cfpK+"$cb: value sent is PubKeyFromCertChain's key", instrPos(s), 1, "", "a different key is handed to the handshake", "")
			}
			for _, ret := range successReturns(cb) {
				q := &Cut{Fn: cb, Target: isInstr(ret), EdgeCut: failCut(ret), Sep: inSet(sends)}
				w, n := q.Run(c)
				r5.Check(w == "" && len(sends) > 0, cfpK+"$cb: nil return passes the keyCh send", instrPos(ret), n+1, "", "certificate accepted without handing over the verified key", w)
			}
		}
	}
	if ni := r5.need(tlsP + ".NewIdentity"); ni != nil {
		want := map[string]int64{"MinVersion": 0x0304, "ClientAuth": 2}
		seen := map[string]bool{}
		skip, vpc := false, false
		allInstrs(ni, func(in ssa.Instruction) {
			st, ok := in.(*ssa.Store)
			if !ok {
				return
			}
			f, base := fieldAddrOf(st.Addr)
			if f == nil || fieldKeyOf(base, f) != "crypto/tls.Config."+f.Name() {
				return
			}
			if w, ok := want[f.Name()]; ok {
				n, isC := constInt(st.Val)
				seen[f.Name()] = true
				r5.Check(isC && n == w, tlsP+".NewIdentity: tls.Config."+f.Name(), instrPos(in), 1, "", "tls.Config."+f.Name()+" is not the required constant", describeVal(st.Val))
			}
			if f.Name() == "InsecureSkipVerify" {
				if b, ok := constBool(st.Val); ok && b {
					skip = true
				}
			}
			if f.Name() == "VerifyPeerCertificate" && !isNilConst(st.Val) {
				vpc = true
			}
		})
		for k := range want {
			if !seen[k] {
				r5.Fail(tlsP+".NewIdentity: tls.Config."+k, ni.Pos(), "field not set", "")
			}
		}
		r5.Check(!skip || vpc, tlsP+".NewIdentity: InsecureSkipVerify only with VerifyPeerCertificate", ni.Pos(), 1, "", "certificate verification disabled without a custom verifier", "")
	}
	hsK := "(*" + tlsP + ".Transport).handshake"
	setupK := "(*" + tlsP + ".Transport).setupConn"
	if hs := r5.need(hsK); hs != nil {
		setups := findInstrs(hs, callPred(setupK))
		for _, s := range setups {
			keyArg := callArgs(s.(ssa.CallInstruction))[2]
			leavesOK := true
			for _, l := range phiLeaves(keyArg) {
				if isNilConst(l) {
					continue
				}
				if !isRecvFrom(func(ch ssa.Value) bool { return isParamVar(c, ch, "keyCh") })(l) {
					leavesOK = false
				}
			}
			r5.Check(leavesOK, hsK+": key given to setupConn comes from keyCh", instrPos(s), 1, "", "the key used for the connection is not the one the certificate callback verified", describeVal(keyArg))
			r5.guard(hs, "call setupConn", []ssa.Instruction{s}, "remotePubKey != nil", edgeNil(isValue(keyArg), false), nil)
			r5.guard(hs, "call setupConn", []ssa.Instruction{s}, "HandshakeContext err==nil", edgeNil(isCallResult(0, "(*crypto/tls.Conn).HandshakeContext"), true), nil)
		}
		if len(setups) == 0 {
			r5.Fail(hsK+": call setupConn", hs.Pos(), "required site missing", "")
		}
		for _, ret := range returnsOf(hs) {
			v := retVal(ret, 0)
			if isNilConst(v) {
				continue
			}
			r5.Check(isResultOfCall(v, 0, setupK) != nil, hsK+": returned conn comes from setupConn", instrPos(ret), 1, "", "a connection is returned that did not go through setupConn", describeVal(v))
		}
	}
	if su := r5.need(setupK); su != nil {
		for _, st := range findInstrs(su, fieldWritePred(tlsP+".conn.remotePubKey")) {
			r5.Check(isParamVar(c, st.(*ssa.Store).Val, "remotePubKey"), setupK+": remotePubKey = the verified key", instrPos(st), 1, "", "", "")
		}
		for _, st := range findInstrs(su, fieldWritePred(tlsP+".conn.remotePeer")) {
			ci := isResultOfCall(st.(*ssa.Store).Val, 0, idFromK)
			r5.Check(ci != nil && isParamVar(c, ci.Common().Args[0], "remotePubKey"), setupK+": remotePeer = IDFromPublicKey(the verified key)", instrPos(st), 1, "", "remote peer ID not derived from the verified key", "")
		}
	}
	// both directions pass the caller's p to ConfigForPeer and the resulting keyCh to handshake
	for _, k := range []string{"(*" + tlsP + ".Transport).SecureInbound", "(*" + tlsP + ".Transport).SecureOutbound"} {
		if f := r5.need(k); f != nil {
			cf := callsIn(f, cfpK)
			hc := callsIn(f, hsK)
			ok := len(cf) == 1 && len(hc) == 1 && isParamVar(c, cf[0].Common().Args[1], "p")
			if ok {
				kc, idx := resultOf(hc[0].Common().Args[3])
				ok = kc == cf[0] && idx == 1
			}
			r5.Check(ok, k+": handshake(keyCh of ConfigForPeer(p))", f.Pos(), 1, "", "the expected peer or the key channel is not threaded through", "")
		}
	}

	// ---- R6: swarm re-check --------------------------------------------------
	r6 := r.Rule("C01-R6", "E1", 4, "swarm: dialAddr / dialPeer return a dialled conn only past RemotePeer()==p; mismatch closes it")
	recheck := func(fnK string, isDialled func(ssa.Value) bool) {
		f := r6.need(fnK)
		if f == nil {
			return
		}
		var rets []ssa.Instruction
		for _, ret := range successReturns(f) {
			if isDialled(retVal(ret.(*ssa.Return), 0)) {
				rets = append(rets, ret)
			}
		}
		rp := func(v ssa.Value) bool {
			ci := isResultOfCall(v, 0, "(core/network.*).RemotePeer", "(*"+swarmP+".Conn).RemotePeer")
			return ci != nil && isDialled(strip(callArgs(ci)[0]))
		}
		pv := func(v ssa.Value) bool { return isParamVar(c, v, "p") }
		r6.guard(f, "return dialled conn", rets, "conn.RemotePeer()==p", eqEdge(rp, pv, true), nil)
		// mismatch edge closes
		var mism []CFGEdge
		for _, b := range blocksDeep(f) {
			for s := range b.Succs {
				if eqEdge(rp, pv, false)(b, s) {
					mism = append(mism, CFGEdge{b, s})
				}
			}
		}
		if len(mism) == 0 {
			r6.Fail(fnK+": mismatch branch", f.Pos(), "no RemotePeer()!=p branch found", "")
			return
		}
		q := &Cut{Fn: f, FromEdges: mism, Target: func(in ssa.Instruction) bool { _, ok := in.(*ssa.Return); return ok },
			Sep: callPred("(core/network.*).Close", "(io.Closer).Close", "(*"+swarmP+".Conn).Close", "(core/transport.*).Close")}
		r6.mustPass(f, fnK+": mismatch edge closes the conn before returning", q, len(mism))
	}
	recheck("(*"+swarmP+".Swarm).dialAddr", func(v ssa.Value) bool {
		for _, l := range phiLeaves(v) {
			l = strip(l)
			if isResultOfCall(l, 0, "(core/transport.*).Dial", "(core/transport.*).DialWithUpdates") != nil {
				continue
			}
			if isResultOfCall(l, 0, swarmP+".wrapWithMetrics") != nil {
				continue
			}
			return false
		}
		return true
	})
	recheck("(*"+swarmP+".Swarm).dialPeer", func(v ssa.Value) bool {
		return isResultOfCall(v, 0, "(*"+swarmP+".dialSync).Dial") != nil
	})

	// ---- R7: QUIC -------------------------------------------------------------
	r7 := r.Rule("C01-R7", "E1/E6", 6, "QUIC: dial binds remotePeerID=p only with the key verified by ConfigForPeer(p); listener derives both from PubKeyFromCertChain; server config accepts any peer via ConfigForPeer(\"\")")
	dwsK := "(*" + quicP + ".transport).dialWithScope"
	if d := r7.need(dwsK); d != nil {
		cf := callsIn(d, cfpK)
		okCF := len(cf) == 1 && isParamVar(c, cf[0].Common().Args[1], "p")
		r7.Check(okCF, dwsK+": ConfigForPeer(p)", d.Pos(), 1, "", "TLS config is not specialised for the dialled peer", "")
		idSt := findInstrs(d, fieldWritePred(quicP+".conn.remotePeerID"))
		keySt := findInstrs(d, fieldWritePred(quicP+".conn.remotePubKey"))
		for _, st := range idSt {
			r7.Check(isParamVar(c, st.(*ssa.Store).Val, "p"), dwsK+": remotePeerID = p", instrPos(st), 1, "", "", "")
		}
		for _, st := range keySt {
			val := st.(*ssa.Store).Val
			ok := okCF && receivedFrom(c, val, func(ch ssa.Value) bool { kc, i := resultOf(ch); return okCF && kc == cf[0] && i == 1 }, 0)
			r7.Check(ok, dwsK+": remotePubKey from keyCh of ConfigForPeer(p)", instrPos(st), 1, "", "", "")
			r7.guard(d, "store identity", append(append([]ssa.Instruction{}, idSt...), st), "remotePubKey != nil", nonNilEdges(c, d, val), nil)
		}
		if len(idSt) == 0 || len(keySt) == 0 {
			r7.Fail(dwsK+": identity stores", d.Pos(), "required sites missing", "")
		}
		r7.guard(d, "store identity", idSt, "DialQUIC err==nil", edgeNil(isCallResult(1, "(*"+quicP+"reuse.ConnManager).DialQUIC", "(*p2p/transport/quicreuse.ConnManager).DialQUIC"), true), nil)
	}
	wcK := "(*" + quicP + ".listener).wrapConnWithScope"
	if w := r7.need(wcK); w != nil {
		pkK := tlsP + ".PubKeyFromCertChain"
		idSt := findInstrs(w, fieldWritePred(quicP+".conn.remotePeerID"))
		keySt := findInstrs(w, fieldWritePred(quicP+".conn.remotePubKey"))
		for _, st := range keySt {
			r7.Check(isResultOfCall(st.(*ssa.Store).Val, 0, pkK) != nil, wcK+": remotePubKey = PubKeyFromCertChain(peer certs)", instrPos(st), 1, "", "", "")
		}
		for _, st := range idSt {
			ci := isResultOfCall(st.(*ssa.Store).Val, 0, idFromK)
			r7.Check(ci != nil && isResultOfCall(ci.Common().Args[0], 0, pkK) != nil, wcK+": remotePeerID = IDFromPublicKey(that key)", instrPos(st), 1, "", "", "")
		}
		all := append(append([]ssa.Instruction{}, idSt...), keySt...)
		r7.guard(w, "store identity", all, "PubKeyFromCertChain err==nil", edgeNil(isCallResult(1, pkK), true), nil)
		r7.guard(w, "store identity", all, "IDFromPublicKey err==nil", edgeNil(isCallResult(1, idFromK), true), nil)
		for _, pc := range callsIn(w, pkK) {
			r7.Check(derivesFrom(pc.Common().Args[0], func(x ssa.Value) bool { f, _ := loadOfField(x); return f != nil && f.Name() == "PeerCertificates" }),
				wcK+": PubKeyFromCertChain(PeerCertificates)", instrPos(pc.(ssa.Instruction)), 1, "", "", "")
		}
	}
	// listener config: the function installed as tls.Config.GetConfigForClient (a function literal, a named function or
	// a method value) answers with ConfigForPeer(""), made inside it
	found := false
	for _, f := range c.FnsOfPkg(quicP) {
		for _, in := range findInstrsIn(f, func(in ssa.Instruction) bool {
			st, ok := in.(*ssa.Store)
			if !ok {
				return false
			}
			fl, _ := fieldAddrOf(st.Addr)
			return fl != nil && fl.Name() == "GetConfigForClient" && fl.Pkg() != nil && fl.Pkg().Path() == "crypto/tls"
		}) {
			g := installedFunc(in.(*ssa.Store).Val)
			if g == nil || g.Blocks == nil {
				r7.Fail(fnKey(f)+": GetConfigForClient", instrPos(in), "the installed function could not be resolved", "")
				found = true
				continue
			}
			for _, cf := range callsIn(g, cfpK) {
				found = true
				s, ok := constString(cf.Common().Args[1])
				r7.Check(ok && s == "", fnKey(f)+": GetConfigForClient uses ConfigForPeer(\"\")", instrPos(cf.(ssa.Instruction)), 1, "", "", "")
			}
		}
	}
	if !found {
		r7.Fail(quicP+": GetConfigForClient → ConfigForPeer", token.NoPos, "server-side config specialisation not found", "")
	}

	// ---- R10: QUIC hole punching: the key that pairs a dial with an inbound connection names the peer -------
	r10 := r.Rule("C01-R10", "E6", 3, "QUIC hole punch: every access to transport.holePunching uses a key whose peer component is the dial's expected peer (dial side) or the authenticated remote peer (accept side)")
	hpField := quicP + ".transport.holePunching"
	nHP := 0
	for _, f := range c.FnsOfPkg(quicP) {
		root := c.Root(f)
		// dial side: the peer being dialled; everywhere else (accept side, helpers): the authenticated remote peer of a conn
		isDialSide := fnKey(root) == "(*"+quicP+".transport).holePunch"
		wantPeer := func(v ssa.Value) bool {
			if isDialSide && isParamVar(c, v, "p") {
				return true
			}
			return isLoadOfField(quicP + ".conn.remotePeerID")(strip(v))
		}
		what := "the peer being dialed (in transport.holePunch) or the accepted connection's authenticated remotePeerID"
		allInstrsIn(f, func(in ssa.Instruction) {
			var key ssa.Value
			switch x := in.(type) {
			case *ssa.Lookup:
				if isLoadOfField(hpField)(strip2(x.X)) {
					key = x.Index
				}
			case *ssa.MapUpdate:
				if isLoadOfField(hpField)(strip2(x.Map)) {
					key = x.Key
				}
			case *ssa.Call:
				if calleeKey(x) == "builtin.delete" && len(x.Call.Args) == 2 && isLoadOfField(hpField)(strip2(x.Call.Args[0])) {
					key = x.Call.Args[1]
				}
			}
			if key == nil {
				return
			}
			nHP++
			k := fmt.Sprintf("%s: holePunching key names the peer", fnKey(f))
			vals, ok := structFieldValues(c, key, "peer", 3)
			good := ok && len(vals) > 0
			for _, v := range vals {
				if !wantPeer(v) {
					good = false
				}
			}
			r10.Check(good, k, instrPos(in), 1, "", "the key does not bind the hole punch to "+what+": a connection from any peer arriving from the punched address is returned to the dialer as the expected peer", fmt.Sprintf("%d values for key.peer", len(vals)))
		})
	}
	if nHP < 3 {
		r10.Fail("accesses to transport.holePunching", token.NoPos, fmt.Sprintf("expected at least 3, found %d", nHP), "")
	}

	// ---- R9: the caller's expected peer reaches the security transport -------
	r9 := r.Rule("C01-R9", "E6", 9, "expected-peer threading: every SecureInbound/SecureOutbound call (and the wrappers leading to it) passes the enclosing function's own peer.ID parameter; \"\" only at listener sites")
	emptyOK := map[string]string{
		"(*p2p/transport/webtransport.listener).handshake": "listener: the remote peer is not known before the handshake",
		"(*p2p/transport/webrtc.listener).setupConnection": "listener: the remote peer is not known before the handshake",
	}
	wrappers := []struct {
		key string
		arg int // index in callArgs (receiver included)
	}{
		{"(core/sec.*).SecureInbound", 3}, {"(core/sec.*).SecureOutbound", 3},
		{"(*" + noiseP + ".SessionTransport).SecureInbound", 3}, {"(*" + noiseP + ".SessionTransport).SecureOutbound", 3},
		{"(*" + noiseP + ".Transport).SecureInbound", 3}, {"(*" + noiseP + ".Transport).SecureOutbound", 3},
		{"(*" + tlsP + ".Transport).SecureInbound", 3}, {"(*" + tlsP + ".Transport).SecureOutbound", 3},
		{"(*p2p/net/upgrader.upgrader).setupSecurity", 3},
		{"(*p2p/net/upgrader.upgrader).upgrade", 5},
		{"(*p2p/transport/webrtc.WebRTCTransport).noiseHandshake", 4},
	}
	for _, f := range c.Fns {
		if f.Pkg == nil {
			continue
		}
		pp := f.Pkg.Pkg.Path()
		if strings.HasPrefix(pp, Mod+"p2p/security/") || pp == Mod+controlsPkg {
			// the security transports themselves and the tlsdiag command-line tool
			continue
		}
		for _, w := range wrappers {
			for _, call := range callsInOnly(f, w.key) {
				a := callArgs(call)
				key := fnKey(f) + ": peer argument of " + calleeKey(call)
				if len(a) <= w.arg {
					r9.Fail(key, instrPos(call.(ssa.Instruction)), "unexpected arity", "")
					continue
				}
				v := strip2(a[w.arg])
				isPeerParam := false
				if p, ok := v.(*ssa.Parameter); ok && types.TypeString(p.Type(), nil) == Mod+"core/peer.ID" {
					isPeerParam = true
				}
				if u, ok := v.(*ssa.UnOp); ok && u.Op == token.MUL {
					for _, prm := range f.Params {
						if types.TypeString(prm.Type(), nil) == Mod+"core/peer.ID" && isParamVar(c, v, prm.Name()) {
							isPeerParam = true
						}
					}
				}
				if isPeerParam {
					r9.OK(key, instrPos(call.(ssa.Instruction)), 1, "caller's peer.ID parameter")
					continue
				}
				if sv, ok := constString(v); ok && sv == "" {
					if reason, ok := emptyOK[fnKey(c.Root(f))]; ok {
						r9.OK(key, instrPos(call.(ssa.Instruction)), 1, "\"\" allowed: "+reason)
						continue
					}
				}
				r9.Fail(key, instrPos(call.(ssa.Instruction)), "the expected peer handed to the security handshake is not the caller's peer parameter", describeVal(v))
			}
		}
	}

	// ---- R8: siblings ---------------------------------------------------------
	r8 := r.Rule("C01-R8", "E5", 4, "every implementer of sec.SecureTransport is classified")
	classified := map[string]string{
		noiseP + ".Transport":             "noise (R1-R3)",
		noiseP + ".SessionTransport":      "noise (R1-R3)",
		tlsP + ".Transport":               "tls (R5)",
		"p2p/security/insecure.Transport": "declared no-security transport (exempt by name)",
	}
	if st := c.Named("core/sec", "SecureTransport"); st == nil {
		r8.Err("core/sec.SecureTransport", "interface does not resolve")
	} else {
		for _, n := range implementers(c, st.Underlying().(*types.Interface)) {
			k := namedKey(n)
			cl, ok := classified[k]
			r8.Check(ok, "SecureTransport implementer "+k, n.Obj().Pos(), 1, cl, "unclassified security transport: its handshake is not covered by any rule", "")
		}
	}
	// noise transports route every handshake through newSecureSession
	for _, k := range []string{"(*" + noiseP + ".Transport).SecureInbound", "(*" + noiseP + ".Transport).SecureOutbound", "(*" + noiseP + ".SessionTransport).SecureInbound", "(*" + noiseP + ".SessionTransport).SecureOutbound"} {
		if f := r8.need(k); f != nil {
			r8.Check(len(callsIn(f, nssK)) == 1, k+": goes through newSecureSession", f.Pos(), 1, "", "", "")
		}
	}
	if nss := r8.need(nssK); nss != nil {
		// the session is returned without error only as the result of runHandshake's nil
		var goFn *ssa.Function
		for _, a := range nss.AnonFuncs {
			if len(callsIn(a, "(*"+noiseP+".secureSession).runHandshake")) == 1 {
				goFn = a
			}
		}
		r8.Check(goFn != nil, nssK+": handshake goroutine runs runHandshake", nss.Pos(), 1, "", "", "")
	}

	// ---- R11: the upgrader never secures an outbound connection without an expected peer ------------------------
	// Noise refuses an empty expected peer on the dialing side, but the TLS configuration for the empty peer accepts
	// any certificate (it is the listener's configuration): an outbound upgrade with p == "" would come back
	// "authenticated" as whoever answered. The upgrader is what stands in front of both.
	r11 := r.Rule("C01-R11", "E1b", 2, "upgrader.upgrade: the security handshake of an outbound connection starts only with a non-empty expected peer (decision table over p != \"\" and dir == DirOutbound)")
	upK := "(*p2p/net/upgrader.upgrader).upgrade"
	if f := r11.need(upK); f != nil {
		outbound := constIntObj(c, "core/network", "DirOutbound")
		isP := func(x ssa.Value) bool { return isParamVar(c, x, "p") }
		atoms := []atomPred{
			func(x ssa.Value) (bool, bool) {
				return nonEmptyTest(x, func(y ssa.Value) bool { return isP(y) || isP(strip(y)) })
			},
			func(x ssa.Value) (bool, bool) {
				v, k, isEq, ok := eqConstOf(x)
				return ok && k == outbound && isParamVar(c, v, "dir"), isEq
			},
		}
		secure := findInstrs(f, callPred("(*p2p/net/upgrader.upgrader).setupSecurity"))
		tab, okT := boolTable(f, atoms, inSet(secure))
		// assignment bits: 0 = p != "", 1 = dir == DirOutbound
		r11.Check(okT && len(secure) >= 1 && !tab[2].some, upK+": [outbound, no expected peer] the security handshake is not started", f.Pos(), 4, "",
			"an outbound connection is secured without an expected peer: with TLS negotiated it is accepted as whoever answered", fmt.Sprintf("reached on some path: %v", tab[2].some))
		r11.Check(okT && tab[3].some && tab[1].some && tab[0].some, upK+": every other case (expected peer known, or inbound) does reach the handshake", f.Pos(), 3, "", "the table did not recognise the handshake call or the two tests", "")
	}
}

// checkPeerIDForm decides what the checkPeerID argument means, as a function of the two things it may depend on:
// whether the caller named an expected peer (p != "") and the transport's disablePeerIDCheck switch. The answer
// is the confirmed form the value is equivalent to ("" when it is none of them, in particular when it can be
// false although a peer is expected and the check is not disabled).
func checkPeerIDForm(f *ssa.Function, site ssa.Instruction, v ssa.Value) string {
	isP := func(x ssa.Value) bool { p, ok := x.(*ssa.Parameter); return ok && paramIs(p, "p") }
	atoms := []atomPred{
		func(x ssa.Value) (bool, bool) { // p != "" (any spelling, len(p) > 0 included)
			return nonEmptyTest(x, func(y ssa.Value) bool { return isP(strip(y)) || isP(y) })
		},
		func(x ssa.Value) (bool, bool) { // disablePeerIDCheck
			fl, _ := loadOfField(x)
			return fl != nil && fl.Name() == "disablePeerIDCheck", true
		},
	}
	tab, ok := boolValueAt(f, site, v, atoms)
	if !ok {
		return ""
	}
	// assignment bits: 0 = p != "", 1 = disable
	same := func(want func(pNonEmpty, disable bool) bool) bool {
		for a := 0; a < 4; a++ {
			w := 1
			if want(a&1 != 0, a&2 != 0) {
				w = 2
			}
			if tab[a] != w {
				return false
			}
		}
		return true
	}
	switch {
	case same(func(p, d bool) bool { return true }):
		return "true"
	case same(func(p, d bool) bool { return p }):
		return `p != ""`
	case same(func(p, d bool) bool { return !d }):
		return "!disablePeerIDCheck"
	case same(func(p, d bool) bool { return !d && p }):
		return `!disablePeerIDCheck && p != ""`
	}
	return ""
}

// structFieldValues: the values the named field of a struct value may hold,
// following composite literals (stores into the fresh Alloc), loads of local
// cells, phis, and static module callees that build the struct (their
// parameters are replaced by the caller's arguments). ok=false when a
// possible definition leaves the field unset (zero value) or cannot be
// followed.
func structFieldValues(c *Ctx, v ssa.Value, field string, depth int) ([]ssa.Value, bool) {
	v = strip2(v)
	switch x := v.(type) {
	case *ssa.Phi:
		var out []ssa.Value
		for _, e := range x.Edges {
			vs, ok := structFieldValues(c, e, field, depth)
			if !ok {
				return nil, false
			}
			out = append(out, vs...)
		}
		return out, true
	case *ssa.UnOp:
		if x.Op != token.MUL {
			return nil, false
		}
		al, ok := x.X.(*ssa.Alloc)
		if !ok {
			// a captured variable: follow the binding in the enclosing function
			if fv, isFV := x.X.(*ssa.FreeVar); isFV && c != nil {
				fn := fv.Parent()
				parent := c.Parent(fn)
				if parent == nil {
					return nil, false
				}
				idx := -1
				for i, q := range fn.FreeVars {
					if q == fv {
						idx = i
					}
				}
				var cell *ssa.Alloc
				allInstrs(parent, func(in ssa.Instruction) {
					if mc, isMC := in.(*ssa.MakeClosure); isMC && mc.Fn == ssa.Value(fn) && idx >= 0 {
						if a, isA := mc.Bindings[idx].(*ssa.Alloc); isA {
							cell = a
						}
					}
				})
				if cell == nil {
					return nil, false
				}
				al, ok = cell, true
			}
		}
		if !ok {
			return nil, false
		}
		// whole-struct stores into the cell, or field stores
		var out []ssa.Value
		found := false
		for _, ref := range *al.Referrers() {
			switch r := ref.(type) {
			case *ssa.Store:
				if r.Addr == ssa.Value(al) {
					vs, ok := structFieldValues(c, r.Val, field, depth)
					if !ok {
						return nil, false
					}
					out = append(out, vs...)
					found = true
				}
			case *ssa.FieldAddr:
				fl, _ := fieldAddrOf(r)
				if fl == nil || fl.Name() != field {
					continue
				}
				for _, r2 := range *r.Referrers() {
					if st, ok := r2.(*ssa.Store); ok && st.Addr == ssa.Value(r) {
						out = append(out, st.Val)
						found = true
					}
				}
			}
		}
		return out, found
	case *ssa.Call:
		callee := x.Call.StaticCallee()
		if callee == nil || callee.Blocks == nil || depth <= 0 {
			return nil, false
		}
		var out []ssa.Value
		for _, ret := range returnsOf(callee) {
			if len(ret.Results) != 1 {
				return nil, false
			}
			vs, ok := structFieldValues(c, ret.Results[0], field, depth-1)
			if !ok {
				return nil, false
			}
			for _, fv := range vs {
				// a callee parameter stands for the caller's argument
				if p, isP := strip2(fv).(*ssa.Parameter); isP && p.Parent() == callee {
					for i, q := range callee.Params {
						if q == p && i < len(x.Call.Args) {
							fv = x.Call.Args[i]
						}
					}
				} else if ld, isLd := strip2(fv).(*ssa.UnOp); isLd {
					// spilled parameter
					if al, isAl := ld.X.(*ssa.Alloc); isAl {
						for i, q := range callee.Params {
							if isParamCell(c, al, q.Name()) && i < len(x.Call.Args) {
								fv = x.Call.Args[i]
							}
						}
					}
				}
				out = append(out, fv)
			}
		}
		return out, len(out) > 0
	}
	return nil, false
}

// receivedFrom: every non-nil source of v is a receive from a channel satisfying ch — directly, through a select,
// or inside a module helper that receives from the parameter the channel is passed as.
func receivedFrom(c *Ctx, v ssa.Value, ch func(ssa.Value) bool, depth int) bool {
	leaves := phiLeaves(v)
	if len(leaves) == 0 {
		return false
	}
	some := false
	for _, l := range leaves {
		if isNilConst(l) {
			continue
		}
		if isRecvFrom(ch)(l) {
			some = true
			continue
		}
		ex, ok := l.(*ssa.Extract)
		if !ok || depth >= 2 {
			return false
		}
		call, ok := ex.Tuple.(*ssa.Call)
		if !ok {
			return false
		}
		h := call.Call.StaticCallee()
		if h == nil || h.Blocks == nil || h.Pkg == nil || !strings.HasPrefix(h.Pkg.Pkg.Path()+"/", Mod) {
			return false
		}
		inner := func(x ssa.Value) bool {
			for k, p := range h.Params {
				if (x == ssa.Value(p) || isParamCellLoad(c, x, p)) && k < len(call.Call.Args) && ch(strip(call.Call.Args[k])) {
					return true
				}
			}
			return false
		}
		for _, ret := range returnsOf(h) {
			if ex.Index >= len(ret.Results) || !receivedFrom(c, ret.Results[ex.Index], inner, depth+1) {
				// a return that yields nil for this result is fine
				if ex.Index < len(ret.Results) && isNilConst(strip(ret.Results[ex.Index])) {
					continue
				}
				return false
			}
		}
		some = true
	}
	return some
}

// nonNilEdges: the CFG edges of f on which val is known to be non-nil: a nil test of val itself, or — when val is
// one result of a module helper — a boolean result of the same call that the helper makes true only together with
// a non-nil value (`return key, key != nil`).
func nonNilEdges(c *Ctx, f *ssa.Function, val ssa.Value) EdgePred {
	preds := []EdgePred{edgeNil(isValue(val), false)}
	if ex, ok := strip(val).(*ssa.Extract); ok {
		if call, ok := ex.Tuple.(*ssa.Call); ok {
			if h := call.Call.StaticCallee(); h != nil && h.Blocks != nil && h.Pkg != nil && strings.HasPrefix(h.Pkg.Pkg.Path()+"/", Mod) {
				res := h.Signature.Results()
				for j := 0; j < res.Len(); j++ {
					if b, isB := res.At(j).Type().Underlying().(*types.Basic); !isB || b.Kind() != types.Bool || j == ex.Index {
						continue
					}
					okAll := true
					for _, ret := range returnsOf(h) {
						rj, ri := ret.Results[j], strip(ret.Results[ex.Index])
						if bv, isC := constBool(rj); isC && !bv {
							continue
						}
						if x, isEq, ok := nilCmpOf(rj); ok && !isEq && strip(x) == ri {
							continue
						}
						// constant true (or anything else): the return must lie past `ri != nil`
						w, _ := (&Cut{Fn: h, Target: isInstr(ret), EdgeCut: edgeNil(isValue(ri), false)}).Run(c)
						if w != "" {
							okAll = false
						}
					}
					if okAll {
						j := j
						preds = append(preds, edgeBool(func(v ssa.Value) bool {
							e2, ok := v.(*ssa.Extract)
							return ok && e2.Tuple == ex.Tuple && e2.Index == j
						}, true))
					}
				}
			}
		}
	}
	return anyEdge(preds...)
}
