package main

import (
	"fmt"
	"go/token"
	"go/types"
	"strings"

	"golang.org/x/tools/go/ssa"
)

func init() {
	register("C02", checkC02,
		"Decides structural necessary conditions of byte fidelity, not the round trip: (R1) after a failed AEAD operation (decrypt, handshake ReadMessage) no exit that hands out data is reachable; (R2) the cipher states and the read queue are used only under the session's read / write lock, handshake helpers run only before the session escapes; (R3) frame constants are consistent with the 16-bit length prefix; (R4) no plaintext path before the handshake installed the ciphers; "+
			"(R5) difference-bound analysis: every plaintext chunk handed to encrypt is at most MaxPlaintextLength long, and consecutive chunks are contiguous (each starts where the previous ended, the count returned is the end of the last chunk sent); (R6) affine cursor discipline of the queued-remainder reader and of the peeked-bytes replay: the cursor advances by exactly the number of bytes copied out, that number is what Read returns, the source of the copy starts at the cursor, the queue is released exactly when the cursor reaches its end; "+
			"(R7) the private-network connection decrypts every byte it returns (n > 0 implies the keystream was applied to out[:n], also when the underlying read reported an error) and writes exactly the encrypted copy of its input.",
		"round-trip equality over all (write split, read size) pairs, short reads of the underlying connection, yamux internals and interleaved streams, tamper outcomes beyond the error-propagation structure, XOR keystream offsets")
}

func checkC02(c *Ctx, r *Report) {
	nzP := "p2p/security/noise"
	ssT := nzP + ".secureSession"
	ss := func(n string) string { return "(*" + ssT + ")." + n }
	isRet := func(in ssa.Instruction) bool { _, ok := in.(*ssa.Return); return ok }

	// ---- R1 ---------------------------------------------------------------
	r1 := r.Rule("C02-R1", "E1", 3, "AEAD error discipline: from the failure edge of decrypt / handshake ReadMessage no exit that hands out data is reachable")
	type aead struct {
		fn     string
		callee []string
		errIdx int
	}
	for _, a := range []aead{
		{ss("Read"), []string{ss("decrypt")}, 1},
		{ss("readHandshakeMessage"), []string{"(*github.com/flynn/noise.HandshakeState).ReadMessage"}, 3},
		{ss("decrypt"), []string{"(*github.com/flynn/noise.CipherState).Decrypt"}, 1},
	} {
		f := r1.need(a.fn)
		if f == nil {
			continue
		}
		calls := callsIn(f, a.callee...)
		if len(calls) == 0 {
			r1.Fail(a.fn+": AEAD call", f.Pos(), "not found", "")
			continue
		}
		for i, call := range calls {
			call := call
			// a tail call `return s.dec.Decrypt(..)` propagates the error by construction
			tail := false
			for _, ret := range returnsOf(f) {
				if len(ret.Results) == 2 {
					c0, i0 := resultOf(ret.Results[0])
					c1, i1 := resultOf(ret.Results[1])
					if c0 == call && c1 == call && i0 == 0 && i1 == a.errIdx {
						tail = true
					}
				}
			}
			key := fmt.Sprintf("%s: failure of %s#%d reaches only empty-handed error returns", a.fn, calleeShort(call), i)
			if tail {
				r1.OK(key, instrPos(call.(ssa.Instruction)), 1, "results returned unchanged")
				continue
			}
			isErr := func(v ssa.Value) bool { ci, idx := resultOf(strip(v)); return ci == call && idx == a.errIdx }
			failEdges := edgesWhere(f, edgeNil(isErr, false))
			if len(failEdges) == 0 {
				r1.Fail(key, instrPos(call.(ssa.Instruction)), "the error result is not tested", "")
				continue
			}
			bad := func(in ssa.Instruction) bool {
				ret, ok := in.(*ssa.Return)
				if !ok {
					return false
				}
				// data result: count must be the constant 0 / slice must be nil; error must be non-nil
				d := retVal(ret, 0)
				e := retVal(ret, len(ret.Results)-1)
				if k, isC := constInt(d); isC && k == 0 {
					return isNilConst(e)
				}
				if isNilConst(d) {
					return isNilConst(e)
				}
				return true
			}
			w, n := (&Cut{Fn: f, FromEdges: failEdges, Target: bad}).Run(c)
			r1.Check(w == "", key, instrPos(call.(ssa.Instruction)), n+1, "", "altered ciphertext is handed to the reader as data (or reported as success)", w)
		}
	}

	// ---- R2 ---------------------------------------------------------------
	r2 := r.Rule("C02-R2", "E4/E3", 10, "read queue and decrypt under readLock, encrypt and wire writes under writeLock; handshake helpers only before the session escapes")
	lockRule(c, r2, lockSpec{Pkg: nzP, Type: "secureSession", Mutex: "readLock", Guarded: []string{"qseek", "qbuf", "rlen"},
		Exempt: map[string]string{
			nzP + ".newSecureSession":  "constructor",
			ss("readHandshakeMessage"): "handshake: runs inside newSecureSession before the session is returned (who-may-call checked below)",
			ss("runHandshake"):         "handshake (see readHandshakeMessage)",
		}})
	heldSuffix := func(h heldSet, suffix string) bool {
		for k := range h {
			if strings.HasSuffix(k, suffix) {
				return true
			}
		}
		return false
	}
	for _, x := range []struct {
		fn, lock string
		callees  []string
	}{
		{ss("Write"), ".writeLock", []string{ss("encrypt"), ss("writeMsgInsecure")}},
		{ss("Read"), ".readLock", []string{ss("decrypt"), ss("readNextInsecureMsgLen"), ss("readNextMsgInsecure")}},
	} {
		f := r2.need(x.fn)
		if f == nil {
			continue
		}
		lf := computeLockFlow(f, heldSet{})
		calls := callsIn(f, x.callees...)
		if len(calls) < 2 {
			r2.Fail(x.fn+": cipher / wire calls", f.Pos(), "expected at least two", "")
		}
		for i, call := range calls {
			in := call.(ssa.Instruction)
			r2.Check(heldSuffix(lf.must[in], x.lock), fmt.Sprintf("%s: %s#%d under s%s", x.fn, calleeShort(call), i, x.lock), instrPos(in), 1, "", "concurrent callers interleave frames or reuse / skip a nonce: the peer's decryption fails or data is reordered", fmtHeld(lf.must[in]))
		}
	}
	r2.onlyCallers("call encrypt", []string{ss("encrypt")}, c.FnsOfPkg(nzP), ss("Write"))
	r2.onlyCallers("call decrypt", []string{ss("decrypt")}, c.FnsOfPkg(nzP), ss("Read"))
	r2.onlyCallers("call handshake message helpers", []string{ss("readHandshakeMessage"), ss("sendHandshakeMessage")}, c.FnsOfPkg(nzP), ss("runHandshake"))
	r2.onlyCallers("call runHandshake", []string{ss("runHandshake")}, c.FnsOfPkg(nzP), nzP+".newSecureSession")
	r2.onlyIn("install cipher states", func(in ssa.Instruction) bool {
		return isFieldWrite(in, ssT+".enc") || isFieldWrite(in, ssT+".dec")
	}, c.FnsOfPkg(nzP), ss("setCipherStates"))
	r2.onlyCallers("call setCipherStates", []string{ss("setCipherStates")}, c.FnsOfPkg(nzP), ss("readHandshakeMessage"), ss("sendHandshakeMessage"))

	// ---- R3 ---------------------------------------------------------------
	r3 := r.Rule("C02-R3", "E7", 3, "frame constants consistent with the 16-bit length prefix")
	maxT := constIntObj(c, nzP, "MaxTransportMsgLength")
	maxP := constIntObj(c, nzP, "MaxPlaintextLength")
	lpl := constIntObj(c, nzP, "LengthPrefixLength")
	ovh := constIntObj(c, "golang.org/x/crypto/chacha20poly1305", "Overhead")
	r3.Check(maxT == 0xffff, "MaxTransportMsgLength == 0xffff", objPos(c, nzP, "MaxTransportMsgLength"), 1, "", "a frame longer than the prefix can express is truncated on the wire", fmt.Sprint(maxT))
	r3.Check(ovh > 0 && maxP > 0 && maxP+ovh <= maxT && maxP+ovh <= 0xffff, "MaxPlaintextLength + AEAD overhead <= MaxTransportMsgLength", objPos(c, nzP, "MaxPlaintextLength"), 1, "", "a full chunk does not fit into one transport message", fmt.Sprint(maxP, ovh))
	r3.Check(lpl == 2, "LengthPrefixLength == 2 (uint16 prefix)", objPos(c, nzP, "LengthPrefixLength"), 1, "", "", fmt.Sprint(lpl))

	// ---- R4 ---------------------------------------------------------------
	r4 := r.Rule("C02-R4", "E1", 2, "no plaintext path before the handshake installed the cipher states")
	for _, x := range []struct{ fn, field, callee string }{
		{ss("encrypt"), ssT + ".enc", "(*github.com/flynn/noise.CipherState).Encrypt"},
		{ss("decrypt"), ssT + ".dec", "(*github.com/flynn/noise.CipherState).Decrypt"},
	} {
		f := r4.need(x.fn)
		if f == nil {
			continue
		}
		calls := findInstrs(f, callPred(x.callee))
		r4.guard(f, calleeShort0(x.callee), calls, "cipher state != nil", edgeNil(isLoadOfField(x.field), false), nil)
		// every success goes through the cipher
		var okRets []ssa.Instruction
		for _, ret := range returnsOf(f) {
			if !isNilConst(retVal(ret, 0)) {
				okRets = append(okRets, ret)
			}
		}
		w, n := (&Cut{Fn: f, Target: inSet(okRets), Sep: inSet(calls)}).Run(c)
		r4.Check(len(okRets) >= 1 && w == "", x.fn+": data is returned only from the cipher", f.Pos(), n+1, "", "plaintext passes through unencrypted / unauthenticated", w)
	}

	// ---- R5 ---------------------------------------------------------------
	r5 := r.Rule("C02-R5", "E7c/E8", 4, "every chunk handed to encrypt is at most MaxPlaintextLength; chunks are contiguous and the returned count is the end of the last chunk sent")
	if f := r5.need(ss("Write")); f != nil {
		encs := callsIn(f, ss("encrypt"))
		if len(encs) != 1 {
			r5.Fail(ss("Write")+": encrypt call", f.Pos(), "expected exactly one", "")
		} else {
			enc := encs[0].(ssa.Instruction)
			pt, ok := strip2(callArgs(encs[0])[2]).(*ssa.Slice)
			if !ok || !isParamVar(c, pt.X, "data") {
				r5.Fail(ss("Write")+": plaintext chunk", instrPos(enc), "the plaintext given to encrypt is not a slice of the data parameter", "")
			} else {
				low, high := pt.Low, pt.High
				w, n := diffBoundedAt(c, f, enc, high, low, maxP)
				r5.Check(w == "", ss("Write")+": len(chunk) = end - written <= MaxPlaintextLength at encrypt", instrPos(enc), n+1, "", "a chunk larger than one frame: the 16-bit length prefix wraps and the peer's stream desynchronises (or the frame is rejected)", w)
				// contiguity: written is a loop phi: 0 on entry, `end` (the High of this chunk) on the back edge
				phi, isPhi := low.(*ssa.Phi)
				okC := isPhi
				if okC {
					for i, e := range phi.Edges {
						pb := phi.Block().Preds[i]
						if phi.Block().Dominates(pb) { // back edge
							if e != high {
								okC = false
							}
						} else if k, isC := constInt(e); !isC || k != 0 {
							okC = false
						}
					}
				}
				r5.Check(okC, ss("Write")+": the next chunk starts where this one ended (written = end; starts at 0)", instrPos(enc), 2, "", "bytes are skipped or sent twice", "")
				// the loop ends only when written reaches len(data); success returns written
				okR := isPhi
				if okR {
					for _, ret := range returnsOf(f) {
						if !isNilConst(retVal(ret, 1)) {
							continue
						}
						if retVal(ret, 0) != ssa.Value(phi) && strip(ret.Results[0]) != ssa.Value(phi) {
							okR = false
						}
						// reached only past written >= total
						lenData := func(v ssa.Value) bool {
							call, ok := v.(*ssa.Call)
							return ok && calleeKey(call) == "builtin.len" && isParamVar(c, call.Call.Args[0], "data")
						}
						w, _ := (&Cut{Fn: f, Target: isInstr(ret), EdgeCut: edgeExcl(func(v ssa.Value) bool { return v == ssa.Value(phi) }, lenData, ordLT)}).Run(c)
						if w != "" {
							okR = false
						}
					}
				}
				r5.Check(okR, ss("Write")+": success is reported only when written reached len(data), and reports written", f.Pos(), 2, "", "a partial write is reported as complete (the tail of the payload is lost)", "")
				// every chunk encrypted is sent: from encrypt success to the next iteration / return passes writeMsgInsecure of the encrypt result
				sends := findInstrs(f, func(in ssa.Instruction) bool {
					if !isCallTo(in, ss("writeMsgInsecure")) {
						return false
					}
					return derivesFrom(callArgs(in.(ssa.CallInstruction))[1], func(v ssa.Value) bool { ci, i := resultOf(v); return ci == encs[0] && i == 0 })
				})
				encOK := edgesWhere(f, edgeNil(func(v ssa.Value) bool { ci, i := resultOf(strip(v)); return ci == encs[0] && i == 1 }, true))
				w2, n2 := (&Cut{Fn: f, FromEdges: encOK, Sep: inSet(sends), Target: func(in ssa.Instruction) bool { return isRet(in) || in == enc }}).Run(c)
				r5.Check(len(sends) == 1 && len(encOK) >= 1 && w2 == "", ss("Write")+": every encrypted chunk is written to the wire before the next one is encrypted", f.Pos(), n2+1, "", "a frame is dropped: the peer's nonce counter no longer matches", w2)
			}
		}
	}

	// ---- R6 ---------------------------------------------------------------
	r6 := r.Rule("C02-R6", "E8", 4, "cursor discipline: cursor advances by exactly the bytes copied out, which is what Read returns; copy source starts at the cursor; queue released exactly at its end")
	cursorCheck(c, r6, ss("Read"), ssT+".qseek", ssT+".qbuf", true)
	scT := "p2p/transport/tcpreuse/internal/sampledconn.wrappedSampledConn"
	cursorCheck(c, r6, "(*"+scT+").Read", scT+".bytesPeeked", scT+".peekedBytes", false)
	if f := r6.need(ss("Read")); f != nil {
		// queued bytes are served before the wire is read again
		wire := findInstrs(f, callPred(ss("readNextInsecureMsgLen")))
		r6.guard(f, "read next frame", wire, "qbuf == nil", edgeNil(isLoadOfField(ssT+".qbuf"), true), nil)
		// in-place path: decrypt into the caller's buffer prefix and report the plaintext length
		for _, call := range callsIn(f, ss("decrypt")) {
			a := callArgs(call)
			dst, isSl := strip2(a[1]).(*ssa.Slice)
			if !isSl {
				continue
			}
			// the destination is a zero-length view starting at the beginning of the caller's buffer
			root := strip2(dst.X)
			okRoot := true
			for {
				inner, isInner := root.(*ssa.Slice)
				if !isInner {
					break
				}
				if inner.Low != nil {
					okRoot = false
				}
				root = strip2(inner.X)
			}
			if !isParamVar(c, root, "buf") {
				continue
			}
			k, isC := constInt(dst.High)
			okDst := isC && k == 0 && dst.Low == nil && okRoot
			okRet := false
			for _, ret := range returnsOf(f) {
				if lc, ok := strip(ret.Results[0]).(*ssa.Call); ok && calleeKey(lc) == "builtin.len" {
					if ci, i := resultOf(strip(lc.Call.Args[0])); ci == call && i == 0 {
						okRet = true
					}
				}
			}
			r6.Check(okDst && okRet, ss("Read")+": in-place path decrypts to buf[:0] and returns len(plaintext)", instrPos(call.(ssa.Instruction)), 2, "", "the reader is told a count that does not match the plaintext placed in its buffer", "")
		}
	}
	if f := r6.need("(*" + scT + ").Read"); f != nil {
		under := findInstrs(f, func(in ssa.Instruction) bool {
			ci, ok := in.(ssa.CallInstruction)
			return ok && ci.Common().IsInvoke() && ci.Common().Method.Name() == "Read"
		})
		isCur := func(v ssa.Value) bool { return derivesFrom(v, isLoadOfField(scT+".bytesPeeked")) && !isLenCall(v) }
		isLen := func(v ssa.Value) bool {
			if k, ok := constInt(v); ok && k == constIntObj(c, "p2p/transport/tcpreuse/internal/sampledconn", "peekSize") {
				return true
			}
			return isLenCall(v)
		}
		r6.guard(f, "underlying Read", under, "all peeked bytes were replayed", edgeExcl(isCur, isLen, ordLT, ordGT), nil)
	}

	// ---- R8 ---------------------------------------------------------------
	r8 := r.Rule("C02-R8", "E5", 1, "half-close: the stream wrapper flushes the lazy handshake through an interface the negotiator actually implements")
	r8.Check(flushAssertReachesLazyConn(c, "p2p/host/basic"), "(*streamWrapper).CloseWrite: the interface asserted for Flush is one the lazy negotiator satisfies", token.NoPos, 1, "", "the assertion silently fails: the pending handshake is never flushed before the half-close, the remote sees EOF during negotiation and resets: the opener's further reads fail", "")

	// ---- R7 ---------------------------------------------------------------
	r7 := r.Rule("C02-R7", "E1", 3, "pskConn: every returned byte was decrypted (n > 0 implies keystream applied to out[:n]); Write sends exactly the encrypted copy")
	pskT := "p2p/net/pnet.pskConn"
	if f := r7.need("(*" + pskT + ").Read"); f != nil {
		reads := findInstrs(f, func(in ssa.Instruction) bool {
			ci, ok := in.(ssa.CallInstruction)
			if !ok || !ci.Common().IsInvoke() || ci.Common().Method.Name() != "Read" {
				return false
			}
			return isParamVar(c, ci.Common().Args[0], "out")
		})
		if len(reads) != 1 {
			r7.Fail("(*pskConn).Read: underlying read into out", f.Pos(), fmt.Sprintf("expected one, found %d", len(reads)), "")
		} else {
			rd := reads[0].(ssa.CallInstruction)
			isN := func(v ssa.Value) bool { ci, i := resultOf(strip(v)); return ci == rd && i == 0 }
			xors := findInstrs(f, func(in ssa.Instruction) bool {
				ci, ok := in.(*ssa.Call)
				if !ok || !ci.Call.IsInvoke() || ci.Call.Method.Name() != "XORKeyStream" || !isLoadOfField(pskT+".readS20")(ci.Call.Value) {
					return false
				}
				okArg := func(v ssa.Value) bool {
					sl, ok := strip2(v).(*ssa.Slice)
					return ok && isParamVar(c, sl.X, "out") && sl.Low == nil && sl.High != nil && isN(sl.High)
				}
				return okArg(ci.Call.Args[0]) && okArg(ci.Call.Args[1])
			})
			var rets []ssa.Instruction
			for _, ret := range returnsOf(f) {
				if isN(ret.Results[0]) {
					rets = append(rets, ret)
				}
			}
			isZero := func(v ssa.Value) bool { k, ok := constInt(v); return ok && k == 0 }
			w, n := (&Cut{Fn: f, From: []ssa.Instruction{reads[0]}, Target: inSet(rets), Sep: inSet(xors), EdgeCut: edgeExcl(isN, isZero, ordGT)}).Run(c)
			r7.Check(len(xors) >= 1 && len(rets) >= 1 && w == "", "(*pskConn).Read: every exit returning n bytes passed XORKeyStream(out[:n], out[:n]) unless n <= 0", f.Pos(), n+1, "", "bytes read together with an error (n > 0, err != nil — allowed by io.Reader) reach the caller still encrypted, and the keystream position falls behind", w)
			// the cipher is created from the 24-byte nonce read first
			stS20 := findInstrs(f, fieldWritePred(pskT+".readS20"))
			w3, n3 := (&Cut{Fn: f, Target: inSet(reads), Sep: inSet(stS20), EdgeCut: edgeNil(isLoadOfField(pskT+".readS20"), false)}).Run(c)
			r7.Check(w3 == "", "(*pskConn).Read: payload is read only once the read cipher exists (nonce consumed first)", f.Pos(), n3+1, "", "the nonce bytes are handed to the reader as payload", w3)
		}
	}
	if f := r7.need("(*" + pskT + ").Write"); f != nil {
		xors := findInstrs(f, func(in ssa.Instruction) bool {
			ci, ok := in.(*ssa.Call)
			return ok && ci.Call.IsInvoke() && ci.Call.Method.Name() == "XORKeyStream" && isLoadOfField(pskT+".writeS20")(ci.Call.Value) && isParamVar(c, ci.Call.Args[1], "in")
		})
		ok := len(xors) == 1
		var dst ssa.Value
		if ok {
			dst = strip(xors[0].(*ssa.Call).Call.Args[0])
			// the buffer has exactly len(in) bytes
			g := isResultOfCall(dst, 0, "github.com/libp2p/go-buffer-pool.Get")
			ok = g != nil
			if ok {
				lc, isL := callArgs(g)[0].(*ssa.Call)
				ok = isL && calleeKey(lc) == "builtin.len" && isParamVar(c, lc.Call.Args[0], "in")
			}
		}
		var writes []ssa.Instruction
		if ok {
			writes = findInstrs(f, func(in ssa.Instruction) bool {
				ci, isC := in.(ssa.CallInstruction)
				if !isC || !ci.Common().IsInvoke() || ci.Common().Method.Name() != "Write" {
					return false
				}
				return strip(ci.Common().Args[0]) == dst
			})
			w, _ := (&Cut{Fn: f, Target: inSet(writes), Sep: inSet(xors)}).Run(c)
			ok = len(writes) == 1 && w == ""
			// the payload write is the last thing: its results are returned
			if ok {
				tail := false
				for _, ret := range returnsOf(f) {
					if ci, i := resultOf(ret.Results[0]); ci == writes[0].(ssa.CallInstruction) && i == 0 {
						tail = true
					}
				}
				ok = tail
			}
		}
		r7.Check(ok, "(*pskConn).Write: sends XORKeyStream(out, in) with len(out) == len(in) and reports the wire's count", f.Pos(), 3, "", "plaintext (or a buffer of another length) goes on the wire", "")
		// the cipher state of each direction exists only once its nonce has really crossed the wire: the remote derives
		// its keystream from the first 24 bytes it reads, so a stream set up although the nonce write (read) failed
		// desynchronises both sides silently. Wherever the store is (Read/Write or a helper):
		nS20 := 0
		for _, f := range c.FnsOfPkg("p2p/net/pnet") {
			for _, dir := range []struct{ field, what string }{{"writeS20", "written"}, {"readS20", "read"}} {
				for _, st := range findInstrsIn(f, fieldWritePred(pskT+"."+dir.field)) {
					nS20++
					mk := isResultOfCall(st.(*ssa.Store).Val, 0, "github.com/davidlazar/go-crypto/salsa20.New")
					key := fnKey(f) + ": " + dir.field + " installed only after its nonce was " + dir.what
					if mk == nil {
						r7.Fail(key, instrPos(st), "the cipher state is not salsa20.New(psk, nonce)", "")
						continue
					}
					nonce := strip(mk.Common().Args[1])
					isNonce := func(v ssa.Value) bool { return strip(v) == nonce }
					var wire EdgePred
					if dir.field == "writeS20" {
						wire = edgeNil(func(v ssa.Value) bool {
							ci, i := resultOf(v)
							return ci != nil && i == 1 && ci.Common().IsInvoke() && ci.Common().Method.Name() == "Write" && isNonce(ci.Common().Args[0])
						}, true)
					} else {
						wire = edgeNil(func(v ssa.Value) bool {
							ci := isResultOfCall(v, 1, "io.ReadFull")
							return ci != nil && isNonce(ci.Common().Args[1])
						}, true)
					}
					w, n := (&Cut{Fn: f, Target: isInstr(st), EdgeCut: wire}).Run(c)
					r7.Check(w == "", key, instrPos(st), n+1, "", "after a failed nonce transfer a retry skips the nonce: the remote takes ciphertext for the nonce and decrypts garbage without any error", w)
				}
			}
		}
		r7.Check(nS20 >= 2, "pskConn: cipher states of both directions are installed somewhere", token.NoPos, nS20, "", "", "")

		// ---- R9 ---------------------------------------------------------------
		// pass-through wrappers report the inner count unchanged, also together with an error (io.Reader / io.Writer
		// allow n > 0 with err != nil; a caller that resumes from the reported count re-sends or drops bytes otherwise)
		r9 := r.Rule("C02-R9", "E6", 6, "stream wrappers (yamux stream, swarm.Stream, basic host streamWrapper): Read and Write return the inner call's byte count on every path")
		for _, k := range []string{"(*p2p/muxer/yamux.stream)", "(*p2p/net/swarm.Stream)", "(*p2p/host/basic.streamWrapper)"} {
			for _, m := range []string{"Read", "Write"} {
				f := r9.need(k + "." + m)
				if f == nil {
					continue
				}
				var inner []ssa.CallInstruction
				allInstrs(f, func(in ssa.Instruction) {
					ci, ok := in.(ssa.CallInstruction)
					if !ok || len(f.Params) < 2 {
						return
					}
					name := ""
					if ci.Common().IsInvoke() {
						name = ci.Common().Method.Name()
					} else if sc := ci.Common().StaticCallee(); sc != nil {
						name = sc.Name()
					}
					if name != m {
						return
					}
					for _, a := range ci.Common().Args {
						if strip(a) == ssa.Value(f.Params[1]) || isParamCellLoad(c, strip(a), f.Params[1]) {
							inner = append(inner, ci)
						}
					}
				})
				if len(inner) != 1 {
					r9.Fail(k+"."+m+": one inner "+m+" of the caller's buffer", f.Pos(), fmt.Sprintf("found %d", len(inner)), "")
					continue
				}
				for _, ret := range returnsOf(f) {
					// exits that cannot follow the inner call (argument checks) are not pass-through exits
					if w, _ := (&Cut{Fn: f, From: []ssa.Instruction{inner[0].(ssa.Instruction)}, Target: isInstr(ret)}).Run(c); w == "" {
						continue
					}
					ci, i := resultOf(retVal(ret, 0))
					r9.Check(ci == inner[0] && i == 0, k+"."+m+": returns the inner count", instrPos(ret), 1, "", "a partial "+strings.ToLower(m)+" reported as 0 (or as another count): the caller re-sends delivered bytes or loses received ones", describeVal(retVal(ret, 0)))
				}
			}
		}
	}
	// ---- R10: the WebRTC data-channel stream (a multiplexed stream of its own) ----------------------------------
	// A message carries payload and a control flag (FIN, RESET, ...). The flag takes effect only after the payload
	// was handed out completely: acting on it earlier turns the state to "all data read" while bytes are pending,
	// and the next Read answers EOF.
	{
		r10 := r.Rule("C02-R10", "E1/E6", 4, "WebRTC stream Read: a message's control flag is processed (and the message dropped) only once its payload is drained; the pending payload advances by exactly the bytes copied, which are the bytes returned")
		wrP := "p2p/transport/webrtc"
		rdK := "(*" + wrP + ".stream).Read"
		if f := r10.need(rdK); f != nil {
			msgKey := wrP + "/pb.Message.Message"
			isPayloadLen := func(v ssa.Value) bool {
				call, ok := v.(*ssa.Call)
				return ok && calleeKey(call) == "builtin.len" && isLoadOfField(msgKey)(strip2(call.Call.Args[0]))
			}
			isZero := func(v ssa.Value) bool { k, ok := constInt(v); return ok && k == 0 }
			drained := edgeExcl(isPayloadLen, isZero, ordGT)
			flags := findInstrs(f, callPred("(*"+wrP+".stream).processIncomingFlag"))
			r10.guard(f, "processIncomingFlag(nextMessage)", flags, "len(nextMessage.Message) == 0", drained, nil)
			var drops []ssa.Instruction
			for _, st := range findInstrs(f, fieldWritePred(wrP+".stream.nextMessage")) {
				if isNilConst(st.(*ssa.Store).Val) {
					drops = append(drops, st)
				}
			}
			r10.guard(f, "nextMessage = nil", drops, "len(nextMessage.Message) == 0", drained, nil)
			// the copy out of the pending payload, the advance and the count
			var copies []ssa.CallInstruction
			for _, ci := range callsIn(f, "builtin.copy") {
				if isLoadOfField(msgKey)(strip2(ci.Common().Args[1])) {
					copies = append(copies, ci)
				}
			}
			if len(copies) != 1 {
				r10.Fail(rdK+": copy out of the pending payload", f.Pos(), fmt.Sprintf("expected one copy(b, nextMessage.Message), found %d", len(copies)), "")
			} else {
				n := copies[0].Value()
				okAdv := false
				for _, st := range findInstrs(f, fieldWritePred(msgKey)) {
					sl, ok := strip2(st.(*ssa.Store).Val).(*ssa.Slice)
					okAdv = ok && sl.High == nil && sl.Low != nil && strip(sl.Low) == ssa.Value(n) && isLoadOfField(msgKey)(strip2(sl.X))
				}
				r10.Check(okAdv, rdK+": the pending payload advances by exactly the bytes copied (Message = Message[n:])", instrPos(copies[0].(ssa.Instruction)), 1, "", "bytes of a message are delivered twice or skipped when the read buffer is smaller than the message", "")
				// the Read that copied returns (a sum containing) n
				okRet := true
				nRets := 0
				for _, ret := range returnsOf(f) {
					if w, _ := (&Cut{Fn: f, From: []ssa.Instruction{copies[0].(ssa.Instruction)}, Target: isInstr(ret), StopAtFrom: true}).Run(c); w == "" {
						continue
					}
					if !isNilConst(retVal(ret, 1)) {
						continue
					}
					nRets++
					if !derivesFrom(retVal(ret, 0), func(v ssa.Value) bool { return v == ssa.Value(n) }) {
						okRet = false
					}
				}
				r10.Check(okRet && nRets >= 1, rdK+": the count returned after a copy includes the bytes copied", instrPos(copies[0].(ssa.Instruction)), nRets+1, "", "delivered bytes are not reported to the caller", "")
			}
		}
	}
}

func calleeShort0(k string) string {
	if i := strings.LastIndex(k, "."); i >= 0 {
		return k[i+1:]
	}
	return k
}

func isLenCall(v ssa.Value) bool {
	call, ok := v.(*ssa.Call)
	return ok && calleeKey(call) == "builtin.len"
}

// isCursorSum: v = load(cursor) + x  or a value just stored to the cursor.
func isCursorSum(v ssa.Value, cursorKey string) bool {
	b, ok := v.(*ssa.BinOp)
	if !ok || b.Op != token.ADD {
		return false
	}
	return isLoadOfField(cursorKey)(b.X) || isLoadOfField(cursorKey)(b.Y)
}

// cursorCheck: affine interpretation of every entry→return path of a reader
// that serves bytes from a queue field through a cursor field.
//   - every copy whose source is the queue starts at the current cursor
//     (source = queue[cursor:], or the whole queue when it starts at 0),
//   - the count returned is the number copied,
//   - R = len(queue) - start - copied is what remains. Comparisons on the path
//     whose two sides differ by ±R (however spelled: cursor' == len(q),
//     copied < len(pending), ...) tell whether R is 0 or positive;
//   - a path that releases the queue (queue field := nil, directly or in a
//     straight-line helper) must have established R == 0 and leave the cursor 0;
//   - a path that keeps it must leave cursor = start + copied, and — when the
//     queue existed before this call — must have established R > 0.
func cursorCheck(c *Ctx, ru *Rule, fnKey_, cursorKey, queueKey string, canRelease bool) {
	f := ru.need(fnKey_)
	if f == nil {
		return
	}
	type obs struct {
		copied, low, curBefore aff
		pos                    token.Pos
		remZero, remPos        bool // established by the path conditions after the copy
		freshQueue             bool // the queue was installed on this very path
	}
	var failures []string
	seen := map[string]bool{}
	paths, copies := 0, 0
	budget := 8000
	used := map[[2]int]bool{}
	fail := func(msg string) {
		if !seen[msg] {
			seen[msg] = true
			failures = append(failures, msg)
		}
	}
	var cursorFA, queueFA *ssa.FieldAddr
	allInstrs(f, func(in ssa.Instruction) {
		if fa, ok := in.(*ssa.FieldAddr); ok {
			if k, _ := fieldKeyOfAddr(fa); k == cursorKey && cursorFA == nil {
				cursorFA = fa
			} else if k == queueKey && queueFA == nil {
				queueFA = fa
			}
		}
	})
	if cursorFA == nil {
		ru.Fail(fnKey_+": cursor field", f.Pos(), "the cursor field is not used", "")
		return
	}
	var walk func(b, pred *ssa.BasicBlock, st *acctState, ob []obs)
	walk = func(b, pred *ssa.BasicBlock, st *acctState, ob []obs) {
		if budget <= 0 {
			fail("path budget exceeded")
			return
		}
		budget--
		e := &acctEval{st: st, pred: pred, phi: map[*ssa.Phi]string{}, phiA: map[*ssa.Phi]aff{}}
		e.loadPhis(f)
		newA, newP := map[string]aff{}, map[string]string{}
		for _, in := range b.Instrs {
			p, ok := in.(*ssa.Phi)
			if !ok {
				break
			}
			for i, pb := range b.Preds {
				if pb == pred {
					if isIntType(p.Type()) {
						newA["phi:"+p.Name()] = e.val(p.Edges[i])
					} else {
						newP["phi:"+p.Name()] = e.sym(p.Edges[i])
					}
				}
			}
		}
		for k, v := range newA {
			st.mem[k] = v
		}
		for k, v := range newP {
			st.ptr[k] = v
		}
		e.phi, e.phiA = map[*ssa.Phi]string{}, map[*ssa.Phi]aff{}
		e.loadPhis(f)
		ca := e.addr(cursorFA)
		qa := ""
		if queueFA != nil {
			qa = e.addr(queueFA)
		}
		for _, in := range b.Instrs {
			if call, ok := in.(*ssa.Call); ok && calleeKey(call) == "builtin.copy" {
				src := strip2(call.Call.Args[1])
				low := affConst(0)
				base := src
				for {
					sl, isSl := base.(*ssa.Slice)
					if !isSl {
						break
					}
					if sl.High != nil {
						base = nil // a bounded view: not the pattern
						break
					}
					if sl.Low != nil {
						low = low.add(e.val(sl.Low), 1)
					}
					base = strip2(sl.X)
				}
				isQueue := false
				if base != nil {
					if fl, bb := loadOfField(base); fl != nil && fieldKeyOf(bb, fl) == queueKey {
						isQueue = true
					}
					if fa, ok := base.(*ssa.FieldAddr); ok {
						if k, _ := fieldKeyOfAddr(fa); k == queueKey {
							isQueue = true
						}
					}
				}
				if isQueue {
					copies++
					cur, ok := st.mem[ca]
					if !ok {
						cur = affAtom("load(" + ca + ")")
					}
					_, fresh := st.ptr[qa]
					ob = append(ob, obs{copied: e.val(call), low: low, curBefore: cur, pos: call.Pos(), freshQueue: fresh && qa != ""})
				}
			}
			e.step(in)
			if ret, ok := in.(*ssa.Return); ok {
				paths++
				if len(ob) == 0 {
					return
				}
				if len(ob) > 1 {
					fail(fmt.Sprintf("%s: two copies from the queue on one path", c.Pos(ob[1].pos)))
					return
				}
				o := ob[0]
				if !o.low.equal(o.curBefore) {
					if k, isC := o.low.isConst(); !(isC && k == 0 && o.freshQueue) {
						fail(fmt.Sprintf("%s: copy starts at [%s] but the cursor is [%s]", c.Pos(o.pos), o.low.String(), o.curBefore.String()))
					}
				}
				got := e.val(ret.Results[0])
				after, stored := st.mem[ca]
				released := qa != "" && st.ptr[qa] == "nil"
				if !got.equal(o.copied) {
					if !(stored && got.equal(after) && o.low.equal(affConst(0))) {
						fail(fmt.Sprintf("%s: Read returns [%s] but [%s] bytes were copied out", c.Pos(ret.Pos()), got.String(), o.copied.String()))
					}
				}
				if released {
					if !o.remZero {
						fail(fmt.Sprintf("%s: the queue is released on a path that has not established that nothing remains (remaining = len(queue) - [%s] - [%s])", c.Pos(ret.Pos()), o.low.String(), o.copied.String()))
					}
					if k, isC := after.isConst(); !stored || !isC || k != 0 {
						fail(fmt.Sprintf("%s: the queue is released but the cursor is left at [%s]", c.Pos(ret.Pos()), after.String()))
					}
					return
				}
				want := o.low.add(o.copied, 1)
				if !stored {
					fail(fmt.Sprintf("%s: the cursor is not advanced after copying from the queue", c.Pos(o.pos)))
					return
				}
				if !after.equal(want) {
					fail(fmt.Sprintf("%s: after copying [%s] bytes from offset [%s] the cursor is [%s], expected [%s]", c.Pos(o.pos), o.copied.String(), o.low.String(), after.String(), want.String()))
				}
				if canRelease && !o.freshQueue && !o.remPos {
					fail(fmt.Sprintf("%s: the queue is kept on a path that has not established that bytes remain: a fully consumed queue would never be released (every later Read returns 0 bytes)", c.Pos(ret.Pos())))
				}
				return
			}
			if _, ok := in.(*ssa.Panic); ok {
				return
			}
		}
		// what the branch condition says about the remaining bytes
		var remInfo [2][2]bool // [succ][zero,pos]
		if ifi := ifOf(b); ifi != nil && len(ob) == 1 {
			o := ob[0]
			cond, neg := stripNot(ifi.Cond)
			if bo, ok := cond.(*ssa.BinOp); ok && isIntType(bo.X.Type()) {
				d := e.val(bo.X).add(e.val(bo.Y), -1) // X - Y
				lenQ := affAtom("len(load(" + qa + "))")
				if queueFA != nil {
					if _, isArr := queueFA.Type().Underlying().(*types.Pointer).Elem().Underlying().(*types.Array); isArr {
						lenQ = e.lenOf(queueFA, 0)
					}
				}
				r := lenQ.add(o.low, -1).add(o.copied, -1) // remaining
				sign := 0
				if d.equal(r) {
					sign = 1
				} else if d.equal(r.scale(-1)) {
					sign = -1
				}
				if sign != 0 {
					for s := 0; s < 2; s++ {
						t := (s == 0) != neg // truth of the comparison on this edge
						// relation of d to 0 on this edge
						var lt, eq, gt bool // which of d<0, d==0, d>0 remain possible
						switch bo.Op {
						case token.LSS:
							lt, eq, gt = t, !t, !t
						case token.LEQ:
							lt, eq, gt = t, t, !t
						case token.GTR:
							lt, eq, gt = !t, !t, t
						case token.GEQ:
							lt, eq, gt = !t, t, t
						case token.EQL:
							lt, eq, gt = !t, t, !t
						case token.NEQ:
							lt, eq, gt = t, !t, t
						default:
							continue
						}
						if sign < 0 {
							lt, gt = gt, lt // r = -d
						}
						// r >= 0 always (copy never takes more than there is)
						remInfo[s][0] = eq && !gt
						remInfo[s][1] = gt && !eq
					}
				}
			}
		}
		for si, s := range b.Succs {
			ek := [2]int{b.Index, si}
			if used[ek] {
				continue
			}
			used[ek] = true
			nob := append([]obs(nil), ob...)
			if len(nob) == 1 && si < 2 {
				if remInfo[si][0] {
					nob[0].remZero = true
				}
				if remInfo[si][1] {
					nob[0].remPos = true
				}
			}
			walk(s, b, st.clone(), nob)
			delete(used, ek)
		}
	}
	walk(f.Blocks[0], nil, &acctState{mem: map[string]aff{}, ptr: map[string]string{}, inserted: map[string]bool{}, owner: map[string]string{}, acct: map[string]aff{}, items: map[string]aff{}, regA: map[ssa.Value]aff{}, regS: map[ssa.Value]string{}}, nil)
	if copies == 0 {
		ru.Fail(fnKey_+": copy from the queue", f.Pos(), "no copy(dst, queue[cursor:]) found", "")
		return
	}
	ru.Check(len(failures) == 0, fnKey_+": cursor advances by exactly the bytes copied out, which is the count returned; the queue is released exactly when nothing remains", f.Pos(), paths, fmt.Sprintf("%d paths", paths), "bytes of the queued remainder are skipped, delivered twice, dropped at release, or the queue is never released", strings.Join(failures, " | "))
}
