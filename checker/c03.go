package main

import (
	"fmt"
	"go/token"
	"go/types"
	"strings"

	"golang.org/x/tools/go/ssa"
)

func init() {
	register("C03", checkC03,
		"Decides structurally: (R1) every counter, edge list, done flag, reference count and re-parenting field of the scopes, the manager's scope maps and the per-subnet limiter is touched only under its mutex (helpers verified at every caller); (R2) a scope's counters are changed only past the not-done check; "+
			"(R3) failure atomicity: after each successful charge (own counters, parent edges incl. the k-th edge of the range loops, IncRef'd scopes, the per-subnet limiter, a freshly created scope) every error exit passes the paired undo on the same receiver, and a released parent charge is re-taken before an error exit; "+
			"(R4) release happens once: done is set only in doneUnlocked past the done check, the per-subnet slot is returned only past !done and a valid IP and taken only for a valid IP in openConnection; (R5) every limit error carries the resource-limit sentinel and unwraps to it; (R6) counters are written only by the resources methods and zeroed only when the scope is destroyed.",
		"usage = sum over holders, <= limit, checkMemory overflow arithmetic, priority scaling, per-subnet counts as numbers, GC timing, concurrency beyond lock discipline")
}

const rmP = "p2p/host/resource-manager"

// pairUndo: after the success (nil-error / true) edge of each acquire call in
// fn, every error exit passes a release call with the same receiver path.
// reverse=false. Returns the number of acquire sites examined.
func pairUndo(c *Ctx, ru *Rule, fn *ssa.Function, acqKeys, relKeys []string, what string, extraRel func(in ssa.Instruction, recvPath string) bool) int {
	n := 0
	for _, acq := range callsIn(fn, acqKeys...) {
		av, ok := acq.(ssa.Value)
		if !ok {
			continue
		}
		recv := pathOf(callArgs(acq)[0])
		sig := acq.Common().Signature()
		errIdx := sig.Results().Len() - 1
		var okEdges []CFGEdge
		for _, b := range blocksDeep(fn) {
			for s := range b.Succs {
				isMine := func(v ssa.Value) bool { ci, i := resultOf(v); return ci == acq && i == errIdx }
				if edgeNil(isMine, true)(b, s) || (sig.Results().Len() == 1 && edgeBool(func(v ssa.Value) bool { return v == av }, true)(b, s)) {
					okEdges = append(okEdges, CFGEdge{b, s})
				}
			}
		}
		if len(okEdges) == 0 {
			continue // result returned directly (tail position): nothing follows in this function
		}
		n++
		isRel := func(in ssa.Instruction) bool {
			if extraRel != nil && extraRel(in, recv) {
				return true
			}
			if !isCallTo(in, relKeys...) {
				return false
			}
			return pathOf(callArgs(in.(ssa.CallInstruction))[0]) == recv
		}
		// conditional deferred undo: defer func(){ if err != nil { release } }()
		var condDefer []ssa.Instruction
		for _, d := range findInstrs(fn, func(in ssa.Instruction) bool { _, ok := in.(*ssa.Defer); return ok }) {
			df := d.(*ssa.Defer).Call.StaticCallee()
			if df == nil || df.Blocks == nil {
				continue
			}
			for _, rc := range callsIn(df, relKeys...) {
				// receiver inside the closure is a captured variable with the same name
				if pathRoot(pathOf(callArgs(rc)[0])) == pathRoot(recv) || pathOfResolved(callArgs(rc)[0]) == recv {
					condDefer = append(condDefer, d)
				}
			}
		}
		q := &Cut{Fn: fn, FromEdges: okEdges,
			Sep: func(in ssa.Instruction) bool { return isRel(in) || inSet(condDefer)(in) },
			Target: func(in ssa.Instruction) bool {
				ret, ok := in.(*ssa.Return)
				if !ok {
					return false
				}
				ei := errResultIndex(fn)
				return ei >= 0 && !isNilConst(retVal(ret, ei))
			}}
		w, cnt := q.Run(c)
		key := fmt.Sprintf("%s: %s on %s undone on every later error exit", fnKey(fn), calleeShort(acq), recv)
		if w == "" {
			ru.OK(key, instrPos(acq.(ssa.Instruction)), cnt+1, what)
		} else {
			ru.Fail(key, instrPos(acq.(ssa.Instruction)), "a refused later step returns an error while this charge stays in place (the refusal does not 'change nothing')", w)
		}
	}
	return n
}

func calleeShort(ci ssa.CallInstruction) string {
	k := calleeKey(ci)
	if i := strings.LastIndex(k, "."); i >= 0 {
		return k[i+1:]
	}
	return k
}

// edgeLoopUndo checks the range-over-edges acquire idiom of the three
// ...ForEdges functions: a failing iteration is followed by a release loop
// over the prefix s.edges[:n], n being incremented only after a successful
// iteration.
func edgeLoopUndo(c *Ctx, ru *Rule, fnK, acqK, relK string) {
	f := ru.need(fnK)
	if f == nil {
		return
	}
	acqs := callsIn(f, acqK)
	rels := callsIn(f, relK)
	key := fnK + ": failing edge k undoes edges [0,k)"
	if len(acqs) != 1 || len(rels) != 1 {
		ru.Fail(key, f.Pos(), "expected one acquire loop over the edges and one release loop over the reserved prefix", "")
		return
	}
	acq, rel := acqs[0], rels[0]
	// the release loop ranges over a slice X[:n] of the edges
	var prefix *ssa.Slice
	allInstrs(f, func(in ssa.Instruction) {
		if sl, ok := in.(*ssa.Slice); ok && sl.High != nil && sl.Low == nil && isLoadOfField(rmP+".resourceScope.edges")(strip2(sl.X)) {
			prefix = sl
		}
	})
	okPrefix := prefix != nil && derivesFrom(callArgs(rel)[0], func(v ssa.Value) bool { return v == ssa.Value(prefix) })
	// n is a counter: phi whose non-initial operands are n+1, each taken on the acquire's success edge
	okCount := false
	if prefix != nil {
		if phi, ok := prefix.High.(*ssa.Phi); ok {
			// find the loop-carried counter
			var ctr *ssa.Phi
			for _, l := range append([]ssa.Value{phi}, phi.Edges...) {
				if p, ok := l.(*ssa.Phi); ok {
					for _, e := range p.Edges {
						if b, ok := e.(*ssa.BinOp); ok && b.Op == token.ADD && b.X == ssa.Value(p) {
							if k, isC := constInt(b.Y); isC && k == 1 {
								ctr = p
							}
						}
					}
				}
			}
			if ctr == nil {
				_ = ctr
			}
			if ctr != nil {
				// every edge over which an incremented value reaches the bound (loop-carried or at the loop exit)
				es := phiEdgesWhere(phi, func(v ssa.Value) bool { b, ok := v.(*ssa.BinOp); return ok && b.Op == token.ADD })
				isErr := func(v ssa.Value) bool { ci, i := resultOf(v); return ci == acq && i == 1 }
				w, _ := (&Cut{Fn: f, From: []ssa.Instruction{acq.(ssa.Instruction)}, TargetEdge: edgeSet(es), EdgeCut: edgeNil(isErr, true), StopAtFrom: true}).Run(c)
				okCount = w == "" && len(es) > 0
			}
		}
	}
	// form B: the bound is the range index of the acquire loop at the failing iteration (every earlier
	// iteration succeeded because a failing one leaves the loop — okBreak below)
	if prefix != nil && !okCount {
		if idx, ok := prefix.High.(*ssa.BinOp); ok && idx.Op == token.ADD {
			if p, isPhi := idx.X.(*ssa.Phi); isPhi && p.Comment == "rangeindex" {
				if k, isC := constInt(idx.Y); isC && k == 1 {
					h, body := innermostLoop(f, acq.(ssa.Instruction).Block())
					// the index belongs to the acquire loop, and the acquired element is edges[index]
					elemOK := false
					if recv, isLd := strip2(callArgs(acq)[0]).(*ssa.UnOp); isLd {
						if ia, isIA := recv.X.(*ssa.IndexAddr); isIA && ia.Index == ssa.Value(idx) && isLoadOfField(rmP+".resourceScope.edges")(strip2(ia.X)) {
							elemOK = true
						}
					}
					okCount = h != nil && p.Block() == h && body[acq.(ssa.Instruction).Block()] && elemOK
				}
			}
		}
	}
	// the release loop runs on the error path and the error is returned
	isErrPhi := func(v ssa.Value) bool {
		return derivesFrom(v, func(x ssa.Value) bool { ci, i := resultOf(x); return ci == acq && i == 1 })
	}
	okGuard := false
	{
		w, _ := (&Cut{Fn: f, Target: isInstr(rel.(ssa.Instruction)), EdgeCut: edgeNil(isErrPhi, false)}).Run(c)
		okGuard = w == ""
	}
	okRet := false
	for _, ret := range returnsOf(f) {
		if isErrPhi(retVal(ret, 0)) {
			okRet = true
		}
	}
	// a failing iteration leaves the loop (no further acquire after a failure)
	okBreak := false
	{
		var failEdges []CFGEdge
		isErr := func(v ssa.Value) bool { ci, i := resultOf(v); return ci == acq && i == 1 }
		for _, b := range blocksDeep(f) {
			for s := range b.Succs {
				if edgeNil(isErr, false)(b, s) {
					failEdges = append(failEdges, CFGEdge{b, s})
				}
			}
		}
		if len(failEdges) > 0 {
			w, _ := (&Cut{Fn: f, FromEdges: failEdges, Target: isInstr(acq.(ssa.Instruction))}).Run(c)
			okBreak = w == ""
		}
	}
	ru.Check(okPrefix && okCount && okGuard && okRet && okBreak, key, f.Pos(), 5, "",
		"a refusal by the k-th constraining scope leaves earlier scopes charged (or releases scopes that were never charged)",
		fmt.Sprintf("prefix=%v counter=%v error-guard=%v returns-err=%v breaks=%v", okPrefix, okCount, okGuard, okRet, okBreak))
}

func checkC03(c *Ctx, r *Report) {
	rsT := rmP + ".resourceScope"
	resT := rmP + ".resources"
	m := func(recv, name string) string { return "(*" + rmP + "." + recv + ")." + name }

	// ---- R1 ---------------------------------------------------------------
	r1 := r.Rule("C03-R1", "E4", 60, "guarded-by: scope state under the scope's mutex, manager maps under mx, per-subnet limiter under mu")
	ctorExempt := map[string]string{
		rmP + ".newResourceScope": "constructor", rmP + ".newResourceScopeSpan": "constructor",
		rmP + ".newSystemScope": "constructor", rmP + ".newTransientScope": "constructor", rmP + ".newServiceScope": "constructor",
		rmP + ".newProtocolScope": "constructor", rmP + ".newPeerScope": "constructor", rmP + ".newConnectionScope": "constructor",
		rmP + ".newAllowListedConnectionScope": "constructor", rmP + ".newStreamScope": "constructor",
	}
	lockRule(c, r1, lockSpec{Pkg: rmP, Type: "resourceScope", Mutex: "Mutex",
		Guarded: []string{"done", "refCnt", "spanID", "rc", "edges"}, Exempt: ctorExempt,
		Requires: []string{m("resourceScope", "doneUnlocked"), m("resourceScope", "reserveMemoryForEdges"), m("resourceScope", "releaseMemoryForEdges"),
			m("resourceScope", "addStreamForEdges"), m("resourceScope", "removeStreamForEdges"), m("resourceScope", "addConnForEdges"), m("resourceScope", "removeConnForEdges"), m("resourceScope", "nextSpanID")}})
	lockRule(c, r1, lockSpec{Pkg: rmP, Type: "connectionScope", Mutex: "resourceScope.Mutex", Guarded: []string{"peer", "isAllowlisted"}, Exempt: ctorExempt})
	lockRule(c, r1, lockSpec{Pkg: rmP, Type: "streamScope", Mutex: "resourceScope.Mutex", Guarded: []string{"proto", "svc", "peerProtoScope", "peerSvcScope"}, Exempt: ctorExempt})
	lockRule(c, r1, lockSpec{Pkg: rmP, Type: "serviceScope", Mutex: "resourceScope.Mutex", Guarded: []string{"peers"}, Exempt: ctorExempt})
	lockRule(c, r1, lockSpec{Pkg: rmP, Type: "protocolScope", Mutex: "resourceScope.Mutex", Guarded: []string{"peers"}, Exempt: ctorExempt})
	lockRule(c, r1, lockSpec{Pkg: rmP, Type: "resourceManager", Mutex: "mx",
		Guarded: []string{"svc", "proto", "peer", "stickyProto", "stickyPeer", "connId", "streamId"},
		Exempt:  map[string]string{rmP + ".NewResourceManager": "constructor"}})
	lockRule(c, r1, lockSpec{Pkg: rmP, Type: "connLimiter", Mutex: "mu",
		Guarded: []string{"connsPerNetworkPrefixV4", "connsPerNetworkPrefixV6", "ip4connsPerLimit", "ip6connsPerLimit", "networkPrefixLimitV4", "networkPrefixLimitV6"},
		Exempt: map[string]string{rmP + ".newConnLimiter": "constructor", rmP + ".NewResourceManager": "construction time (limiter not yet shared)",
			rmP + ".WithNetworkPrefixLimit": "option applied at construction time", rmP + ".WithLimitPerSubnet": "option applied at construction time"}})

	// ---- R2 ---------------------------------------------------------------
	r2 := r.Rule("C03-R2", "E1", 14, "resources mutators are called from resourceScope methods only past !s.done (doneUnlocked excepted)")
	muts := []string{m("resources", "reserveMemory"), m("resources", "releaseMemory"), m("resources", "addStream"), m("resources", "addStreams"),
		m("resources", "removeStream"), m("resources", "removeStreams"), m("resources", "addConn"), m("resources", "addConns"), m("resources", "removeConn"), m("resources", "removeConns")}
	nMeth := 0
	for _, f := range c.FnsOfPkg(rmP) {
		if c.Parent(f) != nil || f.Signature.Recv() == nil {
			continue
		}
		if _, tn := typeNameOf(f.Signature.Recv().Type()); tn != "resourceScope" {
			continue
		}
		if fnKey(f) == m("resourceScope", "doneUnlocked") {
			continue
		}
		calls := findInstrsIn(f, func(in ssa.Instruction) bool {
			if !isCallTo(in, muts...) {
				return false
			}
			// on the receiver's own counters
			fa, ok := callArgs(in.(ssa.CallInstruction))[0].(*ssa.FieldAddr)
			return ok && isParamVar(c, fa.X, f.Params[0].Name())
		})
		if len(calls) == 0 {
			continue
		}
		nMeth++
		r2.guard(f, "change own counters", calls, "!s.done", edgeBool(isLoadOfField(rsT+".done"), false), nil)
	}
	if nMeth < 10 {
		r2.Fail("resourceScope methods changing counters", token.NoPos, fmt.Sprintf("expected at least 10 methods, found %d", nMeth), "")
	}

	// ---- R3 ---------------------------------------------------------------
	r3 := r.Rule("C03-R3", "E1", 15, "failure atomicity: every successful charge is undone on every later error exit (pair table); edge loops undo the reserved prefix; a released parent charge is re-taken before an error exit")
	type pr struct {
		fn       string
		acq, rel []string
		what     string
	}
	RS := func(n string) string { return m("resourceScope", n) }
	pairs := []pr{
		{RS("ReserveMemory"), []string{m("resources", "reserveMemory")}, []string{m("resources", "releaseMemory")}, "own memory"},
		{RS("AddStream"), []string{m("resources", "addStream")}, []string{m("resources", "removeStream")}, "own stream count"},
		{RS("AddConn"), []string{m("resources", "addConn")}, []string{m("resources", "removeConn")}, "own conn count"},
		{RS("ReserveForChild"), []string{m("resources", "reserveMemory")}, []string{m("resources", "releaseMemory")}, "stage 1 memory"},
		{RS("ReserveForChild"), []string{m("resources", "addStreams")}, []string{m("resources", "removeStreams")}, "stage 2 streams"},
		{m("connectionScope", "SetPeer"), []string{m("resourceManager", "getPeerScope")}, []string{RS("DecRef")}, "peer scope reference"},
		{m("streamScope", "SetProtocol"), []string{m("resourceManager", "getProtocolScope")}, []string{RS("DecRef")}, "protocol scope reference"},
		{m("streamScope", "SetProtocol"), []string{m("protocolScope", "getPeerScope")}, []string{RS("DecRef")}, "per-peer protocol scope reference"},
		{m("streamScope", "SetProtocol"), []string{RS("ReserveForChild")}, []string{RS("ReleaseForChild")}, "protocol scope charge"},
		{m("streamScope", "SetService"), []string{m("resourceManager", "getServiceScope")}, []string{RS("DecRef")}, "service scope reference"},
		{m("streamScope", "SetService"), []string{m("serviceScope", "getPeerScope")}, []string{RS("DecRef")}, "per-peer service scope reference"},
		{m("streamScope", "SetService"), []string{RS("ReserveForChild")}, []string{RS("ReleaseForChild")}, "service scope charge"},
		{m("connectionScope", "transferAllowedToStandard"), []string{RS("ReserveForChild")}, []string{RS("ReleaseForChild")}, "standard system charge"},
	}
	nAcq := 0
	for _, p := range pairs {
		f := r3.need(p.fn)
		if f == nil {
			continue
		}
		// get*Scope calls have no error result: their "success edge" is the call itself
		if strings.Contains(p.acq[0], ".get") {
			for _, acq := range callsIn(f, p.acq...) {
				nAcq++
				// the acquired scope is stored in a field of the receiver: releases are DecRef on that field path
				var fieldPath string
				for _, u := range finalUses(acq.(ssa.Value)) {
					if st, ok := u.(*ssa.Store); ok {
						fieldPath = pathOf(st.Addr)
					}
				}
				isRelDirect := func(in ssa.Instruction) bool {
					if !isCallTo(in, p.rel...) {
						return false
					}
					recv := callArgs(in.(ssa.CallInstruction))[0]
					rp := pathOf(recv)
					if fieldPath != "" && (rp == fieldPath || strings.HasPrefix(rp, fieldPath+".")) {
						return true
					}
					// ... or on the acquired value itself, kept in a local until the re-parenting is known to succeed
					// (through the embedded resourceScope)
					v := resolveLoad(strip2(recv))
					for d := 0; d < 6; d++ {
						if v == acq.(ssa.Value) {
							return true
						}
						if ld, isLd := v.(*ssa.UnOp); isLd && ld.Op == token.MUL {
							v = ld.X // (a scope embedded by pointer: *(&x.resourceScope))
							continue
						}
						fa, isFA := v.(*ssa.FieldAddr)
						if !isFA {
							break
						}
						v = resolveLoad(strip2(fa.X))
					}
					return false
				}
				// ... or a local closure / helper of the package every path of which drops that reference
				isRel := func(in ssa.Instruction) bool {
					if isRelDirect(in) {
						return true
					}
					ci, ok := in.(ssa.CallInstruction)
					if !ok {
						return false
					}
					g := ci.Common().StaticCallee()
					if g == nil {
						if mc, isMC := strip2(ci.Common().Value).(*ssa.MakeClosure); isMC {
							g, _ = mc.Fn.(*ssa.Function)
						}
					}
					if g == nil || g.Blocks == nil || g.Pkg == nil || g.Pkg.Pkg.Path() != Mod+rmP {
						return false
					}
					if len(findInstrs(g, isRelDirect)) == 0 {
						return false
					}
					w, _ := (&Cut{Fn: g, Target: func(x ssa.Instruction) bool { _, isRet := x.(*ssa.Return); return isRet }, Sep: isRelDirect}).Run(c)
					return w == ""
				}
				q := &Cut{Fn: f, From: []ssa.Instruction{acq.(ssa.Instruction)}, Sep: isRel, Target: func(in ssa.Instruction) bool {
					ret, ok := in.(*ssa.Return)
					return ok && !isNilConst(retVal(ret, errResultIndex(f)))
				}}
				w, n := q.Run(c)
				key := fmt.Sprintf("%s: reference from %s dropped (DecRef) on every later error exit", p.fn, calleeShort(acq))
				r3.Check(w == "" && fieldPath != "", key, instrPos(acq.(ssa.Instruction)), n+1, p.what, "a refused re-parenting step leaks a reference: the scope can never be collected", w)
			}
			continue
		}
		nAcq += pairUndo(c, r3, f, p.acq, p.rel, p.what, nil)
	}
	if nAcq < 14 {
		r3.Fail("pair table coverage", token.NoPos, fmt.Sprintf("expected at least 14 acquire sites with a later failure point, found %d", nAcq), "")
	}
	edgeLoopUndo(c, r3, RS("reserveMemoryForEdges"), RS("ReserveMemoryForChild"), RS("ReleaseMemoryForChild"))
	edgeLoopUndo(c, r3, RS("addStreamForEdges"), RS("AddStreamForChild"), RS("RemoveStreamForChild"))
	edgeLoopUndo(c, r3, RS("addConnForEdges"), RS("AddConnForChild"), RS("RemoveConnForChild"))
	// own charge then edges: the ...ForEdges failure undoes the own charge
	for _, e := range []struct{ fn, edges, undo string }{
		{RS("ReserveMemory"), RS("reserveMemoryForEdges"), m("resources", "releaseMemory")},
		{RS("AddStream"), RS("addStreamForEdges"), m("resources", "removeStream")},
		{RS("AddConn"), RS("addConnForEdges"), m("resources", "removeConn")},
	} {
		if f := r3.need(e.fn); f != nil {
			var fail []CFGEdge
			for _, b := range blocksDeep(f) {
				for s := range b.Succs {
					if edgeNil(isCallResult(0, e.edges), false)(b, s) {
						fail = append(fail, CFGEdge{b, s})
					}
				}
			}
			if len(fail) == 0 {
				r3.Fail(e.fn+": edge failure branch", f.Pos(), "not found", "")
				continue
			}
			q := &Cut{Fn: f, FromEdges: fail, Sep: callPred(e.undo), Target: func(in ssa.Instruction) bool { _, ok := in.(*ssa.Return); return ok }}
			r3.mustPass(f, e.fn+": a refusal by a constraining scope undoes the scope's own charge", q, len(fail))
		}
	}
	// openConnection / OpenStream: the fresh scope is Done() on the error exit; the per-subnet slot goes with it
	for _, e := range []struct{ fn, scopeVar string }{{m("resourceManager", "openConnection"), "conn"}, {m("resourceManager", "OpenStream"), "stream"}} {
		if f := r3.need(e.fn); f != nil {
			var errRets []ssa.Instruction
			for _, ret := range returnsOf(f) {
				if !isNilConst(retVal(ret, 1)) {
					errRets = append(errRets, ret)
				}
			}
			news := findInstrs(f, callPred(rmP+".newConnectionScope", rmP+".newAllowListedConnectionScope", rmP+".newStreamScope"))
			dones := func(in ssa.Instruction) bool {
				return isCallTo(in, m("connectionScope", "Done"), m("resourceScope", "Done"), m("streamScope", "Done"))
			}
			q := &Cut{Fn: f, From: news, Sep: dones, Target: inSet(errRets)}
			r3.mustPass(f, e.fn+": a refused open destroys the scope it created (returning every charge and the per-subnet slot)", q, len(news))
		}
	}
	if f := r3.need(m("resourceManager", "openConnection")); f != nil {
		// between taking the per-subnet slot and creating the scope there is no exit
		adds := findInstrs(f, callPred(m("connLimiter", "addConn")))
		q := &Cut{Fn: f, From: adds, Sep: callPred(rmP + ".newConnectionScope"), EdgeCut: edgeBool(isCallResult(0, m("connLimiter", "addConn")), false),
			Target: func(in ssa.Instruction) bool { _, ok := in.(*ssa.Return); return ok }}
		r3.mustPass(f, "openConnection: no exit between taking the per-subnet slot and creating the scope that owns it", q, len(adds))
	}
	// reverse direction: parent charges released, then a refusal: the charge must be re-taken
	if f := r3.need(m("connectionScope", "transferAllowedToStandard")); f != nil {
		rels := findInstrs(f, func(in ssa.Instruction) bool {
			if !isCallTo(in, RS("ReleaseForChild")) {
				return false
			}
			// on an element of the current edges
			return derivesFrom(callArgs(in.(ssa.CallInstruction))[0], isLoadOfField(rsT+".edges"))
		})
		if len(rels) == 0 {
			r3.Fail(m("connectionScope", "transferAllowedToStandard")+": release of the current parents", f.Pos(), "not found", "")
		} else {
			q := &Cut{Fn: f, From: rels, Target: func(in ssa.Instruction) bool {
				ret, ok := in.(*ssa.Return)
				return ok && !isNilConst(retVal(ret, 0))
			}, Sep: func(in ssa.Instruction) bool {
				// re-reservation on the former parents
				return isCallTo(in, RS("ReserveForChild")) && derivesFrom(callArgs(in.(ssa.CallInstruction))[0], isLoadOfField(rsT+".edges")) && false
			}}
			w, n := q.Run(c)
			key := m("connectionScope", "transferAllowedToStandard")
			if w == "" {
				r3.OK(key, f.Pos(), n+1, "no error exit after the current parents were released")
			} else {
				r3.Fail(key, f.Pos(), "the allow-listed parents are released and the edge list cleared before the standard scopes accept the charge; on refusal the open connection is charged to no parent", w)
			}
		}
	}
	// SetPeer / SetProtocol: the transient charge is released only after the new parent accepted
	for _, fnK := range []string{m("connectionScope", "SetPeer"), m("streamScope", "SetProtocol")} {
		if f := r3.need(fnK); f != nil {
			rels := findInstrs(f, func(in ssa.Instruction) bool {
				if !isCallTo(in, RS("ReleaseForChild")) {
					return false
				}
				return strings.Contains(pathOf(callArgs(in.(ssa.CallInstruction))[0]), "transient") || strings.HasPrefix(pathOf(callArgs(in.(ssa.CallInstruction))[0]), "v:")
			})
			q := &Cut{Fn: f, From: rels, Target: func(in ssa.Instruction) bool {
				ret, ok := in.(*ssa.Return)
				return ok && !isNilConst(retVal(ret, 0))
			}}
			w, n := q.Run(c)
			r3.Check(w == "" && len(rels) >= 1, fnK+": no error exit after the transient charge was released", f.Pos(), n+1, "", "", w)
			// and the edge list is replaced on every success path
			for _, ret := range successReturns(f) {
				w, n := (&Cut{Fn: f, Target: isInstr(ret), EdgeCut: failCut(ret), Sep: fieldWritePred(rsT + ".edges")}).Run(c)
				r3.Check(w == "", fnKey(f)+": success replaces the edge list", instrPos(ret), n+1, "", "", w)
			}
		}
	}
	// SetPeer: the transient scope that is released and the system scope that stays in the edge list are the pair
	// the connection is charged to on that path: the allow-listed pair while it is (still) allow-listed, the
	// standard pair otherwise — in particular after transferAllowedToStandard moved it.
	if f := r3.need(m("connectionScope", "SetPeer")); f != nil {
		rmT := rmP + ".resourceManager"
		kind := func(v ssa.Value) string {
			v = strip2(v)
			for _, k := range []struct{ field, kind string }{{"system", "std-system"}, {"transient", "std-transient"}, {"allowlistedSystem", "allow-system"}, {"allowlistedTransient", "allow-transient"}} {
				if isLoadOfField(rmT + "." + k.field)(v) {
					return k.kind
				}
			}
			return "?"
		}
		var relT ssa.CallInstruction
		for _, call := range callsIn(f, RS("ReleaseForChild")) {
			relT = call
		}
		// the system scope placed in the new edge list
		var sysV ssa.Value
		var sysSite ssa.Instruction
		allInstrs(f, func(in ssa.Instruction) {
			st, ok := in.(*ssa.Store)
			if !ok {
				return
			}
			ia, ok := st.Addr.(*ssa.IndexAddr)
			if !ok {
				return
			}
			if k, isC := constInt(ia.Index); !isC || k != 1 {
				return
			}
			// value: &X.resourceScope of a *systemScope
			if fa, ok := st.Val.(*ssa.FieldAddr); ok && strings.Contains(fa.X.Type().String(), "systemScope") {
				sysV, sysSite = fa.X, in
			} else if ld, ok := st.Val.(*ssa.UnOp); ok {
				if fa, ok := ld.X.(*ssa.FieldAddr); ok && strings.Contains(fa.X.Type().String(), "systemScope") {
					sysV, sysSite = fa.X, in
				}
			}
		})
		key := m("connectionScope", "SetPeer") + ": released transient / kept system are the pair the connection is charged to on that path"
		if relT == nil || sysV == nil {
			r3.Fail(key, f.Pos(), "release of the transient scope or the system entry of the new edge list not found", "")
		} else {
			marks := map[string]func(ssa.Instruction) bool{"transfer": callPred(m("connectionScope", "transferAllowedToStandard"))}
			edgeMarks := map[string]EdgePred{
				"allowlisted":    edgeBool(isLoadOfField(rmP+".connectionScope.isAllowlisted"), true),
				"notAllowlisted": edgeBool(isLoadOfField(rmP+".connectionScope.isAllowlisted"), false),
			}
			bad := ""
			total := 0
			for _, site := range []struct {
				in   ssa.Instruction
				v    ssa.Value
				want string
			}{{relT.(ssa.Instruction), embeddingBase(callArgs(relT)[0]), "transient"}, {sysSite, sysV, "system"}} {
				obs, overflow := enumPathsTo(f, site.in, marks, edgeMarks, []ssa.Value{site.v}, 5000)
				if overflow || len(obs) == 0 {
					bad = "path enumeration failed"
					break
				}
				total += len(obs)
				for _, o := range obs {
					want := "std-" + site.want
					if o.passed["allowlisted"] && !o.passed["transfer"] {
						want = "allow-" + site.want
					}
					if got := kind(o.vals[0]); got != want {
						bad = fmt.Sprintf("on path b%v (allowlisted=%v transferred=%v) the %s scope used is %s, expected %s", o.trace, o.passed["allowlisted"], o.passed["transfer"], site.want, got, want)
					}
				}
			}
			r3.Check(bad == "", key, instrPos(relT.(ssa.Instruction)), total, "", "the transient charge is released from a scope that does not hold it (the other one keeps it forever), or the edge list names a system scope the connection is not charged to", bad)
		}
	}

	// ---- R4 ---------------------------------------------------------------
	r4 := r.Rule("C03-R4", "E3/E1", 6, "release once: done=true only in doneUnlocked past the done check; per-subnet slot returned only past !done && ip valid; taken only in openConnection for a valid ip")
	r4.onlyIn("write "+rsT+".done", fieldWritePred(rsT+".done"), c.FnsOfPkg(rmP), RS("doneUnlocked"))
	if f := r4.need(RS("doneUnlocked")); f != nil {
		effects := findInstrs(f, func(in ssa.Instruction) bool {
			return isCallTo(in, RS("ReleaseForChild"), RS("ReleaseResources"), RS("DecRef")) || isFieldWrite(in, rsT+".done")
		})
		r4.guard(f, "release to parents / mark done", effects, "!s.done", edgeBool(isLoadOfField(rsT+".done"), false), nil)
		// every not-done path marks done
		q := &Cut{Fn: f, Target: func(in ssa.Instruction) bool { _, ok := in.(*ssa.Return); return ok }, Sep: fieldWritePred(rsT + ".done"), EdgeCut: edgeBool(isLoadOfField(rsT+".done"), true)}
		r4.mustPass(f, RS("doneUnlocked")+": a scope that was open is marked done", q, 1)
	}
	rmConnK := m("connLimiter", "rmConn")
	if f := r4.need(m("connectionScope", "Done")); f != nil {
		rms := findInstrs(f, callPred(rmConnK))
		r4.guard(f, "connLimiter.rmConn", rms, "!s.done", edgeBool(isLoadOfField(rsT+".done"), false), nil)
		r4.guard(f, "connLimiter.rmConn", rms, "s.ip.IsValid()", edgeBool(isCallResult(0, "(net/netip.Addr).IsValid"), true), nil)
		// and the scope is then destroyed (so the guard is effective the next time)
		for _, rm := range rms {
			q := &Cut{Fn: f, From: []ssa.Instruction{rm}, Sep: callPred(RS("doneUnlocked")), Target: func(in ssa.Instruction) bool { _, ok := in.(*ssa.Return); return ok }}
			r4.mustPass(f, m("connectionScope", "Done")+": rmConn is followed by doneUnlocked", q, 1)
		}
		// a valid-ip open scope returns its slot: every not-done exit with a valid ip passes rmConn
		q := &Cut{Fn: f, Sep: inSet(rms), Target: callPred(RS("doneUnlocked")), EdgeCut: edgeBool(isCallResult(0, "(net/netip.Addr).IsValid"), false)}
		r4.mustPass(f, m("connectionScope", "Done")+": [valid ip] the slot is returned before the scope is destroyed", q, 1)
	}
	r4.onlyCallers("call connLimiter.rmConn", []string{rmConnK}, c.FnsOfPkg(rmP), m("connectionScope", "Done"))
	r4.onlyCallers("call connLimiter.addConn", []string{m("connLimiter", "addConn")}, c.FnsOfPkg(rmP), m("resourceManager", "openConnection"))
	if f := r4.need(m("resourceManager", "openConnection")); f != nil {
		adds := findInstrs(f, callPred(m("connLimiter", "addConn")))
		r4.guard(f, "connLimiter.addConn", adds, "ip.IsValid()", edgeBool(isCallResult(0, "(net/netip.Addr).IsValid"), true), nil)
		// the scope is created with the same ip (so Done returns the same slot)
		for _, n := range callsIn(f, rmP+".newConnectionScope") {
			a := n.Common().Args
			r4.Check(isParamVar(c, a[len(a)-1], "ip"), "openConnection: scope remembers the ip whose slot it holds", instrPos(n.(ssa.Instruction)), 1, "", "", "")
		}
	}

	// ---- R5 ---------------------------------------------------------------
	r5 := r.Rule("C03-R5", "E6/E7", 10, "every limit error carries network.ErrResourceLimitExceeded and unwraps to it")
	isSentinel := func(v ssa.Value) bool {
		u, ok := v.(*ssa.UnOp)
		if !ok || u.Op != token.MUL {
			return false
		}
		g, ok := u.X.(*ssa.Global)
		return ok && g.Name() == "ErrResourceLimitExceeded" && g.Pkg != nil && g.Pkg.Pkg.Path() == Mod+"core/network"
	}
	nLit := 0
	for _, T := range []string{"ErrStreamOrConnLimitExceeded", "ErrMemoryLimitExceeded"} {
		for _, f := range c.FnsOfPkg(rmP) {
			for _, st := range findInstrsIn(f, fieldWritePred(rmP+"."+T+".err")) {
				nLit++
				v := st.(*ssa.Store).Val
				ok := isSentinel(strip2(v))
				if !ok {
					if ef := isResultOfCall(v, 0, "fmt.Errorf"); ef != nil {
						format, _ := constString(ef.Common().Args[0])
						ok = strings.Contains(format, "%w") && derivesFrom(ef.Common().Args[1], isSentinel)
					}
				}
				r5.Check(ok, fnKey(f)+": "+T+"{err: ...ErrResourceLimitExceeded}", instrPos(st), 1, "", "a refusal no longer satisfies errors.Is(err, network.ErrResourceLimitExceeded)", describeVal(v))
			}
		}
		if uf := r5.need("(*" + rmP + "." + T + ").Unwrap"); uf != nil {
			for _, ret := range returnsOf(uf) {
				r5.Check(isLoadOfField(rmP+"."+T+".err")(strip2(ret.Results[0])), "(*"+T+").Unwrap returns e.err", instrPos(ret), 1, "", "", "")
			}
		}
	}
	if nLit < 8 {
		r5.Fail("limit error literals", token.NoPos, fmt.Sprintf("expected at least 8 literals, found %d", nLit), "")
	}
	// the refusing functions return these types
	for _, k := range []string{m("resources", "checkMemory"), m("resources", "addStreams"), m("resources", "addConns")} {
		if f := r5.need(k); f != nil {
			n := 0
			for _, ret := range returnsOf(f) {
				if mi, ok := ret.Results[0].(*ssa.MakeInterface); ok {
					ts := mi.X.Type().String()
					if strings.HasSuffix(ts, "ErrStreamOrConnLimitExceeded") || strings.HasSuffix(ts, "ErrMemoryLimitExceeded") {
						n++
					}
				}
			}
			r5.Check(n >= 1, k+": refusals are limit errors", f.Pos(), n, "", "the function no longer refuses with a limit error", "")
		}
	}
	// wrapError keeps the chain (%w)
	if f := r5.need(RS("wrapError")); f != nil {
		ok := false
		for _, ef := range callsIn(f, "fmt.Errorf") {
			format, _ := constString(ef.Common().Args[0])
			ok = strings.Contains(format, "%w") && derivesFrom(ef.Common().Args[1], func(v ssa.Value) bool { return isParamVar(c, v, "err") })
		}
		r5.Check(ok, RS("wrapError")+": wraps with %w", f.Pos(), 1, "", "the scope name wrapper breaks errors.Is", "")
	}

	// ---- R6 ---------------------------------------------------------------
	// ---- R7 ---------------------------------------------------------------
	r7 := r.Rule("C03-R7", "E7b/E5", 8, "span owners receive the full operation (never a *ForChild call, which stops one level up); connLimiter counts a connection only while the count is below the cap it is compared with")
	{
		// siblings: s.owner.X(..) in the owner branch of every operation, e.X-ForChild(..) on the edges
		nOwner := 0
		for _, f := range c.FnsOfPkg(rmP) {
			allInstrsIn(f, func(in ssa.Instruction) {
				ci, ok := in.(ssa.CallInstruction)
				if !ok {
					return
				}
				sc := ci.Common().StaticCallee()
				if sc == nil || sc.Signature.Recv() == nil || len(ci.Common().Args) == 0 {
					return
				}
				if !isLoadOfField(rsT + ".owner")(strip2(ci.Common().Args[0])) {
					return
				}
				nOwner++
				r7.Check(!strings.HasSuffix(sc.Name(), "ForChild"), fnKey(f)+": the owner of a span gets the whole operation ("+sc.Name()+")", instrPos(in), 1, "",
					"a *ForChild call adjusts only the owner's own counters: the owner's parents (peer, system, ...) are never told, so nested spans leak or double-count one level up", sc.Name())
			})
		}
		r7.Check(nOwner >= 7, "calls on resourceScope.owner", token.NoPos, nOwner, "", "", "")
	}
	if f := r7.need(m("connLimiter", "addConn")); f != nil {
		isLimit := func(v ssa.Value) bool { fl, _ := loadOfField(strip2(v)); return fl != nil && fl.Name() == "ConnCount" }
		// increments: x = x + 1 on a slice element or a map entry
		type inc struct {
			in  ssa.Instruction
			old ssa.Value
		}
		var incs []inc
		allInstrs(f, func(in ssa.Instruction) {
			var val ssa.Value
			switch x := in.(type) {
			case *ssa.Store:
				if _, ok := x.Addr.(*ssa.IndexAddr); ok {
					val = x.Val
				}
			case *ssa.MapUpdate:
				val = x.Value
			}
			if bo, ok := val.(*ssa.BinOp); ok && bo.Op == token.ADD {
				if k, isC := constInt(bo.Y); isC && k == 1 {
					incs = append(incs, inc{in, bo.X})
				}
			}
		})
		r7.Check(len(incs) >= 2, m("connLimiter", "addConn")+": count increments (network-prefix and per-subnet)", f.Pos(), len(incs), "", "", "")
		isCount := func(v ssa.Value) bool {
			v = strip2(v)
			if ld, ok := v.(*ssa.UnOp); ok && ld.Op == token.MUL {
				if _, isIA := ld.X.(*ssa.IndexAddr); isIA && isIntType(ld.Type()) {
					return true
				}
			}
			if lk, ok := v.(*ssa.Lookup); ok && isIntType(lk.Type()) {
				return true
			}
			if ex, ok := v.(*ssa.Extract); ok && ex.Index == 0 {
				if _, isLk := ex.Tuple.(*ssa.Lookup); isLk && isIntType(ex.Type()) {
					return true
				}
			}
			return false
		}
		isCountPlus1 := func(v ssa.Value) bool {
			bo, ok := v.(*ssa.BinOp)
			if !ok || bo.Op != token.ADD {
				return false
			}
			k, isC := constInt(bo.Y)
			return isC && k == 1 && isCount(bo.X)
		}
		below := anyEdge(edgeExcl(isCountPlus1, isLimit, ordGT), edgeExcl(isCount, isLimit, ordEQ, ordGT))
		// which loop (over which slice) an instruction sits in
		rangedOver := func(h *ssa.BasicBlock) ssa.Value {
			if h == nil {
				return nil
			}
			i := ifOf(h)
			if i == nil {
				return nil
			}
			bo, ok := i.Cond.(*ssa.BinOp)
			if !ok || bo.Op != token.LSS {
				return nil
			}
			ln, ok := bo.Y.(*ssa.Call)
			if !ok || calleeKey(ln) != "builtin.len" {
				return nil
			}
			return strip2(ln.Call.Args[0])
		}
		// check loops: loops in which a count is compared with ConnCount
		type chk struct {
			h    *ssa.BasicBlock
			over ssa.Value
			ok   bool
		}
		var checks []chk
		seenH := map[*ssa.BasicBlock]bool{}
		for _, b := range blocksDeep(f) {
			if ifOf(b) == nil {
				continue
			}
			isChk := false
			for s := range b.Succs {
				if below(b, s) {
					isChk = true
				}
			}
			if !isChk {
				continue
			}
			h := iterationOf(f, b)
			if h == nil || seenH[h] {
				continue
			}
			seenH[h] = true
			// does every iteration that goes on (next element, or normal loop exit) pass the test? (needed when the
			// counting happens in a second loop over the same list)
			w, _ := (&Cut{Fn: f, FromEdges: []CFGEdge{{h, 0}}, EdgeCut: below, Target: func(in ssa.Instruction) bool {
				return in.Block() == h && instrIndex(in) == 0
			}}).Run(c)
			checks = append(checks, chk{h, rangedOver(h), w == ""})
		}
		for _, i := range incs {
			// a slice element count: counted only past the test of that very element (same index), loop or no loop
			if st, isSt := i.in.(*ssa.Store); isSt {
				ia := st.Addr.(*ssa.IndexAddr)
				sameIdx := func(v ssa.Value) bool {
					ld, ok := strip2(v).(*ssa.UnOp)
					if !ok || ld.Op != token.MUL {
						return false
					}
					a, ok := ld.X.(*ssa.IndexAddr)
					return ok && resolveLoad(a.Index) == resolveLoad(ia.Index) && isIntType(ld.Type())
				}
				plus1 := func(v ssa.Value) bool {
					bo, ok := v.(*ssa.BinOp)
					if !ok || bo.Op != token.ADD {
						return false
					}
					k, isC := constInt(bo.Y)
					return isC && k == 1 && sameIdx(bo.X)
				}
				r7.guard(f, "counts[i]++", []ssa.Instruction{i.in}, "counts[i] + 1 <= limits[i].ConnCount", anyEdge(edgeExcl(plus1, isLimit, ordGT), edgeExcl(sameIdx, isLimit, ordEQ, ordGT)), nil)
				continue
			}
			h := iterationOf(f, i.in.Block())
			over := rangedOver(h)
			// counted in the loop that tested it, or in a later loop over the very same list, entered only after the test loop
			ok := false
			for _, ck := range checks {
				if over == nil || ck.over != over {
					continue
				}
				if ck.h == h {
					// counted in the iteration that tested this very element
					w, _ := (&Cut{Fn: f, FromEdges: []CFGEdge{{h, 0}}, EdgeCut: below, Target: isInstr(i.in)}).Run(c)
					ok = ok || w == ""
				} else if ck.ok {
					// counted in a later loop over the same list: the test loop tests every element and comes first
					w, _ := (&Cut{Fn: f, Target: isInstr(i.in), Sep: isInstr(ck.h.Instrs[0])}).Run(c)
					ok = ok || w == ""
				}
			}
			r7.Check(ok, m("connLimiter", "addConn")+": a count is incremented only for a limit list whose every entry passed count + 1 <= ConnCount", instrPos(i.in), 2, "", "the limiter admits one connection more than the cap (or counts without testing)", "")
		}
	}

	r6 := r.Rule("C03-R6", "E3", 6, "counters of `resources` written only by its own methods and zeroed in doneUnlocked")
	for _, fld := range []string{"nconnsIn", "nconnsOut", "nstreamsIn", "nstreamsOut", "nfd", "memory"} {
		key := resT + "." + fld
		n := 0
		for _, f := range c.FnsOfPkg(rmP) {
			for _, st := range findInstrsIn(f, fieldWritePred(key)) {
				n++
				root := c.Root(f)
				isOwn := root.Signature.Recv() != nil && func() bool { _, tn := typeNameOf(root.Signature.Recv().Type()); return tn == "resources" }()
				if isOwn {
					continue
				}
				zero := false
				if k, ok := constInt(st.(*ssa.Store).Val); ok && k == 0 && fnKey(root) == RS("doneUnlocked") {
					zero = true
				}
				if !zero {
					r6.Fail("write "+key+" in "+fnKey(f), instrPos(st), "counter written outside the resources methods (other than the zeroing in doneUnlocked)", "")
				}
			}
		}
		r6.Check(n > 0, "writers of "+key, token.NoPos, n, fmt.Sprintf("%d writes, all in resources methods / doneUnlocked", n), "no writer found (field renamed?)", "")
	}

	// ---- R8: the reservation's priority and size reach every scope that constrains it ---------------------------
	// "never more than the limit scaled by priority" holds in every constraining scope only if the caller's priority
	// (and size) is what each level hands to the next: ReserveMemory -> resources.reserveMemory / reserveMemoryForEdges
	// -> owner.ReserveMemory / edge.ReserveMemoryForChild -> resources.reserveMemory -> checkMemory. (ReserveForChild,
	// which re-parents an existing charge, is the one place that uses ReservationPriorityAlways; it is not in the chain.)
	r8 := r.Rule("C03-R8", "E6", 16, "memory reservations thread the caller's priority and size unchanged through every level: ReserveMemory, reserveMemoryForEdges, ReserveMemoryForChild, resources.reserveMemory, checkMemory")
	chain := map[string]bool{RS("ReserveMemory"): true, RS("reserveMemoryForEdges"): true, RS("ReserveMemoryForChild"): true, m("resources", "reserveMemory"): true, m("resources", "checkMemory"): true}
	for _, fk := range []string{RS("ReserveMemory"), RS("reserveMemoryForEdges"), RS("ReserveMemoryForChild"), m("resources", "reserveMemory")} {
		f := r8.need(fk)
		if f == nil {
			continue
		}
		var prioP, sizeP *ssa.Parameter
		for _, p := range f.Params {
			if bt, ok := p.Type().Underlying().(*types.Basic); ok && bt.Kind() == types.Uint8 {
				prioP = p
			} else if ok && (bt.Kind() == types.Int || bt.Kind() == types.Int64) {
				sizeP = p
			}
		}
		if prioP == nil || sizeP == nil {
			r8.Fail(fk+": priority / size parameters", f.Pos(), "not identified", "")
			continue
		}
		n := 0
		for _, in := range findInstrs(f, func(in ssa.Instruction) bool { ci, ok := in.(ssa.CallInstruction); return ok && chain[calleeKey(ci)] }) {
			ci := in.(ssa.CallInstruction)
			callee := calleeKey(ci)
			n++
			var gotPrio, gotSize ssa.Value
			for _, a := range ci.Common().Args {
				if bt, ok := a.Type().Underlying().(*types.Basic); ok && bt.Kind() == types.Uint8 {
					gotPrio = a
				} else if ok && (bt.Kind() == types.Int || bt.Kind() == types.Int64) {
					gotSize = a
				}
			}
			isP := func(v ssa.Value, p *ssa.Parameter) bool {
				return v != nil && (strip(v) == ssa.Value(p) || isParamCellLoad(c, strip(v), p))
			}
			r8.Check(isP(gotPrio, prioP), fk+": passes its caller's priority to "+calleeShort0(callee), instrPos(ci.(ssa.Instruction)), 1, "",
				"the scopes above enforce the full limit (or another threshold) instead of the limit scaled by the reservation's priority", describeVal(gotPrio))
			r8.Check(isP(gotSize, sizeP), fk+": passes its caller's size to "+calleeShort0(callee), instrPos(ci.(ssa.Instruction)), 1, "",
				"a constraining scope is charged another amount than the scope that asked", describeVal(gotSize))
		}
		r8.Check(n >= 1, fk+": hands the reservation on", f.Pos(), n, "", "the reservation never reaches the next level", "")
	}

	// ---- R9 ---------------------------------------------------------------
	r9 := r.Rule("C03-R9", "E7b", 10, "limit tests are exact: in the admission functions every comparison of a prospective total with a configured limit refuses exactly when the total is greater than the limit (refusing at the limit wastes the last unit the statement grants; admitting above it exceeds the limit)")
	limitShape(c, r9, 7, m("resources", "addStreams"), m("resources", "addConns"), m("resources", "checkMemory"), m("connLimiter", "addConn"))

	// ---- R10 --------------------------------------------------------------
	r10 := r.Rule("C03-R10", "E7b/E8", 4, "scope retirement: IncRef / DecRef move the reference count by exactly one; IsUnused answers true exactly when the scope is done, or is not referenced and holds no stream, connection or descriptor (a scope collected while it holds something starts again from zero: its holders are then charged to nobody)")
	for _, k := range []struct {
		fn string
		op token.Token
	}{{"IncRef", token.ADD}, {"DecRef", token.SUB}} {
		f := r10.need(m("resourceScope", k.fn))
		if f == nil {
			continue
		}
		sts := findInstrs(f, fieldWritePred(rsT+".refCnt"))
		okD := len(sts) == 1
		if okD {
			bo, isB := resolveLoad(strip(sts[0].(*ssa.Store).Val)).(*ssa.BinOp)
			okD = isB && isLoadOfField(rsT+".refCnt")(strip2(bo.X))
			if okD {
				kv, isC := constInt(bo.Y)
				okD = isC && ((bo.Op == k.op && kv == 1) || (bo.Op != k.op && (bo.Op == token.ADD || bo.Op == token.SUB) && kv == -1))
			}
		}
		r10.Check(okD, m("resourceScope", k.fn)+": refCnt moves by exactly one in the right direction", f.Pos(), 1, "", "a scope with live children is collected, or an idle one never is", "")
	}
	if f := r10.need(m("resourceScope", "BeginSpan")); f != nil {
		sts := findInstrs(f, func(in ssa.Instruction) bool {
			st, ok := in.(*ssa.Store)
			if !ok || !isFieldWrite(in, rsT+".refCnt") {
				return false
			}
			bo, isB := resolveLoad(strip(st.Val)).(*ssa.BinOp)
			kv, isC := int64(0), false
			if isB {
				kv, isC = constInt(bo.Y)
			}
			return isB && isC && bo.Op == token.ADD && kv == 1 && isLoadOfField(rsT+".refCnt")(strip2(bo.X))
		})
		w, n := (&Cut{Fn: f, Sep: inSet(sts), Target: func(in ssa.Instruction) bool {
			ret, ok := in.(*ssa.Return)
			return ok && isSuccessReturn(ret)
		}}).Run(c)
		r10.Check(w == "" && len(sts) >= 1, m("resourceScope", "BeginSpan")+": a span counts as a reference to its owner", f.Pos(), n+1, "", "the span's Done drops a reference that was never taken", w)
	}
	rmT := rmP + ".resourceManager"
	incK := m("resourceScope", "IncRef")
	for _, g := range []struct{ fn, mp, ctor string }{
		{m("resourceManager", "getServiceScope"), rmT + ".svc", rmP + ".newServiceScope"},
		{m("resourceManager", "getProtocolScope"), rmT + ".proto", rmP + ".newProtocolScope"},
		{m("resourceManager", "getPeerScope"), rmT + ".peer", rmP + ".newPeerScope"},
		{m("serviceScope", "getPeerScope"), rmP + ".serviceScope.peers", rmP + ".newResourceScope"},
		{m("protocolScope", "getPeerScope"), rmP + ".protocolScope.peers", rmP + ".newResourceScope"},
	} {
		if f := r10.need(g.fn); f != nil {
			r10.lookupOrCreate(f, g.mp, g.ctor, incK)
		}
	}
	if f := r10.need(m("resourceScope", "IsUnused")); f != nil {
		var fieldName func(v ssa.Value) string
		fieldName = func(v ssa.Value) string {
			v = resolveLoad(strip2(v))
			if fv, ok := v.(*ssa.Field); ok {
				if st, isSt := fv.X.Type().Underlying().(*types.Struct); isSt {
					return st.Field(fv.Field).Name()
				}
			}
			if fl, _ := loadOfField(v); fl != nil {
				return fl.Name()
			}
			return ""
		}
		names := []string{"done", "refCnt", "NumStreamsInbound", "NumStreamsOutbound", "NumConnsInbound", "NumConnsOutbound", "NumFD"}
		// (the counter itself or its copy in the stat snapshot)
		alias := map[string]string{"nstreamsIn": "NumStreamsInbound", "nstreamsOut": "NumStreamsOutbound", "nconnsIn": "NumConnsInbound", "nconnsOut": "NumConnsOutbound", "nfd": "NumFD"}
		fieldName0 := fieldName
		fieldName = func(v ssa.Value) string {
			n := fieldName0(v)
			if a, ok := alias[n]; ok {
				return a
			}
			return n
		}
		var atoms []atomPred
		for _, nm := range names {
			nm := nm
			atoms = append(atoms, func(v ssa.Value) (bool, bool) {
				if nm == "done" {
					return fieldName(v) == "done", true
				}
				bo, ok := v.(*ssa.BinOp)
				if !ok {
					return false, false
				}
				x, y, op := bo.X, bo.Y, bo.Op
				if z0, isC0 := constInt(x); isC0 && z0 == 0 { // 0 < refCnt, 0 == NumFD
					x, y = y, x
					switch op {
					case token.LSS:
						op = token.GTR
					case token.GTR:
						op = token.LSS
					case token.LEQ:
						op = token.GEQ
					case token.GEQ:
						op = token.LEQ
					}
				}
				z, isC := constInt(y)
				if !isC || z != 0 || fieldName(x) != nm {
					return false, false
				}
				bo = &ssa.BinOp{Op: op, X: x, Y: y}
				if nm == "refCnt" { // atom: refCnt > 0
					switch bo.Op {
					case token.GTR:
						return true, true
					case token.LEQ:
						return true, false
					}
					return false, false
				}
				switch bo.Op { // atom: field == 0
				case token.EQL:
					return true, true
				case token.NEQ:
					return true, false
				}
				return false, false
			})
		}
		tab, okT := boolReturnTable(f, atoms, 0)
		bad := ""
		for a := 0; a < 1<<len(atoms) && okT; a++ {
			want := 1
			if a&1 != 0 || (a&2 == 0 && a&0x7c == 0x7c) {
				want = 2
			}
			if got, seen := tab[a]; seen && got != want && bad == "" {
				bad = fmt.Sprintf("with done=%v referenced=%v zero-counters=%05b the answer can be %s", a&1 != 0, a&2 != 0, a>>2, []string{"", "false", "true", "false or true"}[got])
			}
		}
		r10.Check(okT && bad == "" && len(tab) > 0, m("resourceScope", "IsUnused")+": true exactly when done, or unreferenced with every counter at zero", f.Pos(), len(tab), "", "a scope that still holds something is collected (its holders are then charged to nobody), or an idle one never is", bad)
	}

	// ---- R11 --------------------------------------------------------------
	r11 := r.Rule("C03-R11", "E1/E8", 40, "release completeness: every release entry point takes the amount off its own counters and hands it to what constrains the scope (the owner, or every edge); Done returns the whole balance, zeroes the counters and marks the scope; the base counters move by exactly the amount given")
	// (a) base counters: x += n on the accepting paths of the add functions, x -= n in the remove functions
	delta := func(fn string, op token.Token, pairs ...string) {
		f := r11.need(m("resources", fn))
		if f == nil {
			return
		}
		for i := 0; i+1 < len(pairs); i += 2 {
			field, pname := pairs[i], pairs[i+1]
			// (the amount is the (i/2+1)-th parameter after the receiver, whatever it is called)
			var p *ssa.Parameter
			if k := i/2 + 1; k < len(f.Params) {
				p = f.Params[k]
			}
			// the new value is computed as counter op amount (possibly clamped or kept in a local before it is stored)
			isStep := func(v ssa.Value) bool {
				bo, isB := v.(*ssa.BinOp)
				if !isB || bo.Op != op || !isLoadOfField(resT+"."+field)(strip2(bo.X)) {
					return false
				}
				y := resolveLoad(strip2(bo.Y))
				return y == ssa.Value(p) || isParamCellLoad(c, y, p)
			}
			sts := findInstrs(f, func(in ssa.Instruction) bool {
				st, ok := in.(*ssa.Store)
				if !ok || !isFieldWrite(in, resT+"."+field) || p == nil {
					return false
				}
				return derivesFrom(st.Val, isStep)
			})
			tgt := func(in ssa.Instruction) bool {
				ret, ok := in.(*ssa.Return)
				return ok && (errResultIndex(f) < 0 || isSuccessReturn(ret))
			}
			w, n := (&Cut{Fn: f, Target: tgt, Sep: inSet(sts)}).Run(c)
			r11.Check(w == "" && len(sts) >= 1, fmt.Sprintf("%s: %s %s= %s on every accepting path", m("resources", fn), field, op, pname), f.Pos(), n+1, "", "the counter no longer is the sum of what its holders were charged", w)
		}
	}
	delta("reserveMemory", token.ADD, "memory", "size")
	delta("releaseMemory", token.SUB, "memory", "size")
	delta("addStreams", token.ADD, "nstreamsIn", "incount", "nstreamsOut", "outcount")
	delta("removeStreams", token.SUB, "nstreamsIn", "incount", "nstreamsOut", "outcount")
	delta("addConns", token.ADD, "nconnsIn", "incount", "nconnsOut", "outcount", "nfd", "fdcount")
	delta("removeConns", token.SUB, "nconnsIn", "incount", "nconnsOut", "outcount", "nfd", "fdcount")
	// (b) scope level: unless the scope is done, each of these calls lies on every path to the return
	isDone := edgeBool(func(v ssa.Value) bool { return isLoadOfField(rsT + ".done")(strip2(v)) }, true)
	ownerNil := func(wantNil bool) EdgePred {
		return edgeNil(func(v ssa.Value) bool { return isLoadOfField(rsT + ".owner")(strip2(v)) }, wantNil)
	}
	type req struct {
		fn    string
		calls []string // must-pass unless done
		owner string   // on the owner != nil side
		edge  string   // once per edge on the other side
	}
	for _, q := range []req{
		{"ReleaseMemory", []string{m("resources", "releaseMemory"), m("resourceScope", "releaseMemoryForEdges")}, "", ""},
		{"ReleaseMemoryForChild", []string{m("resources", "releaseMemory")}, "", ""},
		{"releaseMemoryForEdges", nil, m("resourceScope", "ReleaseMemory"), m("resourceScope", "ReleaseMemoryForChild")},
		{"RemoveStream", []string{m("resources", "removeStream"), m("resourceScope", "removeStreamForEdges")}, "", ""},
		{"RemoveStreamForChild", []string{m("resources", "removeStream")}, "", ""},
		{"removeStreamForEdges", nil, m("resourceScope", "RemoveStream"), m("resourceScope", "RemoveStreamForChild")},
		{"RemoveConn", []string{m("resources", "removeConn"), m("resourceScope", "removeConnForEdges")}, "", ""},
		{"RemoveConnForChild", []string{m("resources", "removeConn")}, "", ""},
		{"removeConnForEdges", nil, m("resourceScope", "RemoveConn"), m("resourceScope", "RemoveConnForChild")},
		{"ReleaseForChild", []string{m("resources", "releaseMemory"), m("resources", "removeStreams"), m("resources", "removeConns")}, "", ""},
		{"ReleaseResources", []string{m("resources", "releaseMemory"), m("resources", "removeStreams"), m("resources", "removeConns")}, m("resourceScope", "ReleaseResources"), m("resourceScope", "ReleaseForChild")},
		{"Done", []string{m("resourceScope", "doneUnlocked")}, "", ""},
		{"doneUnlocked", nil, m("resourceScope", "ReleaseResources") + "+" + m("resourceScope", "DecRef"), m("resourceScope", "ReleaseForChild") + "+" + m("resourceScope", "DecRef")},
	} {
		f := r11.need(m("resourceScope", q.fn))
		if f == nil {
			continue
		}
		for _, k := range q.calls {
			calls := findInstrs(f, callPred(k))
			w, n := (&Cut{Fn: f, Target: isRetInstr, Sep: inSet(calls), EdgeCut: isDone}).Run(c)
			r11.Check(w == "" && len(calls) >= 1, fmt.Sprintf("%s: calls %s unless the scope is done", m("resourceScope", q.fn), calleeShort0(k)), f.Pos(), n+1, "", "what was released stays charged here (or above): the counters never return to zero", w)
		}
		if q.owner == "" {
			continue
		}
		var fromOwner, fromEdges []CFGEdge
		for _, b := range blocksDeep(f) {
			for si := range b.Succs {
				if ownerNil(false)(b, si) {
					fromOwner = append(fromOwner, CFGEdge{b, si})
				}
				if ownerNil(true)(b, si) {
					fromEdges = append(fromEdges, CFGEdge{b, si})
				}
			}
		}
		if len(fromOwner) == 0 || len(fromEdges) == 0 {
			r11.Fail(m("resourceScope", q.fn)+": owner test", f.Pos(), "no `s.owner != nil` test found", "")
			continue
		}
		for _, k := range strings.Split(q.owner, "+") {
			calls := findInstrs(f, func(in ssa.Instruction) bool {
				return isCallTo(in, k) && isLoadOfField(rsT+".owner")(strip2(callArgs(in.(ssa.CallInstruction))[0]))
			})
			w, n := (&Cut{Fn: f, FromEdges: fromOwner, Target: isRetInstr, Sep: inSet(calls)}).Run(c)
			r11.Check(w == "" && len(calls) >= 1, fmt.Sprintf("%s: a span hands the release to its owner (%s)", m("resourceScope", q.fn), calleeShort0(k)), f.Pos(), n+1, "", "the owner keeps the charge", w)
		}
		for _, k := range strings.Split(q.edge, "+") {
			calls := findInstrs(f, func(in ssa.Instruction) bool {
				if !isCallTo(in, k) {
					return false
				}
				h := iterationOf(in.Parent(), in.Block())
				return h != nil && isLoadOfField(rsT+".edges")(strip2(rangedOverOf(h)))
			})
			okE := len(calls) >= 1
			w := ""
			n := 0
			if okE {
				h := iterationOf(calls[0].Parent(), calls[0].Block())
				// every iteration makes the call ...
				var body []CFGEdge
				for si, sc := range h.Succs {
					if sc.Dominates(calls[0].Block()) || sc == calls[0].Block() {
						body = append(body, CFGEdge{h, si})
					}
				}
				w, n = (&Cut{Fn: calls[0].Parent(), FromEdges: body, Sep: inSet(calls), Target: func(in ssa.Instruction) bool {
					return isRetInstr(in) || (in.Block() == h && instrIndex(in) == 0)
				}}).Run(c)
				// ... and the loop is reached whenever there is no owner
				if w == "" {
					w, _ = (&Cut{Fn: f, FromEdges: fromEdges, Target: isRetInstr, Sep: func(in ssa.Instruction) bool { return in.Block() == h }}).Run(c)
				}
			}
			r11.Check(okE && w == "", fmt.Sprintf("%s: without an owner, every edge gets the release (%s)", m("resourceScope", q.fn), calleeShort0(k)), f.Pos(), n+1, "", "a constraining scope keeps the charge", w)
		}
	}
	if f := r11.need(m("resourceScope", "doneUnlocked")); f != nil {
		for _, fld := range []string{"nstreamsIn", "nstreamsOut", "nconnsIn", "nconnsOut", "nfd", "memory"} {
			sts := findInstrs(f, func(in ssa.Instruction) bool {
				st, ok := in.(*ssa.Store)
				if !ok {
					return false
				}
				if isFieldWrite(in, rsT+".rc") {
					return true // (the whole counter block replaced by a fresh one)
				}
				if !isFieldWrite(in, resT+"."+fld) {
					return false
				}
				z, isC := constInt(st.Val)
				return isC && z == 0
			})
			w, n := (&Cut{Fn: f, Target: isRetInstr, Sep: inSet(sts), EdgeCut: isDone}).Run(c)
			r11.Check(w == "" && len(sts) >= 1, m("resourceScope", "doneUnlocked")+": "+fld+" = 0", f.Pos(), n+1, "", "a finished scope still reports what it handed back", w)
		}
		sts := findInstrs(f, func(in ssa.Instruction) bool {
			st, ok := in.(*ssa.Store)
			if !ok || !isFieldWrite(in, rsT+".done") {
				return false
			}
			b, isC := constBool(st.Val)
			return isC && b
		})
		w, n := (&Cut{Fn: f, Target: isRetInstr, Sep: inSet(sts), EdgeCut: isDone}).Run(c)
		r11.Check(w == "" && len(sts) >= 1, m("resourceScope", "doneUnlocked")+": done = true", f.Pos(), n+1, "", "a second Done returns the balance twice", w)
	}
	// the direction decides which counter a single stream / connection comes off
	for _, k := range []struct{ fn, callee string }{{"removeStream", "removeStreams"}, {"removeConn", "removeConns"}, {"addStream", "addStreams"}, {"addConn", "addConns"}} {
		f := r11.need(m("resources", k.fn))
		if f == nil {
			continue
		}
		isIn := eqEdge(func(v ssa.Value) bool { return isParamVar(c, v, "dir") }, func(v ssa.Value) bool { kk, ok := constInt(v); return ok && kk == 1 }, true)
		okDir := true
		undecided := false
		nc := 0
		for _, call := range callsIn(f, m("resources", k.callee)) {
			nc++
			a := callArgs(call)
			i0, c0 := constInt(a[1])
			o0, c1 := constInt(a[2])
			if !c0 || !c1 {
				undecided = true // (the counts come from a helper: not judged here)
				continue
			}
			if i0+o0 != 1 {
				okDir = false
				continue
			}
			// inbound count 1 only on the dir == DirInbound edge, outbound only off it
			w, _ := (&Cut{Fn: f, Target: isInstr(call.(ssa.Instruction)), EdgeCut: func(b *ssa.BasicBlock, s int) bool {
				if i0 == 1 {
					return isIn(b, s)
				}
				return eqEdge(func(v ssa.Value) bool { return isParamVar(c, v, "dir") }, func(v ssa.Value) bool { kk, ok := constInt(v); return ok && kk == 1 }, false)(b, s)
			}}).Run(c)
			if w != "" {
				okDir = false
			}
		}
		if undecided || nc != 2 {
			r11.OK(m("resources", k.fn)+": inbound moves the inbound counter, anything else the outbound one", f.Pos(), nc, "not decided: the counts are not the constants 1 and 0 at two call sites")
		} else {
			r11.Check(okDir, m("resources", k.fn)+": inbound moves the inbound counter, anything else the outbound one", f.Pos(), nc, "", "streams / connections are released from the counter they were not added to", "")
		}
	}

	// ---- R12 --------------------------------------------------------------
	r12 := r.Rule("C03-R12", "E2", 12, "re-parenting keeps the reference counts balanced: a scope obtained for the attachment is remembered in its field; when the attachment is refused the reference is dropped and the field cleared before the error is returned; on success the transient scope the connection / stream leaves loses its reference")
	decK := m("resourceScope", "DecRef")
	for _, q := range []struct {
		fn        string
		gets      []string // getter -> field it is remembered in
		transient bool
	}{
		{m("connectionScope", "SetPeer"), []string{m("resourceManager", "getPeerScope"), rmP + ".connectionScope.peer"}, true},
		{m("streamScope", "SetProtocol"), []string{m("resourceManager", "getProtocolScope"), rmP + ".streamScope.proto", m("protocolScope", "getPeerScope"), rmP + ".streamScope.peerProtoScope"}, true},
		{m("streamScope", "SetService"), []string{m("resourceManager", "getServiceScope"), rmP + ".streamScope.svc", m("serviceScope", "getPeerScope"), rmP + ".streamScope.peerSvcScope"}, false},
	} {
		f := r12.need(q.fn)
		if f == nil {
			continue
		}
		failing := func(in ssa.Instruction) bool {
			ret, ok := in.(*ssa.Return)
			return ok && !isNilConst(retVal(ret, 0))
		}
		succeeding := func(in ssa.Instruction) bool {
			ret, ok := in.(*ssa.Return)
			return ok && isNilConst(retVal(ret, 0))
		}
		for i := 0; i+1 < len(q.gets); i += 2 {
			getK, field := q.gets[i], q.gets[i+1]
			gets := findInstrs(f, callPred(getK))
			if len(gets) != 1 {
				r12.Fail(q.fn+": obtains "+calleeShort0(getK), f.Pos(), fmt.Sprintf("%d calls, expected one", len(gets)), "")
				continue
			}
			g := gets[0]
			remembered := findInstrs(f, func(in ssa.Instruction) bool {
				st, ok := in.(*ssa.Store)
				return ok && isFieldWrite(in, field) && resolveLoad(strip(st.Val)) == g.(ssa.Value)
			})
			r12.mustPass(f, q.fn+": on success the scope obtained is remembered in "+field, &Cut{Fn: f, From: []ssa.Instruction{g}, Target: succeeding, Sep: inSet(remembered)}, 1)
			drops := findInstrs(f, func(in ssa.Instruction) bool {
				return isCallTo(in, decK) && derivesFrom(callArgs(in.(ssa.CallInstruction))[0], func(v ssa.Value) bool { return isLoadOfField(field)(v) || v == g.(ssa.Value) })
			})
			r12.mustPass(f, q.fn+": a refused attachment drops the reference to "+field, &Cut{Fn: f, From: []ssa.Instruction{g}, Target: failing, Sep: inSet(drops)}, len(drops))
			clears := findInstrs(f, func(in ssa.Instruction) bool {
				st, ok := in.(*ssa.Store)
				return ok && isFieldWrite(in, field) && isNilConst(st.Val)
			})
			// (a field that was set before the refusal is cleared again)
			r12.mustPass(f, q.fn+": a refused attachment clears "+field, &Cut{Fn: f, From: remembered, Target: failing, Sep: inSet(clears)}, len(clears))
			// ... and the reference is not dropped on the way to success
			w, n := (&Cut{Fn: f, From: drops, Target: succeeding}).Run(c)
			r12.Check(w == "" || len(drops) == 0, q.fn+": the reference to "+field+" is kept on success", f.Pos(), n+1, "", "the scope can be collected while the connection / stream is attached to it", w)
		}
		if q.transient {
			tdrops := findInstrs(f, func(in ssa.Instruction) bool {
				if !isCallTo(in, decK) {
					return false
				}
				return derivesFrom(callArgs(in.(ssa.CallInstruction))[0], func(v ssa.Value) bool {
					return isLoadOfField(rmT+".transient")(v) || isLoadOfField(rmT+".allowlistedTransient")(v)
				})
			})
			r12.mustPass(f, q.fn+": on success the transient scope loses the reference of the connection / stream", &Cut{Fn: f, Target: succeeding, Sep: inSet(tdrops)}, len(tdrops))
			w, n := (&Cut{Fn: f, From: tdrops, Target: failing}).Run(c)
			r12.Check(w == "", q.fn+": the transient reference is kept when the attachment is refused", f.Pos(), n+1, "", "the transient scope loses a reference it still needs", w)
		}
	}
}

// limitShape: see C03-R9. A comparison counts when one side derives from the configured limit (a Get*Limit call of
// the limit interface, a ConnCount field) and exactly one of its two edges can no longer reach an accepting return.
func limitShape(c *Ctx, ru *Rule, min int, keys ...string) {
	isLimitSrc := func(v ssa.Value) bool {
		if call, ok := v.(*ssa.Call); ok {
			name := ""
			if call.Call.IsInvoke() {
				name = call.Call.Method.Name()
			} else if g := call.Call.StaticCallee(); g != nil {
				name = g.Name()
			}
			// (the memory threshold is the limit scaled by the priority: limit*(1+prio)/256, with a big.Int detour)
			return strings.HasPrefix(name, "Get") && strings.Contains(name, "Limit") || name == "mulInt64WithOverflow" || calleeKey(call) == "(*math/big.Int).Int64"
		}
		if fv, ok := v.(*ssa.Field); ok {
			if st, isSt := fv.X.Type().Underlying().(*types.Struct); isSt && st.Field(fv.Field).Name() == "ConnCount" {
				return true
			}
		}
		if fl, _ := loadOfField(v); fl != nil && (fl.Name() == "ConnCount") {
			return true
		}
		return false
	}
	n := 0
	for _, k := range keys {
		f := ru.need(k)
		if f == nil {
			continue
		}
		isB := func(v ssa.Value) bool { return derivesFrom(v, isLimitSrc) }
		isA := func(v ssa.Value) bool { return !isB(v) }
		accepting := func(in ssa.Instruction) bool {
			ret, ok := in.(*ssa.Return)
			if !ok {
				return false
			}
			if errResultIndex(f) >= 0 {
				return isSuccessReturn(ret)
			}
			if len(ret.Results) == 1 {
				if b, isC := constBool(resolveLoad(strip(retVal(ret, 0)))); isC {
					return b
				}
			}
			return true
		}
		for _, b := range blocksDeep(f) {
			ifi := ifOf(b)
			if ifi == nil {
				continue
			}
			base, _ := stripNot(ifi.Cond)
			bo, ok := base.(*ssa.BinOp)
			if !ok {
				continue
			}
			switch bo.Op {
			case token.LSS, token.LEQ, token.GTR, token.GEQ:
			default:
				continue
			}
			if isB(bo.X) == isB(bo.Y) {
				continue // not total-against-limit
			}
			refuses := [2]bool{}
			for s := 0; s < 2; s++ {
				w, _ := (&Cut{Fn: b.Parent(), FromEdges: []CFGEdge{{b, s}}, Target: accepting}).Run(c)
				refuses[s] = w == ""
			}
			if refuses[0] == refuses[1] {
				continue
			}
			n++
			tab := condTable(ifi.Cond, isA, isB)
			want := [3]tri{triFalse, triFalse, triTrue}
			if refuses[1] {
				want = [3]tri{triTrue, triTrue, triFalse}
			}
			ru.Check(tab == want, k+": refuses exactly when the prospective total is greater than the limit", instrPos(ifi), 1, "", "off by one at the limit: the last unit is refused, or one unit too many is admitted", fmt.Sprintf("condition under total<limit, =, >: %v %v %v", tab[0], tab[1], tab[2]))
		}
	}
	ru.Check(n >= min, "comparisons of a total with a configured limit", token.NoPos, n, "", "", fmt.Sprint(n))
}

// embeddingBase: for `x.resourceScope` (a load of the embedded pointer field) returns x.
func embeddingBase(v ssa.Value) ssa.Value {
	if ld, ok := v.(*ssa.UnOp); ok && ld.Op == token.MUL {
		if fa, ok := ld.X.(*ssa.FieldAddr); ok {
			return fa.X
		}
	}
	return v
}

// iterationOf: the header of the innermost loop whose iteration block b belongs to — b is dominated by a successor
// of the header that lies in the loop body. Unlike the natural loop this includes blocks that leave the loop
// (`if bad { return }` inside the body).
func iterationOf(f *ssa.Function, b *ssa.BasicBlock) *ssa.BasicBlock {
	for h := b; h != nil; h = h.Idom() {
		isHeader := false
		for _, p := range h.Preds {
			if h.Dominates(p) {
				isHeader = true
			}
		}
		if !isHeader {
			continue
		}
		_, body := innermostLoopWithHeader(f, h)
		for _, s := range h.Succs {
			if body[s] && s != h && s.Dominates(b) {
				return h
			}
		}
	}
	return nil
}
