package main

import (
	"strings"

	"golang.org/x/tools/go/ssa"
)

func init() {
	register("C04", checkC04,
		"Decides ownership on every CFG path: (R1) every resource-manager scope obtained anywhere in the module (OpenConnection, OpenStream, BeginSpan, and scopes received from Accept-style calls or the request context) is released, returned, stored in an owner object or handed on before every exit of the function and closures that hold it; "+
			"(R2) raw connections are closed on every error exit of the functions that hold them; (R3) streams are reset on every non-dispatching / failing exit; (R4) every Swarm.refs Add is paired with Done obligations performed on all exits; (R5) helper goroutines cannot block forever on their result channel; (R6) close paths release their scope.",
		"that usage numbers return to previous values (needs the real manager), goroutine-leak freedom in general, faults at the k-th I/O operation, races between Close and in-flight work")
}

func skipPkgForOwn(p string) bool {
	return strings.Contains(p, "/resource-manager") || strings.Contains(p, "/mock") || strings.Contains(p, "testsuite") || strings.HasSuffix(p, controlsPkg) || strings.Contains(p, "/testing") || strings.Contains(p, "/cmd/")
}

func checkC04(c *Ctx, r *Report) {
	// ---- R1 ---------------------------------------------------------------
	r1 := r.Rule("C04-R1", "E2", 20, "scope ownership at every acquire site (typed predicate: any call returning a ConnManagementScope, StreamManagementScope or ResourceScopeSpan)")
	own := newOwn(c, ownSpec{what: "scope", relNames: []string{"Done"},
		ifaceReleasesOnError: []string{"(core/transport.Upgrader).Upgrade"},
		takesOwnership:       map[string]string{},
	})
	for _, f := range c.Fns {
		if f.Pkg == nil || skipPkgForOwn(f.Pkg.Pkg.Path()) {
			continue
		}
		allInstrs(f, func(in ssa.Instruction) {
			ci, ok := in.(ssa.CallInstruction)
			if !ok {
				return
			}
			if i, _ := scopeResultIndex(ci.Common().Signature()); i >= 0 {
				own.checkAcquire(r1, f, ci, i)
			}
		})
	}

	// the table entry above is verified on the implementation
	if up := r1.need("(*p2p/net/upgrader.upgrader).Upgrade"); up != nil {
		if p := paramByName(up, "connScope"); p != nil {
			idx := 0
			for i, q := range up.Params {
				if q == p {
					idx = i
				}
			}
			sum := own.summary(up, idx, 0)
			r1.Check(sum.releasesOnError, "(*p2p/net/upgrader.upgrader).Upgrade: releases connScope on every error return (callers rely on it)", up.Pos(), 1, "", "the upgrader no longer releases the connection scope when the upgrade fails", "")
		}
	}

	// ---- R2 ---------------------------------------------------------------
	r2 := r.Rule("C04-R2", "E2", 8, "raw connection ownership: closed (directly or through a wrapper) on every error exit of the functions that hold it")
	connOwn := newOwn(c, ownSpec{what: "connection", relNames: []string{"Close", "CloseWithError", "closeWithError"},
		ifaceReleasesOnError: []string{"(core/transport.Upgrader).Upgrade"},
	})
	connOwn.checkParamErrorExits(r2, "(*p2p/net/upgrader.upgrader).upgrade", "maconn", true)
	connOwn.checkParamErrorExits(r2, "(*p2p/net/swarm.Swarm).addConn", "tc", false)
	connOwn.checkAcquireErrorExits(r2, "(*p2p/transport/tcp.TcpTransport).dialWithScope", []string{"(*p2p/transport/tcp.TcpTransport).maDial"}, 0, true)
	connOwn.checkAcquireErrorExits(r2, "(*p2p/transport/websocket.WebsocketTransport).maDial", []string{"(*github.com/gorilla/websocket.Dialer).DialContext"}, 0, true)
	connOwn.checkAcquireErrorExits(r2, "(*p2p/transport/websocket.WebsocketTransport).dialWithScope", []string{"(*p2p/transport/websocket.WebsocketTransport).maDial"}, 0, true)
	connOwn.checkAcquireErrorExits(r2, "(*p2p/transport/quic.transport).dialWithScope", []string{"(*p2p/transport/quicreuse.ConnManager).DialQUIC"}, 0, false)
	connOwn.checkAcquireErrorExits(r2, "(*p2p/transport/webtransport.transport).dialWithScope", []string{"(*p2p/transport/webtransport.transport).dial"}, 0, false)
	connOwn.checkAcquireErrorExits(r2, "(*p2p/transport/webtransport.transport).dial", []string{"(*p2p/transport/quicreuse.ConnManager).DialQUIC"}, 0, false)
	connOwn.checkAcquireErrorExits(r2, "(*p2p/protocol/circuitv2/client.Client).dialAndUpgrade", []string{"(*p2p/protocol/circuitv2/client.Client).dial"}, 0, true)
	connOwn.checkParamErrorExits(r2, "p2p/transport/tcpreuse.identifyConnType", "c", true)
}
