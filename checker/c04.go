package main

import (
	"fmt"
	"go/token"
	"go/types"
	"sort"
	"strings"

	"golang.org/x/tools/go/ssa"
)

func init() {
	register("C04", checkC04,
		"Decides ownership on every CFG path: (R1) every resource-manager scope obtained anywhere in the module (OpenConnection, OpenStream, BeginSpan, and scopes received from Accept-style calls or the request context) is released, returned, stored in an owner object or handed on before every exit of the function and closures that hold it; "+
			"(R2) raw connections are closed on every error exit of the functions that hold them; (R3) streams are reset on every non-dispatching / failing exit; (R4) every Swarm.refs Add is paired with Done obligations performed on all exits; (R5) helper goroutines cannot block forever on their result channel; (R6) close paths release their scope.",
		"that usage numbers return to previous values (needs the real manager), goroutine-leak freedom in general, faults at the k-th I/O operation, races between Close and in-flight work")
}

func skipPkgForOwn(p string) bool {
	return strings.Contains(p, "/resource-manager") || strings.Contains(p, "/mock") || strings.Contains(p, "testsuite") || strings.HasSuffix(p, controlsPkg) || strings.Contains(p, "/testing") || strings.Contains(p, "/cmd/")
}

func checkC04(c *Ctx, r *Report) {
	// ---- R1 ---------------------------------------------------------------
	r1 := r.Rule("C04-R1", "E2", 20, "scope ownership at every acquire site (typed predicate: any call returning a ConnManagementScope, StreamManagementScope or ResourceScopeSpan)")
	own := newOwn(c, ownSpec{what: "scope", relNames: []string{"Done"},
		ifaceReleasesOnError: []string{"(core/transport.Upgrader).Upgrade"},
		takesOwnership:       map[string]string{},
	})
	for _, f := range c.Fns {
		if f.Pkg == nil || skipPkgForOwn(f.Pkg.Pkg.Path()) {
			continue
		}
		allInstrsIn(f, func(in ssa.Instruction) {
			ci, ok := in.(ssa.CallInstruction)
			if !ok {
				return
			}
			if i, _ := scopeResultIndex(ci.Common().Signature()); i >= 0 {
				own.checkAcquire(r1, f, ci, i)
			}
		})
	}

	// the table entry above is verified on the implementation
	if up := r1.need("(*p2p/net/upgrader.upgrader).Upgrade"); up != nil {
		if p := paramByName(up, "connScope"); p != nil {
			idx := 0
			for i, q := range up.Params {
				if q == p {
					idx = i
				}
			}
			sum := own.summary(up, idx, 0)
			r1.Check(sum.releasesOnError, "(*p2p/net/upgrader.upgrader).Upgrade: releases connScope on every error return (callers rely on it)", up.Pos(), 1, "", "the upgrader no longer releases the connection scope when the upgrade fails", "")
		}
	}

	// ---- R2 ---------------------------------------------------------------
	r2 := r.Rule("C04-R2", "E2", 8, "raw connection ownership: closed (directly or through a wrapper) on every error exit of the functions that hold it")
	connOwn := newOwn(c, ownSpec{what: "connection", relNames: []string{"Close", "CloseWithError", "closeWithError"},
		ifaceReleasesOnError: []string{"(core/transport.Upgrader).Upgrade"},
	})
	connOwn.checkParamErrorExits(r2, "(*p2p/net/upgrader.upgrader).upgrade", "maconn", true)
	connOwn.checkParamErrorExits(r2, "(*p2p/net/swarm.Swarm).addConn", "tc", false)
	connOwn.checkAcquireErrorExits(r2, "(*p2p/transport/tcp.TcpTransport).dialWithScope", []string{"(*p2p/transport/tcp.TcpTransport).maDial"}, 0, true)
	connOwn.checkAcquireErrorExits(r2, "(*p2p/transport/websocket.WebsocketTransport).maDial", []string{"(*github.com/gorilla/websocket.Dialer).DialContext"}, 0, true)
	connOwn.checkAcquireErrorExits(r2, "(*p2p/transport/websocket.WebsocketTransport).dialWithScope", []string{"(*p2p/transport/websocket.WebsocketTransport).maDial"}, 0, true)
	connOwn.checkAcquireErrorExits(r2, "(*p2p/transport/quic.transport).dialWithScope", []string{"(*p2p/transport/quicreuse.ConnManager).DialQUIC"}, 0, false)
	connOwn.checkAcquireErrorExits(r2, "(*p2p/transport/webtransport.transport).dialWithScope", []string{"(*p2p/transport/webtransport.transport).dial"}, 0, false)
	connOwn.checkAcquireErrorExits(r2, "(*p2p/transport/webtransport.transport).dial", []string{"(*p2p/transport/quicreuse.ConnManager).DialQUIC"}, 0, false)
	connOwn.checkAcquireErrorExits(r2, "(*p2p/protocol/circuitv2/client.Client).dialAndUpgrade", []string{"(*p2p/protocol/circuitv2/client.Client).dial"}, 0, true)
	connOwn.checkParamErrorExits(r2, "p2p/transport/tcpreuse.identifyConnType", "c", true)
	// the QUIC listener owns the wrapped connection (which holds the connection scope) from wrapConn on: every way
	// round the accept loop and out of it closes it through the wrapper, returns it or hands it on
	if f := r2.need("(*p2p/transport/quic.listener).Accept"); f != nil {
		wraps := callsIn(f, "(*p2p/transport/quic.listener).wrapConn")
		r2.Check(len(wraps) == 1, "(*p2p/transport/quic.listener).Accept: one wrapConn", f.Pos(), 1, "", "", "")
		qOwn := newOwn(c, ownSpec{what: "wrapped connection", relNames: []string{"Close", "CloseWithError", "closeWithError"},
			borrows: []string{"(core/connmgr.ConnectionGater).InterceptAccept", "(core/connmgr.ConnectionGater).InterceptSecured", "(core/connmgr.ConnectionGater).InterceptUpgraded"}})
		for _, w := range wraps {
			qOwn.checkAcquire(r2, f, w, 0)
		}
	}

	// ---- R3 ---------------------------------------------------------------
	r3 := r.Rule("C04-R3", "E2/E1", 6, "streams are reset on every failing / non-dispatching exit of the functions that hold them")
	// the goroutine that runs the handler of an inbound stream tells the stream when it is done, on every exit past
	// a successful addStream: closeAndRemoveStream leaves the removal (and scope.Done) to it while it is running
	{
		n := 0
		for _, f := range c.FnsOfPkg(swarmP) {
			if fnKey(c.PinnedRoot(f)) != "(*"+swarmP+".Conn).start" {
				continue
			}
			addK := "(*" + swarmP + ".Conn).addStream"
			for _, add := range findInstrsIn(f, callPred(addK)) {
				n++
				w, k := (&Cut{Fn: f, From: []ssa.Instruction{add}, Target: func(in ssa.Instruction) bool { _, ok := in.(*ssa.Return); return ok },
					Sep:     callPred("(*" + swarmP + ".Stream).completeAcceptStreamGoroutine"),
					EdgeCut: edgeNil(isCallResult(1, addK), false)}).Run(c)
				r3.Check(w == "", fnKey(f)+": every exit past a successful addStream passes completeAcceptStreamGoroutine", instrPos(add), k+1, "",
					"a stream closed while (or after) its handler ran is never removed from the connection: its scope is never released", w)
			}
		}
		r3.Check(n >= 1, "Conn.start: inbound addStream site", token.NoPos, n, "", "", "")
	}
	strOwn := newOwn(c, ownSpec{what: "stream", relNames: []string{"Reset", "ResetWithError", "Close"}, listedTransfersOnly: true})
	for _, k := range []string{"(*p2p/host/basic.BasicHost).newStreamHandler", "(*p2p/host/blank.BlankHost).newStreamHandler"} {
		if f := r3.need(k); f != nil {
			p := paramByName(f, "s")
			hs := buildHandleSet(f, []ssa.Value{p}, nil)
			strOwn.reset()
			w, n := strOwn.held(f, hs, nil, nil, "all", nil, nil, 0)
			r3.Check(w == "", k+": every exit resets the stream or dispatches it to the negotiated handler", f.Pos(), n+1, "", "an inbound stream can be abandoned without reset (its scope and the remote side stay open)", w)
		}
	}
	for _, k := range []string{"(*p2p/host/basic.BasicHost).NewStream", "(*p2p/host/blank.BlankHost).NewStream"} {
		strOwn.checkAcquireErrorExits(r3, k, []string{"(core/network.*).NewStream"}, 0, false)
	}
	// swarm: a muxed stream refused by the resource manager or by a closed conn is reset
	if f := r3.need("(*p2p/net/swarm.Conn).addStream"); f != nil {
		p := paramByName(f, "ts")
		hs := buildHandleSet(f, []ssa.Value{p}, nil)
		strOwn.reset()
		w, n := strOwn.held(f, hs, nil, nil, "error", nil, nil, 0)
		r3.Check(w == "", "(*p2p/net/swarm.Conn).addStream: muxed stream reset on every error exit", f.Pos(), n+1, "", "", w)
	}
	if f := c.Fn("(*p2p/net/swarm.Conn).start"); f != nil {
		for _, cl := range f.AnonFuncs {
			for _, acq := range callsIn(cl, "(core/network.*).AcceptStream") {
				var h ssa.Value
				for _, ref := range *acq.(ssa.Value).Referrers() {
					if e, ok := ref.(*ssa.Extract); ok && e.Index == 0 {
						h = e
					}
				}
				if h == nil {
					continue
				}
				hs := buildHandleSet(cl, []ssa.Value{h}, nil)
				mux := newOwn(c, ownSpec{what: "muxed stream", relNames: []string{"Reset", "ResetWithError", "Close"}})
				acqErr := edgeNil(func(v ssa.Value) bool { ci, i := resultOf(v); return ci == acq && i == 1 }, false)
				w, n := mux.held(cl, hs, []ssa.Instruction{acq.(ssa.Instruction)}, nil, "all", acqErr, acq.(ssa.Instruction), 0)
				r3.Check(w == "", "(*p2p/net/swarm.Conn).start loop: accepted muxed stream is reset or handed to addStream", instrPos(acq.(ssa.Instruction)), n+1, "", "an accepted stream is dropped (e.g. when OpenStream is refused) without reset", w)
			}
		}
	} else {
		r3.Err("(*p2p/net/swarm.Conn).start", "does not resolve")
	}
	if f := r3.need("(*p2p/net/swarm.Conn).openAndAddStream"); f != nil {
		_ = f
	}

	// ---- R4 ---------------------------------------------------------------
	r4 := r.Rule("C04-R4", "E1/E3", 12, "Swarm.refs: Add sites and Done sites match the pairing table; every Done-obligated function performs Done on all its exits")
	refsKey := "p2p/net/swarm.Swarm.refs"
	isRefs := func(in ssa.Instruction, method string) bool {
		ci, ok := in.(ssa.CallInstruction)
		if !ok || calleeKey(ci) != "(*sync.WaitGroup)."+method {
			return false
		}
		f, base := fieldAddrOf(ci.Common().Args[0])
		return f != nil && fieldKeyOf(base, f) == refsKey
	}
	sw := "(*p2p/net/swarm.Swarm)."
	wantAdd := map[string][]int64{ // root function -> constant Add arguments (-1: dynamic)
		sw + "close":                      {-1},
		sw + "addConn":                    {2},
		"(*p2p/net/swarm.Conn).start":     {1},
		"(*p2p/net/swarm.Conn).addStream": {1},
		sw + "AddListenAddr":              {1, 1},
	}
	wantDone := map[string]int{
		sw + "close": 1, "(*p2p/net/swarm.Conn).doClose": 1, "(*p2p/net/swarm.Conn).start": 2,
		"(*p2p/net/swarm.Stream).closeAndRemoveStream": 1, sw + "AddListenAddr": 2,
	}
	gotAdd := map[string][]int64{}
	gotDone := map[string]int{}
	var doneFns []*ssa.Function
	for _, f := range c.FnsOfPkg(swarmP) {
		root := fnKey(c.PinnedRoot(f))
		for _, in := range findInstrsIn(f, func(in ssa.Instruction) bool { return isRefs(in, "Add") }) {
			k, ok := constInt(in.(ssa.CallInstruction).Common().Args[1])
			if !ok {
				k = -1
			}
			gotAdd[root] = append(gotAdd[root], k)
		}
		if n := len(findInstrsIn(f, func(in ssa.Instruction) bool { return isRefs(in, "Done") })); n > 0 {
			gotDone[root] += n
			doneFns = append(doneFns, f)
		}
	}
	for root, want := range wantAdd {
		got := gotAdd[root]
		sort.Slice(got, func(i, j int) bool { return got[i] < got[j] })
		sort.Slice(want, func(i, j int) bool { return want[i] < want[j] })
		if root == sw+"close" {
			// the listener shutdown goroutines (each ends with a deferred Done): one reference per goroutine, taken
			// either all at once before the loop (Add(len(list)) for the list the loop ranges over) or one by one in the
			// iteration that spawns it
			okClose := false
			why := fmt.Sprint(got)
			if f := c.Fn(root); f != nil {
				var spawns []ssa.Instruction
				for _, g := range findInstrs(f, func(in ssa.Instruction) bool { _, isGo := in.(*ssa.Go); return isGo }) {
					body := g.(*ssa.Go).Call.StaticCallee()
					if body != nil && body.Blocks != nil && len(findInstrs(body, func(in ssa.Instruction) bool { _, d := in.(*ssa.Defer); return d && isRefs(in, "Done") })) > 0 {
						spawns = append(spawns, g)
					}
				}
				adds := findInstrs(f, func(in ssa.Instruction) bool { return isRefs(in, "Add") })
				if len(spawns) == 1 && len(adds) == 1 {
					h := iterationOf(f, spawns[0].Block())
					arg := adds[0].(ssa.CallInstruction).Common().Args[1]
					switch {
					case h == nil:
						why = "the releasing goroutine is not spawned in a loop"
					case fmt.Sprint(got) == "[-1]":
						// Add(len(X)) with X what the loop ranges over, before the loop
						call, isLen := strip(arg).(*ssa.Call)
						over := rangedOverOf(h)
						okClose = isLen && calleeKey(call) == "builtin.len" && over != nil && strip(call.Call.Args[0]) == strip(over) && iterationOf(f, adds[0].Block()) != h
						why = "Add(n): n is not the length of the list the spawning loop ranges over"
					case fmt.Sprint(got) == "[1]":
						w, _ := (&Cut{Fn: f, FromEdges: []CFGEdge{{h, 0}}, Target: inSet(spawns), Sep: inSet(adds)}).Run(c)
						okClose = w == "" && iterationOf(f, adds[0].Block()) == h
						why = "Add(1) does not precede the spawn in the same iteration"
					}
				} else {
					why = fmt.Sprintf("%d releasing goroutines, %d Add sites", len(spawns), len(adds))
				}
			}
			r4.Check(okClose, "refs.Add in "+root, token.NoPos, len(got)+1, "one reference per listener-closing goroutine", "the number of references taken here no longer matches the Done obligations paired with it", why)
			continue
		}
		r4.Check(fmt.Sprint(got) == fmt.Sprint(want), "refs.Add in "+root, token.NoPos, len(got)+1, fmt.Sprint(want), "the number of references taken here no longer matches the Done obligations paired with it", fmt.Sprint(got))
	}
	for root := range gotAdd {
		if _, ok := wantAdd[root]; !ok {
			r4.Fail("refs.Add in "+root, token.NoPos, "unpaired new Add site: add it to the pairing table with its Done obligations", "")
		}
	}
	for root, want := range wantDone {
		r4.Check(gotDone[root] == want, "refs.Done in "+root, token.NoPos, want, "", "a Done obligation was added or removed without its Add", fmt.Sprint(gotDone[root]))
	}
	for root := range gotDone {
		if _, ok := wantDone[root]; !ok {
			r4.Fail("refs.Done in "+root, token.NoPos, "unpaired new Done site", "")
		}
	}
	for _, f := range doneFns {
		isDone := func(in ssa.Instruction) bool { return isRefs(in, "Done") }
		if fnKey(f) == "(*p2p/net/swarm.Stream).closeAndRemoveStream" {
			dones := findInstrs(f, isDone)
			closedT := swarmP + ".Stream.isClosed"
			r4.guard(f, "refs.Done", dones, "!isClosed (once per stream)", edgeBool(isLoadOfField(closedT), false), nil)
			w, n := (&Cut{Fn: f, Target: inSet(dones), Sep: func(in ssa.Instruction) bool {
				st, ok := in.(*ssa.Store)
				if !ok || !isFieldWrite(in, closedT) {
					return false
				}
				b, isC := constBool(st.Val)
				return isC && b
			}}).Run(c)
			r4.Check(w == "", fnKey(f)+": isClosed = true precedes refs.Done", f.Pos(), n+1, "", "", w)
			continue
		}
		// deferred closure body that ends with Done (AddListenAddr's deferred block) runs to completion: straight-line requirement
		q := &Cut{Fn: f, Target: func(in ssa.Instruction) bool { _, ok := in.(*ssa.Return); return ok }, Sep: isDone}
		w, n := q.Run(c)
		r4.Check(w == "", fnKey(f)+": refs.Done on every exit", f.Pos(), n+1, "", "a path leaves the goroutine / function without releasing its swarm reference (Swarm.Close would hang)", w)
	}
	// after each Add, the party that owes the Done is started on every path
	startAfterAdd := func(fnK string, isStart func(ssa.Instruction) bool, what string) {
		var fs []*ssa.Function
		if f := c.Fn(fnK); f != nil {
			fs = append(fs, f)
			fs = append(fs, allAnon(f)...)
		} else {
			r4.Err(fnK, "does not resolve")
			return
		}
		for _, f := range fs {
			for _, add := range findInstrs(f, func(in ssa.Instruction) bool { return isRefs(in, "Add") }) {
				q := &Cut{Fn: f, From: []ssa.Instruction{add}, Target: func(in ssa.Instruction) bool {
					_, ok := in.(*ssa.Return)
					return ok || in == add
				}, Sep: isStart}
				w, n := q.Run(c)
				r4.Check(w == "", fnKey(f)+": after refs.Add every path starts "+what, instrPos(add), n+1, "", "a reference is taken but the party that releases it is not started on some path", w)
			}
		}
	}
	isGo := func(in ssa.Instruction) bool { _, ok := in.(*ssa.Go); return ok }
	startAfterAdd("(*p2p/net/swarm.Conn).start", isGo, "the stream goroutine")
	startAfterAdd(sw+"AddListenAddr", isGo, "the accept / connection goroutine")
	startAfterAdd(sw+"addConn", callPred("(*p2p/net/swarm.Conn).start"), "c.start()")

	// ---- R5 ---------------------------------------------------------------
	r5 := r.Rule("C04-R5", "E8/E7", 3, "helper goroutines: result channel has constant capacity >= 1 and the goroutine sends exactly once on every path")
	for _, k := range []string{"(*p2p/net/upgrader.upgrader).setupMuxer", "(*p2p/net/upgrader.upgrader).negotiateSecurity", noiseP + ".newSecureSession"} {
		f := r5.need(k)
		if f == nil {
			continue
		}
		var mk *ssa.MakeChan
		allInstrs(f, func(in ssa.Instruction) {
			if m, ok := in.(*ssa.MakeChan); ok {
				mk = m
			}
		})
		capOK := false
		if mk != nil {
			n, ok := constInt(mk.Size)
			capOK = ok && n >= 1
		}
		r5.Check(capOK, k+": result channel buffered (capacity >= 1)", f.Pos(), 1, "", "the helper goroutine blocks forever when the caller stopped waiting (context cancelled)", "")
		for _, cl := range f.AnonFuncs {
			sends := findInstrs(cl, func(in ssa.Instruction) bool { _, ok := in.(*ssa.Send); return ok })
			if len(sends) == 0 {
				continue
			}
			w1, n1 := (&Cut{Fn: cl, Target: func(in ssa.Instruction) bool { _, ok := in.(*ssa.Return); return ok }, Sep: inSet(sends)}).Run(c)
			w2 := ""
			for _, sd := range sends {
				if w, _ := (&Cut{Fn: cl, From: []ssa.Instruction{sd}, Target: inSet(sends)}).Run(c); w != "" {
					w2 = w
				}
			}
			r5.Check(w1 == "" && w2 == "", fnKey(cl)+": exactly one send on every path", cl.Pos(), n1+len(sends), "", "the helper goroutine can finish without reporting (caller hangs) or report twice (goroutine blocks)", w1+w2)
		}
	}

	// ---- R6 ---------------------------------------------------------------
	r6 := r.Rule("C04-R6", "E1", 4, "close paths release their scope on every path")
	// every closing method in the method set of a scope-holding connection wrapper must be the wrapper's own
	// (not promoted from the embedded connection) and release the scope on every path
	for _, e := range []struct{ pkg, typ, field string }{
		{"p2p/net/upgrader", "transportConn", "p2p/net/upgrader.transportConn.scope"},
		{"p2p/transport/tcpreuse", "connWithScope", "p2p/transport/tcpreuse.connWithScope.ConnScope"},
	} {
		named := c.Named(e.pkg, e.typ)
		if named == nil {
			r6.Err(e.pkg+"."+e.typ, "type does not resolve")
			continue
		}
		mset := c.Prog.MethodSets.MethodSet(types.NewPointer(named))
		for _, name := range []string{"Close", "CloseWithError"} {
			var sel *types.Selection
			for i := 0; i < mset.Len(); i++ {
				if mset.At(i).Obj().Name() == name {
					sel = mset.At(i)
				}
			}
			key := "(*" + e.pkg + "." + e.typ + ")." + name
			if sel == nil {
				continue // the wrapper has no such method at all
			}
			if len(sel.Index()) > 1 {
				r6.Fail(key+": scope.Done() on every path", named.Obj().Pos(), "the method is promoted from the embedded connection: closing through it does not release the resource scope held by the wrapper", "")
				continue
			}
			f := c.Prog.MethodValue(sel)
			if f == nil || f.Blocks == nil {
				r6.Err(key, "method body not available")
				continue
			}
			isDone := func(in ssa.Instruction) bool {
				ci, ok := in.(ssa.CallInstruction)
				if !ok || !calleeNameIs(in, "Done") {
					return false
				}
				return isLoadOfField(e.field)(strip2(callArgs(ci)[0]))
			}
			w, n := (&Cut{Fn: f, Target: func(in ssa.Instruction) bool { _, ok := in.(*ssa.Return); return ok }, Sep: isDone}).Run(c)
			r6.Check(w == "", key+": scope.Done() on every path", f.Pos(), n+1, "", "closing no longer releases the resource scope", w)
		}
	}
	for _, e := range []struct{ fn, field string }{
		{"(*p2p/net/swarm.Conn).removeStream", "p2p/net/swarm.Stream.scope"},
	} {
		f := r6.need(e.fn)
		if f == nil {
			continue
		}
		isDone := func(in ssa.Instruction) bool {
			ci, ok := in.(ssa.CallInstruction)
			if !ok || !calleeNameIs(in, "Done") {
				return false
			}
			return isLoadOfField(e.field)(strip2(callArgs(ci)[0]))
		}
		w, n := (&Cut{Fn: f, Target: func(in ssa.Instruction) bool { _, ok := in.(*ssa.Return); return ok }, Sep: isDone}).Run(c)
		r6.Check(w == "", e.fn+": scope.Done() on every path", f.Pos(), n+1, "", "closing no longer releases the resource scope", w)
	}

	// ---- R7: a connection waiting to be accepted is given up when its listener closes --------------------------
	// An accepted (upgraded) connection is handed to Accept through a blocking select. If nobody accepts, the only
	// thing that ends the wait — and lets the other branch close the connection and release its scope — is the
	// listener's own close signal (or a deadline derived from it). A wait on anything else (the HTTP request's
	// context of a hijacked connection, a fresh Background context) can outlive Close: the connection, its scope and
	// the goroutine leak.
	r7 := r.Rule("C04-R7", "E6", 4, "blocking hand-over of an accepted connection to Accept: every alternative case waits on a signal of the listener itself (a field of the receiver, or a context derived from one)")
	nSel := 0
	for _, pkg := range []string{"p2p/transport/websocket", "p2p/net/upgrader", "p2p/transport/tcpreuse", "p2p/transport/webrtc"} {
		for _, f := range c.FnsOfPkg(pkg) {
			root := c.Root(f)
			if root.Signature.Recv() == nil || len(root.Params) == 0 {
				continue
			}
			recv := root.Params[0]
			if _, tn := typeNameOf(recv.Type()); !strings.Contains(strings.ToLower(tn), "listener") {
				continue
			}
			isRecvField := func(v ssa.Value) bool {
				fl, base := loadOfField(v)
				if fl == nil {
					return false
				}
				b := strip(base)
				return b == ssa.Value(recv) || isParamCellLoad(c, b, recv)
			}
			for _, in := range findInstrsIn(f, func(in ssa.Instruction) bool { sel, ok := in.(*ssa.Select); return ok && sel.Blocking }) {
				sel := in.(*ssa.Select)
				handsOver := false
				for _, st := range sel.States {
					if fl, _ := loadOfField(strip2(st.Chan)); st.Dir == types.SendOnly && fl != nil { // (the queue of this or of a demultiplexed listener)
						if ms := c.Prog.MethodSets.MethodSet(st.Send.Type()); ms.Lookup(nil, "Close") != nil || ms.Lookup(nil, "CloseWithError") != nil {
							handsOver = true
						}
					}
				}
				if !handsOver {
					continue
				}
				nSel++
				for _, st := range sel.States {
					if st.Dir != types.RecvOnly {
						continue
					}
					own := derivesFrom(st.Chan, isRecvField, "context.WithTimeout", "context.WithCancel", "context.WithDeadline", "(context.Context).Done")
					r7.Check(own, fnKey(root)+": the wait for Accept is given up on a signal of the listener", instrPos(in), 1, "", "the wait can outlast the listener's Close: the connection is never closed and its scope never released", describeVal(st.Chan))
				}
			}
		}
	}
	r7.Check(nSel >= 4, "blocking hand-over selects found", token.NoPos, nSel, "", "", fmt.Sprint(nSel))

	// ---- R8 ---------------------------------------------------------------
	r8 := r.Rule("C04-R8", "E1", 14, "stream and connection teardown: Close / Reset / ResetWithError always reach closeAndRemoveStream; the first close marks the stream, drops its swarm reference and, when the accept goroutine is through, removes it from the connection, otherwise that goroutine's completion does, exactly when the stream is closed; removeStream takes the stream off the connection's books and finishes its scope; Conn.Close / CloseWithError run doClose under closeOnce; doClose forgets the streams map and closes the transport connection")
	stT := swarmP + ".Stream"
	sm := func(n string) string { return "(*" + stT + ")." + n }
	cm := func(n string) string { return "(*" + swarmP + ".Conn)." + n }
	for _, k := range []string{"Close", "Reset", "ResetWithError"} {
		if f := r8.need(sm(k)); f != nil {
			calls := findInstrs(f, callPred(sm("closeAndRemoveStream")))
			r8.mustPass(f, sm(k)+": every return passes closeAndRemoveStream", &Cut{Fn: f, Target: isRetInstr, Sep: inSet(calls)}, len(calls))
		}
	}
	flagEdge := func(field string, want bool) EdgePred {
		return edgeBool(func(v ssa.Value) bool { return isLoadOfField(stT + "." + field)(strip2(v)) }, want)
	}
	setsTrue := func(f *ssa.Function, field string) []ssa.Instruction {
		return findInstrs(f, func(in ssa.Instruction) bool {
			st, ok := in.(*ssa.Store)
			if !ok || !isFieldWrite(in, stT+"."+field) {
				return false
			}
			b, isC := constBool(st.Val)
			return isC && b
		})
	}
	for _, q := range []struct{ fn, own, other string }{
		{"closeAndRemoveStream", "isClosed", "acceptStreamGoroutineCompleted"},
		{"completeAcceptStreamGoroutine", "acceptStreamGoroutineCompleted", "isClosed"},
	} {
		f := r8.need(sm(q.fn))
		if f == nil {
			continue
		}
		sets := setsTrue(f, q.own)
		w, n := (&Cut{Fn: f, Target: isRetInstr, Sep: inSet(sets), EdgeCut: flagEdge(q.own, true)}).Run(c)
		r8.Check(w == "" && len(sets) >= 1, sm(q.fn)+": sets "+q.own+" unless it already is", f.Pos(), n+1, "", "the other party never learns that this one is through: the stream stays on the connection's books (or is removed twice)", w)
		rem := findInstrs(f, callPred(cm("removeStream")))
		r8.guard(f, "remove the stream from the connection", rem, "first time here", flagEdge(q.own, false), nil)
		r8.guard(f, "remove the stream from the connection", rem, "the other party ("+q.other+") is through", flagEdge(q.other, true), nil)
		var from []CFGEdge
		for _, b := range blocksDeep(f) {
			for si := range b.Succs {
				if flagEdge(q.other, true)(b, si) {
					from = append(from, CFGEdge{b, si})
				}
			}
		}
		r8.mustPass(f, sm(q.fn)+": with the other party through, the stream is removed", &Cut{Fn: f, FromEdges: from, Target: isRetInstr, Sep: inSet(rem)}, len(from))
		r8.Check(len(from) >= 1, sm(q.fn)+": tests "+q.other, f.Pos(), len(from), "", "", "")
		if q.fn == "closeAndRemoveStream" {
			dones := findInstrs(f, callPred("(*sync.WaitGroup).Done"))
			w, n := (&Cut{Fn: f, Target: isRetInstr, Sep: inSet(dones), EdgeCut: flagEdge(q.own, true)}).Run(c)
			r8.Check(w == "" && len(dones) == 1, sm(q.fn)+": the first close drops the stream's swarm reference", f.Pos(), n+1, "", "Swarm.Close waits forever", w)
			// ... and a repeated close does not
			w2, _ := (&Cut{Fn: f, Target: inSet(dones), EdgeCut: flagEdge(q.own, false)}).Run(c)
			r8.Check(w2 == "", sm(q.fn)+": a repeated close drops nothing", f.Pos(), 1, "", "the swarm's reference count goes negative (panic)", w2)
		}
	}
	if f := r8.need(cm("removeStream")); f != nil {
		dec := findInstrs(f, func(in ssa.Instruction) bool {
			st, ok := in.(*ssa.Store)
			if !ok {
				return false
			}
			fl, _ := fieldAddrOf(st.Addr)
			if fl == nil || fl.Name() != "NumStreams" {
				return false
			}
			bo, isB := resolveLoad(strip(st.Val)).(*ssa.BinOp)
			if !isB {
				return false
			}
			k, isC := constInt(bo.Y)
			return isC && ((bo.Op == token.SUB && k == 1) || (bo.Op == token.ADD && k == -1))
		})
		del := findInstrs(f, func(in ssa.Instruction) bool {
			if !isCallTo(in, "builtin.delete") {
				return false
			}
			a := callArgs(in.(ssa.CallInstruction))
			return len(a) == 2 && (a[1] == ssa.Value(f.Params[1]) || isParamCellLoad(c, resolveLoad(strip2(a[1])), f.Params[1]))
		})
		done := findInstrs(f, func(in ssa.Instruction) bool {
			if !calleeNameIs(in, "Done") {
				return false
			}
			return derivesFrom(callArgs(in.(ssa.CallInstruction))[0], isLoadOfField(stT+".scope"))
		})
		for _, x := range []struct {
			what string
			ins  []ssa.Instruction
		}{{"NumStreams goes down by one", dec}, {"the stream leaves the streams map", del}, {"the stream's scope is finished", done}} {
			r8.mustPass(f, cm("removeStream")+": "+x.what, &Cut{Fn: f, Target: isRetInstr, Sep: inSet(x.ins)}, len(x.ins))
		}
	}
	for _, k := range []string{"Close", "CloseWithError"} {
		f := r8.need(cm(k))
		if f == nil {
			continue
		}
		dos := findInstrs(f, callPred("(*sync.Once).Do"))
		// (one of the two may simply call the other)
		var sibling []ssa.Instruction
		for _, k2 := range []string{"Close", "CloseWithError"} {
			if k2 != k {
				sibling = append(sibling, findInstrs(f, callPred(cm(k2)))...)
			}
		}
		r8.mustPass(f, cm(k)+": every return passes closeOnce.Do", &Cut{Fn: f, Target: isRetInstr, Sep: inSet(append(append([]ssa.Instruction{}, dos...), sibling...))}, len(dos))
		if len(dos) == 0 && len(sibling) >= 1 {
			continue
		}
		okBody := len(dos) >= 1
		for _, do := range dos {
			g := installedFunc(callArgs(do.(ssa.CallInstruction))[1])
			if g == nil || g.Blocks == nil {
				okBody = false
				continue
			}
			inner := findInstrs(g, callPred(cm("doClose")))
			if w, _ := (&Cut{Fn: g, Target: isRetInstr, Sep: inSet(inner)}).Run(c); w != "" || len(inner) == 0 {
				okBody = false
			}
		}
		r8.Check(okBody, cm(k)+": the once-body runs doClose on every path", f.Pos(), 1, "", "the connection is never taken off the swarm's books: its scope, streams and Disconnected notification are lost", "")
	}
	if f := r8.need(cm("doClose")); f != nil {
		clears := findInstrs(f, func(in ssa.Instruction) bool {
			st, ok := in.(*ssa.Store)
			if !ok || !isNilConst(st.Val) {
				return false
			}
			fl, _ := fieldAddrOf(st.Addr)
			return fl != nil && fl.Name() == "m"
		})
		r8.mustPass(f, cm("doClose")+": the streams map is forgotten (no stream can be added any more)", &Cut{Fn: f, Target: isRetInstr, Sep: inSet(clears)}, len(clears))
		closes := findInstrs(f, func(in ssa.Instruction) bool {
			if !calleeNameIs(in, "Close", "CloseWithError") {
				return false
			}
			return derivesFrom(callArgs(in.(ssa.CallInstruction))[0], isLoadOfField(swarmP+".Conn.conn"))
		})
		r8.mustPass(f, cm("doClose")+": the transport connection is closed", &Cut{Fn: f, Target: isRetInstr, Sep: inSet(closes)}, len(closes))
		resets := findInstrs(f, callPred(sm("Reset"), sm("ResetWithError")))
		r8.Check(len(resets) >= 1, cm("doClose")+": the streams that were open are reset", f.Pos(), len(resets), "", "their scopes and swarm references are never released", "")
	}
}

func allAnon(f *ssa.Function) []*ssa.Function {
	var out []*ssa.Function
	for _, a := range f.AnonFuncs {
		out = append(out, a)
		out = append(out, allAnon(a)...)
	}
	return out
}
