package main

import (
	"fmt"
	"go/token"
	"go/types"
	"strings"

	"golang.org/x/tools/go/ssa"
)

func init() {
	register("C05", checkC05,
		"Decides the bookkeeping discipline of the dial worker, the dial synchroniser and the limiter on every CFG path: limiter counters, the active-dial table and back-off entries only under their locks; in the worker's request arm every path answers the request or tracks it, exactly one of the two; a tracked request is answered only together with its removal; "+
			"a job popped from the FD wait list leaves through exactly one of {its dial is started, its peer token is freed}; dials start only past the token take; finishedDial frees what was taken and is deferred before any exit; "+
			"every caller's reference is dropped in one critical section that ends the worker at zero; one worker per peer; an address is handed to the transport only after being marked dialed and only from the timer arm; the only route to a transport dial is the limiter; both blocking operations of a caller are selects on the caller's own context and the worker's context never derives from a caller's.",
		"exactly-once return under all completion orders (schedules), cancellation promptness as a time bound, cap values under load, ranker totality, residue at quiescence")
}

func checkC05(c *Ctx, r *Report) {
	dlT := swarmP + ".dialLimiter"
	dl := func(n string) string { return "(*" + dlT + ")." + n }
	dwT := swarmP + ".dialWorker"
	loopK := "(*" + dwT + ").loop"
	dispK := "(*" + dwT + ").dispatchError"

	// ---- R1 ---------------------------------------------------------------
	r1 := r.Rule("C05-R1", "E4", 30, "limiter counters under lk; dialSync.dials and activeDial.refCnt under mutex; DialBackoff.entries under lock")
	lockRule(c, r1, lockSpec{Pkg: swarmP, Type: "dialLimiter", Mutex: "lk",
		Guarded:  []string{"fdConsuming", "waitingOnFd", "activePerPeer", "waitingOnPeerLimit"},
		Requires: []string{dl("freeFDToken"), dl("freePeerToken"), dl("addCheckFdLimit"), dl("addCheckPeerLimit")},
		Exempt:   map[string]string{swarmP + ".newDialLimiterWithParams": "constructor", swarmP + ".newDialLimiter": "constructor"}})
	lockRule(c, r1, lockSpec{Pkg: swarmP, Type: "dialSync", Mutex: "mutex", Guarded: []string{"dials"},
		Owned:  map[string][]string{"activeDial": {"refCnt"}},
		Exempt: map[string]string{swarmP + ".newDialSync": "constructor"}})
	lockRule(c, r1, lockSpec{Pkg: swarmP, Type: "DialBackoff", Mutex: "lock", Guarded: []string{"entries"},
		Exempt: map[string]string{"(*" + swarmP + ".DialBackoff).init": "runs before the background goroutine is started (constructor path)"}})

	// ---- R2 ---------------------------------------------------------------
	r2 := r.Rule("C05-R2", "E8", 8, "worker: request arm answers xor tracks; tracked requests are answered only together with their removal")
	pendT := dwT + ".pendingRequests"
	isReschSend := func(in ssa.Instruction) bool {
		s, ok := in.(*ssa.Send)
		return ok && strings.HasSuffix(pathOf(s.Chan), ".resch") && strings.Contains(types.TypeString(s.X.Type(), nil), "dialResponse")
	}
	isPendInsert := func(in ssa.Instruction) bool { _, ok := in.(*ssa.MapUpdate); return ok && isFieldWrite(in, pendT) }
	isPendDelete := func(in ssa.Instruction) bool { return isCallTo(in, "builtin.delete") && isFieldWrite(in, pendT) }
	if f := r2.need(loopK); f != nil {
		// the main select
		var sel *ssa.Select
		allInstrs(f, func(in ssa.Instruction) {
			if s, ok := in.(*ssa.Select); ok && s.Blocking && len(s.States) == 3 {
				sel = s
			}
		})
		if sel == nil {
			r2.Fail(loopK+": main select", f.Pos(), "the three-arm select was not identified", "")
		} else {
			// request arm: states[k] receiving from w.reqch
			armIdx := -1
			for i, st := range sel.States {
				if st.Dir == types.RecvOnly && isLoadOfField(dwT+".reqch")(strip2(st.Chan)) {
					armIdx = i
				}
			}
			var armEdges []CFGEdge
			for _, b := range blocksDeep(f) {
				i := ifOf(b)
				if i == nil {
					continue
				}
				bo, ok := i.Cond.(*ssa.BinOp)
				if !ok || bo.Op != token.EQL {
					continue
				}
				ex, ok := bo.X.(*ssa.Extract)
				if !ok || ex.Tuple != ssa.Value(sel) || ex.Index != 0 {
					continue
				}
				if k, isC := constInt(bo.Y); isC && int(k) == armIdx {
					armEdges = append(armEdges, CFGEdge{b, 0})
				}
			}
			if armIdx < 0 || len(armEdges) == 0 {
				r2.Fail(loopK+": request arm", f.Pos(), "arm receiving from w.reqch not found", "")
			} else {
				events := func(in ssa.Instruction) bool {
					if isPendInsert(in) {
						return true
					}
					// answers on the request just received: req.resch
					if s, ok := in.(*ssa.Send); ok && isReschSend(in) {
						return derivesFrom(s.Chan, func(v ssa.Value) bool { e, ok := v.(*ssa.Extract); return ok && e.Tuple == ssa.Value(sel) })
					}
					return false
				}
				// the closed-channel path (ok == false) leaves the worker
				closedEdge := edgeBool(func(v ssa.Value) bool {
					e, ok := v.(*ssa.Extract)
					return ok && e.Tuple == ssa.Value(sel) && e.Index == 1
				}, false)
				q := &Cut{Fn: f, FromEdges: armEdges, Sep: events, EdgeCut: closedEdge, Target: func(in ssa.Instruction) bool {
					_, isRet := in.(*ssa.Return)
					return isRet || in == ssa.Instruction(sel)
				}}
				r2.mustPass(f, loopK+": request arm: every path answers the request or tracks it", q, len(armEdges))
				// never both / twice
				evs := findInstrs(f, events)
				bad := ""
				for _, e := range evs {
					w, _ := (&Cut{Fn: f, From: []ssa.Instruction{e}, Target: inSet(evs), Sep: isInstr(sel)}).Run(c)
					if w != "" {
						bad = w
					}
				}
				r2.Check(bad == "" && len(evs) >= 5, loopK+": request arm: never both an answer and tracking (nor two answers) for one request", f.Pos(), len(evs), "", "a request is answered twice (worker blocks on the 1-buffered channel) or answered and still tracked", bad)
				// the tracked object carries the request it was created for
				for _, st := range findInstrs(f, fieldWritePred(swarmP+".pendRequest.req")) {
					r2.Check(derivesFrom(st.(*ssa.Store).Val, func(v ssa.Value) bool { e, ok := v.(*ssa.Extract); return ok && e.Tuple == ssa.Value(sel) }), loopK+": pendRequest.req = the received request", instrPos(st), 1, "", "", "")
				}
			}
		}
	}
	// answers to tracked requests (pr.req.resch): followed by delete(pendingRequests, pr), and every delete preceded by an answer
	nTracked := 0
	trackedIn := map[string]int{}
	for _, k := range []string{loopK, dispK} {
		f := r2.need(k)
		if f == nil {
			continue
		}
		for _, s := range findInstrs(f, isReschSend) {
			p := pathOf(s.(*ssa.Send).Chan)
			if !strings.HasSuffix(p, ".req.resch") {
				continue // answer to the request just received (handled above)
			}
			nTracked++
			trackedIn[k]++
			base := strings.TrimSuffix(p, ".req.resch")
			delSame := func(in ssa.Instruction) bool {
				return isPendDelete(in) && pathOf(in.(*ssa.Call).Call.Args[1]) == base
			}
			q := &Cut{Fn: f, From: []ssa.Instruction{s}, Sep: delSame, Target: func(in ssa.Instruction) bool {
				switch in.(type) {
				case *ssa.Return, *ssa.Next, *ssa.Select:
					return true
				}
				return false
			}}
			r2.mustPass(f, fnKey(f)+": an answered tracked request is removed from pendingRequests before the iteration ends", q, 1)
		}
		sends := findInstrs(f, isReschSend)
		for _, d := range findInstrs(f, isPendDelete) {
			q := &Cut{Fn: f, Target: isInstr(d), Sep: inSet(sends)}
			r2.mustPass(f, fnKey(f)+": a tracked request is removed only after it was answered", q, 1)
		}
	}
	if trackedIn[loopK] < 1 || trackedIn[dispK] < 1 {
		r2.Fail("answers to tracked requests", token.NoPos, "expected an answer site in the worker loop (dial success) and in dispatchError (last-one check / all-failed)", "")
	}
	// the response channel is 1-buffered (the worker never blocks answering a caller that left)
	if f := r2.need("(*" + swarmP + ".activeDial).dial"); f != nil {
		ok := false
		allInstrs(f, func(in ssa.Instruction) {
			if mk, isMk := in.(*ssa.MakeChan); isMk && strings.Contains(types.TypeString(mk.Type(), nil), "dialResponse") {
				n, isC := constInt(mk.Size)
				ok = isC && n >= 1
			}
		})
		r2.Check(ok, "activeDial.dial: response channel has capacity >= 1", f.Pos(), 1, "", "the worker blocks forever answering a caller whose context ended", "")
	}

	// a new connection answers only the requests that asked for the address it was dialled on (a force-direct request
	// whose address set excludes relay addresses must not be completed with the relayed connection of another caller)
	if f := r2.need(loopK); f != nil {
		addK := "(*" + swarmP + ".Swarm).addConn"
		n := 0
		for _, sd := range findInstrs(f, isReschSend) {
			vals, ok := structFieldValues(c, sd.(*ssa.Send).X, "conn", 3)
			fromAdd := false
			for _, v := range vals {
				if isResultOfCall(strip(v), 0, addK) != nil {
					fromAdd = true
				}
			}
			if !ok || !fromAdd {
				continue
			}
			n++
			interested := edgeBool(func(v ssa.Value) bool {
				ex, isEx := v.(*ssa.Extract)
				if !isEx || ex.Index != 1 {
					return false
				}
				lk, isLk := ex.Tuple.(*ssa.Lookup)
				if !isLk {
					return false
				}
				fl, _ := loadOfField(strip2(lk.X))
				return fl != nil && fl.Name() == "addrs"
			}, true)
			r2.guard(f, "answer a pending request with the new connection", []ssa.Instruction{sd}, "the request's address set contains the dialled address", interested, nil)
		}
		r2.Check(n >= 1, loopK+": pending requests answered with the new connection", f.Pos(), n, "", "", "")
	}

	// ---- R3 ---------------------------------------------------------------
	// the ranker only reorders: an overlapping copy that shifts part of the address list must have room for all of
	// its source (a destination provably shorter than the source drops an address — which is then never dialled —
	// and leaves a duplicate). Decided on affine bounds over a common base; undecidable shapes are left alone.
	{
		type bound struct {
			atom ssa.Value
			k    int64
			end  bool // "to the end of the slice"
		}
		var parse func(v ssa.Value, d int) bound
		parse = func(v ssa.Value, d int) bound {
			if v == nil {
				return bound{}
			}
			if k, ok := constInt(v); ok {
				return bound{nil, k, false}
			}
			if bo, ok := v.(*ssa.BinOp); ok && d < 4 && (bo.Op == token.ADD || bo.Op == token.SUB) {
				if k, isC := constInt(bo.Y); isC {
					b := parse(bo.X, d+1)
					if bo.Op == token.ADD {
						b.k += k
					} else {
						b.k -= k
					}
					return b
				}
			}
			return bound{v, 0, false}
		}
		n, nCopies := 0, 0
		for _, f := range c.FnsOfPkg(swarmP) {
			file := c.Fset.Position(f.Pos()).Filename
			if !strings.HasSuffix(file, "dial_ranker.go") {
				continue
			}
			n++
			allInstrsIn(f, func(in ssa.Instruction) {
				call, ok := in.(*ssa.Call)
				if !ok || calleeKey(call) != "builtin.copy" {
					return
				}
				dst, ok1 := strip2(call.Call.Args[0]).(*ssa.Slice)
				src, ok2 := strip2(call.Call.Args[1]).(*ssa.Slice)
				if !ok1 || !ok2 || !(strip(dst.X) == strip(src.X) || sameExpr(dst.X, src.X, 0)) {
					return
				}
				nCopies++
				lo1, lo2, hi2 := parse(dst.Low, 0), parse(src.Low, 0), parse(src.High, 0)
				key := fnKey(f) + ": a shifting copy has room for all of its source"
				if dst.High == nil || src.High == nil {
					r2.OK(key, instrPos(in), 1, "destination (or source) runs to the end of the slice")
					return
				}
				hi1 := parse(dst.High, 0)
				if hi1.atom != hi2.atom || lo1.atom != lo2.atom {
					r2.OK(key, instrPos(in), 1, "not decided: bounds over different bases")
					return
				}
				diff := (hi1.k - lo1.k) - (hi2.k - lo2.k)
				r2.Check(diff >= 0, key, instrPos(in), 1, fmt.Sprintf("len(dst) - len(src) = %d", diff), "the destination is shorter than the source: the last shifted address is dropped from the ranking (never dialled) and another appears twice", fmt.Sprintf("len(dst) - len(src) = %d", diff))
			})
		}
		r2.Check(n >= 3 && nCopies >= 1, "dial ranker functions scanned for shifting copies", token.NoPos, n, "", "", fmt.Sprint(nCopies))
	}

	r3 := r.Rule("C05-R3", "E1/E3", 12, "tokens: popped FD waiters are started xor give back their peer token; dials start only past the token take; finishedDial frees and is deferred first")
	goExec := func(in ssa.Instruction) bool { _, isGo := in.(*ssa.Go); return isGo && isCallTo(in, dl("executeDial")) }
	if f := r3.need(dl("freeFDToken")); f != nil {
		// pop: load of waitingOnFd[0]
		var pops []ssa.Instruction
		allInstrs(f, func(in ssa.Instruction) {
			if u, ok := in.(*ssa.UnOp); ok && u.Op == token.MUL {
				if ia, ok := u.X.(*ssa.IndexAddr); ok && isLoadOfField(dlT+".waitingOnFd")(strip2(ia.X)) {
					if k, isC := constInt(ia.Index); isC && k == 0 {
						pops = append(pops, in)
					}
				}
			}
		})
		if len(pops) != 1 {
			r3.Fail(dl("freeFDToken")+": pop of the FD wait list", f.Pos(), "not identified", "")
		} else {
			next := pops[0].(ssa.Value)
			isNext := func(v ssa.Value) bool { return v == next }
			leave := func(in ssa.Instruction) bool {
				if goExec(in) {
					return isNext(callArgs(in.(ssa.CallInstruction))[1])
				}
				return isCallTo(in, dl("freePeerToken")) && isNext(callArgs(in.(ssa.CallInstruction))[1])
			}
			q := &Cut{Fn: f, From: pops, Sep: leave, StopAtFrom: false, Target: func(in ssa.Instruction) bool {
				_, isRet := in.(*ssa.Return)
				return isRet || in == pops[0]
			}}
			r3.mustPass(f, dl("freeFDToken")+": a popped waiter is started or gives its peer token back before the next pop / return", q, 1)
			// started only past !cancelled and the FD token take
			gos := findInstrs(f, goExec)
			r3.guard(f, "go executeDial(next)", gos, "!next.cancelled()", edgeBool(isCallResult(0, "(*"+swarmP+".dialJob).cancelled"), false), nil)
			for _, g := range gos {
				w, n := (&Cut{Fn: f, From: pops, Target: isInstr(g), Sep: func(in ssa.Instruction) bool {
					st, ok := in.(*ssa.Store)
					if !ok || !isFieldWrite(in, dlT+".fdConsuming") {
						return false
					}
					b, isB := st.Val.(*ssa.BinOp)
					return isB && b.Op == token.ADD
				}}).Run(c)
				r3.Check(w == "", dl("freeFDToken")+": restarted waiter re-takes the FD token", instrPos(g), n+1, "", "", w)
			}
		}
		// the freed token is given up first
		dec := findInstrs(f, func(in ssa.Instruction) bool {
			st, ok := in.(*ssa.Store)
			if !ok || !isFieldWrite(in, dlT+".fdConsuming") {
				return false
			}
			b, isB := st.Val.(*ssa.BinOp)
			return isB && b.Op == token.SUB
		})
		r3.Check(len(dec) == 1, dl("freeFDToken")+": fdConsuming-- once", f.Pos(), 1, "", "", "")
	}
	if f := r3.need(dl("addCheckFdLimit")); f != nil {
		gos := findInstrs(f, goExec)
		var consume ssa.Value
		for _, call := range callsIn(f, dl("shouldConsumeFd")) {
			consume = call.(ssa.Value)
		}
		if consume == nil || len(gos) != 1 {
			r3.Fail(dl("addCheckFdLimit")+": shape", f.Pos(), "shouldConsumeFd test or dial start not found", "")
		} else {
			inc := func(in ssa.Instruction) bool {
				st, ok := in.(*ssa.Store)
				if !ok || !isFieldWrite(in, dlT+".fdConsuming") {
					return false
				}
				b, isB := st.Val.(*ssa.BinOp)
				return isB && b.Op == token.ADD
			}
			q := &Cut{Fn: f, Target: inSet(gos), Sep: inc, Assume: map[ssa.Value]bool{consume: true}}
			r3.mustPass(f, dl("addCheckFdLimit")+": [FD-consuming address] the dial starts only after taking an FD token", q, 1)
			isFdC := func(v ssa.Value) bool { return isLoadOfField(dlT + ".fdConsuming")(strip2(v)) }
			isFdL := func(v ssa.Value) bool { return isLoadOfField(dlT + ".fdLimit")(strip2(v)) }
			r3.guard(f, "take FD token", findInstrs(f, inc), "fdConsuming < fdLimit", edgeExcl(isFdC, isFdL, ordEQ, ordGT), nil)
			// over the limit: queued, not started
			var over []CFGEdge
			for _, b := range blocksDeep(f) {
				for s := range b.Succs {
					if edgeExcl(isFdC, isFdL, ordLT)(b, s) {
						over = append(over, CFGEdge{b, s})
					}
				}
			}
			q2 := &Cut{Fn: f, FromEdges: over, Sep: fieldWritePred(dlT + ".waitingOnFd"), Target: func(in ssa.Instruction) bool {
				_, isRet := in.(*ssa.Return)
				return isRet || goExec(in)
			}}
			r3.mustPass(f, dl("addCheckFdLimit")+": at the FD cap the job is queued and not started", q2, len(over))
		}
	}
	if f := r3.need(dl("addCheckPeerLimit")); f != nil {
		calls := findInstrs(f, callPred(dl("addCheckFdLimit")))
		incP := func(in ssa.Instruction) bool {
			_, ok := in.(*ssa.MapUpdate)
			return ok && isFieldWrite(in, dlT+".activePerPeer")
		}
		for _, cl := range calls {
			w, n := (&Cut{Fn: f, Target: isInstr(cl), Sep: incP}).Run(c)
			r3.Check(w == "", dl("addCheckPeerLimit")+": FD stage only after taking the peer token", instrPos(cl), n+1, "", "", w)
		}
		isActive := func(v ssa.Value) bool {
			v = strip2(v)
			if lk, ok := v.(*ssa.Lookup); ok {
				return isLoadOfField(dlT + ".activePerPeer")(strip2(lk.X))
			}
			if ex, ok := v.(*ssa.Extract); ok {
				if lk, ok := ex.Tuple.(*ssa.Lookup); ok && ex.Index == 0 {
					return isLoadOfField(dlT + ".activePerPeer")(strip2(lk.X))
				}
			}
			return false
		}
		for _, in := range findInstrs(f, incP) {
			r3.Check(mapStepsBy(in, dlT+".activePerPeer", token.ADD, 1), dl("addCheckPeerLimit")+": the peer token is taken by counting up by one", instrPos(in), 1, "", "", "activePerPeer[p] is not written as activePerPeer[p] + 1")
		}
		r3.guard(f, "take peer token", findInstrs(f, incP), "activePerPeer[p] < perPeerLimit", edgeExcl(isActive, func(v ssa.Value) bool { return isLoadOfField(dlT + ".perPeerLimit")(strip2(v)) }, ordEQ, ordGT), nil)
	}
	if f := r3.need(dl("freePeerToken")); f != nil {
		// waiter taken off the peer wait list re-takes the token before the FD stage
		calls := findInstrs(f, callPred(dl("addCheckFdLimit")))
		for _, cl := range calls {
			r3.guard(f, "addCheckFdLimit(next)", []ssa.Instruction{cl}, "!next.cancelled()", edgeBool(isCallResult(0, "(*"+swarmP+".dialJob).cancelled"), false), nil)
		}
		// the token is given back by counting down by one (or by forgetting the peer's counter) on every path, and a
		// waiter that goes on to the FD stage has counted itself up again in between
		isUpd := func(in ssa.Instruction) bool {
			_, ok := in.(*ssa.MapUpdate)
			return ok && isFieldWrite(in, dlT+".activePerPeer")
		}
		down := func(in ssa.Instruction) bool {
			return mapStepsBy(in, dlT+".activePerPeer", token.SUB, 1) || (isCallTo(in, "builtin.delete") && isFieldWrite(in, dlT+".activePerPeer"))
		}
		up := func(in ssa.Instruction) bool { return mapStepsBy(in, dlT+".activePerPeer", token.ADD, 1) }
		for _, in := range findInstrs(f, isUpd) {
			r3.Check(down(in) || up(in), dl("freePeerToken")+": the peer counter moves by one", instrPos(in), 1, "", "", "activePerPeer[p] is written neither as +1 nor as -1")
		}
		q := &Cut{Fn: f, Target: func(in ssa.Instruction) bool { _, ok := in.(*ssa.Return); return ok }, Sep: down}
		r3.mustPass(f, dl("freePeerToken")+": every path gives the token back (counts down)", q, 1)
		for _, cl := range calls {
			w, n := (&Cut{Fn: f, From: findInstrs(f, down), Target: isInstr(cl), Sep: up}).Run(c)
			r3.Check(w == "", dl("freePeerToken")+": the waiter handed to the FD stage re-takes the peer token (counts up)", instrPos(cl), n+1, "", "", w)
		}
	}
	if f := r3.need(dl("executeDial")); f != nil {
		defs := findInstrs(f, func(in ssa.Instruction) bool { _, ok := in.(*ssa.Defer); return ok && isCallTo(in, dl("finishedDial")) })
		ok := len(defs) == 1
		if ok {
			w, _ := (&Cut{Fn: f, Target: func(in ssa.Instruction) bool {
				switch in.(type) {
				case *ssa.Return, *ssa.If:
					return true
				}
				return false
			}, Sep: inSet(defs)}).Run(c)
			ok = w == "" && isParamVar(c, callArgs(defs[0].(ssa.CallInstruction))[1], "j")
		}
		r3.Check(ok, dl("executeDial")+": defer finishedDial(j) registered before any branch or exit", f.Pos(), 1, "", "a dial that ends early keeps its tokens forever", "")
	}
	if f := r3.need(dl("finishedDial")); f != nil {
		fp := findInstrs(f, callPred(dl("freePeerToken")))
		q := &Cut{Fn: f, Target: func(in ssa.Instruction) bool { _, ok := in.(*ssa.Return); return ok }, Sep: inSet(fp)}
		r3.mustPass(f, dl("finishedDial")+": always frees the peer token", q, 1)
		var consume ssa.Value
		for _, call := range callsIn(f, dl("shouldConsumeFd")) {
			consume = call.(ssa.Value)
		}
		if consume != nil {
			q := &Cut{Fn: f, Target: inSet(fp), Sep: callPred(dl("freeFDToken")), Assume: map[ssa.Value]bool{consume: true}}
			r3.mustPass(f, dl("finishedDial")+": [FD-consuming address] frees the FD token", q, 1)
			for _, call := range callsIn(f, dl("shouldConsumeFd")) {
				fl, _ := loadOfField(strip2(callArgs(call)[1]))
				r3.Check(fl != nil && fl.Name() == "addr" && isParamVar(c, strip2(callArgs(call)[1]).(*ssa.UnOp).X.(*ssa.FieldAddr).X, "dj"), dl("finishedDial")+": decides on the finished job's own address", instrPos(call.(ssa.Instruction)), 1, "", "", "")
			}
		} else {
			r3.Fail(dl("finishedDial")+": shouldConsumeFd", f.Pos(), "not found", "")
		}
	}
	for _, fld := range []string{"fdConsuming", "activePerPeer", "waitingOnFd", "waitingOnPeerLimit"} {
		r3.onlyIn("write "+dlT+"."+fld, fieldWritePred(dlT+"."+fld), c.FnsOfPkg(swarmP),
			dl("freeFDToken"), dl("freePeerToken"), dl("addCheckFdLimit"), dl("addCheckPeerLimit"), dl("clearAllPeerDials"), swarmP+".newDialLimiterWithParams")
	}
	r3.onlyIn("go executeDial", goExec, c.FnsOfPkg(swarmP), dl("freeFDToken"), dl("addCheckFdLimit"))

	// ---- R4 ---------------------------------------------------------------
	r4 := r.Rule("C05-R4", "E1", 6, "dialSync.Dial: every caller's reference dropped in one critical section; worker ended only at zero; one worker per peer")
	dsT := swarmP + ".dialSync"
	adT := swarmP + ".activeDial"
	if f := r4.need("(*" + dsT + ").Dial"); f != nil {
		decs := findInstrs(f, func(in ssa.Instruction) bool {
			st, ok := in.(*ssa.Store)
			if !ok || !isFieldWrite(in, adT+".refCnt") {
				return false
			}
			b, isB := st.Val.(*ssa.BinOp)
			return isB && b.Op == token.SUB
		})
		gad := findInstrs(f, callPred("(*"+dsT+").getActiveDial"))
		q := &Cut{Fn: f, From: gad, EdgeCut: edgeNil(isCallResult(1, "(*"+dsT+").getActiveDial"), false), Sep: inSet(decs), Target: func(in ssa.Instruction) bool { _, ok := in.(*ssa.Return); return ok }}
		r4.mustPass(f, "(*"+dsT+").Dial: past getActiveDial every exit drops the reference", q, 1)
		zero := edgeIntBound(func(v ssa.Value) bool { return isLoadOfField(adT + ".refCnt")(strip2(v)) }, -intInf, 0, false)
		ends := findInstrs(f, func(in ssa.Instruction) bool {
			return isCallTo(in, "builtin.close") || (isCallTo(in, "builtin.delete") && isFieldWrite(in, dsT+".dials")) || isDynCallOfField(in, adT+".cancelCause")
		})
		r4.guard(f, "end the shared dial (close reqch / delete / cancel)", ends, "refCnt == 0", zero, nil)
		// at zero all three happen
		var zeroEdges []CFGEdge
		for _, b := range blocksDeep(f) {
			for s := range b.Succs {
				if zero(b, s) {
					zeroEdges = append(zeroEdges, CFGEdge{b, s})
				}
			}
		}
		for _, what := range []struct {
			n string
			p func(ssa.Instruction) bool
		}{{"close(reqch)", func(in ssa.Instruction) bool { return isCallTo(in, "builtin.close") }},
			{"delete(dials, p)", func(in ssa.Instruction) bool { return isCallTo(in, "builtin.delete") && isFieldWrite(in, dsT+".dials") }},
			{"cancelCause", func(in ssa.Instruction) bool { return isDynCallOfField(in, adT+".cancelCause") }}} {
			q := &Cut{Fn: f, FromEdges: zeroEdges, Sep: what.p, Target: func(in ssa.Instruction) bool { _, ok := in.(*ssa.Return); return ok }}
			r4.mustPass(f, "(*"+dsT+").Dial: [last caller] "+what.n, q, len(zeroEdges))
		}
		// decrement and zero test under the mutex
		lf := computeLockFlow(f, heldSet{})
		okL := len(decs) == 1
		for _, in := range append(append([]ssa.Instruction{}, decs...), ends...) {
			held := false
			for k := range lf.must[in] {
				if strings.HasSuffix(k, ".mutex") {
					held = true
				}
			}
			okL = okL && held
		}
		r4.Check(okL, "(*"+dsT+").Dial: reference drop and teardown in one critical section", f.Pos(), len(ends)+1, "", "", "")
		// the drop is by exactly one: a caller that took one reference gives back one (a drop by more, or by a variable
		// amount, reaches zero while callers still wait, or steps over zero and the worker is never ended)
		for _, d := range decs {
			r4.Check(stepsFieldBy(d, adT+".refCnt", token.SUB, 1), "(*"+dsT+").Dial: the reference is dropped by exactly one", instrPos(d), 1, "", "", "refCnt is not written as refCnt - 1")
		}
	}
	if f := r4.need("(*" + dsT + ").getActiveDial"); f != nil {
		gos := findInstrs(f, func(in ssa.Instruction) bool {
			_, ok := in.(*ssa.Go)
			return ok && isDynCallOfField(in, dsT+".dialWorker")
		})
		miss := edgeBool(func(v ssa.Value) bool {
			e, ok := v.(*ssa.Extract)
			if !ok || e.Index != 1 {
				return false
			}
			lk, ok := e.Tuple.(*ssa.Lookup)
			return ok && isLoadOfField(dsT+".dials")(strip2(lk.X))
		}, false)
		r4.guard(f, "go dialWorker", gos, "no active dial for the peer", miss, nil)
		for _, g := range gos {
			isReg := func(in ssa.Instruction) bool {
				_, ok := in.(*ssa.MapUpdate)
				return ok && isFieldWrite(in, dsT+".dials")
			}
			// registered before the worker starts, or afterwards before the function (and its critical section) ends
			w, n := (&Cut{Fn: f, From: []ssa.Instruction{g}, Sep: isReg,
				Target: func(in ssa.Instruction) bool { _, ok := in.(*ssa.Return); return ok }}).Run(c)
			if w != "" {
				if w2, n2 := (&Cut{Fn: f, Target: isInstr(g), Sep: isReg}).Run(c); w2 == "" {
					w, n = "", n2
				}
			}
			r4.Check(w == "", "getActiveDial: a started worker is registered in dials", instrPos(g), n+1, "", "", w)
		}
		incs := findInstrs(f, func(in ssa.Instruction) bool { return isFieldWrite(in, adT+".refCnt") })
		q := &Cut{Fn: f, Target: func(in ssa.Instruction) bool { ret, ok := in.(*ssa.Return); return ok && isNilConst(retVal(ret, 1)) }, Sep: inSet(incs)}
		r4.mustPass(f, "getActiveDial: every caller takes a reference", q, 1)
		// ... and it is one reference, counted up: every write of refCnt here is refCnt + 1, or the 1 a dial created
		// in this very call starts with (activeDial{refCnt: 1, ...})
		for _, i := range incs {
			r4.Check(stepsFieldBy(i, adT+".refCnt", token.ADD, 1) || initsFreshFieldTo(i, 1), "getActiveDial: the reference is taken by counting up by exactly one", instrPos(i), 1, "", "", "refCnt is not written as refCnt + 1 (or as 1 in a dial created here)")
		}
	}

	// ---- R5 ---------------------------------------------------------------
	r5 := r.Rule("C05-R5", "E1/E3", 5, "at most one dial per address per worker: tracked on lookup miss only; marked dialed before the dial is started; started only from the timer arm")
	trT := dwT + ".trackedDials"
	// one key per address, everywhere: every lookup, insertion and removal in trackedDials is keyed by the address's
	// bytes (string(addr.Bytes())); an access keyed otherwise (addr.String()) silently misses the entry
	{
		nAcc := 0
		isTracked := func(m ssa.Value) bool { return isLoadOfField(trT)(strip2(m)) }
		keyOK := func(k ssa.Value) bool {
			return isResultOfCall(strip(k), 0, "(github.com/multiformats/go-multiaddr.Multiaddr).Bytes") != nil
		}
		for _, f := range c.FnsOfPkg(swarmP) {
			for _, in := range findInstrsIn(f, func(in ssa.Instruction) bool {
				switch x := in.(type) {
				case *ssa.MapUpdate:
					return isTracked(x.Map)
				case *ssa.Lookup:
					return isTracked(x.X)
				case *ssa.Call:
					return calleeKey(x) == "builtin.delete" && len(x.Call.Args) == 2 && isTracked(x.Call.Args[0])
				}
				return false
			}) {
				var k ssa.Value
				switch x := in.(type) {
				case *ssa.MapUpdate:
					k = x.Key
				case *ssa.Lookup:
					k = x.Index
				case *ssa.Call:
					k = x.Call.Args[1]
				}
				nAcc++
				// a key taken from ranging over the map itself is a key of the map
				if ex, isEx := strip(k).(*ssa.Extract); isEx {
					if nx, isNx := ex.Tuple.(*ssa.Next); isNx {
						if rg, isRg := nx.Iter.(*ssa.Range); isRg && isTracked(rg.X) {
							r5.OK(fnKey(c.Root(f))+": trackedDials access keyed by the address bytes", instrPos(in), 1, "key from ranging over trackedDials")
							continue
						}
					}
				}
				r5.Check(keyOK(k), fnKey(c.Root(f))+": trackedDials access keyed by the address bytes", instrPos(in), 1, "", "the entry is looked up / removed under another key than it was stored under: the access silently misses (a refused address is never forgotten, a joiner is answered from a stale entry)", describeVal(strip(k)))
			}
		}
		r5.Check(nAcc >= 4, "trackedDials accesses found", token.NoPos, nAcc, "", "", fmt.Sprint(nAcc))
	}
	if f := r5.need(loopK); f != nil {
		ins := findInstrs(f, func(in ssa.Instruction) bool { _, ok := in.(*ssa.MapUpdate); return ok && isFieldWrite(in, trT) })
		r5.Check(len(ins) == 1, loopK+": one insertion into trackedDials", f.Pos(), len(ins), "", "", "")
		// the addresses inserted come from `todial`, which collects only lookup misses
		dn := findInstrs(f, callPred("(*"+swarmP+".Swarm).dialNextAddr"))
		markDialed := func(in ssa.Instruction) bool {
			st, ok := in.(*ssa.Store)
			if !ok || !isFieldWrite(in, swarmP+".addrDial.dialed") {
				return false
			}
			b, isC := constBool(st.Val)
			return isC && b
		}
		for _, d := range dn {
			// per iteration: from the lookup of the tracked entry to the dial
			var lk []ssa.Instruction
			allInstrs(f, func(in ssa.Instruction) {
				if l, ok := in.(*ssa.Lookup); ok && l.CommaOk && isLoadOfField(trT)(strip2(l.X)) && l.Block().Index < d.Block().Index+50 {
					// the lookup whose result feeds this dial's ctx argument
					if derivesFrom(callArgs(d.(ssa.CallInstruction))[1], func(v ssa.Value) bool { e, ok := v.(*ssa.Extract); return ok && e.Tuple == ssa.Value(l) }) {
						lk = append(lk, in)
					}
				}
			})
			if len(lk) != 1 {
				r5.Fail(loopK+": entry lookup feeding dialNextAddr", instrPos(d), "not identified", "")
				continue
			}
			// the store marks the very entry that is dialled
			sameEntry := func(in ssa.Instruction) bool {
				if !markDialed(in) {
					return false
				}
				_, base := fieldAddrOf(in.(*ssa.Store).Addr)
				e, ok := base.(*ssa.Extract)
				return ok && e.Tuple == lk[0].(ssa.Value)
			}
			w, n := (&Cut{Fn: f, From: lk, Target: isInstr(d), Sep: sameEntry}).Run(c)
			r5.Check(w == "", loopK+": the entry is marked dialed before its dial is started", instrPos(d), n+1, "", "a joining request re-queues an address whose dial is already in flight: the address is handed to the transport twice", w)
			r5.guard(f, "dialNextAddr", []ssa.Instruction{d}, "entry found in trackedDials", edgeBool(func(v ssa.Value) bool {
				e, ok := v.(*ssa.Extract)
				return ok && e.Tuple == lk[0].(ssa.Value) && e.Index == 1
			}, true), nil)
		}
		// the join path re-queues only entries not yet dialed
		upd := findInstrs(f, callPred("(*"+swarmP+".dialQueue).UpdateOrAdd"))
		r5.guard(f, "dq.UpdateOrAdd (join)", upd, "!ad.dialed", edgeBool(isLoadOfField(swarmP+".addrDial.dialed"), false), nil)
	}
	r5.onlyCallers("call dialNextAddr", []string{"(*" + swarmP + ".Swarm).dialNextAddr"}, c.FnsOfPkg(swarmP), loopK)
	r5.onlyIn("write addrDial.dialed", fieldWritePred(swarmP+".addrDial.dialed"), c.FnsOfPkg(swarmP), loopK)

	// ---- R6 ---------------------------------------------------------------
	r6 := r.Rule("C05-R6", "E3", 3, "route to the transport: limitedDial <- dialNextAddr <- worker loop; AddDialJob only from limitedDial; dialFunc only from executeDial")
	r6.onlyCallers("call limitedDial", []string{"(*" + swarmP + ".Swarm).limitedDial"}, c.FnsOfPkg(swarmP), "(*"+swarmP+".Swarm).dialNextAddr")
	r6.onlyCallers("call AddDialJob", []string{dl("AddDialJob")}, c.FnsOfPkg(swarmP), "(*"+swarmP+".Swarm).limitedDial")
	r6.onlyIn("call dialFunc", func(in ssa.Instruction) bool { return isDynCallOfField(in, dlT+".dialFunc") }, c.FnsOfPkg(swarmP), dl("executeDial"))

	// ---- R7 ---------------------------------------------------------------
	r7 := r.Rule("C05-R7", "E1/E6", 3, "cancellation isolation: caller blocks only in selects on its own ctx; worker ctx from Background; per-request ctx = ad.ctx + force-direct / sim-connect values")
	if f := r7.need("(*" + adT + ").dial"); f != nil {
		sels := findInstrs(f, func(in ssa.Instruction) bool { s, ok := in.(*ssa.Select); return ok && s.Blocking })
		okAll := len(sels) == 2
		for _, s := range sels {
			hasDone := false
			for _, st := range s.(*ssa.Select).States {
				if d := isResultOfCall(st.Chan, 0, "(context.Context).Done"); d != nil && isParamVar(c, callArgs(d)[0], "ctx") {
					hasDone = true
				}
			}
			okAll = okAll && hasDone
		}
		// no blocking channel op outside a select
		bare := findInstrs(f, func(in ssa.Instruction) bool {
			if _, ok := in.(*ssa.Send); ok {
				return true
			}
			u, ok := in.(*ssa.UnOp)
			return ok && u.Op == token.ARROW
		})
		r7.Check(okAll && len(bare) == 0, "activeDial.dial: both blocking operations are selects with <-ctx.Done() on the caller's ctx", f.Pos(), 2, "", "a cancelled caller stays blocked on the shared dial", "")
		// request ctx derives from ad.ctx
		for _, st := range findInstrs(f, fieldWritePred(swarmP+".dialRequest.ctx")) {
			leavesOK := true
			for _, l := range phiLeaves(st.(*ssa.Store).Val) {
				l = strip(l)
				if isLoadOfField(adT + ".ctx")(l) {
					continue
				}
				ci, _ := resultOf(l)
				if ci != nil && (calleeKey(ci) == "core/network.WithForceDirectDial" || calleeKey(ci) == "core/network.WithSimultaneousConnect") {
					// first argument chains back to ad.ctx
					if derivesFrom(ci.Common().Args[0], isLoadOfField(adT+".ctx"), "core/network.WithForceDirectDial", "core/network.WithSimultaneousConnect") && !derivesFrom(ci.Common().Args[0], func(v ssa.Value) bool { return isParamVar(c, v, "ctx") }) {
						continue
					}
				}
				leavesOK = false
			}
			r7.Check(leavesOK, "activeDial.dial: request ctx = ad.ctx (+ force-direct / sim-connect values), never the caller's ctx", instrPos(st), 1, "", "one caller's cancellation would cancel the shared attempt for everyone", "")
		}
	}
	if f := r7.need("(*" + dsT + ").getActiveDial"); f != nil {
		for _, st := range findInstrs(f, fieldWritePred(adT+".ctx")) {
			// the worker's context must not derive from anything a caller passes in
			fromParam := derivesFrom(st.(*ssa.Store).Val, func(v ssa.Value) bool { _, ok := v.(*ssa.Parameter); return ok },
				"context.WithCancelCause", "context.WithCancel", "context.WithTimeout", "context.WithValue", "context.WithDeadline", "context.WithoutCancel")
			r7.Check(!fromParam, "getActiveDial: worker ctx does not derive from a caller's context", instrPos(st), 1, "", "the first caller's cancellation would cancel every later caller's dial", "")
		}
	}

	// ---- R8 ---------------------------------------------------------------
	r8 := r.Rule("C05-R8", "E1", 4, "nothing is left behind: the peer's counter of active dials is forgotten only at zero; a dial whose result nobody takes any more closes the connection it obtained; the worker clears the peer's waiting dials when it ends")
	if f := r8.need("(*" + dlT + ").freePeerToken"); f != nil {
		apK := dlT + ".activePerPeer"
		isLk := func(v ssa.Value) (*ssa.Lookup, bool) {
			lk, ok := resolveLoad(strip2(v)).(*ssa.Lookup)
			return lk, ok && isLoadOfField(apK)(strip2(lk.X))
		}
		updates := findInstrs(f, func(in ssa.Instruction) bool {
			mu, ok := in.(*ssa.MapUpdate)
			return ok && isLoadOfField(apK)(strip2(mu.Map))
		})
		// the count that remains: the entry read again after it was decremented, or entry - 1
		isCnt := func(v ssa.Value) bool {
			if lk, ok := isLk(v); ok {
				for _, st := range updates {
					if (st.Block() == lk.Block() && instrIndex(st) < instrIndex(lk)) || (st.Block() != lk.Block() && st.Block().Dominates(lk.Block())) {
						return true
					}
				}
				return false
			}
			bo, ok := resolveLoad(strip2(v)).(*ssa.BinOp)
			if !ok {
				return false
			}
			k, isC := constInt(bo.Y)
			_, isL := isLk(bo.X)
			return isL && isC && ((bo.Op == token.SUB && k == 1) || (bo.Op == token.ADD && k == -1))
		}
		zero := func(v ssa.Value) bool { k, ok := constInt(v); return ok && k == 0 }
		dels := findInstrs(f, func(in ssa.Instruction) bool {
			return isCallTo(in, "builtin.delete") && isLoadOfField(apK)(strip2(callArgs(in.(ssa.CallInstruction))[0]))
		})
		atZero := anyEdge(eqEdge(isCnt, zero, true), edgeExcl(isCnt, zero, ordGT))
		if len(dels) == 0 {
			r8.OK("freePeerToken: the active-dials counter is forgotten only at zero", f.Pos(), 1, "not decided: the entry is never deleted here")
		} else {
			r8.guard(f, "forget the peer's counter", dels, "it is zero", atZero, nil)
		}
	}
	if f := r8.need("(*" + dlT + ").executeDial"); f != nil {
		var dial ssa.Instruction
		for _, in := range findInstrs(f, func(in ssa.Instruction) bool {
			call, ok := in.(*ssa.Call)
			if !ok {
				return false
			}
			fl, _ := loadOfField(strip2(call.Call.Value))
			return fl != nil && fl.Name() == "dialFunc"
		}) {
			dial = in
		}
		sels := findInstrs(f, func(in ssa.Instruction) bool { _, ok := in.(*ssa.Select); return ok })
		if dial == nil || len(sels) != 1 {
			r8.OK("executeDial: an undelivered connection is closed", f.Pos(), 1, "not decided: dial call / result select not identified")
		} else {
			sel := sels[0].(*ssa.Select)
			sendArm := int64(-1)
			for i, st := range sel.States {
				if st.Send != nil {
					sendArm = int64(i)
				}
			}
			isCon := func(v ssa.Value) bool {
				ex, ok := resolveLoad(strip2(v)).(*ssa.Extract)
				return ok && ex.Index == 0 && ex.Tuple == dial.(ssa.Value)
			}
			isIdx := func(v ssa.Value) bool {
				ex, ok := strip2(v).(*ssa.Extract)
				return ok && ex.Index == 0 && ex.Tuple == ssa.Value(sel)
			}
			closes := findInstrs(f, func(in ssa.Instruction) bool {
				return calleeNameIs(in, "Close") && derivesFrom(callArgs(in.(ssa.CallInstruction))[0], isCon)
			})
			delivered := eqEdge(isIdx, func(v ssa.Value) bool { k, ok := constInt(v); return ok && k == sendArm }, true)
			w, n := (&Cut{Fn: f, From: []ssa.Instruction{sel}, Target: isRetInstr, Sep: inSet(closes), EdgeCut: anyEdge(delivered, edgeNil(isCon, true))}).Run(c)
			r8.Check(w == "" && sendArm >= 0, "executeDial: a connection whose result nobody takes is closed", instrPos(sel), n+1, "", "the caller gave up: the connection just obtained belongs to nobody and stays open", w)
		}
	}
	if f := r8.need("(*" + dwT + ").loop"); f != nil {
		clearK := "(*" + dlT + ").clearAllPeerDials"
		clears := findInstrs(f, func(in ssa.Instruction) bool {
			if d, ok := in.(*ssa.Defer); ok {
				return calleeKey(d) == clearK
			}
			return isCallTo(in, clearK)
		})
		w, n := (&Cut{Fn: f, Target: isRetInstr, Sep: inSet(clears)}).Run(c)
		r8.Check(w == "" && len(clears) >= 1, "dialWorker.loop: the peer's waiting dials are cleared when the worker ends", f.Pos(), n+1, "", "jobs of a finished worker stay queued in the limiter and are started later for nobody", w)
	}
}

// stepsFieldBy: the instruction stores <load of the same field> op n into the field (x.f++, x.f += n, x.f = x.f + n;
// for ADD also n + x.f).
func stepsFieldBy(in ssa.Instruction, fieldKey string, op token.Token, n int64) bool {
	st, ok := in.(*ssa.Store)
	if !ok || !isFieldWrite(in, fieldKey) {
		return false
	}
	b, ok := st.Val.(*ssa.BinOp)
	if !ok || b.Op != op {
		return false
	}
	x, y := b.X, b.Y
	if _, isC := constInt(x); isC && op == token.ADD {
		x, y = y, x
	}
	k, isC := constInt(y)
	return isC && k == n && isLoadOfField(fieldKey)(strip2(x))
}

// initsFreshFieldTo: the instruction stores the constant n into a field of an object allocated in the same function
// (a composite literal's field initialiser).
func initsFreshFieldTo(in ssa.Instruction, n int64) bool {
	st, ok := in.(*ssa.Store)
	if !ok {
		return false
	}
	k, isC := constInt(st.Val)
	fa, isF := st.Addr.(*ssa.FieldAddr)
	if !isC || k != n || !isF {
		return false
	}
	_, fresh := fa.X.(*ssa.Alloc)
	return fresh
}

// mapStepsBy: the instruction is m[k] = m[k'] op n on the map field (x.m[k]++, x.m[k] -= n, ...).
func mapStepsBy(in ssa.Instruction, fieldKey string, op token.Token, n int64) bool {
	mu, ok := in.(*ssa.MapUpdate)
	if !ok || !isFieldWrite(in, fieldKey) {
		return false
	}
	b, ok := mu.Value.(*ssa.BinOp)
	if !ok || b.Op != op {
		return false
	}
	x, y := b.X, b.Y
	if _, isC := constInt(x); isC && op == token.ADD {
		x, y = y, x
	}
	k, isC := constInt(y)
	if !isC || k != n {
		return false
	}
	x = strip2(x)
	if ex, ok := x.(*ssa.Extract); ok && ex.Index == 0 {
		x = ex.Tuple
	}
	lk, ok := x.(*ssa.Lookup)
	return ok && isLoadOfField(fieldKey)(strip2(lk.X))
}
