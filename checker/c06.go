package main

import (
	"fmt"
	"go/token"
	"go/types"
	"strings"

	"golang.org/x/tools/go/ssa"
)

func init() {
	register("C06", checkC06,
		"Decides the ordering and bookkeeping structure of the connection-events emitter and its wiring in the swarm on every CFG path: Disconnected is dispatched only from AddConn (after Connected returned, for a parked removal) and RemoveConn (for a conn recorded as connected); membership in `connected` implies Connected has returned; each of AddConn/RemoveConn does exactly one of {dispatch, record}; "+
			"both always push their connectedness event (so the last published state is re-evaluated); maps under notifsLk, closed+wg.Add under closeMu, callbacks never under either lock; the last-event table is touched only by the single run loop; "+
			"in the swarm a connection is registered and referenced before Connected, Connected precedes the accept loop, removal precedes Disconnected, and Close waits for all references before closing the emitters; events are emitted only on a state change or for a vanished connection; lock order.",
		"exactly-once and ordering over racing schedules, handlers that block, truthfulness of the last event as a function of the history")
}

func checkC06(c *Ctx, r *Report) {
	emT := swarmP + ".connectionEventsEmitter"
	em := func(n string) string { return "(*" + emT + ")." + n }
	isOnConn := func(in ssa.Instruction) bool { return isDynCallOfField(in, emT+".onConnected") }
	isOnDisc := func(in ssa.Instruction) bool { return isDynCallOfField(in, emT+".onDisconnected") }
	lookupHit := func(field string) func(ssa.Value) bool {
		return func(v ssa.Value) bool {
			e, ok := v.(*ssa.Extract)
			if !ok || e.Index != 1 {
				return false
			}
			lk, ok := e.Tuple.(*ssa.Lookup)
			return ok && isLoadOfField(emT+"."+field)(strip2(lk.X))
		}
	}
	isRet := func(in ssa.Instruction) bool { _, ok := in.(*ssa.Return); return ok }
	mapIns := func(field string) func(ssa.Instruction) bool {
		return func(in ssa.Instruction) bool {
			_, ok := in.(*ssa.MapUpdate)
			return ok && isFieldWrite(in, emT+"."+field)
		}
	}
	mapDel := func(field string) func(ssa.Instruction) bool {
		return func(in ssa.Instruction) bool {
			return isCallTo(in, "builtin.delete") && isFieldWrite(in, emT+"."+field)
		}
	}

	// ---- R1 ---------------------------------------------------------------
	r1 := r.Rule("C06-R1", "E1/E3", 6, "onDisconnected only in AddConn/RemoveConn; in AddConn after onConnected and only for a parked removal; in RemoveConn only for a recorded conn; `connected` insert after onConnected")
	r1.onlyIn("call onDisconnected", isOnDisc, c.FnsOfPkg(swarmP), em("AddConn"), em("RemoveConn"))
	r1.onlyIn("call onConnected", isOnConn, c.FnsOfPkg(swarmP), em("AddConn"))
	add := r1.need(em("AddConn"))
	rem := r1.need(em("RemoveConn"))
	if add != nil {
		oc := findInstrs(add, isOnConn)
		od := findInstrs(add, isOnDisc)
		ins := findInstrs(add, mapIns("connected"))
		r1.Check(len(oc) == 1 && len(od) == 1 && len(ins) == 1, em("AddConn")+": one onConnected, one onDisconnected, one insert", add.Pos(), 3, "", "", "")
		for _, d := range od {
			w, n := (&Cut{Fn: add, Target: isInstr(d), Sep: inSet(oc)}).Run(c)
			r1.Check(w == "", em("AddConn")+": Disconnected dispatched only after Connected returned", instrPos(d), n+1, "", "Disconnected can start before Connected has returned", w)
		}
		// dispatch only when the pending entry was found: the flag is true only past the pendingDisconnect hit
		flagGuard(c, r1, add, od, lookupHit("pendingDisconnect"), em("AddConn")+": Disconnected only for a parked removal")
		for _, i := range ins {
			w, n := (&Cut{Fn: add, Target: isInstr(i), Sep: inSet(oc)}).Run(c)
			r1.Check(w == "", em("AddConn")+": connected[conn] recorded only after Connected returned", instrPos(i), n+1, "", "a concurrent RemoveConn could dispatch Disconnected while Connected is still running", w)
		}
		for _, call := range append(append([]ssa.Instruction{}, oc...), od...) {
			_, sync := call.(*ssa.Call)
			r1.Check(sync, em("AddConn")+": callbacks run synchronously inside the call (covered by the emitter's wait group)", instrPos(call), 1, "", "a callback started with go/defer is not waited for by Close: Disconnected can be delivered after the swarm closed", describeInstr(call))
			r1.Check(isParamVar(c, call.(ssa.CallInstruction).Common().Args[0], "conn"), em("AddConn")+": callbacks receive the conn being added", instrPos(call), 1, "", "", "")
		}
	}
	if rem != nil {
		od := findInstrs(rem, isOnDisc)
		r1.Check(len(od) == 1, em("RemoveConn")+": one onDisconnected", rem.Pos(), 1, "", "", "")
		flagGuard(c, r1, rem, od, lookupHit("connected"), em("RemoveConn")+": Disconnected only for a conn recorded as connected")
		for _, call := range od {
			_, sync := call.(*ssa.Call)
			r1.Check(sync, em("RemoveConn")+": callback runs synchronously inside the call (covered by the emitter's wait group)", instrPos(call), 1, "", "a callback started with go/defer is not waited for by Close", describeInstr(call))
			r1.Check(isParamVar(c, call.(ssa.CallInstruction).Common().Args[0], "conn"), em("RemoveConn")+": callback receives the conn being removed", instrPos(call), 1, "", "", "")
		}
	}

	// ---- R2 ---------------------------------------------------------------
	r2 := r.Rule("C06-R2", "E8", 6, "exactly one of {dispatch, record} per call; the connectedness event is always pushed")
	type arm struct {
		fn               *ssa.Function
		name             string
		hitField         string
		delField, insFld string
		evType           string
	}
	for _, a := range []arm{{add, em("AddConn"), "pendingDisconnect", "pendingDisconnect", "connected", "addConnEvent"}, {rem, em("RemoveConn"), "connected", "connected", "pendingDisconnect", "removeConnEvent"}} {
		f := a.fn
		if f == nil {
			continue
		}
		dels := findInstrs(f, mapDel(a.delField))
		ins := findInstrs(f, mapIns(a.insFld))
		hit := edgeBool(lookupHit(a.hitField), true)
		miss := edgeBool(lookupHit(a.hitField), false)
		r2.guard(f, "delete("+a.delField+", conn)", dels, a.hitField+" hit", hit, nil)
		r2.guard(f, a.insFld+"[conn] = {}", ins, a.hitField+" miss", miss, nil)
		// hit => delete and dispatch; miss => insert and no dispatch
		var hitE, missE []CFGEdge
		for _, b := range blocksDeep(f) {
			for s := range b.Succs {
				if hit(b, s) {
					hitE = append(hitE, CFGEdge{b, s})
				}
				if miss(b, s) {
					missE = append(missE, CFGEdge{b, s})
				}
			}
		}
		if len(hitE) == 0 || len(missE) == 0 {
			r2.Fail(a.name+": branch on "+a.hitField, f.Pos(), "not found", "")
			continue
		}
		// the same lookup result may be tested again later (after the critical section): the arms start at the first test
		hitE, missE = earliestEdges(hitE), earliestEdges(missE)
		r2.mustPass(f, a.name+": ["+a.hitField+" hit] the entry is deleted", &Cut{Fn: f, FromEdges: hitE, Sep: inSet(dels), Target: isRet}, len(hitE))
		// the hit sets the dispatch flag (the flag's false operand is unreachable from the hit edge) and a set flag dispatches
		var flag *ssa.Phi
		allInstrs(f, func(in ssa.Instruction) {
			if p, ok := in.(*ssa.Phi); ok && p.Comment == "dispatchDisconnect" {
				flag = p
			}
		})
		if flag == nil {
			r2.mustPass(f, a.name+": ["+a.hitField+" hit] Disconnected is dispatched", &Cut{Fn: f, FromEdges: hitE, Sep: isOnDisc, Target: isRet}, len(hitE))
		} else {
			falseE := phiEdgesWhere(flag, func(v ssa.Value) bool { b, isC := constBool(v); return isC && !b })
			w1, n1 := (&Cut{Fn: f, FromEdges: hitE, TargetEdge: edgeSet(falseE)}).Run(c)
			w2, n2 := (&Cut{Fn: f, Assume: map[ssa.Value]bool{flag: true}, Sep: isOnDisc, Target: isRet, From: []ssa.Instruction{flag}}).Run(c)
			r2.Check(w1 == "" && w2 == "", a.name+": ["+a.hitField+" hit] Disconnected is dispatched", f.Pos(), n1+n2, "", "a connection found in "+a.hitField+" is removed from it without Disconnected being delivered", w1+w2)
		}
		r2.mustPass(f, a.name+": ["+a.hitField+" miss] the conn is recorded in "+a.insFld, &Cut{Fn: f, FromEdges: missE, Sep: inSet(ins), Target: isRet}, len(missE))
		// the connectedness event is pushed on every path past the admission (wg.Add past !closed — directly,
		// or through a bool helper that returns true exactly when it admitted), with the right type
		adds, addEdges := admissionPoints(c, f, emT)
		sends := findInstrs(f, func(in ssa.Instruction) bool {
			s, ok := in.(*ssa.Send)
			return ok && isLoadOfField(emT+".peerConnectednessCh")(strip2(s.Chan))
		})
		if len(adds)+len(addEdges) == 0 {
			r2.Fail(a.name+": admission (wg.Add past the closed check)", f.Pos(), "not found", "")
		} else {
			q := &Cut{Fn: f, From: adds, FromEdges: addEdges, Sep: inSet(sends), Target: isRet}
			r2.mustPass(f, a.name+": every path pushes the "+a.evType+" to the run loop", q, len(adds)+len(addEdges))
			// and nothing is admitted-less: the sends and callbacks are reachable only past the admission
			var notAdmitted EdgePred
			if len(addEdges) > 0 {
				notAdmitted = edgeSet(addEdges)
			}
			w, n := (&Cut{Fn: f, Target: func(in ssa.Instruction) bool { return inSet(sends)(in) || isOnConn(in) || isOnDisc(in) }, Sep: inSet(adds), EdgeCut: notAdmitted}).Run(c)
			r2.Check(w == "", a.name+": events and callbacks only for an admitted operation", f.Pos(), n+1, "", "work is done for an operation Close does not wait for", w)
		}
		want := constIntObj(c, swarmP, a.evType)
		for _, s := range sends {
			okT := false
			peerOK := false
			if u, ok := s.(*ssa.Send).X.(*ssa.UnOp); ok {
				if al, ok := u.X.(*ssa.Alloc); ok {
					for _, ref := range *al.Referrers() {
						if fa, ok := ref.(*ssa.FieldAddr); ok {
							fl, _ := fieldAddrOf(fa)
							for _, r2i := range *fa.Referrers() {
								if st, ok := r2i.(*ssa.Store); ok {
									if fl.Name() == "Type" {
										enterScan(f) // (in a helper shared by AddConn and RemoveConn: this caller's argument)
										k, isC := constInt(strip(st.Val))
										okT = isC && k == want
									}
									if fl.Name() == "PeerID" {
										rp := isResultOfCall(st.Val, 0, "(*"+swarmP+".Conn).RemotePeer")
										peerOK = rp != nil && isParamVar(c, callArgs(rp)[0], "conn")
									}
								}
							}
						}
					}
				}
			}
			r2.Check(okT && peerOK, a.name+": event {PeerID: conn.RemotePeer(), Type: "+a.evType+"}", instrPos(s), 2, "", "", "")
		}
	}

	// ---- R3 ---------------------------------------------------------------
	r3 := r.Rule("C06-R3", "E4", 14, "connected/pendingDisconnect under notifsLk; closed (+wg.Add) under closeMu; callbacks never under either lock")
	lockRule(c, r3, lockSpec{Pkg: swarmP, Type: "connectionEventsEmitter", Mutex: "notifsLk", Guarded: []string{"connected", "pendingDisconnect"},
		Exempt: map[string]string{swarmP + ".newConnectionEventsEmitter": "constructor"}})
	lockRule(c, r3, lockSpec{Pkg: swarmP, Type: "connectionEventsEmitter", Mutex: "closeMu", Guarded: []string{"closed"},
		Exempt: map[string]string{swarmP + ".newConnectionEventsEmitter": "constructor"}})
	for _, f := range []*ssa.Function{add, rem} {
		if f == nil {
			continue
		}
		lf := computeLockFlow(f, heldSet{})
		for _, call := range findInstrs(f, func(in ssa.Instruction) bool { return isOnConn(in) || isOnDisc(in) }) {
			held := ""
			for k := range lf.may[call] {
				if strings.HasSuffix(k, ".notifsLk") || strings.HasSuffix(k, ".closeMu") {
					held = k
				}
			}
			r3.Check(held == "", fnKey(f)+": callback invoked with no emitter lock held", instrPos(call), 1, "", "a handler that closes a connection (or blocks) would deadlock / serialise all connections", held)
		}
		// (wg.Add sites are checked below, wherever they are)
		// wg.Done deferred right after
		defs := findInstrs(f, func(in ssa.Instruction) bool {
			_, ok := in.(*ssa.Defer)
			return ok && isCallTo(in, "(*sync.WaitGroup).Done")
		})
		r3.Check(len(defs) == 1, fnKey(f)+": defer wg.Done()", f.Pos(), 1, "", "", "")
	}
	// every wg.Add on the emitter's wait group: under closeMu, past !closed
	nAdd := 0
	for _, g := range c.FnsOfPkg(swarmP) {
		adds := findInstrsIn(g, func(in ssa.Instruction) bool {
			if !isCallTo(in, "(*sync.WaitGroup).Add") {
				return false
			}
			fl, base := fieldAddrOf(in.(ssa.CallInstruction).Common().Args[0])
			return fl != nil && fieldKeyOf(base, fl) == emT+".wg"
		})
		if len(adds) == 0 {
			continue
		}
		lfg := computeLockFlow(g, heldSet{})
		for _, a := range adds {
			nAdd++
			held := false
			for k := range lfg.must[a] {
				if strings.HasSuffix(k, ".closeMu") {
					held = true
				}
			}
			r3.Check(held, fnKey(g)+": wg.Add under closeMu", instrPos(a), 1, "", "Close could return while an operation is still being admitted", "")
			r3.guard(g, "wg.Add", []ssa.Instruction{a}, "!closed", edgeBool(isLoadOfField(emT+".closed"), false), nil)
		}
	}
	if nAdd == 0 {
		r3.Fail("wg.Add on the emitter's wait group", token.NoPos, "not found", "")
	}

	// ---- R4 ---------------------------------------------------------------
	r4 := r.Rule("C06-R4", "E3", 2, "lastConnectednessEvent touched only by notifyPeer, called only from the run loop")
	lastK := emT + ".lastConnectednessEvent"
	touch := func(in ssa.Instruction) bool {
		fa, ok := in.(*ssa.FieldAddr)
		if !ok {
			return false
		}
		fl, base := fieldAddrOf(fa)
		return fl != nil && fieldKeyOf(base, fl) == lastK
	}
	r4.onlyIn("access "+lastK, touch, c.FnsOfPkg(swarmP), em("notifyPeer"), swarmP+".newConnectionEventsEmitter")
	r4.onlyCallers("call notifyPeer", []string{em("notifyPeer")}, c.FnsOfPkg(swarmP), em("runEmitter"))
	goRun := func(in ssa.Instruction) bool { _, ok := in.(*ssa.Go); return ok && isCallTo(in, em("runEmitter")) }
	r4.onlyIn("go runEmitter", goRun, c.FnsOfPkg(swarmP), swarmP+".newConnectionEventsEmitter")
	r4.onlyCallers("call runEmitter (any)", []string{em("runEmitter")}, c.FnsOfPkg(swarmP), swarmP+".newConnectionEventsEmitter")

	// ---- R5 ---------------------------------------------------------------
	r5 := r.Rule("C06-R5", "E1", 7, "swarm wiring order: register+ref before Connected; Connected before the accept loop; removal before Disconnected; Close waits before closing emitters")
	sw := "(*" + swarmP + ".Swarm)."
	if f := r5.need(sw + "addConn"); f != nil {
		// each step is where it happens in addConn — directly, or in a helper extracted since (findInstrs and the path
		// search look into those)
		isReg := func(in ssa.Instruction) bool {
			mu, ok := in.(*ssa.MapUpdate)
			return ok && strings.Contains(mu.Map.Type().String(), "swarm.Conn")
		}
		isRefsAdd := func(in ssa.Instruction) bool {
			if !isCallTo(in, "(*sync.WaitGroup).Add") {
				return false
			}
			fl, _ := fieldAddrOf(in.(ssa.CallInstruction).Common().Args[0])
			return fl != nil && fl.Name() == "refs"
		}
		addC := findInstrs(f, callPred(em("AddConn")))
		start := findInstrs(f, callPred("(*"+swarmP+".Conn).start"))
		reg := findInstrs(f, isReg)
		refs := findInstrs(f, isRefsAdd)
		ok := len(addC) == 1 && len(start) == 1 && len(reg) == 1 && len(refs) == 1
		r5.Check(ok, sw+"addConn: sites", f.Pos(), 4, "", "expected one registration, one refs.Add, one AddConn, one start", "")
		if ok {
			dom := func(first, then []ssa.Instruction, name string, why string) {
				w, n := (&Cut{Fn: f, Target: inSet(then), Sep: inSet(first)}).Run(c)
				r5.Check(w == "", sw+"addConn: "+name, instrPos(then[0]), n+1, "", why, w)
			}
			dom(reg, addC, "conn registered in conns.m before Connected is dispatched", "handlers would not find the connection they are told about")
			dom(refs, addC, "swarm references taken before Connected is dispatched", "")
			dom(addC, start, "Connected is dispatched before the accept loop starts (no inbound stream before Connected)", "an inbound stream can be delivered before Connected")
			// Swarm.Close waits on refs: between the registration (from which Close can find and close the connection,
			// letting doClose's goroutine release its reference) and the Connected dispatch, a second reference must be
			// outstanding — the one the accept loop releases. Both are taken in the critical section that registers.
			isRefsCall := func(in ssa.Instruction, m string) bool {
				ci, ok := in.(ssa.CallInstruction)
				if !ok || calleeKey(ci) != "(*sync.WaitGroup)."+m {
					return false
				}
				fl, base := fieldAddrOf(ci.Common().Args[0])
				return fl != nil && fieldKeyOf(base, fl) == swarmP+".Swarm.refs"
			}
			// releasing parties: the goroutine bodies (closures, or methods extracted since) of doClose and start
			// that release a reference when they end (deferred Done)
			parties := 0
			for _, g := range c.FnsOfPkg(swarmP) {
				rk := fnKey(c.PinnedRoot(g))
				if rk != "(*"+swarmP+".Conn).doClose" && rk != "(*"+swarmP+".Conn).start" {
					continue
				}
				// `defer refs.Done()`, or a deferred closure every path of which calls refs.Done()
				releases := false
				for _, in := range findInstrsIn(g, func(in ssa.Instruction) bool { _, d := in.(*ssa.Defer); return d }) {
					if isRefsCall(in, "Done") {
						releases = true
						continue
					}
					if h := in.(*ssa.Defer).Call.StaticCallee(); h != nil && h.Blocks != nil && h.Parent() == g {
						if w, _ := (&Cut{Fn: h, Target: func(x ssa.Instruction) bool { _, isRet := x.(*ssa.Return); return isRet },
							Sep: func(x ssa.Instruction) bool { _, isDefer := x.(*ssa.Defer); return !isDefer && isRefsCall(x, "Done") }}).Run(c); w == "" {
							releases = true
						}
					}
				}
				if releases {
					parties++
				}
			}
			realRefs, realReg := []ssa.Instruction{refs[0]}, []ssa.Instruction{reg[0]}
			if realRefs[0].Parent() != realReg[0].Parent() {
				r5.Fail(sw+"addConn: registration and refs.Add in one function", f.Pos(), "the registration and the reference count are not taken together", "")
				realRefs, realReg = []ssa.Instruction{refs[0]}, []ssa.Instruction{reg[0]}
			}
			lf := computeLockFlow(realReg[0].Parent(), heldSet{})
			var k int64
			isC := false
			if ci, isCall := realRefs[0].(ssa.CallInstruction); isCall && isRefsAdd(realRefs[0]) {
				k, isC = constInt(ci.Common().Args[1])
			}
			heldConns := func(h heldSet) bool {
				for k := range h {
					if strings.HasSuffix(k, ".conns.RWMutex") {
						return true
					}
				}
				return false
			}
			underLock := heldConns(lf.must[realRefs[0]]) && heldConns(lf.must[realReg[0]])
			// a reference taken by start itself (synchronously, or in a helper it calls) comes after Connected; the
			// references the accept loop takes for the streams it spawns are not meant
			lateAdd := 0
			if g0 := c.Fn("(*" + swarmP + ".Conn).start"); g0 != nil {
				sync := map[*ssa.Function]bool{g0: true}
				for changed := true; changed; {
					changed = false
					for g := range sync {
						allInstrs(g, func(in ssa.Instruction) {
							if call, ok := in.(*ssa.Call); ok {
								if h := call.Call.StaticCallee(); h != nil && h.Blocks != nil && !isPinnedFn(fnKey(h)) && !sync[h] && h.Pkg == g0.Pkg {
									sync[h] = true
									changed = true
								}
							}
						})
					}
				}
				for g := range sync {
					lateAdd += len(findInstrs(g, func(in ssa.Instruction) bool { return isRefsCall(in, "Add") }))
				}
			}
			r5.Check(isC && parties >= 2 && int(k) == parties && underLock && lateAdd == 0, sw+"addConn: one swarm reference per releasing party (doClose, accept loop) is taken in the critical section that registers the connection", instrPos(realRefs[0]), 3, "",
				"Swarm.Close can find the registered connection, close it, and return before its Connected / Disconnected notifications are delivered", fmt.Sprintf("Add(%d) under conns lock=%v, releasing parties=%d, Add in Conn.start=%d", k, underLock, parties, lateAdd))
		}
	}
	// a connection that dies underneath (remote hang-up) is noticed only by its accept loop, whose exit closes the
	// swarm connection and so leads to Disconnected: start must start that loop on every path
	if f := r5.need("(*" + swarmP + ".Conn).start"); f != nil {
		isLoopGo := func(in ssa.Instruction) bool {
			g, ok := in.(*ssa.Go)
			if !ok {
				return false
			}
			body := g.Call.StaticCallee()
			if body == nil || body.Blocks == nil {
				return false
			}
			accepts := len(findInstrsIn(body, func(x ssa.Instruction) bool { return calleeNameIs(x, "AcceptStream") })) > 0
			// the loop's exit closes the connection: `defer c.Close()`, or a deferred closure every path of which does
			closes := false
			isClose := func(x ssa.Instruction) bool {
				return isCallTo(x, "(*"+swarmP+".Conn).Close", "(*"+swarmP+".Conn).CloseWithError")
			}
			for _, x := range findInstrsIn(body, func(x ssa.Instruction) bool { _, d := x.(*ssa.Defer); return d }) {
				if isClose(x) {
					closes = true
					continue
				}
				if h := x.(*ssa.Defer).Call.StaticCallee(); h != nil && h.Blocks != nil && h.Parent() == body {
					if w, _ := (&Cut{Fn: h, Target: func(y ssa.Instruction) bool { _, isRet := y.(*ssa.Return); return isRet },
						Sep: func(y ssa.Instruction) bool { _, isDefer := y.(*ssa.Defer); return !isDefer && isClose(y) }}).Run(c); w == "" {
						closes = true
					}
				}
			}
			return accepts && closes
		}
		gos := findInstrs(f, isLoopGo)
		w, n := (&Cut{Fn: f, Target: func(in ssa.Instruction) bool { _, ok := in.(*ssa.Return); return ok }, Sep: isLoopGo}).Run(c)
		r5.Check(len(gos) == 1 && w == "", "(*"+swarmP+".Conn).start: every path starts the accept loop, which closes the connection when it ends", f.Pos(), n+1, "",
			"a connection whose transport died before start is never closed by the swarm: Disconnected is never delivered and it stays in ConnsToPeer", w)
	}
	if f := r5.need("(*" + swarmP + ".Conn).doClose"); f != nil {
		rmv := findInstrs(f, callPred(sw+"removeConn"))
		var goRem []ssa.Instruction
		for _, g := range findInstrs(f, func(in ssa.Instruction) bool { _, ok := in.(*ssa.Go); return ok }) {
			if cl := g.(*ssa.Go).Call.StaticCallee(); cl != nil && len(callsIn(cl, em("RemoveConn"))) == 1 {
				goRem = append(goRem, g)
				defs := findInstrs(cl, func(in ssa.Instruction) bool {
					_, ok := in.(*ssa.Defer)
					return ok && isCallTo(in, "(*sync.WaitGroup).Done")
				})
				w, _ := (&Cut{Fn: cl, Target: callPred(em("RemoveConn")), Sep: inSet(defs)}).Run(c)
				r5.Check(len(defs) == 1 && w == "", "doClose goroutine: defer refs.Done() before RemoveConn", cl.Pos(), 2, "", "Swarm.Close could return before Disconnected was delivered", "")
			}
		}
		ok := len(rmv) == 1 && len(goRem) == 1
		if ok {
			w, _ := (&Cut{Fn: f, Target: inSet(goRem), Sep: inSet(rmv)}).Run(c)
			ok = w == ""
		}
		r5.Check(ok, "doClose: connection removed from the swarm before Disconnected is dispatched", f.Pos(), 2, "", "", "")
		// ... and the dispatch happens however the transport's Close turned out: every path of doClose starts the
		// goroutine that reports the removal (and releases the reference Swarm.Close waits on)
		if len(goRem) == 1 {
			w, n := (&Cut{Fn: f, Target: func(in ssa.Instruction) bool { _, isRet := in.(*ssa.Return); return isRet }, Sep: inSet(goRem)}).Run(c)
			r5.Check(w == "", "doClose: every path dispatches the removal to the events emitter", f.Pos(), n+1, "",
				"a connection closed on that path never gets Disconnected, its last published state stays Connected, and Swarm.Close waits for a reference that is never released", w)
		}
	}
	if f := r5.need(sw + "close"); f != nil {
		wait := findInstrs(f, func(in ssa.Instruction) bool {
			if !isCallTo(in, "(*sync.WaitGroup).Wait") {
				return false
			}
			fl, _ := fieldAddrOf(in.(ssa.CallInstruction).Common().Args[0])
			return fl != nil && fl.Name() == "refs"
		})
		ceClose := findInstrs(f, callPred(em("Close")))
		emClose := findInstrs(f, func(in ssa.Instruction) bool {
			return isCallTo(in, "(core/event.Emitter).Close", "(io.Closer).Close") && recvIsField(in.(ssa.CallInstruction), swarmP+".Swarm.emitter")
		})
		ok := len(wait) == 1 && len(ceClose) == 1 && len(emClose) == 1
		if ok {
			w1, _ := (&Cut{Fn: f, Target: inSet(ceClose), Sep: inSet(wait)}).Run(c)
			w2, _ := (&Cut{Fn: f, Target: inSet(emClose), Sep: inSet(ceClose)}).Run(c)
			ok = w1 == "" && w2 == ""
		}
		r5.Check(ok, sw+"close: refs.Wait() → connectionEventsEmitter.Close() → emitter.Close()", f.Pos(), 3, "", "Close returns (or the emitter is closed) before all notifications were delivered", "")
	}
	if f := r5.need(em("Close")); f != nil {
		// closed=true before wg.Wait before cancel before loopWG.Wait
		st := findInstrs(f, fieldWritePred(emT+".closed"))
		waits := findInstrs(f, callPred("(*sync.WaitGroup).Wait"))
		cancels := findInstrs(f, func(in ssa.Instruction) bool { return isDynCallOfField(in, emT+".cancel") })
		ok := len(st) == 1 && len(waits) == 2 && len(cancels) == 1
		if ok {
			w1, _ := (&Cut{Fn: f, Target: isInstr(waits[0]), Sep: inSet(st)}).Run(c)
			w2, _ := (&Cut{Fn: f, Target: inSet(cancels), Sep: isInstr(waits[0])}).Run(c)
			w3, _ := (&Cut{Fn: f, Target: isInstr(waits[1]), Sep: inSet(cancels)}).Run(c)
			ok = w1 == "" && w2 == "" && w3 == ""
		}
		r5.Check(ok, em("Close")+": closed=true → wg.Wait → cancel → loopWG.Wait", f.Pos(), 4, "", "the run loop could be stopped before pending events were emitted", "")
	}
	if f := r5.need(em("runEmitter")); f != nil {
		// after cancellation the queue is drained before returning: a return is reachable from the ctx.Done arm only through the default arm of the draining select
		sels := findInstrs(f, func(in ssa.Instruction) bool { _, ok := in.(*ssa.Select); return ok })
		okDrain := len(sels) == 2
		if okDrain {
			inner := sels[1].(*ssa.Select)
			if inner.Blocking {
				inner = sels[0].(*ssa.Select)
			}
			okDrain = !inner.Blocking && len(inner.States) == 1 && isLoadOfField(emT+".peerConnectednessCh")(strip2(inner.States[0].Chan))
		}
		r5.Check(okDrain, em("runEmitter")+": pending events are drained after cancellation", f.Pos(), 2, "", "events queued before Close are dropped: the last published state can be wrong", "")
	}

	// ---- R6 ---------------------------------------------------------------
	r6 := r.Rule("C06-R6", "E1", 3, "notifyPeer emits only on newState != oldState or (add event and NotConnected); records the new state first; the state it publishes is the truth: an open direct connection always decides Connected")
	// the state notifyPeer publishes comes from connectednessUnlocked: with a direct connection open the answer is
	// Connected whatever else is listed, with only limited ones open it is not NotConnected
	if f := r6.need("(*" + swarmP + ".Swarm).connectednessUnlocked"); f != nil {
		connectednessRules(c, r6, f, "bd")
	}
	if f := r6.need(em("notifyPeer")); f != nil {
		emits := findInstrs(f, callPred("(core/event.Emitter).Emit"))
		notConn := constIntObj(c, "core/network", "NotConnected")
		addEv := constIntObj(c, swarmP, "addConnEvent")
		newS := isCallResult(0, "") // placeholder
		_ = newS
		isNew := func(v ssa.Value) bool {
			call, ok := v.(*ssa.Call)
			return ok && isDynCallOfField(call, emT+".connectedness")
		}
		isOld := func(v ssa.Value) bool {
			lk, ok := v.(*ssa.Lookup)
			return ok && !lk.CommaOk && isLoadOfField(lastK)(strip2(lk.X))
		}
		// decision table over the three atoms A: newState != oldState, B: event type == addConnEvent,
		// C: newState == NotConnected.  Emit is reached iff A || (B && C), on every path of that assignment.
		cmpAtom := func(isX, isY func(ssa.Value) bool) atomPred {
			return func(v ssa.Value) (bool, bool) {
				bo, ok := v.(*ssa.BinOp)
				if !ok || (bo.Op != token.EQL && bo.Op != token.NEQ) {
					return false, false
				}
				if (isX(strip(bo.X)) && isY(strip(bo.Y))) || (isX(strip(bo.Y)) && isY(strip(bo.X))) {
					return true, bo.Op == token.EQL
				}
				return false, false
			}
		}
		isConstK := func(k int64) func(ssa.Value) bool {
			return func(v ssa.Value) bool { kk, ok := constInt(v); return ok && kk == k }
		}
		isType := func(v ssa.Value) bool { fl, _ := loadOfField(strip2(v)); return fl != nil && fl.Name() == "Type" }
		eqNewOld := cmpAtom(isNew, isOld)             // atom: new == old
		eqTypeAdd := cmpAtom(isType, isConstK(addEv)) // atom: type == add
		// after `last[p] = newState`, a read of last[p] is the new state too
		isNewOrStored := func(v ssa.Value) bool {
			if isNew(v) {
				return true
			}
			lk, ok := v.(*ssa.Lookup)
			if !ok || lk.CommaOk || !isLoadOfField(lastK)(strip2(lk.X)) {
				return false
			}
			for _, st := range findInstrs(f, func(in ssa.Instruction) bool {
				mu, ok := in.(*ssa.MapUpdate)
				return ok && isFieldWrite(in, lastK) && isNew(strip(mu.Value))
			}) {
				w, _ := (&Cut{Fn: f, Target: isInstr(lk), Sep: isInstr(st)}).Run(c)
				if w == "" {
					return true // every path to the read passes the store
				}
			}
			return false
		}
		eqNewNotConn := cmpAtom(isNewOrStored, isConstK(notConn)) // atom: new == NotConnected
		isEmit := func(in ssa.Instruction) bool { return inSet(emits)(in) }
		tab, okT := boolTable(f, []atomPred{eqNewOld, eqTypeAdd, eqNewNotConn}, isEmit)
		bad := ""
		for a, o := range tab {
			same, add, nc := a&1 != 0, a&2 != 0, a&4 != 0
			if same && !nc {
				// old == new != NotConnected is consistent; old == new == NotConnected too; all eight are explored
			}
			want := !same || (add && nc)
			if want && !o.all {
				bad += fmt.Sprintf("[new==old:%v add:%v notConnected:%v] Emit is skipped on some path; ", same, add, nc)
			}
			if !want && o.some {
				bad += fmt.Sprintf("[new==old:%v add:%v notConnected:%v] Emit is reached; ", same, add, nc)
			}
		}
		r6.Check(okT && len(emits) >= 1 && bad == "", em("notifyPeer")+": Emit happens exactly when newState != oldState || (add event && newState == NotConnected) (decision table over the three tests)", f.Pos(), 8, "", "a change of connectedness is not published, or the same state is published twice in a row", bad)
		// the new state is recorded as the last one published: stored, or — NotConnected being the zero value of a missing entry — deleted
		isStoreLast := func(in ssa.Instruction) bool {
			mu, ok := in.(*ssa.MapUpdate)
			return ok && isFieldWrite(in, lastK) && isNew(strip(mu.Value))
		}
		isDelLast := func(in ssa.Instruction) bool { return isCallTo(in, "builtin.delete") && isFieldWrite(in, lastK) }
		tabRec, okR := boolTable(f, []atomPred{eqNewNotConn}, func(in ssa.Instruction) bool { return isStoreLast(in) || isDelLast(in) })
		tabDel, okD := boolTable(f, []atomPred{eqNewNotConn}, isDelLast)
		okRec := okR && okD && tabRec[0].all && tabRec[1].all && !tabDel[0].some
		// when the state is NotConnected and the entry is stored, it must also be deleted or stored as NotConnected (either is the same table)
		r6.Check(okRec, em("notifyPeer")+": every call leaves lastConnectednessEvent[p] equal to the new state (a deleted entry reads NotConnected)", f.Pos(), 4, "", "the next event is compared with a stale last state: a change is missed or a non-change published", fmt.Sprintf("recorded: %+v; deleted: %+v; ok=%v,%v", tabRec, tabDel, okR, okD))
		for _, e := range emits {
			_ = e
		}
	}

	// ---- R7 ---------------------------------------------------------------
	r7 := r.Rule("C06-R7", "E4-order", 2, "directConnNotifs is never acquired while conns is held (waiters take directConnNotifs then conns.RLock)")
	bad := 0
	nAcq := 0
	for _, f := range c.FnsOfPkg(swarmP) {
		lf := computeLockFlow(f, heldSet{})
		allInstrsIn(f, func(in ssa.Instruction) {
			call, ok := in.(*ssa.Call)
			if !ok {
				return
			}
			if op, isOp := mutexOps[calleeKey(call)]; isOp && op.acquire && strings.HasSuffix(pathOf(call.Call.Args[0]), "directConnNotifs.Mutex") {
				nAcq++
				for k := range lf.may[in] {
					if strings.HasSuffix(k, ".conns.RWMutex") {
						bad++
						r7.Fail(fnKey(f)+": directConnNotifs.Lock while conns is held", instrPos(in), "forbidden lock order (deadlock with waitForDirectConn, which takes directConnNotifs then conns)", k)
					}
				}
			}
		})
	}
	r7.Check(nAcq >= 3, "acquisitions of directConnNotifs examined", token.NoPos, nAcq, "", "expected the waiter (2) and the notifier (1)", "")
	if bad == 0 {
		r7.OK("no directConnNotifs acquisition under conns", token.NoPos, nAcq, "")
	}

	// ---- R8 ---------------------------------------------------------------
	r8 := r.Rule("C06-R8", "E1", 1, "removeConn takes exactly the closing connection off the peer's list: the list is rewritten only past the comparison of an element with the connection given, the rewritten list is one shorter, and the peer is forgotten only when no connection is left")
	if f := r8.need(sw + "removeConn"); f != nil {
		cp := f.Params[1]
		connsK := "struct{sync.RWMutex; m map[" + Mod + "core/peer.ID][]*" + Mod + swarmP + ".Conn}.m"
		isConnsM := func(v ssa.Value) bool {
			fl, base := loadOfField(strip2(v))
			if fl == nil || fl.Name() != "m" {
				return false
			}
			_ = base
			return strings.Contains(types.TypeString(v.Type(), nil), swarmP+".Conn")
		}
		_ = connsK
		isC := func(v ssa.Value) bool {
			v = resolveLoad(strip2(v))
			return v == ssa.Value(cp) || isParamCellLoad(c, v, cp)
		}
		isElem := func(v ssa.Value) bool {
			// an element of the peer's list
			return !isC(v) && derivesFrom(v, func(x ssa.Value) bool {
				lk, ok := x.(*ssa.Lookup)
				return ok && isConnsM(lk.X)
			})
		}
		same := eqEdge(isElem, isC, true)
		var from []CFGEdge
		for _, b := range blocksDeep(f) {
			for si := range b.Succs {
				if same(b, si) {
					from = append(from, CFGEdge{b, si})
				}
			}
		}
		rewrites := findInstrs(f, func(in ssa.Instruction) bool {
			mu, ok := in.(*ssa.MapUpdate)
			return ok && isConnsM(mu.Map)
		})
		if len(from) == 0 {
			r8.OK("removeConn: the list is rewritten only for the connection given", f.Pos(), 1, "not decided: no comparison of a list element with the connection recognised (a library filter?)")
		} else {
			r8.guard(f, "rewrite the peer's list", rewrites, "an element is the connection given", same, nil)
			dels := findInstrs(f, func(in ssa.Instruction) bool {
				return isCallTo(in, "builtin.delete") && isConnsM(callArgs(in.(ssa.CallInstruction))[0])
			})
			r8.mustPass(f, "removeConn: once the connection is found the list is rewritten", &Cut{Fn: f, FromEdges: from, Target: isRetInstr, Sep: inSet(append(append([]ssa.Instruction{}, rewrites...), dels...))}, len(from))
			okShort := len(rewrites) >= 1
			for _, in := range rewrites {
				sl, isS := resolveLoad(strip2(in.(*ssa.MapUpdate).Value)).(*ssa.Slice)
				if !isS || sl.High == nil {
					okShort = false
					continue
				}
				bo, isB := resolveLoad(strip2(sl.High)).(*ssa.BinOp)
				k, isK := int64(0), false
				if isB {
					k, isK = constInt(bo.Y)
				}
				if !isB || bo.Op != token.SUB || !isK || k != 1 || isResultOfCall(resolveLoad(strip2(bo.X)), 0, "builtin.len") == nil {
					okShort = false
				}
			}
			r8.Check(okShort, "removeConn: the rewritten list is one element shorter", f.Pos(), len(rewrites), "", "the list keeps a dead connection (still counted as connected) or loses a live one", "")
			isLen := func(v ssa.Value) bool {
				ci := isResultOfCall(resolveLoad(strip2(v)), 0, "builtin.len")
				return ci != nil && derivesFrom(ci.Common().Args[0], func(x ssa.Value) bool { lk, ok := x.(*ssa.Lookup); return ok && isConnsM(lk.X) })
			}
			zero := func(v ssa.Value) bool { k, ok := constInt(v); return ok && k == 0 }
			r8.guard(f, "forget the peer", dels, "no connection is left", anyEdge(eqEdge(isLen, zero, true), edgeExcl(isLen, zero, ordGT)), nil)
		}
	}
}

// flagGuard: the targets are executed only when a boolean flag is true, and
// the flag becomes true only past the favourable (true) edge of cond.
func flagGuard(c *Ctx, ru *Rule, f *ssa.Function, targets []ssa.Instruction, cond func(ssa.Value) bool, name string) {
	var flags []*ssa.Phi
	allInstrs(f, func(in ssa.Instruction) {
		if p, ok := in.(*ssa.Phi); ok && p.Comment == "dispatchDisconnect" {
			flags = append(flags, p)
		}
	})
	if len(flags) == 0 {
		// direct form: the call is under the condition itself
		ru.guard(f, name, targets, "condition", edgeBool(cond, true), nil)
		return
	}
	ok := false
	witness := ""
	for _, fl := range flags {
		w, _ := (&Cut{Fn: f, Target: inSet(targets), EdgeCut: edgeBool(isValue(fl), true)}).Run(c)
		if w != "" {
			witness = w
			continue
		}
		es := phiEdgesWhere(fl, func(v ssa.Value) bool { b, isC := constBool(v); return isC && b })
		w2, _ := (&Cut{Fn: f, TargetEdge: edgeSet(es), EdgeCut: edgeBool(cond, true)}).Run(c)
		if w2 == "" && len(es) > 0 {
			ok = true
		} else {
			witness = w2
		}
	}
	pos := f.Pos()
	if len(targets) > 0 {
		pos = instrPos(targets[0])
	}
	ru.Check(ok && len(targets) > 0, name, pos, len(flags)+1, "", "Disconnected can be dispatched for a connection in the wrong state (never connected / not parked)", witness)
}

// admissionPoints: where an emitter operation counts as admitted in f: after a
// direct wg.Add on the emitter's wait group, or on the true edge of a call to
// a module bool function that returns true only after such a wg.Add and
// false only without one.
func admissionPoints(c *Ctx, f *ssa.Function, emT string) ([]ssa.Instruction, []CFGEdge) {
	isAdd := func(in ssa.Instruction) bool {
		if !isCallTo(in, "(*sync.WaitGroup).Add") {
			return false
		}
		fl, base := fieldAddrOf(in.(ssa.CallInstruction).Common().Args[0])
		return fl != nil && fieldKeyOf(base, fl) == emT+".wg"
	}
	adds := findInstrs(f, isAdd)
	var edges []CFGEdge
	allInstrs(f, func(in ssa.Instruction) {
		call, ok := in.(*ssa.Call)
		if !ok {
			return
		}
		h := call.Call.StaticCallee()
		if h == nil || h.Blocks == nil || h == f || h.Signature.Results().Len() != 1 {
			return
		}
		if b, isB := h.Signature.Results().At(0).Type().Underlying().(*types.Basic); !isB || b.Kind() != types.Bool {
			return
		}
		if len(findInstrs(h, isAdd)) == 0 {
			return
		}
		// true only past the Add, false never past it
		okH := true
		for _, ret := range returnsOf(h) {
			b, isC := constBool(retVal(ret, 0))
			if !isC {
				okH = false
				continue
			}
			w, _ := (&Cut{Fn: h, Target: isInstr(ret), EdgeCut: failCut(ret), Sep: isAdd}).Run(c)
			if b && w != "" {
				okH = false // returns true without admitting
			}
			if !b {
				if w2, _ := (&Cut{Fn: h, From: findInstrs(h, isAdd), Target: isInstr(ret)}).Run(c); w2 != "" {
					okH = false // returns false after admitting
				}
			}
		}
		if !okH {
			return
		}
		edges = append(edges, edgesWhere(f, edgeBool(func(v ssa.Value) bool { return v == ssa.Value(call) }, true))...)
	})
	return adds, edges
}

// earliestEdges drops the edges whose block is reachable from the target of another edge of the set.
func earliestEdges(es []CFGEdge) []CFGEdge {
	var out []CFGEdge
	for i, e := range es {
		later := false
		for j, o := range es {
			if i == j || o.B == e.B {
				continue
			}
			if blockReaches(o.B.Succs[o.Succ], e.B) && !blockReaches(e.B.Succs[e.Succ], o.B) {
				later = true
			}
		}
		if !later {
			out = append(out, e)
		}
	}
	return out
}
