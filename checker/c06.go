package main

import (
	"go/token"
	"strings"

	"golang.org/x/tools/go/ssa"
)

func init() {
	register("C06", checkC06,
		"Decides the ordering and bookkeeping structure of the connection-events emitter and its wiring in the swarm on every CFG path: Disconnected is dispatched only from AddConn (after Connected returned, for a parked removal) and RemoveConn (for a conn recorded as connected); membership in `connected` implies Connected has returned; each of AddConn/RemoveConn does exactly one of {dispatch, record}; "+
			"both always push their connectedness event (so the last published state is re-evaluated); maps under notifsLk, closed+wg.Add under closeMu, callbacks never under either lock; the last-event table is touched only by the single run loop; "+
			"in the swarm a connection is registered and referenced before Connected, Connected precedes the accept loop, removal precedes Disconnected, and Close waits for all references before closing the emitters; events are emitted only on a state change or for a vanished connection; lock order.",
		"exactly-once and ordering over racing schedules, handlers that block, truthfulness of the last event as a function of the history")
}

func checkC06(c *Ctx, r *Report) {
	emT := swarmP + ".connectionEventsEmitter"
	em := func(n string) string { return "(*" + emT + ")." + n }
	isOnConn := func(in ssa.Instruction) bool { return isDynCallOfField(in, emT+".onConnected") }
	isOnDisc := func(in ssa.Instruction) bool { return isDynCallOfField(in, emT+".onDisconnected") }
	lookupHit := func(field string) func(ssa.Value) bool {
		return func(v ssa.Value) bool {
			e, ok := v.(*ssa.Extract)
			if !ok || e.Index != 1 {
				return false
			}
			lk, ok := e.Tuple.(*ssa.Lookup)
			return ok && isLoadOfField(emT+"."+field)(strip2(lk.X))
		}
	}
	isRet := func(in ssa.Instruction) bool { _, ok := in.(*ssa.Return); return ok }
	mapIns := func(field string) func(ssa.Instruction) bool {
		return func(in ssa.Instruction) bool {
			_, ok := in.(*ssa.MapUpdate)
			return ok && isFieldWrite(in, emT+"."+field)
		}
	}
	mapDel := func(field string) func(ssa.Instruction) bool {
		return func(in ssa.Instruction) bool {
			return isCallTo(in, "builtin.delete") && isFieldWrite(in, emT+"."+field)
		}
	}

	// ---- R1 ---------------------------------------------------------------
	r1 := r.Rule("C06-R1", "E1/E3", 6, "onDisconnected only in AddConn/RemoveConn; in AddConn after onConnected and only for a parked removal; in RemoveConn only for a recorded conn; `connected` insert after onConnected")
	r1.onlyIn("call onDisconnected", isOnDisc, c.FnsOfPkg(swarmP), em("AddConn"), em("RemoveConn"))
	r1.onlyIn("call onConnected", isOnConn, c.FnsOfPkg(swarmP), em("AddConn"))
	add := r1.need(em("AddConn"))
	rem := r1.need(em("RemoveConn"))
	if add != nil {
		oc := findInstrs(add, isOnConn)
		od := findInstrs(add, isOnDisc)
		ins := findInstrs(add, mapIns("connected"))
		r1.Check(len(oc) == 1 && len(od) == 1 && len(ins) == 1, em("AddConn")+": one onConnected, one onDisconnected, one insert", add.Pos(), 3, "", "", "")
		for _, d := range od {
			w, n := (&Cut{Fn: add, Target: isInstr(d), Sep: inSet(oc)}).Run(c)
			r1.Check(w == "", em("AddConn")+": Disconnected dispatched only after Connected returned", instrPos(d), n+1, "", "Disconnected can start before Connected has returned", w)
		}
		// dispatch only when the pending entry was found: the flag is true only past the pendingDisconnect hit
		flagGuard(c, r1, add, od, lookupHit("pendingDisconnect"), em("AddConn")+": Disconnected only for a parked removal")
		for _, i := range ins {
			w, n := (&Cut{Fn: add, Target: isInstr(i), Sep: inSet(oc)}).Run(c)
			r1.Check(w == "", em("AddConn")+": connected[conn] recorded only after Connected returned", instrPos(i), n+1, "", "a concurrent RemoveConn could dispatch Disconnected while Connected is still running", w)
		}
		for _, call := range append(append([]ssa.Instruction{}, oc...), od...) {
			r1.Check(isParamVar(c, call.(*ssa.Call).Call.Args[0], "conn"), em("AddConn")+": callbacks receive the conn being added", instrPos(call), 1, "", "", "")
		}
	}
	if rem != nil {
		od := findInstrs(rem, isOnDisc)
		r1.Check(len(od) == 1, em("RemoveConn")+": one onDisconnected", rem.Pos(), 1, "", "", "")
		flagGuard(c, r1, rem, od, lookupHit("connected"), em("RemoveConn")+": Disconnected only for a conn recorded as connected")
		for _, call := range od {
			r1.Check(isParamVar(c, call.(*ssa.Call).Call.Args[0], "conn"), em("RemoveConn")+": callback receives the conn being removed", instrPos(call), 1, "", "", "")
		}
	}

	// ---- R2 ---------------------------------------------------------------
	r2 := r.Rule("C06-R2", "E8", 6, "exactly one of {dispatch, record} per call; the connectedness event is always pushed")
	type arm struct {
		fn               *ssa.Function
		name             string
		hitField         string
		delField, insFld string
		evType           string
	}
	for _, a := range []arm{{add, em("AddConn"), "pendingDisconnect", "pendingDisconnect", "connected", "addConnEvent"}, {rem, em("RemoveConn"), "connected", "connected", "pendingDisconnect", "removeConnEvent"}} {
		f := a.fn
		if f == nil {
			continue
		}
		dels := findInstrs(f, mapDel(a.delField))
		ins := findInstrs(f, mapIns(a.insFld))
		hit := edgeBool(lookupHit(a.hitField), true)
		miss := edgeBool(lookupHit(a.hitField), false)
		r2.guard(f, "delete("+a.delField+", conn)", dels, a.hitField+" hit", hit, nil)
		r2.guard(f, a.insFld+"[conn] = {}", ins, a.hitField+" miss", miss, nil)
		// hit => delete and dispatch; miss => insert and no dispatch
		var hitE, missE []CFGEdge
		for _, b := range f.Blocks {
			for s := range b.Succs {
				if hit(b, s) {
					hitE = append(hitE, CFGEdge{b, s})
				}
				if miss(b, s) {
					missE = append(missE, CFGEdge{b, s})
				}
			}
		}
		if len(hitE) == 0 || len(missE) == 0 {
			r2.Fail(a.name+": branch on "+a.hitField, f.Pos(), "not found", "")
			continue
		}
		r2.mustPass(f, a.name+": ["+a.hitField+" hit] the entry is deleted", &Cut{Fn: f, FromEdges: hitE, Sep: inSet(dels), Target: isRet}, len(hitE))
		// the hit sets the dispatch flag (the flag's false operand is unreachable from the hit edge) and a set flag dispatches
		var flag *ssa.Phi
		allInstrs(f, func(in ssa.Instruction) {
			if p, ok := in.(*ssa.Phi); ok && p.Comment == "dispatchDisconnect" {
				flag = p
			}
		})
		if flag == nil {
			r2.mustPass(f, a.name+": ["+a.hitField+" hit] Disconnected is dispatched", &Cut{Fn: f, FromEdges: hitE, Sep: isOnDisc, Target: isRet}, len(hitE))
		} else {
			falseE := phiEdgesWhere(flag, func(v ssa.Value) bool { b, isC := constBool(v); return isC && !b })
			w1, n1 := (&Cut{Fn: f, FromEdges: hitE, TargetEdge: edgeSet(falseE)}).Run(c)
			w2, n2 := (&Cut{Fn: f, Assume: map[ssa.Value]bool{flag: true}, Sep: isOnDisc, Target: isRet, From: []ssa.Instruction{flag}}).Run(c)
			r2.Check(w1 == "" && w2 == "", a.name+": ["+a.hitField+" hit] Disconnected is dispatched", f.Pos(), n1+n2, "", "a connection found in "+a.hitField+" is removed from it without Disconnected being delivered", w1+w2)
		}
		r2.mustPass(f, a.name+": ["+a.hitField+" miss] the conn is recorded in "+a.insFld, &Cut{Fn: f, FromEdges: missE, Sep: inSet(ins), Target: isRet}, len(missE))
		// the connectedness event is pushed on every path past the closed check, with the right type
		var adds []ssa.Instruction
		adds = findInstrs(f, func(in ssa.Instruction) bool {
			if !isCallTo(in, "(*sync.WaitGroup).Add") {
				return false
			}
			fl, base := fieldAddrOf(in.(ssa.CallInstruction).Common().Args[0])
			return fl != nil && fieldKeyOf(base, fl) == emT+".wg"
		})
		sends := findInstrs(f, func(in ssa.Instruction) bool {
			s, ok := in.(*ssa.Send)
			return ok && isLoadOfField(emT+".peerConnectednessCh")(strip2(s.Chan))
		})
		q := &Cut{Fn: f, From: adds, Sep: inSet(sends), Target: isRet}
		r2.mustPass(f, a.name+": every path pushes the "+a.evType+" to the run loop", q, len(adds))
		want := constIntObj(c, swarmP, a.evType)
		for _, s := range sends {
			okT := false
			peerOK := false
			if u, ok := s.(*ssa.Send).X.(*ssa.UnOp); ok {
				if al, ok := u.X.(*ssa.Alloc); ok {
					for _, ref := range *al.Referrers() {
						if fa, ok := ref.(*ssa.FieldAddr); ok {
							fl, _ := fieldAddrOf(fa)
							for _, r2i := range *fa.Referrers() {
								if st, ok := r2i.(*ssa.Store); ok {
									if fl.Name() == "Type" {
										k, isC := constInt(st.Val)
										okT = isC && k == want
									}
									if fl.Name() == "PeerID" {
										rp := isResultOfCall(st.Val, 0, "(*"+swarmP+".Conn).RemotePeer")
										peerOK = rp != nil && isParamVar(c, callArgs(rp)[0], "conn")
									}
								}
							}
						}
					}
				}
			}
			r2.Check(okT && peerOK, a.name+": event {PeerID: conn.RemotePeer(), Type: "+a.evType+"}", instrPos(s), 2, "", "", "")
		}
	}

	// ---- R3 ---------------------------------------------------------------
	r3 := r.Rule("C06-R3", "E4", 14, "connected/pendingDisconnect under notifsLk; closed (+wg.Add) under closeMu; callbacks never under either lock")
	lockRule(c, r3, lockSpec{Pkg: swarmP, Type: "connectionEventsEmitter", Mutex: "notifsLk", Guarded: []string{"connected", "pendingDisconnect"},
		Exempt: map[string]string{swarmP + ".newConnectionEventsEmitter": "constructor"}})
	lockRule(c, r3, lockSpec{Pkg: swarmP, Type: "connectionEventsEmitter", Mutex: "closeMu", Guarded: []string{"closed"},
		Exempt: map[string]string{swarmP + ".newConnectionEventsEmitter": "constructor"}})
	for _, f := range []*ssa.Function{add, rem} {
		if f == nil {
			continue
		}
		lf := computeLockFlow(f, heldSet{})
		for _, call := range findInstrs(f, func(in ssa.Instruction) bool { return isOnConn(in) || isOnDisc(in) }) {
			held := ""
			for k := range lf.may[call] {
				if strings.HasSuffix(k, ".notifsLk") || strings.HasSuffix(k, ".closeMu") {
					held = k
				}
			}
			r3.Check(held == "", fnKey(f)+": callback invoked with no emitter lock held", instrPos(call), 1, "", "a handler that closes a connection (or blocks) would deadlock / serialise all connections", held)
		}
		// wg.Add under closeMu, past !closed
		for _, a := range findInstrs(f, func(in ssa.Instruction) bool {
			if !isCallTo(in, "(*sync.WaitGroup).Add") {
				return false
			}
			fl, base := fieldAddrOf(in.(ssa.CallInstruction).Common().Args[0])
			return fl != nil && fieldKeyOf(base, fl) == emT+".wg"
		}) {
			held := false
			for k := range lf.must[a] {
				if strings.HasSuffix(k, ".closeMu") {
					held = true
				}
			}
			r3.Check(held, fnKey(f)+": wg.Add under closeMu", instrPos(a), 1, "", "Close could return while an operation is still being admitted", "")
			r3.guard(f, "wg.Add", []ssa.Instruction{a}, "!closed", edgeBool(isLoadOfField(emT+".closed"), false), nil)
		}
		// wg.Done deferred right after
		defs := findInstrs(f, func(in ssa.Instruction) bool {
			_, ok := in.(*ssa.Defer)
			return ok && isCallTo(in, "(*sync.WaitGroup).Done")
		})
		r3.Check(len(defs) == 1, fnKey(f)+": defer wg.Done()", f.Pos(), 1, "", "", "")
	}

	// ---- R4 ---------------------------------------------------------------
	r4 := r.Rule("C06-R4", "E3", 2, "lastConnectednessEvent touched only by notifyPeer, called only from the run loop")
	lastK := emT + ".lastConnectednessEvent"
	touch := func(in ssa.Instruction) bool {
		fa, ok := in.(*ssa.FieldAddr)
		if !ok {
			return false
		}
		fl, base := fieldAddrOf(fa)
		return fl != nil && fieldKeyOf(base, fl) == lastK
	}
	r4.onlyIn("access "+lastK, touch, c.FnsOfPkg(swarmP), em("notifyPeer"), swarmP+".newConnectionEventsEmitter")
	r4.onlyCallers("call notifyPeer", []string{em("notifyPeer")}, c.FnsOfPkg(swarmP), em("runEmitter"))
	goRun := func(in ssa.Instruction) bool { _, ok := in.(*ssa.Go); return ok && isCallTo(in, em("runEmitter")) }
	r4.onlyIn("go runEmitter", goRun, c.FnsOfPkg(swarmP), swarmP+".newConnectionEventsEmitter")
	r4.onlyCallers("call runEmitter (any)", []string{em("runEmitter")}, c.FnsOfPkg(swarmP), swarmP+".newConnectionEventsEmitter")

	// ---- R5 ---------------------------------------------------------------
	r5 := r.Rule("C06-R5", "E1", 7, "swarm wiring order: register+ref before Connected; Connected before the accept loop; removal before Disconnected; Close waits before closing emitters")
	sw := "(*" + swarmP + ".Swarm)."
	if f := r5.need(sw + "addConn"); f != nil {
		addC := findInstrs(f, callPred(em("AddConn")))
		start := findInstrs(f, callPred("(*"+swarmP+".Conn).start"))
		reg := findInstrs(f, func(in ssa.Instruction) bool {
			mu, ok := in.(*ssa.MapUpdate)
			return ok && strings.Contains(mu.Map.Type().String(), "swarm.Conn")
		})
		refs := findInstrs(f, func(in ssa.Instruction) bool {
			if !isCallTo(in, "(*sync.WaitGroup).Add") {
				return false
			}
			fl, _ := fieldAddrOf(in.(ssa.CallInstruction).Common().Args[0])
			return fl != nil && fl.Name() == "refs"
		})
		ok := len(addC) == 1 && len(start) == 1 && len(reg) == 1 && len(refs) == 1
		r5.Check(ok, sw+"addConn: sites", f.Pos(), 4, "", "expected one registration, one refs.Add, one AddConn, one start", "")
		if ok {
			dom := func(first, then []ssa.Instruction, name string, why string) {
				w, n := (&Cut{Fn: f, Target: inSet(then), Sep: inSet(first)}).Run(c)
				r5.Check(w == "", sw+"addConn: "+name, instrPos(then[0]), n+1, "", why, w)
			}
			dom(reg, addC, "conn registered in conns.m before Connected is dispatched", "handlers would not find the connection they are told about")
			dom(refs, addC, "swarm references taken before Connected is dispatched", "")
			dom(addC, start, "Connected is dispatched before the accept loop starts (no inbound stream before Connected)", "an inbound stream can be delivered before Connected")
		}
	}
	if f := r5.need("(*" + swarmP + ".Conn).doClose"); f != nil {
		rmv := findInstrs(f, callPred(sw+"removeConn"))
		var goRem []ssa.Instruction
		for _, g := range findInstrs(f, func(in ssa.Instruction) bool { _, ok := in.(*ssa.Go); return ok }) {
			if cl := g.(*ssa.Go).Call.StaticCallee(); cl != nil && len(callsIn(cl, em("RemoveConn"))) == 1 {
				goRem = append(goRem, g)
				defs := findInstrs(cl, func(in ssa.Instruction) bool {
					_, ok := in.(*ssa.Defer)
					return ok && isCallTo(in, "(*sync.WaitGroup).Done")
				})
				w, _ := (&Cut{Fn: cl, Target: callPred(em("RemoveConn")), Sep: inSet(defs)}).Run(c)
				r5.Check(len(defs) == 1 && w == "", "doClose goroutine: defer refs.Done() before RemoveConn", cl.Pos(), 2, "", "Swarm.Close could return before Disconnected was delivered", "")
			}
		}
		ok := len(rmv) == 1 && len(goRem) == 1
		if ok {
			w, _ := (&Cut{Fn: f, Target: inSet(goRem), Sep: inSet(rmv)}).Run(c)
			ok = w == ""
		}
		r5.Check(ok, "doClose: connection removed from the swarm before Disconnected is dispatched", f.Pos(), 2, "", "", "")
	}
	if f := r5.need(sw + "close"); f != nil {
		wait := findInstrs(f, func(in ssa.Instruction) bool {
			if !isCallTo(in, "(*sync.WaitGroup).Wait") {
				return false
			}
			fl, _ := fieldAddrOf(in.(ssa.CallInstruction).Common().Args[0])
			return fl != nil && fl.Name() == "refs"
		})
		ceClose := findInstrs(f, callPred(em("Close")))
		emClose := findInstrs(f, func(in ssa.Instruction) bool {
			return isCallTo(in, "(core/event.Emitter).Close", "(io.Closer).Close") && recvIsField(in.(ssa.CallInstruction), swarmP+".Swarm.emitter")
		})
		ok := len(wait) == 1 && len(ceClose) == 1 && len(emClose) == 1
		if ok {
			w1, _ := (&Cut{Fn: f, Target: inSet(ceClose), Sep: inSet(wait)}).Run(c)
			w2, _ := (&Cut{Fn: f, Target: inSet(emClose), Sep: inSet(ceClose)}).Run(c)
			ok = w1 == "" && w2 == ""
		}
		r5.Check(ok, sw+"close: refs.Wait() → connectionEventsEmitter.Close() → emitter.Close()", f.Pos(), 3, "", "Close returns (or the emitter is closed) before all notifications were delivered", "")
	}
	if f := r5.need(em("Close")); f != nil {
		// closed=true before wg.Wait before cancel before loopWG.Wait
		st := findInstrs(f, fieldWritePred(emT+".closed"))
		waits := findInstrs(f, callPred("(*sync.WaitGroup).Wait"))
		cancels := findInstrs(f, func(in ssa.Instruction) bool { return isDynCallOfField(in, emT+".cancel") })
		ok := len(st) == 1 && len(waits) == 2 && len(cancels) == 1
		if ok {
			w1, _ := (&Cut{Fn: f, Target: isInstr(waits[0]), Sep: inSet(st)}).Run(c)
			w2, _ := (&Cut{Fn: f, Target: inSet(cancels), Sep: isInstr(waits[0])}).Run(c)
			w3, _ := (&Cut{Fn: f, Target: isInstr(waits[1]), Sep: inSet(cancels)}).Run(c)
			ok = w1 == "" && w2 == "" && w3 == ""
		}
		r5.Check(ok, em("Close")+": closed=true → wg.Wait → cancel → loopWG.Wait", f.Pos(), 4, "", "the run loop could be stopped before pending events were emitted", "")
	}
	if f := r5.need(em("runEmitter")); f != nil {
		// after cancellation the queue is drained before returning: a return is reachable from the ctx.Done arm only through the default arm of the draining select
		sels := findInstrs(f, func(in ssa.Instruction) bool { _, ok := in.(*ssa.Select); return ok })
		okDrain := len(sels) == 2
		if okDrain {
			inner := sels[1].(*ssa.Select)
			if inner.Blocking {
				inner = sels[0].(*ssa.Select)
			}
			okDrain = !inner.Blocking && len(inner.States) == 1 && isLoadOfField(emT+".peerConnectednessCh")(strip2(inner.States[0].Chan))
		}
		r5.Check(okDrain, em("runEmitter")+": pending events are drained after cancellation", f.Pos(), 2, "", "events queued before Close are dropped: the last published state can be wrong", "")
	}

	// ---- R6 ---------------------------------------------------------------
	r6 := r.Rule("C06-R6", "E1", 3, "notifyPeer emits only on newState != oldState or (add event and NotConnected); records the new state first")
	if f := r6.need(em("notifyPeer")); f != nil {
		emits := findInstrs(f, callPred("(core/event.Emitter).Emit"))
		notConn := constIntObj(c, "core/network", "NotConnected")
		addEv := constIntObj(c, swarmP, "addConnEvent")
		newS := isCallResult(0, "") // placeholder
		_ = newS
		isNew := func(v ssa.Value) bool {
			call, ok := v.(*ssa.Call)
			return ok && isDynCallOfField(call, emT+".connectedness")
		}
		isOld := func(v ssa.Value) bool {
			lk, ok := v.(*ssa.Lookup)
			return ok && !lk.CommaOk && isLoadOfField(lastK)(strip2(lk.X))
		}
		changed := eqEdge(isNew, isOld, false)
		force := func(b *ssa.BasicBlock, s int) bool {
			// (Type == addConnEvent) true edge followed by (newState == NotConnected) true edge: take the second test's true edge
			return edgeIntBound(func(v ssa.Value) bool { return isNew(strip(v)) }, notConn, notConn, false)(b, s)
		}
		r6.guard(f, "Emit", emits, "newState != oldState || newState == NotConnected", anyEdge(changed, force), nil)
		// the NotConnected-forcing branch is reachable only for add events
		var forceBlocks []CFGEdge
		for _, b := range f.Blocks {
			for s := range b.Succs {
				if force(b, s) {
					forceBlocks = append(forceBlocks, CFGEdge{b, s})
				}
			}
		}
		isAdd := func(v ssa.Value) bool {
			bo, ok := v.(*ssa.BinOp)
			if !ok || bo.Op != token.EQL {
				return false
			}
			k, isC := constInt(bo.Y)
			fl, _ := loadOfField(strip2(bo.X))
			return isC && k == addEv && fl != nil && fl.Name() == "Type"
		}
		w, n := (&Cut{Fn: f, TargetEdge: edgeSet(forceBlocks), EdgeCut: anyEdge(changed, edgeBool(isAdd, true))}).Run(c)
		r6.Check(w == "" && len(forceBlocks) > 0, em("notifyPeer")+": a repeated NotConnected only for an add event", f.Pos(), n+1, "", "the same state can be published twice in a row", w)
		// the new state is recorded
		q := &Cut{Fn: f, Target: isRet, Sep: func(in ssa.Instruction) bool { _, ok := in.(*ssa.MapUpdate); return ok && isFieldWrite(in, lastK) }}
		r6.mustPass(f, em("notifyPeer")+": every call records the new state as the last one published", q, 1)
		for _, e := range emits {
			_ = e
		}
	}

	// ---- R7 ---------------------------------------------------------------
	r7 := r.Rule("C06-R7", "E4-order", 2, "directConnNotifs is never acquired while conns is held (waiters take directConnNotifs then conns.RLock)")
	bad := 0
	nAcq := 0
	for _, f := range c.FnsOfPkg(swarmP) {
		lf := computeLockFlow(f, heldSet{})
		allInstrs(f, func(in ssa.Instruction) {
			call, ok := in.(*ssa.Call)
			if !ok {
				return
			}
			if op, isOp := mutexOps[calleeKey(call)]; isOp && op.acquire && strings.HasSuffix(pathOf(call.Call.Args[0]), "directConnNotifs.Mutex") {
				nAcq++
				for k := range lf.may[in] {
					if strings.HasSuffix(k, ".conns.RWMutex") {
						bad++
						r7.Fail(fnKey(f)+": directConnNotifs.Lock while conns is held", instrPos(in), "forbidden lock order (deadlock with waitForDirectConn, which takes directConnNotifs then conns)", k)
					}
				}
			}
		})
	}
	r7.Check(nAcq >= 3, "acquisitions of directConnNotifs examined", token.NoPos, nAcq, "", "expected the waiter (2) and the notifier (1)", "")
	if bad == 0 {
		r7.OK("no directConnNotifs acquisition under conns", token.NoPos, nAcq, "")
	}
}

// flagGuard: the targets are executed only when a boolean flag is true, and
// the flag becomes true only past the favourable (true) edge of cond.
func flagGuard(c *Ctx, ru *Rule, f *ssa.Function, targets []ssa.Instruction, cond func(ssa.Value) bool, name string) {
	var flags []*ssa.Phi
	allInstrs(f, func(in ssa.Instruction) {
		if p, ok := in.(*ssa.Phi); ok && p.Comment == "dispatchDisconnect" {
			flags = append(flags, p)
		}
	})
	if len(flags) == 0 {
		// direct form: the call is under the condition itself
		ru.guard(f, name, targets, "condition", edgeBool(cond, true), nil)
		return
	}
	ok := false
	witness := ""
	for _, fl := range flags {
		w, _ := (&Cut{Fn: f, Target: inSet(targets), EdgeCut: edgeBool(isValue(fl), true)}).Run(c)
		if w != "" {
			witness = w
			continue
		}
		es := phiEdgesWhere(fl, func(v ssa.Value) bool { b, isC := constBool(v); return isC && b })
		w2, _ := (&Cut{Fn: f, TargetEdge: edgeSet(es), EdgeCut: edgeBool(cond, true)}).Run(c)
		if w2 == "" && len(es) > 0 {
			ok = true
		} else {
			witness = w2
		}
	}
	pos := f.Pos()
	if len(targets) > 0 {
		pos = instrPos(targets[0])
	}
	ru.Check(ok && len(targets) > 0, name, pos, len(flags)+1, "", "Disconnected can be dispatched for a connection in the wrong state (never connected / not parked)", witness)
}
