package main

import (
	"fmt"
	"go/token"
	"go/types"
	"strings"

	"golang.org/x/tools/go/ssa"
)

func init() {
	register("C07", checkC07,
		"Decides structurally for every host that owns a stream handler (BasicHost, BlankHost): (R1) the negotiated handler is invoked only past a successful SetProtocol of the negotiated ID on that stream, with exactly the ID and the stream that Negotiate returned / received; (R2) a stream is returned from NewStream only past a successful SetProtocol(X) on it, X being the preferred protocol derived from the request list (and the same X is what the lazy negotiator will propose on that very stream) or the result of SelectOneOf over the request list on that stream, read only after the negotiation reported success; "+
			"(R3) Stream.protocol is written only by Stream.SetProtocol, past scope.SetProtocol(p) == nil for the same p; (R4) no non-test code in the module discards the error of Stream.SetProtocol / scope SetProtocol / SetService; (R5) a stream that is not dispatched is reset; (R6) the optimistic path negotiates on first use: the wrapper reads, writes and closes through the lazy negotiator and flushes the pending handshake before closing the write side; (R7) handler registration wraps exactly the caller's handler and removal reaches the mux.",
		"multistream-select agreement (trusted library), stale protocol knowledge, handler removal races, which of the two ends' views coincide at run time")
}

func checkC07(c *Ctx, r *Report) {
	basicP, blankP := "p2p/host/basic", "p2p/host/blank"
	hosts := []struct{ pkg, typ string }{{basicP, "BasicHost"}, {blankP, "BlankHost"}}
	setProto := "(core/network.*).SetProtocol"
	isRet := func(in ssa.Instruction) bool { _, ok := in.(*ssa.Return); return ok }
	msP := "github.com/multiformats/go-multistream"

	// ---- R1 ---------------------------------------------------------------
	r1 := r.Rule("C07-R1", "E1/E6", 4, "inbound: handle(protoID, s) only past s.SetProtocol(protoID) == nil, with Negotiate's own results on the stream that was negotiated")
	for _, h := range hosts {
		k := "(*" + h.pkg + "." + h.typ + ").newStreamHandler"
		f := r1.need(k)
		if f == nil {
			continue
		}
		neg := callsIn(f, "(core/protocol.*).Negotiate", "(*"+msP+".MultistreamMuxer[*]).Negotiate", "("+msP+".*).Negotiate")
		if len(neg) != 1 {
			// generic instantiation keys vary: match by name
			neg = nil
			allInstrs(f, func(in ssa.Instruction) {
				if calleeNameIs(in, "Negotiate") {
					neg = append(neg, in.(ssa.CallInstruction))
				}
			})
		}
		if len(neg) != 1 {
			r1.Fail(k+": Negotiate call", f.Pos(), fmt.Sprintf("expected exactly one, found %d", len(neg)), "")
			continue
		}
		isS := func(v ssa.Value) bool { return isParamVar(c, strip(v), "s") || isParamVar(c, v, "s") }
		negRes := func(i int) func(ssa.Value) bool {
			return func(v ssa.Value) bool { ci, idx := resultOf(strip(v)); return ci == neg[0] && idx == i }
		}
		okNegArg := false
		for _, a := range callArgs(neg[0])[1:] {
			if isS(a) {
				okNegArg = true
			}
		}
		var handles []ssa.Instruction
		allInstrs(f, func(in ssa.Instruction) {
			if call, ok := in.(*ssa.Call); ok && !call.Call.IsInvoke() && negRes(1)(call.Call.Value) {
				handles = append(handles, in)
			}
		})
		r1.Check(okNegArg && len(handles) == 1, k+": Negotiate(s) on the inbound stream, one dispatch of its handler", f.Pos(), 2, "", "", "")
		for _, hd := range handles {
			a := hd.(*ssa.Call).Call.Args
			r1.Check(len(a) == 2 && negRes(0)(a[0]) && isS(a[1]), k+": handle(protoID, s) gets Negotiate's protocol ID and the negotiated stream", instrPos(hd), 1, "", "the handler runs for another protocol or on another stream than was negotiated", "")
		}
		okSet := func(v ssa.Value) bool {
			ci := isResultOfCall(v, 0, setProto)
			return ci != nil && isS(callArgs(ci)[0]) && negRes(0)(callArgs(ci)[1])
		}
		r1.guard(f, "handle(protoID, s)", handles, "s.SetProtocol(protoID) == nil", edgeNil(okSet, true), nil)
		r1.guard(f, "handle(protoID, s)", handles, "Negotiate err == nil", edgeNil(negRes(2), true), nil)
	}

	// ---- R2 ---------------------------------------------------------------
	r2 := r.Rule("C07-R2", "E1/E6", 6, "outbound: a stream is returned only past a successful SetProtocol(X) on it; X is the preferred protocol from the request list (lazy path, same X proposed on the same stream) or SelectOneOf's result over the request list on that stream")
	for _, h := range hosts {
		k := "(*" + h.pkg + "." + h.typ + ").NewStream"
		f := r2.need(k)
		if f == nil {
			continue
		}
		ns := callsIn(f, "(core/network.*).NewStream")
		if len(ns) != 1 {
			r2.Fail(k+": Network().NewStream", f.Pos(), "expected exactly one", "")
			continue
		}
		isS := func(v ssa.Value) bool {
			return derivesFrom(v, func(x ssa.Value) bool { ci, i := resultOf(x); return ci == ns[0] && i == 0 })
		}
		pidsName := "pids"
		if param(f, "pids") == nil {
			pidsName = "protos"
		}
		isPids := func(g *ssa.Function) func(ssa.Value) bool {
			return func(v ssa.Value) bool {
				return isParamVar(c, v, pidsName) || isFreeVarOrParam(strip2(v), pidsName)
			}
		}
		// X candidates
		fs := append([]*ssa.Function{f}, allAnon(f)...)
		var selCalls []ssa.CallInstruction
		var selFn *ssa.Function
		for _, g := range fs {
			for _, in := range findInstrs(g, func(in ssa.Instruction) bool { return calleeNameIs(in, "SelectOneOf") }) {
				selCalls = append(selCalls, in.(ssa.CallInstruction))
				selFn = g
			}
		}
		if len(selCalls) != 1 {
			r2.Fail(k+": SelectOneOf", f.Pos(), "expected exactly one negotiation call", "")
			continue
		}
		sa := callArgs(selCalls[0])
		okSelArgs := isPids(selFn)(sa[0]) && (isS(sa[1]) || derivesFrom(sa[1], func(x ssa.Value) bool { return isFreeVarOrParam(x, "s") }))
		r2.Check(okSelArgs, k+": SelectOneOf(request list, the new stream)", instrPos(selCalls[0].(ssa.Instruction)), 1, "", "a protocol outside the request list can be selected, or another stream negotiated", "")
		// the selected protocol as seen by the outer function
		isSelected := func(v ssa.Value) bool {
			v = strip2(v)
			if ci, i := resultOf(strip(v)); ci == selCalls[0] && i == 0 {
				return true
			}
			// through a cell written only by the negotiating closure with SelectOneOf's result
			ld, ok := v.(*ssa.UnOp)
			if !ok {
				return false
			}
			cell, ok := ld.X.(*ssa.Alloc)
			if !ok {
				return false
			}
			nst := 0
			okAll := true
			var walk func(refs *[]ssa.Instruction)
			check := func(st *ssa.Store) {
				nst++
				if ci, i := resultOf(strip2(st.Val)); !(ci == selCalls[0] && i == 0) {
					okAll = false
				}
			}
			walk = func(refs *[]ssa.Instruction) {
				for _, ref := range *refs {
					switch x := ref.(type) {
					case *ssa.Store:
						if x.Addr == ssa.Value(cell) {
							check(x)
						}
					case *ssa.MakeClosure:
						fn := x.Fn.(*ssa.Function)
						for i, b := range x.Bindings {
							if b == ssa.Value(cell) {
								fv := fn.FreeVars[i]
								for _, r2 := range *fv.Referrers() {
									if st, ok := r2.(*ssa.Store); ok && st.Addr == ssa.Value(fv) {
										check(st)
									}
								}
							}
						}
					}
				}
			}
			walk(cell.Referrers())
			return nst >= 1 && okAll
		}
		var prefCall ssa.CallInstruction
		for _, call := range callsIn(f, "(*"+h.pkg+"."+h.typ+").preferredProtocol") {
			prefCall = call
		}
		isPref := func(v ssa.Value) bool {
			if prefCall == nil {
				return false
			}
			ci, i := resultOf(strip(v))
			return ci == prefCall && i == 0
		}
		okSetOn := func(x func(ssa.Value) bool) func(ssa.Value) bool {
			return func(v ssa.Value) bool {
				ci := isResultOfCall(v, 0, setProto)
				return ci != nil && isS(callArgs(ci)[0]) && x(callArgs(ci)[1])
			}
		}
		for _, ret := range returnsOf(f) {
			rv := retVal(ret, 0)
			if isNilConst(rv) {
				continue
			}
			// which shape: the raw stream, or the lazy wrapper around it
			if wrap := wrapperAlloc(rv, h.pkg+".streamWrapper"); wrap != nil {
				var strV, rwV ssa.Value
				for _, ref := range *wrap.Referrers() {
					if fa, ok := ref.(*ssa.FieldAddr); ok {
						fl, _ := fieldAddrOf(fa)
						for _, r2 := range *fa.Referrers() {
							if st, ok := r2.(*ssa.Store); ok && st.Addr == ssa.Value(fa) {
								switch fl.Name() {
								case "Stream":
									strV = st.Val
								case "rw":
									rwV = st.Val
								}
							}
						}
					}
				}
				var lz ssa.CallInstruction
				if rwV != nil {
					if ci, _ := resultOf(strip(rwV)); ci != nil && calleeNameIs(ci.(ssa.Instruction), "NewMSSelect") {
						lz = ci
					}
				}
				ok := strV != nil && isS(strV) && lz != nil && isS(callArgs(lz)[0]) && isPref(callArgs(lz)[1])
				r2.Check(ok, k+": the lazy wrapper wraps the new stream and will propose the preferred protocol on it", instrPos(ret), 2, "", "the optimistic path negotiates a different protocol (or stream) than it recorded", "")
				r2.guard(f, "return lazy stream", []ssa.Instruction{ret}, "s.SetProtocol(pref) == nil", edgeNil(okSetOn(isPref), true), nil)
				continue
			}
			r2.Check(isS(rv), k+": the returned stream is the one that was negotiated", instrPos(ret), 1, "", "", describeVal(rv))
			r2.guard(f, "return stream", []ssa.Instruction{ret}, "s.SetProtocol(selected) == nil", edgeNil(okSetOn(isSelected), true), nil)
			// selected is read only after the negotiation reported success
			if selFn != f {
				for _, sp := range callsIn(f, setProto) {
					if !isSelected(callArgs(sp)[1]) {
						continue
					}
					negErr := func(v ssa.Value) bool {
						return derivesFrom(v, func(x ssa.Value) bool {
							e, ok := x.(*ssa.Extract)
							if !ok {
								return false
							}
							_, isSel := e.Tuple.(*ssa.Select)
							return isSel && e.Index >= 2 && types.Identical(e.Type(), types.Universe.Lookup("error").Type())
						})
					}
					r2.guard(f, "SetProtocol(selected)", []ssa.Instruction{sp.(ssa.Instruction)}, "negotiation goroutine reported err == nil", edgeNil(negErr, true), nil)
				}
			} else {
				for _, sp := range callsIn(f, setProto) {
					r2.guard(f, "SetProtocol(selected)", []ssa.Instruction{sp.(ssa.Instruction)}, "SelectOneOf err == nil", edgeNil(func(v ssa.Value) bool { ci, i := resultOf(strip(v)); return ci == selCalls[0] && i == 1 }, true), nil)
				}
			}
		}
		if prefCall != nil {
			a := callArgs(prefCall)
			r2.Check(isParamVar(c, a[1], "p") && isPids(f)(a[2]), k+": preferredProtocol(p, request list)", instrPos(prefCall.(ssa.Instruction)), 1, "", "", "")
		}
	}
	if f := r2.need("(*" + basicP + ".BasicHost).preferredProtocol"); f != nil {
		sup := callsIn(f, "(core/peerstore.*).SupportsProtocols")
		ok := len(sup) == 1
		if ok {
			a := callArgs(sup[0])
			ok = isParamVar(c, a[1], "p") && isParamVar(c, a[2], "pids")
		}
		// the result is an element of SupportsProtocols' answer (a subset of the request list) or ""
		for _, ret := range returnsOf(f) {
			v := retVal(ret, 0)
			for _, l := range phiLeaves(v) {
				l = strip(l)
				if s, isC := constString(l); isC && s == "" {
					continue
				}
				if !(ok && derivesFrom(l, func(x ssa.Value) bool { ci, i := resultOf(x); return len(sup) == 1 && ci == sup[0] && i == 0 })) {
					ok = false
				}
			}
		}
		r2.Check(ok, "(*BasicHost).preferredProtocol: answers with a protocol the peerstore reports as supported among the requested ones", f.Pos(), 2, "", "the optimistic path binds the stream to a protocol that was not requested", "")
	}

	// ---- R3 ---------------------------------------------------------------
	r3 := r.Rule("C07-R3", "E1/E3", 3, "Stream.protocol is written only by Stream.SetProtocol, past scope.SetProtocol(p) == nil for the same p")
	strT := swarmP + ".Stream"
	isProtoStore := func(in ssa.Instruction) bool {
		if !isCallTo(in, "(*sync/atomic.Pointer[*]).Store", "(*sync/atomic.Pointer["+Mod+"core/protocol.ID]).Store") && !calleeNameIs(in, "Store", "Swap", "CompareAndSwap") {
			return false
		}
		a := callArgs(in.(ssa.CallInstruction))
		if len(a) == 0 {
			return false
		}
		fl, base := fieldAddrOf(a[0])
		return fl != nil && fieldKeyOf(base, fl) == strT+".protocol"
	}
	r3.onlyIn("write Stream.protocol", func(in ssa.Instruction) bool {
		return isProtoStore(in) || isFieldWrite(in, strT+".protocol")
	}, c.FnsOfPkg(swarmP), "(*"+strT+").SetProtocol")
	if f := r3.need("(*" + strT + ").SetProtocol"); f != nil {
		stores := findInstrs(f, isProtoStore)
		okScope := func(v ssa.Value) bool {
			ci := isResultOfCall(v, 0, "(core/network.*).SetProtocol")
			return ci != nil && isLoadOfField(strT+".scope")(callArgs(ci)[0]) && isParamVar(c, callArgs(ci)[1], "p")
		}
		r3.guard(f, "protocol.Store(&p)", stores, "s.scope.SetProtocol(p) == nil", edgeNil(okScope, true), nil)
		ok := len(stores) == 1
		for _, st := range stores {
			// &p of the parameter
			a := callArgs(st.(ssa.CallInstruction))[1]
			al, isAl := a.(*ssa.Alloc)
			ok = ok && isAl && isParamCell(c, al, "p")
		}
		r3.Check(ok, "(*Stream).SetProtocol: records the protocol the scope accepted", f.Pos(), 1, "", "", "")
		var rets []ssa.Instruction
		for _, ret := range returnsOf(f) {
			if isNilConst(retVal(ret, 0)) {
				rets = append(rets, ret)
			}
		}
		w, n := (&Cut{Fn: f, Target: inSet(rets), Sep: inSet(stores)}).Run(c)
		r3.Check(w == "", "(*Stream).SetProtocol: success means the protocol was recorded", f.Pos(), n+1, "", "", w)
	}

	// ---- R4 ---------------------------------------------------------------
	r4 := r.Rule("C07-R4", "E5", 10, "no non-test code discards the error of Stream.SetProtocol / scope.SetProtocol / SetService")
	nUses := 0
	{
		for _, f := range c.Fns {
			if f.Pkg == nil || !strings.HasPrefix(f.Pkg.Pkg.Path()+"/", Mod) || strings.HasSuffix(f.Pkg.Pkg.Path(), controlsPkg) {
				continue
			}
			for _, in := range findInstrsIn(f, func(in ssa.Instruction) bool {
				return isCallTo(in, "(core/network.*).SetProtocol", "(core/network.*).SetService", "(*"+strT+").SetProtocol")
			}) {
				nUses++
				used := false
				switch x := in.(type) {
				case *ssa.Call:
					for _, ref := range *x.Referrers() {
						if _, isDbg := ref.(*ssa.DebugRef); !isDbg {
							used = true
						}
					}
				case *ssa.Defer, *ssa.Go:
					used = false
				}
				r4.Check(used, fnKey(f)+": error of "+calleeShort(in.(ssa.CallInstruction))+" is looked at", instrPos(in), 1, "", "when the resource manager refuses the protocol/service the stream is used anyway: it reports no protocol and is charged to no protocol scope", "")
			}
		}
	}
	_ = nUses

	// ---- R5 ---------------------------------------------------------------
	r5 := r.Rule("C07-R5", "E1", 2, "a stream that is not dispatched to the negotiated handler is reset")
	for _, h := range hosts {
		k := "(*" + h.pkg + "." + h.typ + ").newStreamHandler"
		f := r5.need(k)
		if f == nil {
			continue
		}
		done := findInstrs(f, func(in ssa.Instruction) bool {
			if isCallTo(in, "(core/network.*).Reset", "(core/network.*).ResetWithError") && isParamVar(c, callArgs(in.(ssa.CallInstruction))[0], "s") {
				return true
			}
			call, ok := in.(*ssa.Call)
			if ok && !call.Call.IsInvoke() {
				if ci, i := resultOf(strip(call.Call.Value)); ci != nil && i == 1 && calleeNameIs(ci.(ssa.Instruction), "Negotiate") {
					return true
				}
			}
			return false
		})
		w, n := (&Cut{Fn: f, Target: isRet, Sep: inSet(done)}).Run(c)
		r5.Check(len(done) >= 2 && w == "", k+": every exit either dispatched the stream or reset it", f.Pos(), n+1, "", "no handler runs but the stream stays open", w)
	}

	// ---- R6 ---------------------------------------------------------------
	r6 := r.Rule("C07-R6", "E1", 4, "optimistic path negotiates on first use: the wrapper reads/writes/closes through the lazy negotiator and flushes the handshake before closing the write side")
	swT := basicP + ".streamWrapper"
	rwField := isLoadOfField(swT + ".rw")
	for _, m := range []string{"Read", "Write", "Close"} {
		if f := r6.need("(*" + swT + ")." + m); f != nil {
			var calls []ssa.Instruction
			allInstrs(f, func(in ssa.Instruction) {
				if ci, ok := in.(ssa.CallInstruction); ok && ci.Common().IsInvoke() && ci.Common().Method.Name() == m && rwField(ci.Common().Value) {
					calls = append(calls, in)
				}
			})
			w, n := (&Cut{Fn: f, Target: isRet, Sep: inSet(calls)}).Run(c)
			bypass := findInstrs(f, func(in ssa.Instruction) bool {
				ci, ok := in.(ssa.CallInstruction)
				return ok && ci.Common().IsInvoke() && ci.Common().Method.Name() == m && isLoadOfField(swT+".Stream")(ci.Common().Value)
			})
			r6.Check(len(calls) == 1 && w == "" && len(bypass) == 0, "(*streamWrapper)."+m+": goes through the lazy negotiator (rw)", f.Pos(), n+1, "", "bytes bypass the pending protocol handshake: the remote never learns the protocol (or no-common-protocol is never reported)", w)
		}
	}
	if f := r6.need("(*" + swT + ").CloseWrite"); f != nil {
		cw := findInstrs(f, func(in ssa.Instruction) bool {
			ci, ok := in.(ssa.CallInstruction)
			return ok && ci.Common().IsInvoke() && ci.Common().Method.Name() == "CloseWrite" && isLoadOfField(swT+".Stream")(ci.Common().Value)
		})
		flush := findInstrs(f, func(in ssa.Instruction) bool {
			call, ok := in.(*ssa.Call) // a deferred flush would run after CloseWrite
			if !ok || !call.Call.IsInvoke() || call.Call.Method.Name() != "Flush" {
				return false
			}
			return derivesFrom(call.Call.Value, rwField)
		})
		// the only way around the flush is the failed type assertion
		notFlusher := edgeBool(func(v ssa.Value) bool {
			e, ok := v.(*ssa.Extract)
			if !ok || e.Index != 1 {
				return false
			}
			ta, ok := e.Tuple.(*ssa.TypeAssert)
			return ok && rwField(ta.X)
		}, false)
		w, n := (&Cut{Fn: f, Target: inSet(cw), Sep: inSet(flush), EdgeCut: notFlusher}).Run(c)
		r6.Check(len(cw) == 1 && len(flush) >= 1 && w == "", "(*streamWrapper).CloseWrite: the pending handshake is flushed before the write side is closed", f.Pos(), n+1, "", "the protocol header can no longer be sent once the write side is closed: the remote never runs the handler", w)
	}
	r6.Check(flushAssertReachesLazyConn(c, basicP), "(*streamWrapper).CloseWrite: the interface asserted for Flush is one the lazy negotiator satisfies", token.NoPos, 1, "", "the type assertion never succeeds (method signature mismatch): the pending handshake is silently not flushed before the half-close", "")

	// ---- R7 ---------------------------------------------------------------
	r7 := r.Rule("C07-R7", "E6", 6, "handler registration wraps exactly the caller's handler on the negotiated stream; removal reaches the mux")
	for _, h := range hosts {
		for _, m := range []string{"SetStreamHandler", "SetStreamHandlerMatch"} {
			k := "(*" + h.pkg + "." + h.typ + ")." + m
			f := r7.need(k)
			if f == nil {
				continue
			}
			adds := findInstrs(f, func(in ssa.Instruction) bool { return calleeNameIs(in, "AddHandler", "AddHandlerWithFunc") })
			// a plain registration may be expressed through the match registration of the same host (itself under this
			// rule): same protocol ID, same handler, and a predicate that accepts exactly that ID
			if m == "SetStreamHandler" && len(adds) == 0 {
				sib := "(*" + h.pkg + "." + h.typ + ").SetStreamHandlerMatch"
				calls := callsIn(f, sib)
				okD := len(calls) == 1
				if okD {
					a := callArgs(calls[0])
					okD = len(a) == 4 && isParamVar(c, a[1], "pid") && isParamVar(c, a[3], "handler")
					if pred := installedFunc(a[2]); okD && pred != nil && pred.Blocks != nil && len(pred.Params) == 1 {
						eq := func(v ssa.Value) (bool, bool) {
							bo, isB := v.(*ssa.BinOp)
							if !isB || (bo.Op != token.EQL && bo.Op != token.NEQ) {
								return false, false
							}
							x, y := strip(bo.X), strip(bo.Y)
							isArg := func(v ssa.Value) bool { return v == ssa.Value(pred.Params[0]) || isParamCellLoad(c, v, pred.Params[0]) }
							isPid := func(v ssa.Value) bool { return isParamVar(c, v, "pid") }
							if (isArg(x) && isPid(y)) || (isArg(y) && isPid(x)) {
								return true, bo.Op == token.EQL
							}
							return false, false
						}
						var tab map[int]int
						var okT bool
						asRoot(pred, func() { tab, okT = boolReturnTable(pred, []atomPred{eq}, 0) })
						okD = okT && tab[1] == 2 && tab[0] == 1
					} else {
						okD = false
					}
				}
				r7.Check(okD, k+": registers a wrapper that calls the caller's handler exactly once with the negotiated stream", f.Pos(), 2, "delegated to SetStreamHandlerMatch with an exact-ID predicate", "another handler (or none) runs for the protocol", "")
				continue
			}
			ok := len(adds) == 1
			if ok {
				a := callArgs(adds[0].(ssa.CallInstruction))
				ok = isParamVar(c, a[1], "pid")
				if m == "SetStreamHandlerMatch" {
					ok = ok && isParamVar(c, a[2], "m")
				}
				// the wrapper: a function literal here, or the one an adapter helper (extracted since) returns
				var mc *ssa.MakeClosure
				if ls := phiLeaves(strip2(a[len(a)-1])); len(ls) == 1 {
					mc, _ = strip2(ls[0]).(*ssa.MakeClosure)
				}
				ok = ok && mc != nil
				if ok {
					g := mc.Fn.(*ssa.Function)
					// the captured variable that is the caller's handler (through the adapter's parameter, if any)
					isHandlerFV := func(v ssa.Value) bool {
						if ld, isLd := v.(*ssa.UnOp); isLd && ld.Op == token.MUL {
							v = ld.X // captured by reference: a load of the cell
						}
						fv, isFV := v.(*ssa.FreeVar)
						if !isFV {
							return false
						}
						for i, q := range g.FreeVars {
							if q == fv && i < len(mc.Bindings) {
								b := strip2(mc.Bindings[i])
								if al, isAl := b.(*ssa.Alloc); isAl {
									// the cell holds what was stored into it once
									var stored ssa.Value
									n := 0
									for _, r := range *al.Referrers() {
										if st, isSt := r.(*ssa.Store); isSt && st.Addr == ssa.Value(al) {
											stored, n = st.Val, n+1
										}
									}
									if n != 1 {
										return false
									}
									b = strip2(stored)
								}
								if p, isP := b.(*ssa.Parameter); isP && p.Parent() != f {
									// the adapter's parameter: what f passes for it
									for _, call := range callsIn(f, fnKey(p.Parent())) {
										for j, hp := range p.Parent().Params {
											if hp == p && j < len(call.Common().Args) {
												b = strip2(call.Common().Args[j])
											}
										}
									}
								}
								return isParamVar(c, b, "handler")
							}
						}
						return false
					}
					res := (&pathEnum{Fn: g, Instr: func(in ssa.Instruction) int {
						call, isCall := in.(*ssa.Call)
						if isCall && !call.Call.IsInvoke() && (isHandlerFV(call.Call.Value) || (mc.Parent() == f && isFreeVarOrParam(call.Call.Value, "handler"))) {
							// the stream handed on is the negotiated one (the closure's second parameter)
							arg := ssa.Value(nil)
							if len(call.Call.Args) == 1 {
								arg = strip2(call.Call.Args[0])
								if ta, isTA := arg.(*ssa.TypeAssert); isTA {
									arg = strip2(ta.X)
								}
							}
							if arg != nil && arg == ssa.Value(g.Params[1]) {
								return 1
							}
							return 100
						}
						return 0
					}}).Run()
					ok = res.only(1)
				}
			}
			r7.Check(ok, k+": registers a wrapper that calls the caller's handler exactly once with the negotiated stream", f.Pos(), 2, "", "another handler (or none) runs for the protocol", "")
		}
		k := "(*" + h.pkg + "." + h.typ + ").RemoveStreamHandler"
		if f := r7.need(k); f != nil {
			rm := findInstrs(f, func(in ssa.Instruction) bool { return calleeNameIs(in, "RemoveHandler") })
			ok := len(rm) == 1 && isParamVar(c, callArgs(rm[0].(ssa.CallInstruction))[1], "pid")
			if ok {
				w, _ := (&Cut{Fn: f, Target: isRet, Sep: inSet(rm)}).Run(c)
				ok = w == ""
			}
			r7.Check(ok, k+": removes the handler from the mux on every path", f.Pos(), 1, "", "a removed handler can still be negotiated and invoked", "")
		}
	}
	_ = strings.Contains

	// ---- R8 ---------------------------------------------------------------
	r8 := r.Rule("C07-R8", "E1/E6", 2, "inbound wiring: the constructor of each host installs the host's own newStreamHandler as the network's stream handler on every path that returns a host")
	for _, q := range []struct{ ctor, typ, pkg string }{{basicP + ".NewHost", "BasicHost", basicP}, {blankP + ".NewBlankHost", "BlankHost", blankP}} {
		f := r8.need(q.ctor)
		if f == nil {
			continue
		}
		hk := "(*" + q.pkg + "." + q.typ + ").newStreamHandler"
		installs := findInstrs(f, func(in ssa.Instruction) bool {
			if !calleeNameIs(in, "SetStreamHandler") {
				return false
			}
			a := callArgs(in.(ssa.CallInstruction))
			g := installedFunc(a[len(a)-1])
			return g != nil && (fnKey(g) == hk || strings.HasPrefix(fnKey(g), hk))
		})
		okRet := func(in ssa.Instruction) bool {
			ret, ok := in.(*ssa.Return)
			if !ok {
				return false
			}
			if errResultIndex(f) >= 0 {
				return isNilConst(retVal(ret, errResultIndex(f)))
			}
			return !isNilConst(retVal(ret, 0))
		}
		w, n := (&Cut{Fn: f, Target: okRet, Sep: inSet(installs)}).Run(c)
		r8.Check(w == "" && len(installs) >= 1, q.ctor+": installs "+q.typ+".newStreamHandler on the network", f.Pos(), n+1, "", "inbound streams are never negotiated: every remote NewStream to this host hangs or is reset", w)
	}
}

// wrapperAlloc: v is (an interface made from) a freshly allocated struct of the named type.
func wrapperAlloc(v ssa.Value, typeKey string) *ssa.Alloc {
	v = strip2(v)
	al, ok := v.(*ssa.Alloc)
	if !ok {
		return nil
	}
	t := al.Type()
	if p, isP := t.Underlying().(*types.Pointer); isP {
		t = p.Elem()
	}
	if strings.ReplaceAll(types.TypeString(t, nil), Mod, "") != typeKey {
		return nil
	}
	return al
}

// flushAssertReachesLazyConn: every comma-ok type assertion applied to
// streamWrapper.rw in CloseWrite asserts an interface that the static type of
// what NewStream stores into rw (the lazy negotiator) implements. A `Flush()`
// vs `Flush() error` mismatch makes the assertion fail silently at run time.
func flushAssertReachesLazyConn(c *Ctx, basicP string) bool {
	swT := basicP + ".streamWrapper"
	f := c.Fn("(*" + swT + ").CloseWrite")
	if f == nil {
		return false
	}
	// static types stored into rw anywhere in the package
	var stored []types.Type
	for _, g := range c.FnsOfPkg(basicP) {
		for _, in := range findInstrsIn(g, fieldWritePred(swT+".rw")) {
			st, ok := in.(*ssa.Store)
			if !ok {
				continue
			}
			v := st.Val
			for {
				switch x := v.(type) {
				case *ssa.ChangeInterface:
					v = x.X
					continue
				case *ssa.MakeInterface:
					v = x.X
					continue
				}
				break
			}
			stored = append(stored, v.Type())
		}
	}
	if len(stored) == 0 {
		return false
	}
	ok := true
	n := 0
	allInstrs(f, func(in ssa.Instruction) {
		ta, isTA := in.(*ssa.TypeAssert)
		if !isTA || !isLoadOfField(swT+".rw")(ta.X) {
			return
		}
		iface, isI := ta.AssertedType.Underlying().(*types.Interface)
		if !isI {
			return
		}
		n++
		for _, t := range stored {
			if !types.Implements(t, iface) {
				ok = false
			}
		}
	})
	return ok && n >= 1
}
