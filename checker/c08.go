package main

import (
	"fmt"
	"go/ast"
	"go/constant"
	"go/token"
	"go/types"
	"sort"
	"strings"

	"golang.org/x/tools/go/ssa"
)

func init() {
	register("C08", checkC08,
		"Decides structurally: (R1) the key-type registries and the generator cover every pb.KeyType and each registered unmarshaller returns a type whose Type() is that key type; (R2) every PubKey implementer's Verify answers true only as the result (or under the nil-error edge) of a listed cryptographic primitive applied to the receiver's key, the caller's data (same pre-hash as the matching Sign) and the caller's signature; "+
			"(R3) envelopes validate only past a successful Verify under the envelope's key over makeUnsigned(domain asked for, payload type, payload) and Seal signs the same construction; the consume functions succeed only past validate; the non-validating parser has no caller outside core/record; "+
			"(R4) both peerstores write a consumed peer record only past record.PeerID.MatchesPublicKey(envelope key) and both key books store a key only past p.MatchesPublicKey(pk); (R5) peer-ID derivation: inline bound 42, identity hash only when enabled and short enough, MatchesPublicKey compares the derived ID, and the marshalled key is a function of Type() and Raw() only.",
		"round trips of keys/IDs/envelopes, acceptance after byte mutation, injectivity arithmetic of the signed pre-image (length prefixes), strength of the primitives, text forms of peer IDs")
}

const crP = "core/crypto"
const recP = "core/record"

// concreteReturns: the concrete (pointer-to-)named types a function returns
// through the interface result idx.
func concreteReturns(f *ssa.Function, idx int) []*types.Named {
	seen := map[*types.Named]bool{}
	var out []*types.Named
	for _, ret := range returnsOf(f) {
		for _, l := range phiLeaves(ret.Results[idx]) {
			if u, ok := l.(*ssa.UnOp); ok && u.Op == token.MUL {
				if lv := loadedValue(u); lv != nil {
					l = lv
				}
			}
			mi, ok := l.(*ssa.MakeInterface)
			if !ok {
				continue
			}
			t := mi.X.Type()
			if p, ok := t.(*types.Pointer); ok {
				t = p.Elem()
			}
			if n, ok := t.(*types.Named); ok && !seen[n] {
				seen[n] = true
				out = append(out, n)
			}
		}
	}
	return out
}

func methodOf(c *Ctx, n *types.Named, name string) *ssa.Function {
	for _, T := range []types.Type{types.NewPointer(n), n} {
		ms := c.Prog.MethodSets.MethodSet(T)
		for i := 0; i < ms.Len(); i++ {
			if ms.At(i).Obj().Name() == name {
				return c.Prog.MethodValue(ms.At(i))
			}
		}
	}
	return nil
}

func checkC08(c *Ctx, r *Report) {
	pbP := crP + "/pb"
	// ---- R1 ---------------------------------------------------------------
	r1 := r.Rule("C08-R1", "E5", 12, "key-type registries: every pb.KeyType registered for public and private keys and generated; registered unmarshaller's type reports that KeyType")
	// enum constants
	ktVals := map[int64]string{}
	if p := c.Pkg(pbP); p != nil {
		sc := p.Types.Scope()
		for _, n := range sc.Names() {
			k, ok := sc.Lookup(n).(*types.Const)
			if ok && strings.HasSuffix(types.TypeString(k.Type(), nil), "pb.KeyType") && strings.HasPrefix(n, "KeyType_") {
				v, _ := constant.Int64Val(constant.ToInt(k.Val()))
				ktVals[v] = n
			}
		}
	}
	r1.Check(len(ktVals) >= 4, "pb.KeyType constants", token.NoPos, len(ktVals), fmt.Sprint(len(ktVals))+" key types", "key type enumeration not found", "")
	registry := func(varName string) map[int64]*types.Func {
		out := map[int64]*types.Func{}
		p := c.Pkg(crP)
		if p == nil {
			return out
		}
		for _, file := range p.Syntax {
			ast.Inspect(file, func(n ast.Node) bool {
				vs, ok := n.(*ast.ValueSpec)
				if !ok || len(vs.Names) != 1 || vs.Names[0].Name != varName || len(vs.Values) != 1 {
					return true
				}
				cl, ok := vs.Values[0].(*ast.CompositeLit)
				if !ok {
					return false
				}
				for _, el := range cl.Elts {
					kv, ok := el.(*ast.KeyValueExpr)
					if !ok {
						continue
					}
					tv := p.TypesInfo.Types[kv.Key]
					var fn *types.Func
					if id, ok := kv.Value.(*ast.Ident); ok {
						fn, _ = p.TypesInfo.Uses[id].(*types.Func)
					}
					if tv.Value != nil && fn != nil {
						v, _ := constant.Int64Val(constant.ToInt(tv.Value))
						out[v] = fn
					}
				}
				return false
			})
		}
		return out
	}
	pubReg, privReg := registry("PubKeyUnmarshallers"), registry("PrivKeyUnmarshallers")
	var vals []int64
	for v := range ktVals {
		vals = append(vals, v)
	}
	sort.Slice(vals, func(i, j int) bool { return vals[i] < vals[j] })
	pubTypeOf := map[int64]*types.Named{}
	for _, v := range vals {
		name := ktVals[v]
		for _, reg := range []struct {
			n string
			m map[int64]*types.Func
			i string
		}{{"PubKeyUnmarshallers", pubReg, "pub"}, {"PrivKeyUnmarshallers", privReg, "priv"}} {
			fn := reg.m[v]
			if fn == nil {
				r1.Fail(reg.n+"["+name+"]", token.NoPos, "key type has no registered unmarshaller", "")
				continue
			}
			sf := c.Fn(objKey(fn))
			if sf == nil {
				r1.Err(reg.n+"["+name+"]", "registered function does not resolve: "+objKey(fn))
				continue
			}
			ts := concreteReturns(sf, 0)
			okT := len(ts) >= 1
			for _, t := range ts {
				tm := methodOf(c, t, "Type")
				okThis := false
				if tm != nil {
					for _, ret := range returnsOf(tm) {
						if k, isC := constInt(retVal(ret, 0)); isC && k == v {
							okThis = true
						}
					}
				}
				if !okThis {
					okT = false
				}
				if reg.i == "pub" {
					pubTypeOf[v] = t
				}
			}
			r1.Check(okT, reg.n+"["+name+"] -> "+objKey(fn)+": returned type reports "+name, sf.Pos(), len(ts)+1, "", "a key unmarshalled under this type reports another Type(): marshal -> unmarshal changes the key type", "")
		}
	}
	for v := range pubReg {
		if _, ok := ktVals[v]; !ok {
			r1.Fail(fmt.Sprintf("PubKeyUnmarshallers[%d]", v), token.NoPos, "entry for a value that is not a pb.KeyType constant", "")
		}
	}
	if g := r1.need(crP + ".GenerateKeyPairWithReader"); g != nil {
		cases := map[int64]bool{}
		allInstrs(g, func(in ssa.Instruction) {
			if b, ok := in.(*ssa.BinOp); ok && b.Op == token.EQL && isParamVar(c, b.X, "typ") {
				if k, isC := constInt(b.Y); isC {
					cases[k] = true
				}
			}
		})
		for _, v := range vals {
			r1.Check(cases[v], "GenerateKeyPairWithReader: case "+ktVals[v], g.Pos(), 1, "", "key type cannot be generated", "")
		}
	}
	// the dispatchers use the registries keyed by the message's type
	for _, d := range []struct{ fn, reg string }{{crP + ".PublicKeyFromProto", "PubKeyUnmarshallers"}, {crP + ".UnmarshalPrivateKey", "PrivKeyUnmarshallers"}} {
		if f := r1.need(d.fn); f != nil {
			ok := false
			allInstrs(f, func(in ssa.Instruction) {
				if lk, isL := in.(*ssa.Lookup); isL {
					if u, isU := lk.X.(*ssa.UnOp); isU {
						if g, isG := u.X.(*ssa.Global); isG && g.Name() == d.reg {
							ok = isResultOfCall(lk.Index, 0, "(*"+pbP+".PublicKey).GetType", "(*"+pbP+".PrivateKey).GetType") != nil
						}
					}
				}
			})
			r1.Check(ok, d.fn+": dispatches on "+d.reg+"[msg.GetType()]", f.Pos(), 1, "", "", "")
		}
	}

	// ---- R2 ---------------------------------------------------------------
	r2 := r.Rule("C08-R2", "E6/E1/E5", 12, "every PubKey.Verify answers true only via a listed primitive on (receiver key, data [same pre-hash as Sign], sig)")
	prims := map[string]struct{ key, msg, sig int }{ // argument indices (receiver included for methods)
		"crypto/ed25519.Verify":     {0, 1, 2},
		"crypto/ecdsa.Verify":       {0, 1, 2},
		"crypto/rsa.VerifyPKCS1v15": {0, 2, 3},
		"(*github.com/decred/dcrd/dcrec/secp256k1/v4/ecdsa.Signature).Verify": {2, 1, 0},
	}
	var primKeys []string
	for k := range prims {
		primKeys = append(primKeys, k)
	}
	pubI := c.Named(crP, "PubKey")
	privI := c.Named(crP, "PrivKey")
	if pubI == nil || privI == nil {
		r2.Err(crP+".PubKey", "interface does not resolve")
	} else {
		impls := implementers(c, pubI.Underlying().(*types.Interface))
		sort.Slice(impls, func(i, j int) bool { return namedKey(impls[i]) < namedKey(impls[j]) })
		r2.Check(len(impls) >= 4, "PubKey implementers", token.NoPos, len(impls), "", "expected the four key types", "")
		// private key type -> public key type via GetPublic
		privOf := map[*types.Named]*types.Named{}
		for _, pn := range implementers(c, privI.Underlying().(*types.Interface)) {
			if gp := methodOf(c, pn, "GetPublic"); gp != nil && gp.Blocks != nil {
				for _, t := range concreteReturns(gp, 0) {
					privOf[t] = pn
				}
			}
		}
		for _, n := range impls {
			if strings.Contains(namedKey(n), "test") || strings.HasPrefix(namedKey(n), controlsPkg) {
				continue
			}
			vf := methodOf(c, n, "Verify")
			if vf == nil || vf.Blocks == nil {
				r2.Err(namedKey(n)+".Verify", "method does not resolve")
				continue
			}
			name := fnKey(vf)
			usesHash := len(callsIn(vf, "crypto/sha256.Sum256")) > 0
			pcalls := callsIn(vf, primKeys...)
			if len(pcalls) != 1 {
				r2.Fail(name+": one primitive call", vf.Pos(), "expected exactly one call of a listed verification primitive", "")
				continue
			}
			pc := pcalls[0]
			spec := prims[calleeKey(pc)]
			args := callArgs(pc)
			recv := vf.Params[0]
			isRecv := func(v ssa.Value) bool { return v == ssa.Value(recv) || isParamVar(c, v, recv.Name()) }
			dataP, sigP := vf.Params[1], vf.Params[2]
			keyOK := derivesFrom(args[spec.key], isRecv)
			msgOK := derivesFrom(args[spec.msg], func(v ssa.Value) bool { return isParamVar(c, v, dataP.Name()) }, "crypto/sha256.Sum256")
			sigOK := derivesFrom(args[spec.sig], func(v ssa.Value) bool { return isParamVar(c, v, sigP.Name()) },
				"github.com/decred/dcrd/dcrec/secp256k1/v4/ecdsa.ParseDERSignature", "encoding/asn1.Unmarshal") || sigViaUnmarshal(vf, args[spec.sig], sigP)
			r2.Check(keyOK && msgOK && sigOK, name+": primitive applied to (receiver key, data, sig)", instrPos(pc.(ssa.Instruction)), 3, calleeKey(pc),
				"the signature check is not over the caller's message / signature under this key", fmt.Sprintf("key=%v msg=%v sig=%v", keyOK, msgOK, sigOK))
			if usesHash {
				hc := callsIn(vf, "crypto/sha256.Sum256")[0]
				r2.Check(isParamVar(c, hc.Common().Args[0], dataP.Name()) && derivesFrom(args[spec.msg], func(v ssa.Value) bool { return v == hc.(ssa.Value) }), name+": pre-hash = sha256(data) feeds the primitive", instrPos(hc.(ssa.Instruction)), 1, "", "", "")
			}
			// every true answer
			for _, ret := range returnsOf(vf) {
				v := retVal(ret, 0)
				key := name + ": success result"
				if b, ok := constBool(v); ok {
					if !b {
						continue
					}
					// constant true: only under err == nil of the primitive (rsa)
					errIdx := 0
					w, n := (&Cut{Fn: vf, Target: isInstr(ret), EdgeCut: edgeNil(func(x ssa.Value) bool { ci, i := resultOf(x); return ci == pc && i == errIdx }, true)}).Run(c)
					r2.Check(w == "", key+" (true under primitive err==nil)", instrPos(ret), n+1, "", "Verify can answer true without the primitive having succeeded", w)
					continue
				}
				ci, _ := resultOf(v)
				r2.Check(ci == pc, key+" (the primitive's answer)", instrPos(ret), 1, "", "Verify's answer is not the primitive's answer", describeVal(v))
			}
			// same pre-hash on the signing side
			if pn := privOf[n]; pn != nil {
				if sf := methodOf(c, pn, "Sign"); sf != nil && sf.Blocks != nil {
					signHash := len(callsIn(sf, "crypto/sha256.Sum256")) > 0
					r2.Check(signHash == usesHash, name+": Sign and Verify agree on pre-hashing", sf.Pos(), 2, fmt.Sprint("sha256 pre-hash: ", usesHash), "one side hashes the message and the other does not", "")
				}
			} else {
				r2.Fail(name+": matching private key type", vf.Pos(), "no PrivKey implementer returns this type from GetPublic", "")
			}
		}
	}

	// ---- R3 ---------------------------------------------------------------
	r3 := r.Rule("C08-R3", "E1/E6/E3", 12, "envelopes: validate only past Verify over makeUnsigned(domain, type, payload); Seal signs the same; consumers only past validate; no outside caller of UnmarshalEnvelope")
	envT := recP + ".Envelope"
	muK := recP + ".makeUnsigned"
	// the signed pre-image is length-prefixed with varints: any hand-written varint length computation in the module
	// must agree with encoding/binary (7 payload bits per byte), else a buffer sized with it truncates a field
	{
		nLoops := 0
		for _, f := range c.Fns {
			if f.Pkg != nil && f.Pkg.Pkg.Path() == Mod+controlsPkg {
				continue
			}
			loops, bad := varintLoops(f)
			nLoops += loops
			for _, b := range bad {
				r3.Fail(fnKey(f)+": varint length loop agrees with encoding/binary", f.Pos(), b, "a length computed one byte short truncates the last byte of a length-prefixed field (for envelopes: of the signed payload)")
			}
		}
		r3.OK("module: varint length loops agree with encoding/binary", token.NoPos, len(c.Fns), fmt.Sprintf("%d loops consuming 7 bits per round", nLoops))
	}
	valK := "(*" + envT + ").validate"
	if f := r3.need(valK); f != nil {
		rets := successReturns(f)
		vk := "(core/crypto.*).Verify"
		r3.guard(f, "return nil", rets, "Verify valid==true", edgeBool(isCallResult(0, vk), true), nil)
		r3.guard(f, "return nil", rets, "Verify err==nil", edgeNil(isCallResult(1, vk), true), nil)
		for _, v := range callsIn(f, vk) {
			a := callArgs(v)
			mu := isResultOfCall(a[1], 0, muK)
			okMU := false
			if mu != nil {
				ma := mu.Common().Args
				okMU = isParamVar(c, ma[0], "domain") && isLoadOfField(envT+".PayloadType")(strip2(ma[1])) && isLoadOfField(envT+".RawPayload")(strip2(ma[2]))
			}
			r3.Check(isLoadOfField(envT+".PublicKey")(strip2(a[0])) && okMU && isLoadOfField(envT+".signature")(strip2(a[2])), valK+": e.PublicKey.Verify(makeUnsigned(domain, e.PayloadType, e.RawPayload), e.signature)", instrPos(v.(ssa.Instruction)), 4, "",
				"the signature is not checked over exactly (domain asked for, payload type, payload) under the envelope's key", "")
		}
	}
	if f := r3.need(recP + ".Seal"); f != nil {
		signs := callsIn(f, "(core/crypto.*).Sign")
		ok := len(signs) == 1
		var codec, payload ssa.Value
		if ok {
			mu := isResultOfCall(callArgs(signs[0])[1], 0, muK)
			ok = mu != nil
			if ok {
				ma := mu.Common().Args
				ok = isResultOfCall(ma[0], 0, "("+recP+".Record).Domain") != nil && isResultOfCall(ma[1], 0, "("+recP+".Record).Codec") != nil && isResultOfCall(ma[2], 0, "("+recP+".Record).MarshalRecord") != nil
				codec, payload = strip(ma[1]), strip(ma[2])
			}
		}
		r3.Check(ok, "Seal: Sign(makeUnsigned(rec.Domain(), rec.Codec(), payload))", f.Pos(), 3, "", "what is signed is not the construction validate() checks", "")
		for _, fld := range []struct {
			f string
			v *ssa.Value
		}{{"PayloadType", &codec}, {"RawPayload", &payload}} {
			for _, st := range findInstrs(f, fieldWritePred(envT+"."+fld.f)) {
				r3.Check(*fld.v != nil && strip(st.(*ssa.Store).Val) == *fld.v, "Seal: envelope."+fld.f+" is the value that was signed", instrPos(st), 1, "", "", "")
			}
		}
		for _, st := range findInstrs(f, fieldWritePred(envT+".PublicKey")) {
			gp := isResultOfCall(st.(*ssa.Store).Val, 0, "(core/crypto.*).GetPublic")
			r3.Check(gp != nil && isParamVar(c, callArgs(gp)[0], "privateKey"), "Seal: envelope.PublicKey = signer's public key", instrPos(st), 1, "", "", "")
		}
		for _, st := range findInstrs(f, fieldWritePred(envT+".signature")) {
			r3.Check(len(signs) == 1 && isResultOfCall(st.(*ssa.Store).Val, 0, "(core/crypto.*).Sign") != nil, "Seal: envelope.signature = Sign(...)", instrPos(st), 1, "", "", "")
		}
	}
	for _, k := range []string{recP + ".ConsumeEnvelope", recP + ".ConsumeTypedEnvelope"} {
		if f := r3.need(k); f != nil {
			rets := successReturns(f)
			r3.guard(f, "return success", rets, "validate()==nil", edgeNil(isCallResult(0, valK), true), nil)
			for _, v := range callsIn(f, valK) {
				a := callArgs(v)
				okDom := isParamVar(c, a[1], "domain")
				if d := isResultOfCall(a[1], 0, "("+recP+".Record).Domain"); d != nil && isParamVar(c, callArgs(d)[0], "destRecord") {
					okDom = true
				}
				r3.Check(okDom, k+": validates against the domain asked for", instrPos(v.(ssa.Instruction)), 1, "", "", "")
				r3.Check(isResultOfCall(a[0], 0, recP+".UnmarshalEnvelope") != nil, k+": validates the envelope it returns", instrPos(v.(ssa.Instruction)), 1, "", "", "")
			}
		}
	}
	// expected-zero rule with positive control in controls.go
	nOutside := 0
	for _, f := range c.Fns {
		if f.Pkg == nil || f.Pkg.Pkg.Path() == Mod+recP {
			continue
		}
		for _, call := range callsInOnly(f, recP+".UnmarshalEnvelope") {
			if strings.HasSuffix(f.Pkg.Pkg.Path(), controlsPkg) {
				continue // the positive control (counted by the CTRL rule)
			}
			nOutside++
			r3.Fail(fnKey(f)+": calls record.UnmarshalEnvelope", instrPos(call.(ssa.Instruction)), "the non-validating envelope parser is used outside core/record", "")
		}
	}
	if nOutside == 0 {
		r3.OK("no non-test caller of record.UnmarshalEnvelope outside core/record", token.NoPos, len(c.Fns), "")
	}
	r3.onlyIn("write "+envT+".signature", fieldWritePred(envT+".signature"), c.Fns, recP+".Seal", recP+".UnmarshalEnvelope")

	// ---- R4 ---------------------------------------------------------------
	r4 := r.Rule("C08-R4", "E5/E1", 6, "peer records written only past rec.PeerID.MatchesPublicKey(envelope.PublicKey); keys stored only past p.MatchesPublicKey(pk)")
	matchRec := func(v ssa.Value) bool {
		ci := isResultOfCall(v, 0, "(core/peer.ID).MatchesPublicKey")
		if ci == nil {
			return false
		}
		a := callArgs(ci)
		fl, _ := loadOfField(strip2(a[0]))
		return fl != nil && fl.Name() == "PeerID" && isLoadOfField(envT+".PublicKey")(strip2(a[1]))
	}
	memP, dsP := "p2p/host/peerstore/pstoremem", "p2p/host/peerstore/pstoreds"
	if f := r4.need("(*" + memP + ".memoryAddrBook).ConsumePeerRecord"); f != nil {
		writes := findInstrs(f, func(in ssa.Instruction) bool {
			return isFieldWrite(in, memP+".memoryAddrBook.signedPeerRecords") || isCallTo(in, "(*"+memP+".memoryAddrBook).addAddrsUnlocked", "(*"+memP+".peerAddrs).Delete")
		})
		r4.guard(f, "write to book state", writes, "rec.PeerID.MatchesPublicKey(envelope.PublicKey)", edgeBool(matchRec, true), nil)
	}
	if f := r4.need("(*" + dsP + ".dsAddrBook).ConsumePeerRecord"); f != nil {
		writes := findInstrs(f, callPred("(*"+dsP+".dsAddrBook).setAddrs", "(*"+dsP+".dsAddrBook).deleteAddrs", "(*"+dsP+".dsAddrBook).storeSignedPeerRecord"))
		r4.guard(f, "write to book state", writes, "rec.PeerID.MatchesPublicKey(envelope.PublicKey)", edgeBool(matchRec, true), nil)
	}
	matchPK := func(v ssa.Value) bool {
		ci := isResultOfCall(v, 0, "(core/peer.ID).MatchesPublicKey")
		return ci != nil && isParamVar(c, callArgs(ci)[0], "p") && isParamVar(c, callArgs(ci)[1], "pk")
	}
	if f := r4.need("(*" + memP + ".memoryKeyBook).AddPubKey"); f != nil {
		r4.guard(f, "store key", findInstrs(f, fieldWritePred(memP+".memoryKeyBook.pks")), "p.MatchesPublicKey(pk)", edgeBool(matchPK, true), nil)
	}
	if f := r4.need("(*" + dsP + ".dsKeyBook).AddPubKey"); f != nil {
		r4.guard(f, "store key", findInstrs(f, callPred("(github.com/ipfs/go-datastore.Write).Put")), "p.MatchesPublicKey(pk)", edgeBool(matchPK, true), nil)
	}

	// RSA size limits: generation and both unmarshal paths draw the same lines (too small iff bits < Min, too big iff bits > max),
	// so every key that can be generated or whose private half loads can also have its public half loaded
	for _, k := range []string{crP + ".GenerateRSAKeyPair", crP + ".UnmarshalRsaPublicKey", crP + ".UnmarshalRsaPrivateKey"} {
		f := r4.need(k)
		if f == nil {
			continue
		}
		isGlobal := func(name string) func(ssa.Value) bool {
			return func(v ssa.Value) bool {
				u, ok := strip2(v).(*ssa.UnOp)
				if !ok || u.Op != token.MUL {
					return false
				}
				g, ok := u.X.(*ssa.Global)
				return ok && g.Name() == name
			}
		}
		isBits := func(v ssa.Value) bool {
			if isParamVar(c, v, "bits") {
				return true
			}
			return isResultOfCall(strip2(v), 0, "(*math/big.Int).BitLen") != nil
		}
		retOf := func(errName string) []ssa.Instruction {
			// (in f, or in a bounds-check helper extracted from it)
			return findInstrs(f, func(in ssa.Instruction) bool {
				ret, ok := in.(*ssa.Return)
				if !ok || len(ret.Results) == 0 {
					return false
				}
				return isGlobal(errName)(ret.Results[len(ret.Results)-1]) || isGlobal(errName)(retVal(ret, len(ret.Results)-1))
			})
		}
		big, small := retOf("ErrRsaKeyTooBig"), retOf("ErrRsaKeyTooSmall")
		var okRets []ssa.Instruction
		for _, ret := range returnsOf(f) {
			if isNilConst(retVal(ret, len(ret.Results)-1)) {
				okRets = append(okRets, ret)
			}
		}
		if len(big) == 0 || len(small) == 0 || len(okRets) == 0 {
			r4.Fail(k+": size limits", f.Pos(), "the too-small / too-big rejections were not found", "")
			continue
		}
		r4.guard(f, "return ErrRsaKeyTooBig", big, "bits > maxRsaKeyBits", edgeExcl(isBits, isGlobal("maxRsaKeyBits"), ordLT, ordEQ), nil)
		r4.guard(f, "return ErrRsaKeyTooSmall", small, "bits < MinRsaKeyBits", edgeExcl(isBits, isGlobal("MinRsaKeyBits"), ordGT, ordEQ), nil)
		r4.guard(f, "return key", okRets, "bits <= maxRsaKeyBits", edgeExcl(isBits, isGlobal("maxRsaKeyBits"), ordGT), nil)
		r4.guard(f, "return key", okRets, "bits >= MinRsaKeyBits", edgeExcl(isBits, isGlobal("MinRsaKeyBits"), ordLT), nil)
	}

	// ---- R5 ---------------------------------------------------------------
	r5 := r.Rule("C08-R5", "E7/E1/E6", 8, "peer ID derivation: inline bound 42; identity hash only when enabled and short; MatchesPublicKey compares the derived ID; marshalled key = f(Type(), Raw())")
	peerP := "core/peer"
	maxInline := constIntObj(c, peerP, "maxInlineKeyLength")
	r5.Check(maxInline == 42, peerP+".maxInlineKeyLength == 42", objPos(c, peerP, "maxInlineKeyLength"), 1, "", "", fmt.Sprint(maxInline))
	if f := r5.need(peerP + ".IDFromPublicKey"); f != nil {
		sums := callsIn(f, "github.com/multiformats/go-multihash.Sum")
		if len(sums) != 1 {
			r5.Fail("IDFromPublicKey: mh.Sum", f.Pos(), "expected one hash computation", "")
		} else {
			a := sums[0].Common().Args
			mk := isResultOfCall(a[0], 0, crP+".MarshalPublicKey")
			r5.Check(mk != nil && isParamVar(c, mk.Common().Args[0], "pk"), "IDFromPublicKey: hashes MarshalPublicKey(pk)", instrPos(sums[0].(ssa.Instruction)), 1, "", "", "")
			ident := constIntObj(c, "github.com/multiformats/go-multihash", "IDENTITY")
			sha := constIntObj(c, "github.com/multiformats/go-multihash", "SHA2_256")
			isInl := func(v ssa.Value) bool {
				u, ok := v.(*ssa.UnOp)
				if !ok || u.Op != token.MUL {
					return false
				}
				g, ok := u.X.(*ssa.Global)
				return ok && g.Name() == "AdvancedEnableInlining"
			}
			isMaxC := func(v ssa.Value) bool { k, isC := constInt(v); return isC && k == maxInline }
			lenOfKey := func(v ssa.Value) bool {
				call, _ := v.(*ssa.Call)
				return call != nil && calleeKey(call) == "builtin.len" && strip(call.Call.Args[0]) == strip(a[0])
			}
			// where the algorithm is chosen: here (constants joined by a phi), or in a helper given len(b)
			g := f
			isLen := lenOfKey
			var consts []ssa.Value
			var targetsOf func(k int64) (func(ssa.Instruction) bool, EdgePred)
			if call, isCall := strip2(a[1]).(*ssa.Call); isCall && call.Call.StaticCallee() != nil && call.Call.StaticCallee().Blocks != nil {
				h := call.Call.StaticCallee()
				g = h
				isLen = func(v ssa.Value) bool {
					p, isP := v.(*ssa.Parameter)
					if !isP || p.Parent() != h {
						return false
					}
					for i, q := range h.Params {
						if q == p && i < len(call.Call.Args) {
							return lenOfKey(call.Call.Args[i])
						}
					}
					return false
				}
				for _, ret := range returnsOf(h) {
					consts = append(consts, phiLeaves(ret.Results[0])...)
				}
				targetsOf = func(want int64) (func(ssa.Instruction) bool, EdgePred) {
					ti, te, _ := sourcesWhere(resultSources(h, 0), func(s resSource) bool { return s.isK && s.konst == want })
					return ti, te
				}
			} else {
				consts = phiLeaves(a[1])
				targetsOf = func(want int64) (func(ssa.Instruction) bool, EdgePred) {
					if phi, ok := a[1].(*ssa.Phi); ok {
						return nil, edgeSet(phiEdgesWhere(phi, func(v ssa.Value) bool { k, isC := constInt(v); return isC && k == want }))
					}
					// a constant algorithm: that algorithm unconditionally
					if k, isC := constInt(a[1]); isC && k == want {
						return func(in ssa.Instruction) bool { return in == sums[0].(ssa.Instruction) }, nil
					}
					return func(ssa.Instruction) bool { return false }, nil
				}
			}
			okLeaves := len(consts) > 0
			for _, l := range consts {
				k, isC := constInt(l)
				if !isC || (k != ident && k != sha) {
					okLeaves = false
				}
			}
			r5.Check(okLeaves, "IDFromPublicKey: algorithm is SHA2_256 or IDENTITY", instrPos(sums[0].(ssa.Instruction)), 1, "", "", "")
			{
				tgt, tgtE := targetsOf(ident)
				w1, n1 := (&Cut{Fn: g, Target: tgt, TargetEdge: tgtE, EdgeCut: edgeBool(isInl, true)}).Run(c)
				w2, n2 := (&Cut{Fn: g, Target: tgt, TargetEdge: tgtE, EdgeCut: edgeExcl(isLen, isMaxC, ordGT)}).Run(c)
				r5.Check(w1 == "" && w2 == "", "IDFromPublicKey: IDENTITY only under AdvancedEnableInlining && len(b) <= maxInlineKeyLength", f.Pos(), n1+n2+1, "", "keys longer than the inline bound (or with inlining off) are embedded instead of hashed", w1+w2)
				// ... and the converse: the hash is chosen only with inlining off or for a key longer than the bound (a key
				// of exactly the bound is embedded: its ID must be the one every other implementation derives)
				st, stE := targetsOf(sha)
				w3, n3 := (&Cut{Fn: g, Target: st, TargetEdge: stE, EdgeCut: anyEdge(edgeBool(isInl, false), edgeExcl(isLen, isMaxC, ordLT, ordEQ))}).Run(c)
				r5.Check(w3 == "", "IDFromPublicKey: SHA2_256 only with inlining off or len(b) > maxInlineKeyLength", f.Pos(), n3+1, "", "a key short enough to be embedded (at the bound itself) gets a hashed ID: the key cannot be recovered from the ID and the ID differs from the one other implementations derive", w3)
			}
			for _, ret := range successReturns(f) {
				r5.Check(isResultOfCall(retVal(ret.(*ssa.Return), 0), 0, "github.com/multiformats/go-multihash.Sum") != nil, "IDFromPublicKey: returns ID(hash)", instrPos(ret), 1, "", "", "")
			}
		}
	}
	if f := r5.need("(" + peerP + ".ID).MatchesPublicKey"); f != nil {
		ders := callsIn(f, peerP+".IDFromPublicKey")
		okCall := len(ders) == 1 && isParamVar(c, callArgs(ders[0])[0], "pk")
		// decision table over E: err == nil and Q: id == IDFromPublicKey(pk); the answer is E && Q
		isDer := func(v ssa.Value) bool { ci, i := resultOf(strip(v)); return len(ders) == 1 && ci == ders[0] && i == 0 }
		isErr := func(v ssa.Value) bool { ci, i := resultOf(strip(v)); return len(ders) == 1 && ci == ders[0] && i == 1 }
		isID := func(v ssa.Value) bool { return isParamVar(c, v, "id") }
		atomE := func(v ssa.Value) (bool, bool) {
			x, nilOnTrue, ok := nilCmp(v)
			if !ok || !isErr(x) {
				return false, false
			}
			return true, nilOnTrue
		}
		atomQ := func(v ssa.Value) (bool, bool) {
			bo, ok := v.(*ssa.BinOp)
			if !ok || (bo.Op != token.EQL && bo.Op != token.NEQ) {
				return false, false
			}
			if (isDer(bo.X) && isID(bo.Y)) || (isDer(bo.Y) && isID(bo.X)) {
				return true, bo.Op == token.EQL
			}
			return false, false
		}
		tab, okT := boolReturnTable(f, []atomPred{atomE, atomQ}, 0)
		good := okT && okCall
		for a, res := range tab {
			want := 1
			if a == 3 {
				want = 2
			}
			if res != want {
				good = false
			}
		}
		r5.Check(good, "MatchesPublicKey: true exactly when IDFromPublicKey(pk) succeeds and equals id (decision table)", f.Pos(), 4, "", "a key matches an ID it does not derive to (or fails to match its own)", fmt.Sprint(tab))
	}
	if f := r5.need(crP + ".MarshalPublicKey"); f != nil {
		for _, ret := range returnsOf(f) {
			v := retVal(ret, 0)
			if isNilConst(v) {
				continue
			}
			pm := isResultOfCall(v, 0, "google.golang.org/protobuf/proto.Marshal")
			ok := pm != nil
			if ok {
				tp := isResultOfCall(pm.Common().Args[0], 0, crP+".PublicKeyToProto")
				ok = tp != nil && isParamVar(c, tp.Common().Args[0], "k")
			}
			r5.Check(ok, "MarshalPublicKey: returns proto.Marshal(PublicKeyToProto(k))", instrPos(ret), 1, "", "the marshalled form (and so the peer ID) depends on something other than the key's Type() and Raw()", describeVal(v))
		}
	}
	if f := r5.need(crP + ".PublicKeyToProto"); f != nil {
		okD, okT := false, false
		for _, st := range findInstrs(f, fieldWritePred(pbP+".PublicKey.Data")) {
			raw := isResultOfCall(st.(*ssa.Store).Val, 0, "(core/crypto.*).Raw")
			okD = raw != nil && isParamVar(c, callArgs(raw)[0], "k")
		}
		for _, st := range findInstrs(f, fieldWritePred(pbP+".PublicKey.Type")) {
			okT = derivesFrom(st.(*ssa.Store).Val, func(v ssa.Value) bool {
				t := isResultOfCall(v, 0, "(core/crypto.*).Type")
				return t != nil && isParamVar(c, callArgs(t)[0], "k")
			}, "("+pbP+".KeyType).Enum")
		}
		r5.Check(okD && okT, "PublicKeyToProto: {Type: k.Type(), Data: k.Raw()}", f.Pos(), 2, "", "", "")
	}

	// ---- R9 ---------------------------------------------------------------
	r9 := r.Rule("C08-R9", "E1/E6", 6, "peer records and inline keys: PeerRecordFromProtobuf carries the peer ID, the addresses and the sequence number of the message into the record it returns; TimestampSeq stores what it hands out and never hands out a number that is not above the last; ExtractPublicKey yields a key only from an identity multihash")
	prT := "core/peer.PeerRecord"
	if f := r9.need("core/peer.PeerRecordFromProtobuf"); f != nil && len(f.Params) == 1 {
		msg := f.Params[0]
		fromMsg := func(field string) func(ssa.Value) bool {
			return func(v ssa.Value) bool {
				return derivesFrom(v, func(x ssa.Value) bool {
					if fl, base := loadOfField(x); fl != nil && fl.Name() == field {
						b := resolveLoad(strip2(base))
						return b == ssa.Value(msg) || isParamCellLoad(c, b, msg)
					}
					if ci := isResultOfCall(x, 0, "(*core/peer/pb.PeerRecord).Get"+field); ci != nil {
						b := resolveLoad(strip2(ci.Common().Args[0]))
						return b == ssa.Value(msg) || isParamCellLoad(c, b, msg)
					}
					return false
				})
			}
		}
		okRet := func(in ssa.Instruction) bool {
			ret, ok := in.(*ssa.Return)
			return ok && isNilConst(retVal(ret, 1))
		}
		for _, q := range []struct{ field, src string }{{"Seq", "Seq"}, {"Addrs", "Addresses"}} {
			sts := findInstrs(f, func(in ssa.Instruction) bool {
				st, ok := in.(*ssa.Store)
				if !ok || !isFieldWrite(in, prT+"."+q.field) {
					return false
				}
				if fromMsg(q.src)(st.Val) {
					return true
				}
				// ... or converted by a function that is handed the message's field
				if call, isC := resolveLoad(strip2(st.Val)).(*ssa.Call); isC {
					for _, a := range call.Call.Args {
						if fromMsg(q.src)(a) {
							return true
						}
					}
				}
				return false
			})
			w, n := (&Cut{Fn: f, Target: okRet, Sep: inSet(sts)}).Run(c)
			r9.Check(w == "" && len(sts) >= 1, "PeerRecordFromProtobuf: record."+q.field+" comes from msg."+q.src, f.Pos(), n+1, "", "every received record has sequence number 0 (an older record replaces a newer one) / no addresses", w)
		}
		// the peer ID: what UnmarshalBinary filled from msg.PeerId
		sts := findInstrs(f, fieldWritePred(prT+".PeerID"))
		w, n := (&Cut{Fn: f, Target: okRet, Sep: inSet(sts)}).Run(c)
		okID := false
		for _, call := range callsIn(f, "(*core/peer.ID).UnmarshalBinary") {
			if fromMsg("PeerId")(call.Common().Args[1]) {
				okID = true
			}
		}
		r9.Check(w == "" && len(sts) >= 1 && okID, "PeerRecordFromProtobuf: record.PeerID is the decoded msg.PeerId", f.Pos(), n+1, "", "the record is attributed to nobody (or to somebody else)", w)
	}
	if f := r9.need("core/peer.TimestampSeq"); f != nil {
		isLast := func(v ssa.Value) bool {
			u, ok := resolveLoad(strip2(v)).(*ssa.UnOp)
			if !ok || u.Op != token.MUL {
				return false
			}
			g, isG := u.X.(*ssa.Global)
			return isG && g.Name() == "lastTimestamp"
		}
		var stores []ssa.Instruction
		allInstrs(f, func(in ssa.Instruction) {
			if st, ok := in.(*ssa.Store); ok {
				if g, isG := st.Addr.(*ssa.Global); isG && g.Name() == "lastTimestamp" {
					stores = append(stores, in)
				}
			}
		})
		okSame := len(stores) >= 1
		for _, ret := range returnsOf(f) {
			rv := resolveLoad(strip(retVal(ret, 0)))
			matched := isLast(retVal(ret, 0)) // (the global read back after it was stored)
			for _, st := range stores {
				if resolveLoad(strip(st.(*ssa.Store).Val)) == rv {
					matched = true
				}
			}
			if !matched {
				okSame = false
			}
		}
		w, n := (&Cut{Fn: f, Target: isRetInstr, Sep: inSet(stores)}).Run(c)
		r9.Check(okSame && w == "", "TimestampSeq: the number handed out is the one remembered as the last", f.Pos(), n+1, "", "two calls in the same nanosecond (or a clock stepping back) hand out the same or a lower number: the newer record is refused", w)
		// what is stored: the clock when it is above the last number, the last number plus one otherwise
		for _, st := range stores {
			v := resolveLoad(strip(st.(*ssa.Store).Val))
			isBump := func(x ssa.Value) bool {
				bo, ok := resolveLoad(strip2(x)).(*ssa.BinOp)
				if !ok || bo.Op != token.ADD || !isLast(bo.X) {
					return false
				}
				k, isC := constInt(bo.Y)
				return isC && k >= 1
			}
			usesLast := func(x ssa.Value) bool { return derivesFrom(x, isLast) }
			switch y := v.(type) {
			case *ssa.Phi:
				bump := phiEdgesWhere(y, isBump)
				clock := phiEdgesWhere(y, func(x ssa.Value) bool { return !usesLast(x) })
				if odd := phiEdgesWhere(y, func(x ssa.Value) bool { return usesLast(x) && !isBump(x) }); len(odd) > 0 {
					r9.Fail("TimestampSeq: below or at the last number, the last number plus one is handed out", instrPos(st), "the alternative to the clock is computed from lastTimestamp but is not lastTimestamp plus a positive constant", "")
					continue
				}
				if len(bump) == 0 || len(clock) == 0 {
					r9.OK("TimestampSeq: below or at the last number, the last number plus one is handed out", instrPos(st), 1, "not decided: the merge of the clock with lastTimestamp+1 is not recognised")
					continue
				}
				w, n := (&Cut{Fn: f, TargetEdge: edgeSet(clock), EdgeCut: edgeExcl(func(x ssa.Value) bool { return !usesLast(x) }, isLast, ordLT, ordEQ)}).Run(c)
				r9.Check(w == "", "TimestampSeq: the clock is handed out only when it is above the last number", instrPos(st), n+1, "", "a number equal to or below the last one is handed out", w)
			case *ssa.Call:
				if calleeKey(y) == "builtin.max" {
					okM := false
					for _, a := range y.Call.Args {
						if isBump(a) {
							okM = true
						}
					}
					r9.Check(okM, "TimestampSeq: max(clock, lastTimestamp+1)", instrPos(st), 1, "", "", "")
				} else if !usesLast(v) {
					r9.Fail("TimestampSeq: below or at the last number, the last number plus one is handed out", instrPos(st), "the clock is stored without being compared with the last number", "")
				}
			default:
				if !usesLast(v) {
					r9.Fail("TimestampSeq: below or at the last number, the last number plus one is handed out", instrPos(st), "the clock is stored without being compared with the last number", "")
				}
			}
		}
		// the clock value is used only when it is above the last number
		nT := 0
		for _, b := range blocksDeep(f) {
			ifi := ifOf(b)
			if ifi == nil {
				continue
			}
			tab := condTable(ifi.Cond, func(v ssa.Value) bool { return !isLast(v) }, isLast)
			if tab[ordLT] == triUnknown || tab[ordEQ] == triUnknown || tab[ordGT] == triUnknown {
				continue
			}
			nT++
			r9.Check(tab[ordLT] == tab[ordEQ] && tab[ordGT] != tab[ordEQ], "TimestampSeq: the clock is taken only when strictly above the last number", instrPos(ifi), 1, "", "a number equal to the last one is handed out again", fmt.Sprint(tab))
		}
		if nT == 0 {
			r9.OK("TimestampSeq: the clock is taken only when strictly above the last number", f.Pos(), 1, "not decided: no comparison of the clock with lastTimestamp recognised (max()?)")
		}
	}
	if f := r9.need("(core/peer.ID).ExtractPublicKey"); f != nil {
		ident := constIntObj(c, "github.com/multiformats/go-multihash", "IDENTITY")
		isCode := func(v ssa.Value) bool {
			fl, _ := loadOfField(resolveLoad(strip2(v)))
			return fl != nil && fl.Name() == "Code"
		}
		var oks []ssa.Instruction
		for _, ret := range returnsOf(f) {
			if isNilConst(retVal(ret, 1)) {
				oks = append(oks, ret)
			}
		}
		r9.guard(f, "hand out a key", oks, "the multihash is the identity hash", eqEdge(isCode, func(v ssa.Value) bool { k, ok := constInt(v); return ok && k == ident }, true), nil)
	}
}

// sigViaUnmarshal: the signature argument is a field of a struct that
// asn1.Unmarshal filled from the sig parameter.
func sigViaUnmarshal(f *ssa.Function, arg ssa.Value, sigP *ssa.Parameter) bool {
	for _, call := range callsIn(f, "encoding/asn1.Unmarshal") {
		a := call.Common().Args
		if !isParamVar(nil, a[0], sigP.Name()) {
			continue
		}
		dst := strip2(a[1])
		if derivesFrom(arg, func(v ssa.Value) bool { return v == dst || strip2(v) == dst }) {
			return true
		}
	}
	return false
}
