package main

import (
	"fmt"
	"go/token"
	"go/types"
	"sort"
	"strings"

	"golang.org/x/tools/go/ssa"
)

func init() {
	register("C09", checkC09,
		"Decides structurally for both address books: (R1) the heap-membership invariant of the in-memory book (an entry is on the expiry heap iff it is not connected) as a four-state table per method, evaluated with boolean-consistent path pruning; (R2) every function that rewrites an entry's TTL or expiry passes the heap maintenance call on that path before the next entry / return (flag-sensitive); "+
			"(R3) book state only under the book's / record's lock; (R4) in the datastore-backed book every mutation of a record is marked dirty and flushed before the lock is released, and clearing removes cache entry and datastore key; (R5) no swap-delete that skips the moved element inside an index range loop; "+
			"(R6) reads filter expired entries; (R7) the two stores agree on the sequence-number comparison, the connected-TTL predicate, and dropping the signed record when the last address goes; (R8) the datastore-backed book normalises addresses before every write/delete like the in-memory book does.",
		"equality of the two stores over histories, TTL arithmetic, caps, ARC cache coherence, lookahead-GC windows, close/reopen equality")
}

const memP = "p2p/host/peerstore/pstoremem"
const dsP = "p2p/host/peerstore/pstoreds"

func checkC09(c *Ctx, r *Report) {
	paT := memP + ".peerAddrs"
	eaT := memP + ".expiringAddr"
	pa := func(n string) string { return "(*" + paT + ")." + n }
	mabT := memP + ".memoryAddrBook"
	mab := func(n string) string { return "(*" + mabT + ")." + n }
	isRet := func(in ssa.Instruction) bool { _, ok := in.(*ssa.Return); return ok }
	heapCall := func(name string) func(ssa.Instruction) bool {
		return func(in ssa.Instruction) bool { return isCallTo(in, "container/heap."+name) }
	}

	// ---- R1 ---------------------------------------------------------------
	r1 := r.Rule("C09-R1", "typestate/E1b", 9, "peerAddrs heap-membership invariant: on heap iff not connected (4-state tables for Update, Insert, Delete, PopIfExpired)")
	// condition families on the entry parameter
	// a comparison of heapIndex with an integer constant, in any spelling, has a definite outcome when the entry is
	// not on the heap (heapIndex == -1) and — for the constants -1 and 0 — when it is (heapIndex >= 0)
	type heapCond struct {
		v       ssa.Value
		off, on tri // outcome when not on the heap / on the heap
	}
	cmpInt2 := func(op token.Token, a, b int64) bool {
		switch op {
		case token.EQL:
			return a == b
		case token.NEQ:
			return a != b
		case token.LSS:
			return a < b
		case token.LEQ:
			return a <= b
		case token.GTR:
			return a > b
		case token.GEQ:
			return a >= b
		}
		return false
	}
	conds := func(f *ssa.Function, entry string) (notInHeap []heapCond, connected []ssa.Value) {
		allInstrs(f, func(in ssa.Instruction) {
			switch x := in.(type) {
			case *ssa.BinOp:
				op := x.Op
				var k int64
				var okC bool
				if isLoadOfField(eaT + ".heapIndex")(strip2(x.X)) {
					k, okC = constInt(x.Y)
				} else if isLoadOfField(eaT + ".heapIndex")(strip2(x.Y)) {
					k, okC = constInt(x.X)
					if fl, ok := map[token.Token]token.Token{token.LSS: token.GTR, token.GTR: token.LSS, token.LEQ: token.GEQ, token.GEQ: token.LEQ, token.EQL: token.EQL, token.NEQ: token.NEQ}[op]; ok {
						op = fl
					} else {
						okC = false
					}
				}
				switch op {
				case token.EQL, token.NEQ, token.LSS, token.LEQ, token.GTR, token.GEQ:
				default:
					okC = false
				}
				if !okC {
					return
				}
				hc := heapCond{v: x, off: triOf(cmpInt2(op, -1, k)), on: triUnknown}
				// on the heap the index is some i >= 0: the outcome is definite when it is the same for 0 and for a large i
				if cmpInt2(op, 0, k) == cmpInt2(op, 1<<40, k) && (k == -1 || k == 0) {
					hc.on = triOf(cmpInt2(op, 0, k))
				}
				if hc.on != triUnknown && hc.on != hc.off {
					notInHeap = append(notInHeap, hc)
				}
			case *ssa.Call:
				if calleeKey(x) == "(*"+eaT+").IsConnected" {
					connected = append(connected, x)
				}
			}
		})
		return
	}
	assume := func(nih []heapCond, nihV bool, con []ssa.Value, conV bool) map[ssa.Value]bool {
		m := map[ssa.Value]bool{}
		for _, hc := range nih {
			t := hc.on
			if nihV {
				t = hc.off
			}
			m[hc.v] = t == triTrue
		}
		for _, v := range con {
			m[v] = conV
		}
		return m
	}
	expect := func(f *ssa.Function, name string, as map[ssa.Value]bool, must []func(ssa.Instruction) bool, mustNot []func(ssa.Instruction) bool, state string) {
		ok := true
		wit := ""
		n := 0
		for _, m := range must {
			w, k := (&Cut{Fn: f, Assume: as, Target: isRet, Sep: m}).Run(c)
			n += k
			if w != "" {
				ok = false
				wit = w
			}
		}
		for _, m := range mustNot {
			w, k := (&Cut{Fn: f, Assume: as, Target: m}).Run(c)
			n += k
			if w != "" {
				ok = false
				wit = w
			}
		}
		ru := r1
		ru.Check(ok, name+" ["+state+"]", f.Pos(), n+1, "", "the entry leaves the method violating `on the expiry heap iff not connected` (an unconnected address that is not on the heap never expires)", wit)
	}
	if f := r1.need(pa("Update")); f != nil {
		nih, con := conds(f, "a")
		if len(nih) == 0 || len(con) == 0 {
			r1.Fail(pa("Update")+": conditions", f.Pos(), "tests on heapIndex == -1 / IsConnected() not found", "")
		} else {
			push, remove, fix := heapCall("Push"), heapCall("Remove"), heapCall("Fix")
			expect(f, pa("Update"), assume(nih, true, con, false), []func(ssa.Instruction) bool{push}, []func(ssa.Instruction) bool{remove}, "not on heap, not connected → pushed")
			expect(f, pa("Update"), assume(nih, true, con, true), nil, []func(ssa.Instruction) bool{push, remove, fix}, "not on heap, connected → untouched")
			expect(f, pa("Update"), assume(nih, false, con, true), []func(ssa.Instruction) bool{remove}, []func(ssa.Instruction) bool{push}, "on heap, connected → removed")
			expect(f, pa("Update"), assume(nih, false, con, false), []func(ssa.Instruction) bool{fix}, []func(ssa.Instruction) bool{push, remove}, "on heap, not connected → re-ordered")
		}
	}
	if f := r1.need(pa("Insert")); f != nil {
		_, con := conds(f, "a")
		push := heapCall("Push")
		setIdx := func(in ssa.Instruction) bool {
			st, ok := in.(*ssa.Store)
			if !ok || !isFieldWrite(in, eaT+".heapIndex") {
				return false
			}
			k, isC := constInt(st.Val)
			return isC && k == -1
		}
		if len(con) == 0 {
			r1.Fail(pa("Insert")+": IsConnected test", f.Pos(), "not found", "")
		} else {
			expect(f, pa("Insert"), assume(nil, false, con, false), []func(ssa.Instruction) bool{push, setIdx}, nil, "not connected → pushed")
			expect(f, pa("Insert"), assume(nil, false, con, true), []func(ssa.Instruction) bool{setIdx}, []func(ssa.Instruction) bool{push}, "connected → not on heap (heapIndex = -1)")
		}
		// the entry is stored in the map on every path
		q := &Cut{Fn: f, Target: isRet, Sep: func(in ssa.Instruction) bool { _, ok := in.(*ssa.MapUpdate); return ok }}
		r1.mustPass(f, pa("Insert")+": entry stored in Addrs", q, 1)
	}
	if f := r1.need(pa("Delete")); f != nil {
		nih, _ := conds(f, "a")
		remove := heapCall("Remove")
		del := func(in ssa.Instruction) bool { return isCallTo(in, "builtin.delete") }
		found := func(v ssa.Value) bool {
			e, ok := v.(*ssa.Extract)
			if !ok || e.Index != 1 {
				return false
			}
			_, isLk := e.Tuple.(*ssa.Lookup)
			return isLk
		}
		var foundV []ssa.Value
		allInstrs(f, func(in ssa.Instruction) {
			if v, ok := in.(ssa.Value); ok && found(v) {
				foundV = append(foundV, v)
			}
		})
		if len(nih) == 0 || len(foundV) == 0 {
			r1.Fail(pa("Delete")+": conditions", f.Pos(), "not found", "")
		} else {
			as := assume(nih, false, nil, false)
			for _, v := range foundV {
				as[v] = true
			}
			expect(f, pa("Delete"), as, []func(ssa.Instruction) bool{remove, del}, nil, "stored, on heap → removed from heap and map")
			as2 := assume(nih, true, nil, false)
			for _, v := range foundV {
				as2[v] = true
			}
			expect(f, pa("Delete"), as2, []func(ssa.Instruction) bool{del}, []func(ssa.Instruction) bool{remove}, "stored, not on heap → removed from map only")
		}
	}
	if f := r1.need(pa("PopIfExpired")); f != nil {
		pops := findInstrs(f, heapCall("Pop"))
		dels := findInstrs(f, func(in ssa.Instruction) bool { return isCallTo(in, "builtin.delete") })
		ok := len(pops) == 1 && len(dels) >= 1
		if ok {
			// a popped entry is removed from the map before it is returned
			q := &Cut{Fn: f, From: pops, Target: isRet, Sep: inSet(dels[:1])}
			w, _ := q.Run(c)
			ok = w == ""
		}
		r1.Check(ok, pa("PopIfExpired")+": popped entry leaves the map too", f.Pos(), 2, "", "an expired entry leaves the heap but stays listed", "")
		// pop only when expired: past !now.Before(NextExpiry()) and a non-empty heap
		r1.guard(f, "heap.Pop", pops, "!now.Before(NextExpiry())", edgeExcl(func(v ssa.Value) bool { return isParamVar(c, v, "now") }, isCallResult(0, pa("NextExpiry")), ordLT), nil)
	}
	if f := r1.need(pa("Pop")); f != nil {
		ok := false
		for _, st := range findInstrs(f, fieldWritePred(eaT+".heapIndex")) {
			k, isC := constInt(st.(*ssa.Store).Val)
			ok = isC && k == -1
		}
		r1.Check(ok, pa("Pop")+": removed entry gets heapIndex = -1", f.Pos(), 1, "", "", "")
	}
	// heap index maintained by Swap and Push
	for _, n := range []string{"Swap", "Push"} {
		if f := r1.need(pa(n)); f != nil {
			r1.Check(len(findInstrs(f, fieldWritePred(eaT+".heapIndex"))) >= 1, pa(n)+": maintains heapIndex", f.Pos(), 1, "", "", "")
		}
	}
	r1.onlyIn("write "+eaT+".heapIndex", fieldWritePred(eaT+".heapIndex"), c.FnsOfPkg(memP), pa("Swap"), pa("Push"), pa("Pop"), pa("Insert"))

	// ---- R2 ---------------------------------------------------------------
	r2 := r.Rule("C09-R2", "E1b", 3, "writers of an entry's TTL/Expiry pass addrs.Update/Delete/Insert on that path before the next entry / return")
	isMaint := func(in ssa.Instruction) bool { return isCallTo(in, pa("Update"), pa("Delete"), pa("Insert")) }
	nW := 0
	for _, k := range []string{mab("addAddrsUnlocked"), mab("SetAddrs"), mab("UpdateAddrs")} {
		f := r2.need(k)
		if f == nil {
			continue
		}
		writes := findInstrs(f, func(in ssa.Instruction) bool {
			if !(isFieldWrite(in, eaT+".TTL") || isFieldWrite(in, eaT+".Expiry")) {
				return false
			}
			// entries already stored: the base is not a struct built in this function
			return localAllocRoot(in.(*ssa.Store).Addr) == nil
		})
		if len(writes) == 0 {
			r2.Fail(k+": TTL/Expiry writes", f.Pos(), "not found", "")
			continue
		}
		for _, w := range writes {
			nW++
			q := &Cut{Fn: f, From: []ssa.Instruction{w}, Sep: isMaint, Target: func(in ssa.Instruction) bool {
				switch in.(type) {
				case *ssa.Return, *ssa.Next:
					return true
				}
				// next iteration of an index-range loop: the loop header's index phi
				if p, ok := in.(*ssa.Phi); ok && p.Comment == "rangeindex" {
					return true
				}
				return false
			}}
			wit, n := q.RunPhiSensitive(c)
			fl, _ := fieldAddrOf(w.(*ssa.Store).Addr)
			r2.Check(wit == "", fmt.Sprintf("%s: write of %s is followed by heap maintenance", k, fl.Name()), instrPos(w), n+1, "", "an entry's expiry changes without the expiry heap being re-ordered: gc stops at an unexpired root and never collects entries behind it", wit)
		}
	}
	if nW < 6 {
		r2.Fail("TTL/Expiry write sites", token.NoPos, fmt.Sprintf("expected at least 6, found %d", nW), "")
	}

	// ---- R3 ---------------------------------------------------------------
	r3 := r.Rule("C09-R3", "E4", 40, "memoryAddrBook.{addrs,signedPeerRecords} and entries under mu; pstoreds records under their lock; AddrSubManager.subs under its lock")
	lockRule(c, r3, lockSpec{Pkg: memP, Type: "memoryAddrBook", Mutex: "mu", Guarded: []string{"addrs", "signedPeerRecords"},
		Owned:  map[string][]string{"expiringAddr": {"TTL", "Expiry", "heapIndex", "Addr"}},
		Exempt: map[string]string{memP + ".NewAddrBook": "constructor"},
		RunsLocked: map[string]string{
			pa("Less"): "heap.Interface method: invoked only by container/heap calls, which occur only in Insert/Update/Delete/PopIfExpired (checked below), all of which require the lock",
			pa("Swap"): "heap.Interface method (see Less)", pa("Push"): "heap.Interface method (see Less)", pa("Pop"): "heap.Interface method (see Less)", pa("Len"): "heap.Interface method (see Less)",
		}})
	r3.onlyIn("call container/heap.*", func(in ssa.Instruction) bool {
		return isCallTo(in, "container/heap.Push", "container/heap.Pop", "container/heap.Fix", "container/heap.Remove", "container/heap.Init")
	}, c.FnsOfPkg(memP), pa("Insert"), pa("Update"), pa("Delete"), pa("PopIfExpired"))
	lockRule(c, r3, lockSpec{Pkg: memP, Type: "AddrSubManager", Mutex: "mu", Guarded: []string{"subs"},
		Exempt: map[string]string{memP + ".NewAddrSubManager": "constructor"}})
	lockRule(c, r3, lockSpec{Pkg: dsP, Type: "addrsRecord", Mutex: "RWMutex", Guarded: []string{"dirty"},
		Owned: map[string][]string{dsP + "/pb.AddrBookRecord": {"Addrs", "CertifiedRecord"}},
		Exempt: map[string]string{
			"(*" + dsP + ".dsAddrBook).loadRecord":          "the record is built / loaded here and not yet handed out (or is returned under the cache's own synchronisation)",
			"(*" + dsP + ".dsAddrBookGc).purgeLookahead":    "GC works on records it unmarshalled itself (not in the cache) or locks cached ones explicitly (checked where the lock is taken)",
			"(*" + dsP + ".dsAddrBookGc).purgeStore":        "records unmarshalled locally by the GC cycle",
			"(*" + dsP + ".dsAddrBookGc).populateLookahead": "records unmarshalled locally by the GC cycle",
		}})

	// ---- R4 ---------------------------------------------------------------
	r4 := r.Rule("C09-R4", "E1", 5, "pstoreds persistence discipline: mutation → dirty=true → flush (directly or under clean()) before return; ClearAddrs removes cache entry and datastore key")
	recT := dsP + ".addrsRecord"
	pbRec := dsP + "/pb.AddrBookRecord"
	pbEnt := dsP + "/pb.AddrBookRecord_AddrEntry"
	isMut := func(in ssa.Instruction) bool {
		return isFieldWrite(in, pbRec+".Addrs") || isFieldWrite(in, pbRec+".CertifiedRecord") ||
			((isFieldWrite(in, pbEnt+".Ttl") || isFieldWrite(in, pbEnt+".Expiry")) && localAllocRoot(in.(*ssa.Store).Addr) == nil)
	}
	setDirty := func(in ssa.Instruction) bool {
		st, ok := in.(*ssa.Store)
		if !ok || !isFieldWrite(in, recT+".dirty") {
			return false
		}
		b, isC := constBool(st.Val)
		return isC && b
	}
	flush := callPred("(*" + recT + ").flush")
	clean := callPred("(*" + recT + ").clean")
	nMut := 0
	for _, k := range []string{"(*" + dsP + ".dsAddrBook).setAddrs", "(*" + dsP + ".dsAddrBook).deleteAddrs", "(*" + dsP + ".dsAddrBook).storeSignedPeerRecord", "(*" + dsP + ".dsAddrBook).UpdateAddrs"} {
		f := r4.need(k)
		if f == nil {
			continue
		}
		fs := append([]*ssa.Function{f}, allAnon(f)...)
		any := false
		for _, g := range fs {
			if len(findInstrs(g, isMut)) > 0 {
				any = true
			}
		}
		if !any {
			r4.Fail(k+": record mutation", f.Pos(), "no mutation of the record found", "")
			continue
		}
		nMut++
		// in the outer function: every return after the first possible mutation point passes dirty=true and a flush
		// (mutations inside helper closures are attributed to the call of the closure)
		mutPoint := func(in ssa.Instruction) bool {
			if isMut(in) {
				return true
			}
			if ci, ok := in.(ssa.CallInstruction); ok {
				if cl := ci.Common().StaticCallee(); cl != nil && c.Parent(cl) == f && len(findInstrs(cl, isMut)) > 0 {
					return true
				}
				// call through a local closure variable
				if mc, ok := ci.Common().Value.(*ssa.MakeClosure); ok && len(findInstrs(mc.Fn.(*ssa.Function), isMut)) > 0 {
					return true
				}
			}
			return false
		}
		muts := findInstrs(f, mutPoint)
		if len(muts) == 0 {
			r4.Fail(k+": mutation points", f.Pos(), "not found in the function body", "")
			continue
		}
		w1, n1 := (&Cut{Fn: f, From: muts, Target: isRet, Sep: setDirty}).Run(c)
		// flush directly, or `if clean(now) { flush }`: the return is reached only through flush or through clean's false edge
		w2, n2 := (&Cut{Fn: f, From: muts, Target: isRet, Sep: flush, EdgeCut: edgeBool(isCallResult(0, "(*"+recT+").clean"), false)}).Run(c)
		w3 := ""
		if len(findInstrs(f, clean)) == 0 && len(findInstrs(f, flush)) == 0 {
			w3 = "no clean/flush call"
		}
		r4.Check(w1 == "" && w2 == "" && w3 == "", k+": every mutation is marked dirty and flushed before returning", f.Pos(), n1+n2, "", "a change to the record is not written to the datastore: answers differ after reopening", w1+w2+w3)
	}
	if nMut < 4 {
		r4.Fail("pstoreds mutators", token.NoPos, "expected four mutating functions", "")
	}
	// setAddrs keeps a lookup index (map from address bytes to entry) over pr.Addrs: an entry removed from the slice
	// leaves the index on the same path, otherwise a later address of the batch is matched to the orphan and lost
	if f := r4.need("(*" + dsP + ".dsAddrBook).setAddrs"); f != nil {
		isIndexMap := func(v ssa.Value) bool {
			t := v.Type().String()
			return strings.HasPrefix(t, "map[string]*") && strings.HasSuffix(t, "AddrBookRecord_AddrEntry")
		}
		nRem := 0
		for _, g := range append([]*ssa.Function{f}, allAnon(f)...) {
			rems := findInstrs(g, func(in ssa.Instruction) bool {
				st, ok := in.(*ssa.Store)
				if !ok || !isFieldWrite(in, pbRec+".Addrs") {
					return false
				}
				return derivesFrom(st.Val, func(v ssa.Value) bool {
					call, isC := v.(*ssa.Call)
					return isC && (strings.HasPrefix(calleeKey(call), "slices.Delete") || strings.HasPrefix(calleeKey(call), "slices.DeleteFunc"))
				})
			})
			dels := findInstrs(g, func(in ssa.Instruction) bool {
				call, ok := in.(*ssa.Call)
				return ok && calleeKey(call) == "builtin.delete" && len(call.Call.Args) == 2 && isIndexMap(call.Call.Args[0])
			})
			for _, rm := range rems {
				nRem++
				w1, n1 := (&Cut{Fn: g, Target: isInstr(rm), Sep: inSet(dels)}).Run(c)
				w2, n2 := (&Cut{Fn: g, From: []ssa.Instruction{rm}, Target: isRet, Sep: inSet(dels)}).Run(c)
				r4.Check(w1 == "" || w2 == "", fnKey(g)+": an entry removed from pr.Addrs is removed from the lookup index too", instrPos(rm), n1+n2+1, "", "the index still maps the evicted address to an orphaned entry: the same address later in the batch is treated as existing and is neither stored nor announced", w1)
			}
		}
		if nRem == 0 {
			r4.OK("(*dsAddrBook).setAddrs: no removal from pr.Addrs while the index is live", f.Pos(), 1, "")
		}
	}
	if f := r4.need("(*" + dsP + ".dsAddrBook).ClearAddrs"); f != nil {
		rm := findInstrs(f, func(in ssa.Instruction) bool {
			return calleeNameIs(in, "Remove") && recvIsField(in.(ssa.CallInstruction), dsP+".dsAddrBook.cache")
		})
		del := findInstrs(f, callPred("(github.com/ipfs/go-datastore.Write).Delete"))
		w1, _ := (&Cut{Fn: f, Target: isRet, Sep: inSet(rm)}).Run(c)
		w2, _ := (&Cut{Fn: f, Target: isRet, Sep: inSet(del)}).Run(c)
		r4.Check(len(rm) == 1 && len(del) == 1 && w1 == "" && w2 == "", "pstoreds ClearAddrs: cache entry removed and datastore key deleted", f.Pos(), 2, "", "", "")
	}
	if f := r4.need("(*" + recT + ").clean"); f != nil {
		// clean() strips expired entries from the in-memory record. The stored copy still has them, and not every
		// caller writes the record back (read paths load with update=false; the look-ahead GC works from the cached
		// record and asks clean() again, which then finds nothing to strip). The record must therefore stay dirty from
		// the moment it is shortened until a flush succeeds: otherwise the stored copy keeps the expired entries and
		// the peer is listed by PeersWithAddrs for ever.
		shorten := findInstrs(f, func(in ssa.Instruction) bool { return isFieldWrite(in, pbRec+".Addrs") })
		isLenAddrs := func(v ssa.Value) bool {
			call, ok := v.(*ssa.Call)
			return ok && calleeKey(call) == "builtin.len" && isLoadOfField(pbRec+".Addrs")(strip2(call.Call.Args[0]))
		}
		isOldLen := func(v ssa.Value) bool {
			// the length taken before the removal (a len(r.Addrs) evaluated before the store)
			if !isLenAddrs(v) {
				return false
			}
			for _, st := range shorten {
				if w, _ := (&Cut{Fn: f, From: []ssa.Instruction{st}, Target: isInstr(v.(ssa.Instruction))}).Run(c); w != "" {
					return false
				}
			}
			return true
		}
		isNewLen := func(v ssa.Value) bool { return isLenAddrs(v) && !isOldLen(v) }
		unchanged := eqEdge(isNewLen, isOldLen, true)
		for _, st := range shorten {
			w, n := (&Cut{Fn: f, From: []ssa.Instruction{st}, Target: isRet, Sep: setDirty, EdgeCut: unchanged}).Run(c)
			r4.Check(w == "", "(*addrsRecord).clean: a record shortened by the removal of expired entries is marked dirty (until a flush succeeds)", instrPos(st), n+1, "",
				"a caller that does not write the record back (a read with update=false) leaves the stored copy with the expired entries and the in-memory record clean: later GC passes see nothing to do and the peer stays listed by PeersWithAddrs, also after a restart", w)
		}
		r4.Check(len(shorten) >= 1, "(*addrsRecord).clean: removes expired entries", f.Pos(), len(shorten), "", "", "")
	}
	if f := r4.need("(*" + recT + ").flush"); f != nil {
		// dirty=false only after a successful write
		for _, st := range findInstrs(f, fieldWritePred(recT+".dirty")) {
			w, n := (&Cut{Fn: f, Target: isInstr(st), EdgeCut: anyEdge(edgeNil(isCallResult(0, "(github.com/ipfs/go-datastore.Write).Put"), true), edgeNil(isCallResult(0, "(github.com/ipfs/go-datastore.Write).Delete"), true))}).Run(c)
			r4.Check(w == "", "(*addrsRecord).flush: dirty cleared only after a successful datastore write", instrPos(st), n+1, "", "", w)
		}
	}

	// ---- R5 ---------------------------------------------------------------
	r5 := r.Rule("C09-R5", "pattern", 1, "no swap-delete inside an index range loop that advances without re-examining the moved element")
	nLoops := 0
	for _, pkg := range []string{memP, dsP, "p2p/host/peerstore", "p2p/host/eventbus", controlsPkg} {
		for _, f := range c.FnsOfPkg(pkg) {
			for _, v := range swapDeleteSkips(c, f) {
				nLoops++
				if pkg == controlsPkg {
					continue // counted by the control rule
				}
				r5.Fail(fnKey(f)+": swap-delete in range loop", instrPos(v), "s[i] is overwritten with another element of s and the loop advances to i+1: the moved element is never examined", "")
			}
		}
	}
	if f := r5.need(dsP + ".deleteInPlace"); f != nil {
		r5.OK(dsP+".deleteInPlace: no skipping swap-delete", f.Pos(), len(f.Blocks), "")
	}

	// ---- R6 ---------------------------------------------------------------
	r6 := r.Rule("C09-R6", "E1", 4, "reads filter expiry: validAddrs appends only past !ExpiredBy(now); Addrs/GetPeerRecord go through it; pstoreds Addrs cleans before answering")
	if f := r6.need(memP + ".validAddrs"); f != nil {
		apps := findInstrs(f, callPred("builtin.append"))
		r6.guard(f, "append(good, addr)", apps, "!ExpiredBy(now)", edgeBool(func(v ssa.Value) bool {
			ci := isResultOfCall(v, 0, "(*"+eaT+").ExpiredBy")
			return ci != nil && isParamVar(c, callArgs(ci)[1], "now")
		}, false), nil)
	}
	if f := r6.need("(*" + eaT + ").ExpiredBy"); f != nil {
		tab, ok := orderTable(f, func(v ssa.Value) bool { return isParamVar(c, v, "t") }, func(v ssa.Value) bool { return isLoadOfField(eaT + ".Expiry")(strip2(v)) }, 0)
		r6.Check(ok && tab == [3]int{1, 2, 2}, "expiringAddr.ExpiredBy: decision table over the order of (t, Expiry) is t<E→false, t==E→true, t>E→true", f.Pos(), 3, "", "an address is returned at (or after) its expiry instant, or dropped before it", fmtTable(tab))
	}
	// the datastore-backed book draws the line at the same place: an entry survives iff Expiry > now
	isPbExpiry := func(v ssa.Value) bool { return isLoadOfField(pbEnt + ".Expiry")(strip2(v)) }
	if f := r6.need("(*" + recT + ").hasExpiredAddrs"); f != nil {
		tab, ok := orderTable(f, isPbExpiry, func(v ssa.Value) bool { return isParamVar(c, v, "now") }, 0)
		r6.Check(ok && tab[ordGT] == 1 && tab[ordLT]&2 != 0 && tab[ordEQ]&2 != 0, "addrsRecord.hasExpiredAddrs: decision table over the order of (Addrs[0].Expiry, now) is E>now→false, E<=now→true when non-empty", f.Pos(), 3, "", "the two stores disagree at the expiry instant", fmtTable(tab))
	}
	if f := r6.need(dsP + ".removeExpired"); f != nil {
		found := false
		for _, b := range blocksDeep(f) {
			ifi, isIf := b.Instrs[len(b.Instrs)-1].(*ssa.If)
			if !isIf {
				continue
			}
			tab := condTable(ifi.Cond, isPbExpiry, func(v ssa.Value) bool { return isParamVar(c, v, "now") })
			if tab[0] == triUnknown || tab[1] == triUnknown || tab[2] == triUnknown {
				continue
			}
			found = true
			// the successor that can come back to this test is `expired, keep scanning`
			loops := func(s *ssa.BasicBlock) bool { return blockReaches(s, b) }
			ok := true
			for o := ordLT; o <= ordGT; o++ {
				succ := b.Succs[1]
				if tab[o] == triTrue {
					succ = b.Succs[0]
				}
				if loops(succ) != (o != ordGT) {
					ok = false
				}
			}
			r6.Check(ok, dsP+".removeExpired: scan continues past an entry iff Expiry <= now (decision table)", instrPos(ifi), 3, "", "the two stores disagree at the expiry instant, or live entries are dropped", "")
		}
		if !found {
			r6.Fail(dsP+".removeExpired: expiry comparison", f.Pos(), "no decidable comparison of an entry's Expiry with now", "")
		}
	}
	for _, k := range []string{mab("Addrs"), mab("GetPeerRecord")} {
		if f := r6.need(k); f != nil {
			va := findInstrs(f, callPred(memP+".validAddrs"))
			ok := len(va) == 1
			if ok {
				nowArg := isResultOfCall(va[0].(ssa.CallInstruction).Common().Args[0], 0, "("+memP+".clock).Now")
				ok = nowArg != nil
			}
			r6.Check(ok, k+": answers through validAddrs(clock.Now(), ..)", f.Pos(), 1, "", "expired addresses (or a record whose addresses all expired) can be returned", "")
			if k == mab("GetPeerRecord") && ok {
				// envelope returned only past len(validAddrs) != 0
				var rets []ssa.Instruction
				for _, ret := range returnsOf(f) {
					if !isNilConst(retVal(ret, 0)) {
						rets = append(rets, ret)
					}
				}
				r6.guard(f, "return envelope", rets, "len(validAddrs(..)) != 0", edgeIntBound(func(v ssa.Value) bool {
					call, _ := v.(*ssa.Call)
					return call != nil && calleeKey(call) == "builtin.len" && isResultOfCall(call.Call.Args[0], 0, memP+".validAddrs") != nil
				}, 1, intInf, true), nil)
			}
		}
	}
	if f := r6.need("(*" + dsP + ".dsAddrBook).Addrs"); f != nil {
		// Addrs answers from the record loadRecord hands out, and loadRecord strips expired entries from every
		// record it hands out, whatever its update flag says (the flag only decides whether the stripped record is
		// written back now or stays dirty for the next flush, C09-R4)
		ok := len(callsIn(f, "(*"+dsP+".dsAddrBook).loadRecord")) == 1
		r6.Check(ok, "pstoreds Addrs: answers from the record loadRecord returns", f.Pos(), 1, "", "", "")
		if lr := r6.need("(*" + dsP + ".dsAddrBook).loadRecord"); lr != nil {
			var rets []ssa.Instruction
			for _, ret := range returnsOf(lr) {
				if !isNilConst(retVal(ret, 0)) {
					rets = append(rets, ret)
				}
			}
			// a record that was not found in the datastore is empty: nothing to strip
			notFound := func(b *ssa.BasicBlock, s int) bool {
				return eqEdge(isCallResult(1, "(github.com/ipfs/go-datastore.Read).Get"), func(v ssa.Value) bool {
					g, isG := strip(v).(*ssa.UnOp)
					if !isG {
						return false
					}
					gl, isGl := g.X.(*ssa.Global)
					return isGl && gl.Name() == "ErrNotFound"
				}, true)(b, s)
			}
			w, n := (&Cut{Fn: lr, Target: inSet(rets), Sep: callPred("(*" + recT + ").clean"), EdgeCut: notFound}).Run(c)
			r6.Check(w == "" && len(rets) >= 1, "pstoreds loadRecord: every record handed out went through clean() (expired entries removed before answering)", lr.Pos(), n+1, "", "expired addresses are returned by the datastore-backed book", w)
		}
	}
	if f := r6.need("(*" + dsP + ".dsAddrBook).loadRecord"); f != nil {
		// with update=true the record is cleaned (and flushed when changed)
		upd := param(f, "update")
		ok := upd != nil
		if ok {
			w, _ := (&Cut{Fn: f, Assume: map[ssa.Value]bool{upd: true}, Sep: clean, Target: func(in ssa.Instruction) bool {
				ret, isR := in.(*ssa.Return)
				return isR && isNilConst(retVal(ret, 1))
			}}).Run(c)
			ok = w == ""
		}
		r6.Check(ok, "pstoreds loadRecord: [update] every successful load passes clean(now)", f.Pos(), 1, "", "", "")
	}
	if f := r6.need(mab("gc")); f != nil {
		pops := findInstrs(f, callPred(pa("PopIfExpired")))
		md := findInstrs(f, callPred(mab("maybeDeleteSignedPeerRecordUnlocked")))
		// the sweep ends only when PopIfExpired reports nothing left, and every entry it hands out has its peer's signed
		// record re-examined before the next one is popped
		popOK1 := isCallResult(1, pa("PopIfExpired"))
		popOK := func(v ssa.Value) bool { // the answer of a pop, or of whichever pop ran last (3-clause loop)
			ls := phiLeaves(v)
			if len(ls) == 0 {
				return false
			}
			for _, l := range ls {
				if !popOK1(l) {
					return false
				}
			}
			return true
		}
		w1, n1 := (&Cut{Fn: f, Target: func(in ssa.Instruction) bool { _, ok := in.(*ssa.Return); return ok }, EdgeCut: edgeBool(popOK, false)}).Run(c)
		var got []CFGEdge
		for _, b := range blocksDeep(f) {
			for s := range b.Succs {
				if edgeBool(popOK, true)(b, s) {
					got = append(got, CFGEdge{b, s})
				}
			}
		}
		w2, n2 := "no branch on PopIfExpired's answer", 0
		if len(got) > 0 {
			w2, n2 = (&Cut{Fn: f, FromEdges: got, Sep: inSet(md), Target: func(in ssa.Instruction) bool {
				if _, isRet := in.(*ssa.Return); isRet {
					return true
				}
				return inSet(pops)(in)
			}}).Run(c)
		}
		r6.Check(len(pops) >= 1 && len(md) >= 1 && w1 == "" && w2 == "", mab("gc")+": pops expired entries and drops orphaned signed records", f.Pos(), n1+n2+2, "", "expired addresses (or the signed record of a peer whose last address expired) are left behind", w1+w2)
	}

	// the datastore record is kept ordered by expiry: hasExpiredAddrs, removeExpired and the lookahead GC only look at
	// the head. Whatever sorts the address list in the package orders it by the Expiry field, ascending.
	{
		nSorts := 0
		for _, f := range c.FnsOfPkg(dsP) {
			allInstrsIn(f, func(in ssa.Instruction) {
				call, ok := in.(*ssa.Call)
				if !ok {
					return
				}
				k := calleeKey(call)
				isLess := k == "sort.Slice" || k == "sort.SliceStable"
				isCmp := strings.HasPrefix(k, "slices.SortFunc") || strings.HasPrefix(k, "slices.SortStableFunc")
				if !isLess && !isCmp {
					return
				}
				if !strings.Contains(types.TypeString(call.Call.Args[0].Type(), nil), "AddrBookRecord_AddrEntry") && !derivesFrom(call.Call.Args[0], func(v ssa.Value) bool {
					fl, _ := loadOfField(v)
					return fl != nil && fl.Name() == "Addrs"
				}) {
					return
				}
				nSorts++
				key := fnKey(f) + ": the address list is sorted by Expiry, ascending"
				var g *ssa.Function
				switch x := strip2(call.Call.Args[1]).(type) {
				case *ssa.MakeClosure:
					g, _ = x.Fn.(*ssa.Function)
				case *ssa.Function:
					g = x
				}
				if g == nil || g.Blocks == nil {
					r6.Fail(key, instrPos(in), "the comparator could not be resolved to a function", "")
					return
				}
				// the fields of an address entry the comparator reads, and from which parameter's element
				fields := map[string]bool{}
				side := func(v ssa.Value) int { // 1: first parameter's element, 2: second's, 0: unknown
					for d := 0; d < 6 && v != nil; d++ {
						switch x := v.(type) {
						case *ssa.Parameter:
							for i, p := range g.Params {
								if p == x {
									return i + 1
								}
							}
							return 0
						case *ssa.UnOp:
							v = x.X
						case *ssa.FieldAddr:
							v = x.X
						case *ssa.IndexAddr:
							v = x.Index
						case *ssa.Index:
							v = x.Index
						default:
							return 0
						}
					}
					return 0
				}
				var first, second ssa.Value
				allInstrsIn(g, func(x ssa.Instruction) {
					v, ok := x.(ssa.Value)
					if !ok {
						return
					}
					fl, base := loadOfField(v)
					if fl == nil || !strings.Contains(types.TypeString(base.Type(), nil), "AddrBookRecord_AddrEntry") {
						return
					}
					fields[fl.Name()] = true
					switch side(base) {
					case 1:
						first = v
					case 2:
						second = v
					}
				})
				onlyExpiry := len(fields) == 1 && fields["Expiry"]
				asc := false
				if onlyExpiry && first != nil && second != nil {
					isA := func(v ssa.Value) bool { return v == first }
					isB := func(v ssa.Value) bool { return v == second }
					if isLess {
						tab, ok := orderTable(g, isA, isB, 0)
						asc = ok && tab == [3]int{2, 1, 1}
					} else {
						// cmp.Compare(a.Expiry, b.Expiry), or a three-way result whose sign follows the order
						for _, ret := range returnsOf(g) {
							if cc, isC := strip(ret.Results[0]).(*ssa.Call); isC && calleeKey(cc) == "cmp.Compare" && len(cc.Call.Args) == 2 {
								asc = cc.Call.Args[0] == first && cc.Call.Args[1] == second
							}
						}
					}
				}
				var fl []string
				for n := range fields {
					fl = append(fl, n)
				}
				sort.Strings(fl)
				r6.Check(onlyExpiry && asc, key, instrPos(in), 2, "", "the head of the list is no longer the entry that expires first: expired addresses behind it are returned, survive GC and a restart", "compares "+strings.Join(fl, ",")+fmt.Sprintf(" ascending=%v", asc))
			})
		}
		r6.Check(nSorts >= 1, dsP+": sort of the address list", token.NoPos, nSorts, "", "", "")
	}

	// ---- R7 ---------------------------------------------------------------
	r7 := r.Rule("C09-R7", "E5/E1", 8, "siblings agree: strict Seq comparison, connected-TTL predicate, signed record dropped with the last address, ClearAddrs drops the record")
	for _, p := range []string{memP, dsP} {
		if f := r7.need(p + ".ttlIsConnected"); f != nil {
			want := constIntObj(c, "core/peerstore", "ConnectedAddrTTL")
			tab, ok := orderTable(f, func(v ssa.Value) bool { return isParamVar(c, v, "ttl") }, func(v ssa.Value) bool { k, isC := constInt(v); return isC && k == want }, 0)
			ok = ok && tab == [3]int{1, 2, 2}
			r7.Check(ok, p+".ttlIsConnected: ttl >= ConnectedAddrTTL", f.Pos(), 1, "", "the two stores disagree on which addresses are held by a live connection", "")
		}
	}
	// Seq: reject (false, nil) only on stored > new (strict)
	seqCheck := func(fnK string, stored func(ssa.Value) bool) {
		f := r7.need(fnK)
		if f == nil {
			return
		}
		isNew := func(v ssa.Value) bool {
			fl, _ := loadOfField(strip2(v))
			return fl != nil && fl.Name() == "Seq" && !stored(strip(v))
		}
		isStored := func(v ssa.Value) bool { return stored(strip(v)) }
		// the silent rejection `return false, nil` is reachable exactly when the stored Seq is greater
		silent := func(ret *ssa.Return) bool {
			if len(ret.Results) != 2 {
				return false
			}
			acc, isC := constBool(retVal(ret, 0))
			return isC && !acc && isNilConst(retVal(ret, 1))
		}
		reach, ok := orderReach(f, isStored, isNew, silent)
		nCmp := 0
		allInstrs(f, func(in ssa.Instruction) {
			if bo, isB := in.(*ssa.BinOp); isB && ((isStored(bo.X) && isNew(bo.Y)) || (isStored(bo.Y) && isNew(bo.X))) {
				nCmp++
			}
		})
		if nCmp == 0 {
			r7.Fail(fnK+": sequence comparison", f.Pos(), "not found", "")
			return
		}
		r7.Check(ok && reach == [3]bool{false, false, true}, fnK+": rejects exactly when stored Seq > record Seq (equal is a refresh; decision table)", f.Pos(), 3, "", "a record with an equal sequence number is rejected (or an older one accepted)", fmt.Sprintf("silent rejection reachable under stored<new: %v, ==: %v, >: %v", reach[0], reach[1], reach[2]))
	}
	seqCheck(mab("ConsumePeerRecord"), func(v ssa.Value) bool { return isLoadOfField(memP + ".peerRecordState.Seq")(strip2(v)) })
	seqCheck("(*"+dsP+".dsAddrBook).ConsumePeerRecord", func(v ssa.Value) bool {
		return isResultOfCall(v, 0, "(*"+dsP+".dsAddrBook).latestPeerRecordSeq") != nil
	})
	for _, k := range []string{mab("addAddrsUnlocked"), mab("SetAddrs"), mab("UpdateAddrs")} {
		if f := r7.need(k); f != nil {
			defs := findInstrs(f, func(in ssa.Instruction) bool {
				_, ok := in.(*ssa.Defer)
				return ok && isCallTo(in, mab("maybeDeleteSignedPeerRecordUnlocked"))
			})
			ok := len(defs) == 1
			if ok {
				w, _ := (&Cut{Fn: f, Target: func(in ssa.Instruction) bool { return isMaint(in) || isRet(in) }, Sep: inSet(defs)}).Run(c)
				ok = w == "" && isParamVar(c, callArgs(defs[0].(ssa.CallInstruction))[1], "p")
			}
			r7.Check(ok, k+": defer maybeDeleteSignedPeerRecordUnlocked(p) before any change", f.Pos(), 1, "", "a signed record survives the removal of the peer's last address", "")
		}
	}
	// a stored signed record is re-examined afterwards: every insert into signedPeerRecords is followed, before the
	// function returns, by maybeDeleteSignedPeerRecordUnlocked (called, deferred, or run by a callee on all its paths)
	for _, f := range c.FnsOfPkg(memP) {
		ins := findInstrsIn(f, func(in ssa.Instruction) bool {
			_, ok := in.(*ssa.MapUpdate)
			return ok && isFieldWrite(in, mabT+".signedPeerRecords")
		})
		for _, i := range ins {
			mdName := "maybeDeleteSignedPeerRecordUnlocked"
			w, n := (&Cut{Fn: f, From: []ssa.Instruction{i}, Target: isRet, Sep: func(in ssa.Instruction) bool { return releasesLike(in, mdName) }}).Run(c)
			// or a deferral registered on every path before the insert
			if w != "" {
				defs := findInstrsIn(f, func(in ssa.Instruction) bool { _, isD := in.(*ssa.Defer); return isD && calleeNameIs(in, mdName) })
				if len(defs) > 0 {
					if w2, _ := (&Cut{Fn: f, Target: isInstr(i), Sep: inSet(defs)}).Run(c); w2 == "" {
						w = ""
					}
				}
			}
			r7.Check(w == "", fnKey(f)+": a stored signed record is re-examined (dropped if the peer has no address) before returning", instrPos(i), n+1, "", "a signed record is kept for a peer without addresses: it is returned as soon as any address is added, and it shadows records with a lower sequence number", w)
		}
	}
	if f := r7.need(mab("maybeDeleteSignedPeerRecordUnlocked")); f != nil {
		dels := findInstrs(f, func(in ssa.Instruction) bool {
			return isCallTo(in, "builtin.delete") && isFieldWrite(in, mabT+".signedPeerRecords")
		})
		r7.guard(f, "delete(signedPeerRecords, p)", dels, "len(addrs[p]) == 0", edgeIntBound(isLenCall, 0, 0, true), nil)
	}
	if f := r7.need(mab("ClearAddrs")); f != nil {
		dels := findInstrs(f, func(in ssa.Instruction) bool {
			return isCallTo(in, "builtin.delete") && isFieldWrite(in, mabT+".signedPeerRecords")
		})
		w, _ := (&Cut{Fn: f, Target: isRet, Sep: inSet(dels)}).Run(c)
		r7.Check(len(dels) == 1 && w == "", mab("ClearAddrs")+": drops the signed record", f.Pos(), 1, "", "", "")
	}
	// pstoreds: the record is returned only when addresses remain
	if f := r7.need("(*" + dsP + ".dsAddrBook).GetPeerRecord"); f != nil {
		var rets []ssa.Instruction
		for _, ret := range returnsOf(f) {
			if !isNilConst(retVal(ret, 0)) {
				rets = append(rets, ret)
			}
		}
		r7.guard(f, "return envelope", rets, "len(pr.Addrs) != 0", edgeIntBound(func(v ssa.Value) bool {
			call, _ := v.(*ssa.Call)
			return call != nil && calleeKey(call) == "builtin.len" && derivesFrom(call.Call.Args[0], isLoadOfField(pbRec+".Addrs"))
		}, 1, intInf, true), nil)
	}

	// ---- R8 ---------------------------------------------------------------
	r8 := r.Rule("C09-R8", "E6", 5, "pstoreds: every address list handed to setAddrs/deleteAddrs was normalised by cleanAddrs (or comes from the stored record); pstoremem strips the /p2p suffix in every mutator")
	cleanK := dsP + ".cleanAddrs"
	for _, f := range c.FnsOfPkg(dsP) {
		for _, call := range callsInOnly(f, "(*"+dsP+".dsAddrBook).setAddrs", "(*"+dsP+".dsAddrBook).deleteAddrs") {
			a := callArgs(call)[2]
			ok := derivesFrom(a, isCallResult(0, cleanK)) || isResultOfCall(a, 0, "(*"+dsP+".dsAddrBook).supersededSignedAddrs") != nil
			// the cleanAddrs result must be the only definition reaching the call (not the raw parameter)
			if ok {
				for _, l := range phiLeaves(a) {
					if _, isP := strip(l).(*ssa.Parameter); isP {
						ok = false
					}
				}
			}
			r8.Check(ok, fnKey(f)+": addresses given to "+calleeShort(call)+" are cleanAddrs output", instrPos(call.(ssa.Instruction)), 1, "", "addresses written with a /p2p/<peer> suffix are compared byte-for-byte with the suffix-less stored form: a removal (or update) of the named address silently does nothing", describeVal(a))
		}
	}
	for _, k := range []string{mab("addAddrsUnlocked"), mab("SetAddrs")} {
		if f := r8.need(k); f != nil {
			// every FindAddr / Insert key derives from peer.SplitAddr
			ok := true
			n := 0
			for _, call := range callsIn(f, pa("FindAddr")) {
				n++
				if isResultOfCall(callArgs(call)[2], 0, "core/peer.SplitAddr") == nil {
					ok = false
				}
			}
			r8.Check(ok && n >= 1, k+": looks entries up by the suffix-stripped address", f.Pos(), n, "", "", "")
		}
	}

	// ---- R9 ---------------------------------------------------------------
	r9 := r.Rule("C09-R9", "E6", 6, "the expiry heap keeps its own books (container/heap calls these): Swap leaves each of the two entries knowing its new position, Push records the position it appends at and appends, Pop marks the entry as off the heap and shortens the heap by one; Less orders by Expiry")
	pm := func(n string) string { return "(*" + paT + ")." + n }
	heapK := paT + ".expiringHeap"
	idxK := memP + ".expiringAddr.heapIndex"
	isHeap := func(v ssa.Value) bool { return isLoadOfField(heapK)(strip2(v)) }
	// the position stored into entry heap[k].heapIndex
	idxStores := func(f *ssa.Function) map[ssa.Value]ssa.Value {
		out := map[ssa.Value]ssa.Value{}
		allInstrs(f, func(in ssa.Instruction) {
			st, ok := in.(*ssa.Store)
			if !ok || !isFieldWrite(in, idxK) {
				return
			}
			_, base := fieldAddrOf(st.Addr)
			ld, isLd := resolveLoad(strip2(base)).(*ssa.UnOp)
			if !isLd || ld.Op != token.MUL {
				out[resolveLoad(strip2(base))] = st.Val
				return
			}
			if ia, isIA := ld.X.(*ssa.IndexAddr); isIA && isHeap(ia.X) {
				out[resolveLoad(strip2(ia.Index))] = st.Val
			} else {
				out[ld] = st.Val
			}
		})
		return out
	}
	if f := r9.need(pm("Swap")); f != nil && len(f.Params) == 3 {
		st := idxStores(f)
		okS := true
		for _, p := range f.Params[1:] {
			v, has := st[ssa.Value(p)]
			if !has || resolveLoad(strip2(v)) != ssa.Value(p) {
				okS = false
			}
		}
		r9.Check(okS, pm("Swap")+": heap[i].heapIndex = i and heap[j].heapIndex = j after the exchange", f.Pos(), 2, "", "an entry believes it sits where the other one is: heap.Fix / heap.Remove then move or drop the wrong address", "")
	}
	if f := r9.need(pm("Push")); f != nil {
		apps := findInstrs(f, func(in ssa.Instruction) bool {
			st, ok := in.(*ssa.Store)
			if !ok || !isFieldWrite(in, heapK) {
				return false
			}
			call, isC := resolveLoad(strip2(st.Val)).(*ssa.Call)
			return isC && calleeKey(call) == "builtin.append" && isHeap(call.Call.Args[0])
		})
		r9.mustPass(f, pm("Push")+": the entry is appended to the heap", &Cut{Fn: f, Target: isRetInstr, Sep: inSet(apps)}, len(apps))
		okI := false
		for _, v := range idxStores(f) {
			if ci := isResultOfCall(resolveLoad(strip2(v)), 0, "builtin.len"); ci != nil && isHeap(ci.Common().Args[0]) {
				okI = true
			}
		}
		r9.Check(okI, pm("Push")+": the entry records len(heap), the position it is appended at", f.Pos(), 1, "", "the entry looks as if it were not on the heap (or at another position)", "")
	}
	if f := r9.need(pm("Pop")); f != nil {
		shr := findInstrs(f, func(in ssa.Instruction) bool {
			st, ok := in.(*ssa.Store)
			if !ok || !isFieldWrite(in, heapK) {
				return false
			}
			sl, isS := resolveLoad(strip2(st.Val)).(*ssa.Slice)
			if !isS || sl.High == nil || !isHeap(sl.X) {
				return false
			}
			bo, isB := resolveLoad(strip2(sl.High)).(*ssa.BinOp)
			if !isB || bo.Op != token.SUB {
				return false
			}
			k, isK := constInt(bo.Y)
			return isK && k == 1
		})
		r9.mustPass(f, pm("Pop")+": the heap is one entry shorter", &Cut{Fn: f, Target: isRetInstr, Sep: inSet(shr)}, len(shr))
		okM := false
		for _, v := range idxStores(f) {
			if k, isK := constInt(v); isK && k == -1 {
				okM = true
			}
		}
		r9.Check(okM, pm("Pop")+": the popped entry is marked as off the heap (-1)", f.Pos(), 1, "", "a later update of the address calls heap.Fix with a stale position", "")
	}
	if f := r9.need(pm("Less")); f != nil && len(f.Params) == 3 {
		okL := false
		for _, call := range callsIn(f, "(time.Time).Before") {
			elem := func(v ssa.Value) ssa.Value {
				fl, base := loadOfField(resolveLoad(strip2(v)))
				if fl == nil || fl.Name() != "Expiry" {
					return nil
				}
				ld, isLd := resolveLoad(strip2(base)).(*ssa.UnOp)
				if !isLd {
					return nil
				}
				ia, isIA := ld.X.(*ssa.IndexAddr)
				if !isIA || !isHeap(ia.X) {
					return nil
				}
				return resolveLoad(strip2(ia.Index))
			}
			a := call.Common().Args
			if elem(a[0]) == ssa.Value(f.Params[1]) && elem(a[1]) == ssa.Value(f.Params[2]) {
				okL = true
			}
		}
		if len(callsIn(f, "(time.Time).Before")) == 0 {
			r9.OK(pm("Less")+": heap[i].Expiry before heap[j].Expiry", f.Pos(), 1, "not decided: no time.Before comparison")
		} else {
			r9.Check(okL, pm("Less")+": heap[i].Expiry before heap[j].Expiry", f.Pos(), 1, "", "the heap's root is not the entry that expires first: gc stops at a live entry and leaves expired ones", "")
		}
	}

	// ---- R10 --------------------------------------------------------------
	r10 := r.Rule("C09-R10", "E7b/E1", 6, "lifetimes of an existing entry: adding (extend mode / pstoremem addAddrs) writes Ttl and Expiry only when the new value is greater; setting (override mode) writes both unconditionally")
	entryT := dsP + "/pb.AddrBookRecord_AddrEntry"
	if f := r10.need("(*" + dsP + ".dsAddrBook).setAddrs"); f != nil {
		fns := append([]*ssa.Function{f}, allAnon(f)...)
		override, extend := constIntObj(c, dsP, "ttlOverride"), constIntObj(c, dsP, "ttlExtend")
		isMode := func(v ssa.Value) bool {
			v = resolveLoad(strip2(v))
			p, ok := v.(*ssa.Parameter)
			if ok {
				return p.Parent() == f && strings.Contains(p.Type().String(), "ttlWriteMode")
			}
			fv, isFV := v.(*ssa.FreeVar)
			return isFV && strings.Contains(fv.Type().String(), "ttlWriteMode")
		}
		modeIs := func(k int64) EdgePred {
			return eqEdge(isMode, func(v ssa.Value) bool { kv, ok := constInt(v); return ok && kv == k }, true)
		}
		nSt := 0
		for _, g := range fns {
			for _, fld := range []string{"Ttl", "Expiry"} {
				sts := findInstrsIn(g, func(in ssa.Instruction) bool {
					_, ok := in.(*ssa.Store)
					return ok && isFieldWrite(in, entryT+"."+fld)
				})
				if len(sts) == 0 {
					continue
				}
				isOld := func(v ssa.Value) bool { return isLoadOfField(entryT + "." + fld)(strip2(v)) }
				var moded []ssa.Instruction
				for _, st := range sts {
					val := st.(*ssa.Store).Val
					isNew := func(v ssa.Value) bool { return resolveLoad(strip2(v)) == resolveLoad(strip2(val)) && !isOld(v) }
					// reachable in extend mode only when the new value is greater
					wE, _ := (&Cut{Fn: g, Target: isInstr(st), EdgeCut: anyEdge(modeIs(override), edgeExcl(isNew, isOld, ordLT, ordEQ))}).Run(c)
					// (a store that no mode test separates is outside this rule: the fresh entry's literal, the eviction)
					wAny, _ := (&Cut{Fn: g, Target: isInstr(st), EdgeCut: anyEdge(modeIs(override), modeIs(extend))}).Run(c)
					if wAny != "" {
						continue
					}
					nSt++
					moded = append(moded, st)
					if mx, isMax := resolveLoad(strip2(val)).(*ssa.Call); isMax && calleeKey(mx) == "builtin.max" {
						keepsOld := false
						for _, a := range mx.Call.Args {
							if isOld(a) {
								keepsOld = true
							}
						}
						if keepsOld {
							r10.OK("pstoreds setAddrs: in extend mode "+fld+" is written only when the new value is greater", instrPos(st), 1, "max(old, new)")
							continue
						}
					}
					r10.Check(wE == "", "pstoreds setAddrs: in extend mode "+fld+" is written only when the new value is greater", instrPos(st), 1, "", "AddAddrs shortens the lifetime of an address that is already known", wE)
				}
				// override mode: from its edge every path to the closure's return passes a store
				var from []CFGEdge
				for _, b := range blocksDeep(g) {
					for si := range b.Succs {
						if modeIs(override)(b, si) {
							from = append(from, CFGEdge{b, si})
						}
					}
				}
				if len(from) > 0 && len(moded) > 0 {
					w, n := (&Cut{Fn: g, FromEdges: from, Target: isRetInstr, Sep: inSet(moded)}).Run(c)
					r10.Check(w == "", "pstoreds setAddrs: in override mode "+fld+" is written", g.Pos(), n+1, "", "SetAddrs leaves the old lifetime of an address in place", w)
				}
			}
		}
		if nSt == 0 {
			r10.OK("pstoreds setAddrs: lifetime writes by mode", f.Pos(), 1, "not decided: no Ttl/Expiry store behind a test of the write mode recognised")
		}
	}
	if f := r10.need(mab("addAddrsUnlocked")); f != nil {
		for _, q := range []struct {
			fld    string
			isCmp  func(v ssa.Value) bool
			newArg int
		}{{"TTL", nil, 0}, {"Expiry", nil, 0}} {
			sts := findInstrs(f, func(in ssa.Instruction) bool {
				st, ok := in.(*ssa.Store)
				if !ok || !isFieldWrite(in, eaT+"."+q.fld) {
					return false
				}
				// (only updates of an entry that was found: the literal of a fresh entry has no old value)
				_, base := fieldAddrOf(st.Addr)
				_, isAlloc := resolveLoad(strip2(base)).(*ssa.Alloc)
				return !isAlloc
			})
			isOld := func(v ssa.Value) bool { return isLoadOfField(eaT + "." + q.fld)(strip2(v)) }
			for _, st := range sts {
				val := st.(*ssa.Store).Val
				isNew := func(v ssa.Value) bool { return resolveLoad(strip2(v)) == resolveLoad(strip2(val)) && !isOld(v) }
				greater := anyEdge(edgeExcl(isNew, isOld, ordLT, ordEQ), edgeBool(func(v ssa.Value) bool {
					ci := isResultOfCall(v, 0, "(time.Time).After")
					return ci != nil && isNew(ci.Common().Args[0]) && isOld(ci.Common().Args[1])
				}, true))
				w, _ := (&Cut{Fn: f, Target: isInstr(st), EdgeCut: greater}).Run(c)
				r10.Check(w == "", "pstoremem addAddrs: "+q.fld+" of a known address is written only when the new value is greater", instrPos(st), 1, "", "AddAddrs shortens the lifetime of an address that is already known", w)
			}
			if len(sts) == 0 {
				r10.OK("pstoremem addAddrs: "+q.fld+" of a known address is written only when the new value is greater", f.Pos(), 1, "not decided: no update of a found entry's "+q.fld+" recognised")
			}
		}
	}
}

// swapDeleteSkips finds stores s[i] = s[j] inside an index range loop over s
// (i the loop index) after which the loop header is reachable without i being
// re-examined.
func swapDeleteSkips(c *Ctx, f *ssa.Function) []ssa.Instruction {
	var out []ssa.Instruction
	allInstrs(f, func(in ssa.Instruction) {
		st, ok := in.(*ssa.Store)
		if !ok {
			return
		}
		ia, ok := st.Addr.(*ssa.IndexAddr)
		if !ok {
			return
		}
		// index is the range index of a loop (phi+1 with Comment rangeindex)
		b, ok := ia.Index.(*ssa.BinOp)
		if !ok || b.Op != token.ADD {
			return
		}
		idx, ok := b.X.(*ssa.Phi)
		if !ok || idx.Comment != "rangeindex" {
			return
		}
		// value loaded from another element of the same slice
		ld, ok := st.Val.(*ssa.UnOp)
		if !ok || ld.Op != token.MUL {
			return
		}
		ia2, ok := ld.X.(*ssa.IndexAddr)
		if !ok || strip2(ia2.X) != strip2(ia.X) || ia2.Index == ia.Index {
			return
		}
		// after the store the loop header is reachable (the loop continues to the next index)
		header := idx.Block()
		w, _ := (&Cut{Fn: f, From: []ssa.Instruction{in}, Target: func(x ssa.Instruction) bool { return x == ssa.Instruction(idx) }}).Run(c)
		if w != "" && strings.Contains(header.Comment, "rangeindex") {
			out = append(out, in)
		}
	})
	return out
}

func blockReaches(from, to *ssa.BasicBlock) bool {
	seen := map[*ssa.BasicBlock]bool{}
	var walk func(b *ssa.BasicBlock) bool
	walk = func(b *ssa.BasicBlock) bool {
		if b == to {
			return true
		}
		if seen[b] {
			return false
		}
		seen[b] = true
		for _, s := range b.Succs {
			if walk(s) {
				return true
			}
		}
		return false
	}
	return walk(from)
}
