package main

import (
	"fmt"
	"go/token"
	"go/types"
	"sort"
	"strings"

	"golang.org/x/tools/go/ssa"
)

func init() {
	register("C10", checkC10,
		"Decides structurally: (R1) at every gate site of every transport, the swarm and the upgrader, each success sink (returning / enqueueing / dialling) is reachable only past the allow edge of the gate (or a nil gater) and the reject edge closes what was opened; "+
			"(R2) every Transport implementer is classified as upgrader-based or self-gated with its own Accept/Secured sites; (R3) the only route from the swarm to a transport dial passes the peer and address gates; "+
			"(R4) each Block*/Unblock* returns success only past a successful datastore write (when a datastore is configured) and the in-memory update under the write lock; "+
			"(R5) datastore keys identify the whole rule, Put/Delete/Query prefixes and codecs agree per rule kind and the loader fills the matching map; (R6) the maps are touched only under the gater's lock; (R7) the gater's own decisions.",
		"textual address forms and IP normalisation (value-level), behaviour at datastore crash points, connections admitted before a block")
}

const cgP = "p2p/net/conngater"

func isGaterValue(v ssa.Value) bool {
	t := v.Type()
	return strings.HasSuffix(types.TypeString(t, nil), "core/connmgr.ConnectionGater")
}

// methodNamed: the call's resolved callee is a method / function with one of these names.
func calleeNameIs(in ssa.Instruction, names ...string) bool {
	ci, ok := in.(ssa.CallInstruction)
	if !ok {
		return false
	}
	k := calleeKey(ci)
	i := strings.LastIndex(k, ".")
	if i < 0 {
		return false
	}
	n := k[i+1:]
	for _, w := range names {
		if n == w {
			return true
		}
	}
	return false
}

type gateSite struct {
	fn    string // function key (closures: parent key + "$" + substring match handled by finder)
	gate  string // method name
	sinks func(c *Ctx, f *ssa.Function) []ssa.Instruction
	sinkD string
	// closeOnReject: "call" = a Close*/closeWithError call on every path from the reject edge;
	// "defer" = error-path cleanup is a deferred closure (tabled); "none" = nothing opened yet
	closeOnReject string
	why           string
}

func sinkSuccessReturn(c *Ctx, f *ssa.Function) []ssa.Instruction { return successReturns(f) }

func sinkTrueReturn(c *Ctx, f *ssa.Function) []ssa.Instruction {
	var out []ssa.Instruction
	for _, r := range returnsOf(f) {
		if b, ok := constBool(retVal(r, 0)); !ok || b {
			out = append(out, r)
		}
	}
	return out
}

// sinkKeepAddr: "the address is kept": in a filter closure the non-false returns; in a loop over the
// addresses the appends to a []Multiaddr that is (part of) what the function returns.
func sinkKeepAddr(c *Ctx, f *ssa.Function) []ssa.Instruction {
	if f.Signature.Results().Len() == 1 {
		if b, ok := f.Signature.Results().At(0).Type().Underlying().(*types.Basic); ok && b.Kind() == types.Bool {
			return sinkTrueReturn(c, f)
		}
	}
	return findInstrs(f, func(in ssa.Instruction) bool {
		call, ok := in.(*ssa.Call)
		if !ok || calleeKey(call) != "builtin.append" || !strings.HasSuffix(call.Type().String(), "go-multiaddr.Multiaddr") {
			return false
		}
		// appended element is an element of the input list (not an error record)
		return true
	})
}

func sinkCalls(keys ...string) func(c *Ctx, f *ssa.Function) []ssa.Instruction {
	return func(c *Ctx, f *ssa.Function) []ssa.Instruction { return findInstrs(f, callPred(keys...)) }
}

func sinkSends(c *Ctx, f *ssa.Function) []ssa.Instruction {
	return findInstrs(f, func(in ssa.Instruction) bool {
		switch x := in.(type) {
		case *ssa.Send:
			return true
		case *ssa.Select:
			for _, st := range x.States {
				if st.Dir == types.SendOnly {
					return true
				}
			}
		}
		return false
	})
}

func sinkUnion(fs ...func(c *Ctx, f *ssa.Function) []ssa.Instruction) func(c *Ctx, f *ssa.Function) []ssa.Instruction {
	return func(c *Ctx, f *ssa.Function) []ssa.Instruction {
		var out []ssa.Instruction
		for _, g := range fs {
			out = append(out, g(c, f)...)
		}
		return out
	}
}

func checkC10(c *Ctx, r *Report) {
	gaterIface := "(core/connmgr.ConnectionGater)."
	wtP, wrP, upP := "p2p/transport/webtransport", "p2p/transport/webrtc", "p2p/net/upgrader"

	// ---- R1 ---------------------------------------------------------------
	r1 := r.Rule("C10-R1", "E1/E5", 30, "gate inventory: every success sink only past the gate's allow edge (or nil gater); reject edge closes")
	sites := []gateSite{
		{"(*" + upP + ".gatedMaListener).Accept", "InterceptAccept", sinkSuccessReturn, "return conn", "call", ""},
		{"(*" + upP + ".upgrader).upgrade", "InterceptSecured", sinkSuccessReturn, "return conn", "call", ""},
		{"(*" + swarmP + ".Swarm).addConn", "InterceptUpgraded", sinkSuccessReturn, "return conn", "call", ""},
		{"(*" + swarmP + ".Swarm).dialPeer", "InterceptPeerDial", sinkCalls("(*" + swarmP + ".dialSync).Dial"), "dsync.Dial", "none", "nothing is open before the dial"},
		{"(*" + swarmP + ".Swarm).filterKnownUndialables$", "InterceptAddrDial", sinkKeepAddr, "keep address", "none", "address filter"},
		{"(*" + wtP + ".listener).httpHandler", "InterceptAccept", sinkCalls("(*"+wtP+".listener).httpHandlerWithConnScope", "(core/network.*).OpenConnection"), "proceed to upgrade", "none", "HTTP request is refused with 403; no session exists yet"},
		{"(*" + wtP + ".listener).httpHandlerWithConnScope", "InterceptSecured", sinkUnion(sinkSuccessReturn, sinkSends), "enqueue conn", "call", ""},
		{"(*" + wtP + ".transport).dialWithScope", "InterceptSecured", sinkSuccessReturn, "return conn", "call", ""},
		{"(*" + quicP + ".listener).Accept", "InterceptAccept", sinkUnion(sinkSuccessReturn, sinkSends), "return / hand over conn", "call", ""},
		{"(*" + quicP + ".listener).Accept", "InterceptSecured", sinkUnion(sinkSuccessReturn, sinkSends), "return / hand over conn", "call", ""},
		{"(*" + quicP + ".transport).dialWithScope", "InterceptSecured", sinkUnion(sinkSuccessReturn, sinkCalls("(*"+quicP+".transport).addConn")), "return conn", "call", ""},
		{"(*" + wrP + ".listener).handleCandidate", "InterceptAccept", sinkUnion(sinkSuccessReturn, sinkCalls("(core/network.*).OpenConnection", "(*"+wrP+".listener).setupConnection")), "set up conn", "none", "nothing is open before the accept gate"},
		{"(*" + wrP + ".listener).handleCandidate", "InterceptSecured", sinkSuccessReturn, "return conn", "call", ""},
		{"(*" + wrP + ".WebRTCTransport).dial", "InterceptSecured", sinkSuccessReturn, "return conn", "defer", "the deferred block closes the peer connection on every error return"},
	}
	covered := map[ssa.Instruction]bool{}
	for _, s := range sites {
		var f *ssa.Function
		if strings.HasSuffix(s.fn, "$") {
			// the function itself or the closure of it that contains the gate call
			if p := c.Fn(strings.TrimSuffix(s.fn, "$")); p != nil {
				if len(callsIn(p, gaterIface+s.gate)) > 0 {
					f = p
				}
				for _, a := range allAnon(p) {
					// (a local predicate that is only ever called on the spot belongs to the closure calling it)
					if len(callsIn(a, gaterIface+s.gate)) > 0 && !plainCalledOnly(a) {
						f = a
					}
				}
			}
		} else {
			f = c.Fn(s.fn)
		}
		if f == nil {
			r1.Err(s.fn+": "+s.gate, "gate site function does not resolve")
			continue
		}
		gates := callsIn(f, gaterIface+s.gate)
		name := fmt.Sprintf("%s: %s", fnKey(f), s.gate)
		if len(gates) == 0 {
			r1.Fail(name+" present", f.Pos(), "the "+s.gate+" gate was removed from this site", "")
			continue
		}
		for _, g := range gates {
			covered[g.(ssa.Instruction)] = true
		}
		r1.OK(name+" present", instrPos(gates[0].(ssa.Instruction)), 1, "")
		allow := func(v ssa.Value) bool {
			ci, idx := resultOf(v)
			if ci == nil || idx != 0 {
				return false
			}
			for _, g := range gates {
				if ci == g {
					return true
				}
			}
			return false
		}
		fav := anyEdge(edgeNil(isGaterValue, true), edgeBool(allow, true))
		sinks := s.sinks(c, f)
		r1.guard(f, s.sinkD, sinks, s.gate+" allow (or no gater)", fav, nil)
		// a rejection: from each evaluation of the gate, whatever is reached without passing its allow edge.
		// (stated from the call, not from a branch on its result: the answer may be stored in a variable first)
		gset := map[ssa.Instruction]bool{}
		var gateInstrs []ssa.Instruction
		for _, g := range gates {
			gset[g.(ssa.Instruction)] = true
			gateInstrs = append(gateInstrs, g.(ssa.Instruction))
		}
		nextEval := func(in ssa.Instruction) bool {
			if gset[in] {
				return true
			}
			// the next evaluation of the gate starts by loading the gater field
			u, ok := in.(*ssa.UnOp)
			return ok && u.Op == token.MUL && isGaterValue(u)
		}
		allowEdge := edgeBool(allow, true)
		// some branch must depend on the answer
		nAllow := 0
		used := false
		for _, g := range gates {
			if v := g.Value(); v != nil && v.Referrers() != nil {
				for _, ref := range *v.Referrers() {
					if _, dbg := ref.(*ssa.DebugRef); !dbg {
						used = true
					}
				}
			}
		}
		for _, b := range blocksDeep(f) {
			for i := range b.Succs {
				if allowEdge(b, i) {
					nAllow++
				}
			}
		}
		if !used {
			r1.Fail(name+": reject edge", f.Pos(), "no branch on the gate's answer", "")
			continue
		}
		q := &Cut{Fn: f, From: gateInstrs, StopAtFrom: true, Target: inSet(sinks), EdgeCut: allowEdge, Sep: nextEval}
		r1.mustPass(f, name+": reject edge reaches no success sink before the next gate evaluation", q, len(gateInstrs))
		switch s.closeOnReject {
		case "call":
			q := &Cut{Fn: f, From: gateInstrs, StopAtFrom: true, EdgeCut: allowEdge, Sep: func(in ssa.Instruction) bool {
				return releasesLike(in, "Close", "CloseWithError", "closeWithError")
			}, Target: func(in ssa.Instruction) bool {
				if nextEval(in) {
					return true // next loop iteration
				}
				_, isRet := in.(*ssa.Return)
				return isRet
			}}
			r1.mustPass(f, name+": reject edge closes the connection", q, len(gateInstrs))
		case "defer":
			ok := false
			for _, d := range findInstrs(f, func(in ssa.Instruction) bool { _, ok := in.(*ssa.Defer); return ok }) {
				if df := d.(*ssa.Defer).Call.StaticCallee(); df != nil && len(findInstrs(df, func(in ssa.Instruction) bool { return calleeNameIs(in, "Close") })) > 0 {
					// registered before the gate
					w, _ := (&Cut{Fn: f, Target: inSet([]ssa.Instruction{gates[0].(ssa.Instruction)}), Sep: isInstr(d)}).Run(c)
					ok = ok || w == ""
				}
			}
			r1.Check(ok, name+": reject edge closes the connection (deferred cleanup)", f.Pos(), 1, s.why, "the deferred cleanup that closes the connection on error is missing", "")
		default:
			r1.OK(name+": nothing to close on reject", f.Pos(), 1, s.why)
		}
	}
	// every gate call in the module is in the table (a new site must be classified)
	for _, f := range c.Fns {
		if f.Pkg == nil || strings.Contains(f.Pkg.Pkg.Path(), "/mock") || strings.HasSuffix(f.Pkg.Pkg.Path(), controlsPkg) {
			continue
		}
		for _, m := range []string{"InterceptPeerDial", "InterceptAddrDial", "InterceptAccept", "InterceptSecured", "InterceptUpgraded"} {
			for _, g := range callsInOnly(f, gaterIface+m) {
				if !covered[g.(ssa.Instruction)] {
					r1.Fail(fnKey(f)+": unclassified "+m+" site", instrPos(g.(ssa.Instruction)), "gate call site not in the inventory table; add it with its sinks", "")
				}
			}
		}
	}

	// ---- R2 ---------------------------------------------------------------
	r2 := r.Rule("C10-R2", "E5", 6, "every transport.Transport implementer is classified: upgrader-based (reaches Upgrade / UpgradeGatedMaListener) or self-gated")
	classes := map[string]string{
		"p2p/transport/tcp.TcpTransport":             "upgrader",
		"p2p/transport/websocket.WebsocketTransport": "upgrader",
		quicP + ".transport":                         "self-gated",
		wtP + ".transport":                           "self-gated",
		wrP + ".WebRTCTransport":                     "self-gated",
		"p2p/protocol/circuitv2/client.Client":       "upgrader",
	}
	if ti := c.Named("core/transport", "Transport"); ti == nil {
		r2.Err("core/transport.Transport", "interface does not resolve")
	} else {
		var names []string
		for _, n := range implementers(c, ti.Underlying().(*types.Interface)) {
			names = append(names, namedKey(n))
		}
		sort.Strings(names)
		for _, k := range names {
			if strings.Contains(k, "mock") || strings.HasPrefix(k, controlsPkg) {
				continue
			}
			cl, ok := classes[k]
			if !ok {
				r2.Fail("Transport implementer "+k, token.NoPos, "unclassified transport: its gating is not covered by any rule", "")
				continue
			}
			pkg := k[:strings.LastIndex(k, ".")]
			fns := c.FnsOfPkg(pkg)
			switch cl {
			case "upgrader":
				nUp, nLis := 0, 0
				for _, f := range fns {
					nUp += len(callsIn(f, "(core/transport.Upgrader).Upgrade"))
					nLis += len(callsIn(f, "(core/transport.Upgrader).UpgradeGatedMaListener", "(core/transport.Upgrader).UpgradeListener"))
				}
				r2.Check(nUp >= 1 && (nLis >= 1 || k == "p2p/protocol/circuitv2/client.Client"), "Transport implementer "+k+" (upgrader-based)", token.NoPos, nUp+nLis, "",
					"transport no longer routes its connections through the upgrader (where they are gated)", fmt.Sprintf("Upgrade calls=%d listener upgrades=%d", nUp, nLis))
			case "self-gated":
				nA, nS := 0, 0
				for _, f := range fns {
					nA += len(callsIn(f, gaterIface+"InterceptAccept"))
					nS += len(callsIn(f, gaterIface+"InterceptSecured"))
				}
				r2.Check(nA >= 1 && nS >= 2, "Transport implementer "+k+" (self-gated)", token.NoPos, nA+nS, "",
					"self-gated transport must have an accept gate and secured gates for both directions", fmt.Sprintf("InterceptAccept=%d InterceptSecured=%d", nA, nS))
			}
		}
	}
	// circuit client listener: relayed inbound conns go through Upgrade as well
	// (checked above: nUp >= 1)

	// ---- R3 ---------------------------------------------------------------
	r3 := r.Rule("C10-R3", "E3/E1", 5, "outbound: transport Dial only in dialAddr; dialAddr only via the limiter; every dialled address list passed filterKnownUndialables")
	r3.onlyCallers("call Transport.Dial/DialWithUpdates", []string{"(core/transport.*).Dial", "(core/transport.*).DialWithUpdates"}, c.FnsOfPkg(swarmP), "(*"+swarmP+".Swarm).dialAddr")
	// dialAddr is referenced only as newDialLimiter's argument
	daK := "(*" + swarmP + ".Swarm).dialAddr"
	if da := r3.need(daK); da != nil {
		n := 0
		for _, f := range c.Fns {
			allInstrsIn(f, func(in ssa.Instruction) {
				if mc, ok := in.(*ssa.MakeClosure); ok {
					if fn, ok := mc.Fn.(*ssa.Function); ok && fn.Synthetic != "" && fn.Object() == da.Object() {
						// bound method value s.dialAddr: every (transitive, through conversions) use
						for _, u := range finalUses(mc) {
							n++
							call, isCall := u.(*ssa.Call)
							r3.Check(isCall && calleeKey(call) == swarmP+".newDialLimiter", fnKey(f)+": s.dialAddr used as value", instrPos(u), 1, "", "dialAddr escapes to somewhere other than the dial limiter", "")
						}
					}
				}
				if ci, ok := in.(ssa.CallInstruction); ok && ci.Common().StaticCallee() == da {
					n++
					r3.Fail(fnKey(f)+": direct call of dialAddr", instrPos(in), "dialAddr must only run under the dial limiter", "")
				}
			})
		}
		if n == 0 {
			r3.Fail(daK+": references", da.Pos(), "no reference found (expected newDialLimiter(s.dialAddr))", "")
		}
	}
	if ad := r3.need("(*" + swarmP + ".Swarm).addrsForDial"); ad != nil {
		// every non-nil goodAddrs return derives from filterKnownUndialables
		fk := "(*" + swarmP + ".Swarm).filterKnownUndialables"
		for _, ret := range returnsOf(ad) {
			v := retVal(ret, 0)
			if isNilConst(v) {
				continue
			}
			r3.Check(derivesFrom(v, isCallResult(0, fk), "github.com/multiformats/go-multiaddr.FilterAddrs"), "addrsForDial: returned addresses passed filterKnownUndialables", instrPos(ret), 1, "", "dial candidates bypass the address gate", "")
		}
	}
	r3.onlyCallers("call addrsForDial", []string{"(*" + swarmP + ".Swarm).addrsForDial"}, c.FnsOfPkg(swarmP), "(*"+swarmP+".dialWorker).addNewRequest", "(*"+swarmP+".dialWorker).loop")

	// ---- R4 ---------------------------------------------------------------
	r4 := r.Rule("C10-R4", "E1", 18, "Block*/Unblock*: success only past ds==nil or a successful Put/Delete, and past the in-memory update under the write lock")
	gT := cgP + ".BasicConnectionGater"
	type op struct{ fn, mapF, dsOp string }
	ops := []op{
		{"BlockPeer", "blockedPeers", "Put"}, {"UnblockPeer", "blockedPeers", "Delete"},
		{"BlockAddr", "blockedAddrs", "Put"}, {"UnblockAddr", "blockedAddrs", "Delete"},
		{"BlockSubnet", "blockedSubnets", "Put"}, {"UnblockSubnet", "blockedSubnets", "Delete"},
	}
	for _, o := range ops {
		f := r4.need("(*" + gT + ")." + o.fn)
		if f == nil {
			continue
		}
		rets := successReturns(f)
		dsK := "(github.com/ipfs/go-datastore.Write)." + o.dsOp
		dsNil := edgeNil(isLoadOfField(gT+".ds"), true)
		dsOK := edgeNil(isCallResult(0, dsK), true)
		r4.guard(f, "return nil", rets, "ds==nil || ds."+o.dsOp+"()==nil", anyEdge(dsNil, dsOK), nil)
		upd := findInstrs(f, fieldWritePred(gT+"."+o.mapF))
		for _, ret := range rets {
			w, n := (&Cut{Fn: f, Target: isInstr(ret), EdgeCut: failCut(ret), Sep: inSet(upd)}).Run(c)
			r4.Check(w == "" && len(upd) > 0, "(*"+gT+")."+o.fn+": success passes the in-memory update", instrPos(ret), n+1, "", "success returned although the rule was not applied in memory", w)
		}
		// when a datastore is configured the write is attempted (non-nil edge reaches the ds call before anything else)
		var nonNil []CFGEdge
		for _, b := range blocksDeep(f) {
			for i := range b.Succs {
				if edgeNil(isLoadOfField(gT+".ds"), false)(b, i) {
					nonNil = append(nonNil, CFGEdge{b, i})
				}
			}
		}
		// the in-memory update comes after the datastore has accepted the change: it is reached only past
		// ds == nil or a successful Put / Delete (a failed write must leave the running gater as it was: a failed
		// unblock that already dropped the rule un-enforces a block that is still persisted)
		r4.guard(f, "in-memory update of "+o.mapF, upd, "ds==nil || ds."+o.dsOp+"()==nil", anyEdge(dsNil, dsOK), nil)
		if len(nonNil) == 0 {
			r4.Fail("(*"+gT+")."+o.fn+": ds != nil branch", f.Pos(), "not found", "")
		} else {
			q := &Cut{Fn: f, FromEdges: nonNil, Target: inSet(rets), Sep: callPred(dsK)}
			r4.mustPass(f, "(*"+gT+")."+o.fn+": with a datastore, success passes ds."+o.dsOp, q, len(nonNil))
		}
	}

	// ---- R5 ---------------------------------------------------------------
	r5 := r.Rule("C10-R5", "E5", 12, "datastore keys: per kind the same prefix constant in Put, Delete and the loader's query; key suffix is String() of the whole rule; codecs pair up; loader fills the matching map")
	kinds := []struct {
		kind, prefix, mapF, block, unblock, param string
	}{
		{"peer", "keyPeer", "blockedPeers", "BlockPeer", "UnblockPeer", "p"},
		{"addr", "keyAddr", "blockedAddrs", "BlockAddr", "UnblockAddr", "ip"},
		{"subnet", "keySubnet", "blockedSubnets", "BlockSubnet", "UnblockSubnet", "ipnet"},
	}
	prefixVals := map[string]string{}
	for _, k := range kinds {
		if o, ok := c.Obj(cgP, k.prefix).(*types.Const); ok {
			prefixVals[k.kind] = constStringVal(o)
		}
	}
	r5.Check(len(prefixVals) == 3 && prefixVals["peer"] != prefixVals["addr"] && prefixVals["addr"] != prefixVals["subnet"] && prefixVals["peer"] != prefixVals["subnet"] &&
		!strings.HasPrefix(prefixVals["peer"], prefixVals["addr"]) && !strings.HasPrefix(prefixVals["addr"], prefixVals["peer"]) &&
		!strings.HasPrefix(prefixVals["subnet"], prefixVals["addr"]) && !strings.HasPrefix(prefixVals["addr"], prefixVals["subnet"]) &&
		!strings.HasPrefix(prefixVals["subnet"], prefixVals["peer"]) && !strings.HasPrefix(prefixVals["peer"], prefixVals["subnet"]),
		"key prefixes are three distinct, prefix-free constants", objPos(c, cgP, "keyPeer"), 3, "", "key prefixes collide", fmt.Sprint(prefixVals))
	// keyShape: NewKey(prefix + X.String()) with X the whole parameter
	keyShape := func(f *ssa.Function, param string) (prefix string, whole bool, suffixCallee string) {
		for _, nk := range callsIn(f, "github.com/ipfs/go-datastore.NewKey") {
			keyArg := strip2(nk.Common().Args[0])
			if p, isP := keyArg.(*ssa.Parameter); isP && p.Parent() != f {
				// built by the caller and handed to a helper extracted since: what f passes for that parameter
				if a := argOfParam(f, p); a != nil {
					keyArg = strip2(a)
				}
			}
			b, ok := keyArg.(*ssa.BinOp)
			if !ok || b.Op != token.ADD {
				continue
			}
			p, _ := constString(b.X)
			prefix = p
			if sc, _ := resultOf(b.Y); sc != nil {
				suffixCallee = calleeKey(sc)
				whole = calleeNameIs(sc.(ssa.Instruction), "String") && isParamVar(c, callArgs(sc)[0], param)
			}
		}
		return
	}
	for _, k := range kinds {
		bf, uf := r5.need("(*"+gT+")."+k.block), r5.need("(*"+gT+")."+k.unblock)
		if bf == nil || uf == nil {
			continue
		}
		bp, bw, bs := keyShape(bf, k.param)
		up, uw, us := keyShape(uf, k.param)
		want := prefixVals[k.kind]
		r5.Check(bp == want && up == want && want != "", k.kind+": Put and Delete use prefix "+k.prefix, bf.Pos(), 2, "", "a rule is written/deleted under another kind's prefix", bp+" / "+up)
		r5.Check(bw && uw && bs == us, k.kind+": key suffix is String() of the whole rule in Put and Delete", bf.Pos(), 2, bs, "the datastore key does not identify the whole rule (distinct rules can collide, or Delete misses the Put key)", bs+" / "+us)
	}
	if lr := r5.need("(*" + gT + ").loadRules"); lr != nil {
		// queries in order with their prefix, and the map each result loop fills
		type qinfo struct {
			prefix string
			in     ssa.Instruction
		}
		var qs []qinfo
		for _, call := range callsIn(lr, "(github.com/ipfs/go-datastore.Read).Query") {
			pfx := "?"
			// the Query struct literal: Prefix field store
			qv := callArgs(call)[2]
			if u, ok := strip2(qv).(*ssa.UnOp); ok {
				if al, ok := u.X.(*ssa.Alloc); ok {
					for _, ref := range *al.Referrers() {
						if fa, ok := ref.(*ssa.FieldAddr); ok {
							if fld, _ := fieldAddrOf(fa); fld != nil && fld.Name() == "Prefix" {
								for _, r2 := range *fa.Referrers() {
									if st, ok := r2.(*ssa.Store); ok {
										if s, ok := constString(st.Val); ok {
											pfx = s
										}
									}
								}
							}
						}
					}
				}
			}
			if call.Parent() != lr && pfx == "?" {
				// the query sits in a local helper that takes the prefix as a parameter: every call of the helper is a
				// query for the prefix it passes
				h := call.Parent()
				var pIdx = -1
				if u, ok := strip2(qv).(*ssa.UnOp); ok {
					if al, ok := u.X.(*ssa.Alloc); ok {
						for _, ref := range *al.Referrers() {
							if fa, ok := ref.(*ssa.FieldAddr); ok {
								if fld, _ := fieldAddrOfRaw(fa); fld != nil && fld.Name() == "Prefix" {
									for _, r2 := range *fa.Referrers() {
										if st, ok := r2.(*ssa.Store); ok {
											v := st.Val
											for i, hp := range h.Params {
												if v == ssa.Value(hp) || isParamCellLoad(c, v, hp) {
													pIdx = i
												}
											}
										}
									}
								}
							}
						}
					}
				}
				if pIdx >= 0 {
					for _, site := range findInstrsIn(lr, func(in ssa.Instruction) bool {
						cl, ok := in.(*ssa.Call)
						if !ok {
							return false
						}
						for _, t := range walkTargets(cl) {
							if t == h {
								return true
							}
						}
						return false
					}) {
						p2 := "?"
						if s, ok := constString(site.(*ssa.Call).Call.Args[pIdx]); ok {
							p2 = s
						}
						qs = append(qs, qinfo{p2, site})
					}
					continue
				}
			}
			qs = append(qs, qinfo{pfx, call.(ssa.Instruction)})
		}
		sort.Slice(qs, func(i, j int) bool { return instrPos(qs[i].in) < instrPos(qs[j].in) })
		r5.Check(len(qs) == 3, "loadRules: three queries", lr.Pos(), len(qs), "", "the loader no longer queries all three rule kinds", "")
		for i, q := range qs {
			// map updates reachable from this query before the next query
			var next ssa.Instruction
			if i+1 < len(qs) {
				next = qs[i+1].in
			}
			filled := map[string]bool{}
			for _, k := range kinds {
				k := k
				w, _ := (&Cut{Fn: lr, From: []ssa.Instruction{q.in}, Target: fieldWritePred(gT + "." + k.mapF), Sep: func(in ssa.Instruction) bool { return next != nil && in == next }}).Run(c)
				if w != "" {
					filled[k.kind] = true
				}
			}
			kind := ""
			for _, k := range kinds {
				if prefixVals[k.kind] == q.prefix {
					kind = k.kind
				}
			}
			r5.Check(kind != "" && len(filled) == 1 && filled[kind], "loadRules: query "+q.prefix+" fills the matching map", instrPos(q.in), 1, "", "rules of one kind are loaded into another kind's map (or none)", fmt.Sprint(filled))
		}
		// codecs
		codec := func(f *ssa.Function, key string) bool { return f != nil && len(callsIn(f, key)) > 0 }
		r5.Check(codec(lr, "net.ParseCIDR"), "loadRules: subnet value decoded with net.ParseCIDR", lr.Pos(), 1, "", "", "")
		if bs := c.Fn("(*" + gT + ").BlockSubnet"); bs != nil {
			// value written is []byte(ipnet.String())
			ok := false
			for _, p := range callsIn(bs, "(github.com/ipfs/go-datastore.Write).Put") {
				ok = derivesFrom(callArgs(p)[3], isCallResult(0, "(*net.IPNet).String"))
			}
			r5.Check(ok, "BlockSubnet: value = []byte(ipnet.String()) (pairs with ParseCIDR)", bs.Pos(), 1, "", "", "")
		}
		if bp := c.Fn("(*" + gT + ").BlockPeer"); bp != nil {
			ok := false
			for _, p := range callsIn(bp, "(github.com/ipfs/go-datastore.Write).Put") {
				ok = derivesFrom(callArgs(p)[3], func(v ssa.Value) bool { return isParamVar(c, v, "p") })
			}
			r5.Check(ok, "BlockPeer: value = []byte(p) (pairs with peer.ID(v))", bp.Pos(), 1, "", "", "")
		}
		if ba := c.Fn("(*" + gT + ").BlockAddr"); ba != nil {
			ok := false
			for _, p := range callsIn(ba, "(github.com/ipfs/go-datastore.Write).Put") {
				ok = derivesFrom(callArgs(p)[3], func(v ssa.Value) bool { return isParamVar(c, v, "ip") })
			}
			r5.Check(ok, "BlockAddr: value = []byte(ip) (pairs with net.IP(v))", ba.Pos(), 1, "", "", "")
		}
	}
	r5.onlyCallers("call loadRules", []string{"(*" + gT + ").loadRules"}, c.Fns, cgP+".NewBasicConnectionGater")
	// a datastore that is given is used: kept (wrapped) in cg.ds and read back before the gater is handed out
	if f := r5.need(cgP + ".NewBasicConnectionGater"); f != nil && len(f.Params) == 1 {
		dsP := f.Params[0]
		isDS := func(v ssa.Value) bool {
			v = resolveLoad(strip2(v))
			return v == ssa.Value(dsP) || isParamCellLoad(c, v, dsP)
		}
		given := edgeNil(isDS, false)
		var from []CFGEdge
		for _, b := range blocksDeep(f) {
			for si := range b.Succs {
				if given(b, si) {
					from = append(from, CFGEdge{b, si})
				}
			}
		}
		keeps := findInstrs(f, func(in ssa.Instruction) bool {
			st, ok := in.(*ssa.Store)
			if !ok || !isFieldWrite(in, gT+".ds") {
				return false
			}
			if isDS(st.Val) {
				return true
			}
			call, isC := resolveLoad(strip2(st.Val)).(*ssa.Call)
			if !isC {
				if mi, isMI := resolveLoad(strip2(st.Val)).(*ssa.MakeInterface); isMI {
					call, isC = resolveLoad(strip2(mi.X)).(*ssa.Call)
				}
			}
			if !isC {
				return false
			}
			for _, a := range call.Call.Args {
				if isDS(a) {
					return true
				}
			}
			return false
		})
		loads := findInstrs(f, callPred("(*"+gT+").loadRules"))
		okRet := func(in ssa.Instruction) bool {
			ret, ok := in.(*ssa.Return)
			return ok && isNilConst(retVal(ret, 1))
		}
		if len(from) == 0 {
			r5.Fail("NewBasicConnectionGater: a datastore that is given is used", f.Pos(), "no `ds != nil` test found", "")
		} else {
			w, n := (&Cut{Fn: f, FromEdges: from, Target: okRet, Sep: inSet(keeps)}).Run(c)
			r5.Check(w == "" && len(keeps) >= 1, "NewBasicConnectionGater: a datastore that is given is kept in cg.ds", f.Pos(), n+1, "", "blocks are never persisted: after a restart everything is allowed again", w)
			w, n = (&Cut{Fn: f, FromEdges: from, Target: okRet, Sep: inSet(loads)}).Run(c)
			r5.Check(w == "" && len(loads) >= 1, "NewBasicConnectionGater: the persisted rules are loaded before the gater is handed out", f.Pos(), n+1, "", "blocks stored by an earlier run are not enforced", w)
			r5.guard(f, "load the persisted rules", loads, "a datastore was given", given, nil)
		}
	}

	// ---- R6 ---------------------------------------------------------------
	r6 := r.Rule("C10-R6", "E4", 18, "blockedPeers/blockedAddrs/blockedSubnets only under the gater's RWMutex (writes under the write lock)")
	lockRule(c, r6, lockSpec{Pkg: cgP, Type: "BasicConnectionGater", Mutex: "RWMutex",
		Guarded: []string{"blockedPeers", "blockedAddrs", "blockedSubnets"},
		Exempt:  map[string]string{"(*" + gT + ").loadRules": "runs from the constructor only (checked by C10-R5 who-may-call)", cgP + ".NewBasicConnectionGater": "constructor"},
	})

	// ---- R7 ---------------------------------------------------------------
	r7 := r.Rule("C10-R7", "E1", 8, "gater decisions: allow only when not in blockedAddrs and in no blocked subnet (dial and accept); inbound secured checks blockedPeers; peer dial checks blockedPeers")
	lookupOK := func(field string) func(ssa.Value) bool {
		return func(v ssa.Value) bool {
			e, ok := v.(*ssa.Extract)
			if !ok || e.Index != 1 {
				return false
			}
			lk, ok := e.Tuple.(*ssa.Lookup)
			return ok && isLoadOfField(gT+"."+field)(strip2(lk.X))
		}
	}
	// decideByIP: in g, with isIP naming the IP being judged, an allow answer is reachable only when the IP is not in
	// blockedAddrs and after a scan of blockedSubnets none of whose hits can allow. An answer delegated to a module
	// helper (`return cg.allowsIP(ip)`) is decided in the helper with the same IP.
	var decideByIP func(g *ssa.Function, name string, isIP func(ssa.Value) bool, noIP EdgePred, depth int)
	decideByIP = func(g *ssa.Function, name string, isIP func(ssa.Value) bool, noIP EdgePred, depth int) {
		var allowRets []ssa.Instruction
		for _, ret := range returnsOf(g) {
			v := retVal(ret, 0)
			if b, ok := constBool(v); ok && !b {
				continue
			}
			// delegated answer
			if call, isCall := strip2(v).(*ssa.Call); isCall && depth > 0 {
				if h := call.Call.StaticCallee(); h != nil && h.Blocks != nil && h.Pkg != nil && strings.HasPrefix(h.Pkg.Pkg.Path()+"/", Mod) {
					idx := -1
					for i, a := range call.Call.Args {
						if isIP(a) {
							idx = i
						}
					}
					if idx >= 0 && idx < len(h.Params) {
						p := h.Params[idx]
						// the delegation itself happens only with an IP in hand
						w, n := (&Cut{Fn: g, Target: isInstr(ret), EdgeCut: nil}).Run(c)
						_ = w
						r7.OK(name+": answer delegated to "+fnKey(h)+" with the address's IP", instrPos(ret), n+1, "")
						asRoot(h, func() {
							decideByIP(h, name+" → "+fnKey(h), func(v ssa.Value) bool { return v == ssa.Value(p) || isParamCellLoad(c, v, p) }, nil, depth-1)
						})
						continue
					}
				}
			}
			allowRets = append(allowRets, ret)
		}
		if len(allowRets) == 0 {
			return
		}
		r7.guard(g, "return allow", allowRets, "no IP || !blockedAddrs[ip]", anyEdge(noIP, edgeBool(lookupOK("blockedAddrs"), false)), nil)
		var hit []CFGEdge
		for _, b := range blocksDeep(g) {
			for i := range b.Succs {
				if edgeBool(isCallResult(0, "(*net.IPNet).Contains"), true)(b, i) {
					hit = append(hit, CFGEdge{b, i})
				}
			}
		}
		if len(hit) == 0 {
			// constant allows that are reachable only without an IP need no scan
			w, _ := (&Cut{Fn: g, Target: inSet(allowRets), EdgeCut: noIP}).Run(c)
			if w != "" || noIP == nil {
				r7.Fail(name+": subnet Contains test", g.Pos(), "blocked subnets are not consulted", "")
			}
			return
		}
		r7.mustPass(g, name+": a subnet hit never allows", &Cut{Fn: g, FromEdges: hit, Target: inSet(allowRets)}, len(hit))
		ranges := findInstrs(g, func(in ssa.Instruction) bool {
			rg, ok := in.(*ssa.Range)
			if ok && isLoadOfField(gT+".blockedSubnets")(strip2(rg.X)) {
				return true
			}
			// index-range over the slice: the slice is loaded and its length taken
			if call, isCall := in.(*ssa.Call); isCall && calleeKey(call) == "builtin.len" && isLoadOfField(gT+".blockedSubnets")(strip2(call.Call.Args[0])) {
				return true
			}
			return false
		})
		r7.mustPass(g, name+": every allow (with an IP) passed the subnet scan", &Cut{Fn: g, Target: inSet(allowRets), Sep: inSet(ranges), EdgeCut: noIP}, 1)
		for _, call := range callsIn(g, "(*net.IPNet).Contains") {
			r7.Check(isIP(callArgs(call)[1]), name+": Contains(ip of the address)", instrPos(call.(ssa.Instruction)), 1, "", "a different address is matched against the blocked subnets", "")
		}
		// the address-table lookup uses the same IP
		allInstrs(g, func(in ssa.Instruction) {
			if lk, ok := in.(*ssa.Lookup); ok && isLoadOfField(gT+".blockedAddrs")(strip2(lk.X)) {
				ci := isResultOfCall(strip(lk.Index), 0, "(net.IP).String")
				r7.Check(ci != nil && isIP(callArgs(ci)[0]), name+": blockedAddrs[ip.String()] of the address", instrPos(in), 1, "", "", "")
			}
		})
	}
	for _, fnN := range []string{"InterceptAddrDial", "InterceptAccept"} {
		f := r7.need("(*" + gT + ")." + fnN)
		if f == nil {
			continue
		}
		toIPErr := edgeNil(isCallResult(1, "github.com/multiformats/go-multiaddr/net.ToIP"), false)
		isIP := func(v ssa.Value) bool {
			return isResultOfCall(strip(v), 0, "github.com/multiformats/go-multiaddr/net.ToIP") != nil
		}
		decideByIP(f, "(*"+gT+")."+fnN, isIP, toIPErr, 2)
	}
	for _, fnN := range []string{"InterceptSecured", "InterceptPeerDial"} {
		f := r7.need("(*" + gT + ")." + fnN)
		if f == nil {
			continue
		}
		// the answer as a function of "p is in blockedPeers" (and, for InterceptSecured, of the direction), however it
		// is written: `return !block`, an if with constant returns, a named result
		outbound := constIntObj(c, "core/network", "DirOutbound")
		atoms := []atomPred{
			func(v ssa.Value) (bool, bool) { return lookupOK("blockedPeers")(v), true },
			func(v ssa.Value) (bool, bool) {
				x, k, isEq, ok := eqConstOf(v)
				return ok && k == outbound && isParamVar(c, x, "dir"), isEq
			},
		}
		tab, okT := boolReturnTable(f, atoms, 0)
		// assignment bits: 0 = blocked, 1 = outbound
		if fnN == "InterceptPeerDial" {
			r7.Check(okT && tab[1] == 1 && tab[3] == 1 && tab[0] == 2 && tab[2] == 2, "(*"+gT+")."+fnN+": allows exactly the peers that are not in blockedPeers (decision table)", f.Pos(), 4, "",
				"a blocked peer is dialled (or an unblocked one refused)", fmt.Sprint(tab))
		} else {
			r7.Check(okT && tab[1] == 1 && tab[0] == 2, "(*"+gT+")."+fnN+": inbound: allows exactly the peers that are not in blockedPeers (decision table)", f.Pos(), 2, "",
				"inbound connections are allowed without consulting blockedPeers", fmt.Sprint(tab))
			r7.Check(okT && tab[2] == 2 && tab[3]&2 != 0, "(*"+gT+")."+fnN+": outbound connections are not refused for a peer that is not blocked", f.Pos(), 2, "", "", fmt.Sprint(tab))
		}
		n := 0
		allInstrs(f, func(in ssa.Instruction) {
			if l, ok := in.(*ssa.Lookup); ok && isLoadOfField(gT+".blockedPeers")(strip2(l.X)) {
				n++
				r7.Check(isParamVar(c, strip2(l.Index), "p"), "(*"+gT+")."+fnN+": looks up the peer given", instrPos(in), 1, "", "", "")
			}
		})
		r7.Check(n >= 1, "(*"+gT+")."+fnN+": consults blockedPeers", f.Pos(), n, "", "blockedPeers is not consulted", "")
	}
}
