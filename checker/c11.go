package main

import (
	"go/token"
	"go/types"
	"strings"

	"golang.org/x/tools/go/ssa"
)

func init() {
	register("C11", checkC11,
		"Decides on every CFG path of the circuit relay: a reservation is recorded only past the not-relayed, ACL, not-closed and constraints checks, with a voucher for exactly the requesting peer sealed with the relay's key; a circuit is opened only past not-relayed, ACL, destination reservation, and both parties' circuit counts below the cap (each looked up under its own key), under a no-dial context; "+
			"past the span every exit releases it, past the two counter increments every non-OK exit decrements both, past the stop stream every failure resets it; limited relays copy through a LimitReader of the configured size under a deadline of the configured duration; only the listed functions write the reservation table and they delete under the right conditions; lock discipline (incl. the constraints under the relay's lock); "+
			"constraints.Reserve changes no counter before it can still refuse; the client accepts a voucher only past envelope validation in the voucher domain, signer==relay and peer==self.",
		"counters equal over request histories, byte-exact limits, expiry timing, concurrent requests beyond lock discipline")
}

const relP = "p2p/protocol/circuitv2/relay"

func checkC11(c *Ctx, r *Report) {
	relT := relP + ".Relay"
	hr := "(*" + relT + ").handleReserve"
	hc := "(*" + relT + ").handleConnect"
	isRelayAddrK := relP + ".isRelayAddr"

	remotePeerOfS := func(v ssa.Value) bool {
		ci := isResultOfCall(v, 0, "(core/network.*).RemotePeer")
		if ci == nil {
			return false
		}
		cn := isResultOfCall(callArgs(ci)[0], 0, "(core/network.*).Conn")
		return cn != nil && isParamVar(c, callArgs(cn)[0], "s")
	}
	remoteAddrOfS := func(v ssa.Value) bool {
		ci := isResultOfCall(v, 0, "(core/network.*).RemoteMultiaddr")
		if ci == nil {
			return false
		}
		cn := isResultOfCall(callArgs(ci)[0], 0, "(core/network.*).Conn")
		return cn != nil && isParamVar(c, callArgs(cn)[0], "s")
	}
	notRelayed := edgeBool(func(v ssa.Value) bool {
		ci := isResultOfCall(v, 0, isRelayAddrK)
		return ci != nil && remoteAddrOfS(strip(ci.Common().Args[0]))
	}, false)
	aclOK := func(method string) EdgePred {
		return anyEdge(edgeNil(isLoadOfField(relT+".acl"), true), edgeBool(isCallResult(0, "("+relP+".ACLFilter)."+method), true))
	}

	// ---- R1 ---------------------------------------------------------------
	r1 := r.Rule("C11-R1", "E1/E6", 8, "handleReserve: rsvp[p]=expire only past !relayed, ACL, !closed, constraints.Reserve==nil; voucher for (relay=self, peer=p) sealed with own key")
	if f := r1.need(hr); f != nil {
		ups := findInstrs(f, func(in ssa.Instruction) bool {
			_, ok := in.(*ssa.MapUpdate)
			return ok && isFieldWrite(in, relT+".rsvp")
		})
		r1.guard(f, "rsvp[p] = expire", ups, "!isRelayAddr(remote addr)", notRelayed, nil)
		r1.guard(f, "rsvp[p] = expire", ups, "acl == nil || AllowReserve", aclOK("AllowReserve"), nil)
		r1.guard(f, "rsvp[p] = expire", ups, "!r.closed", edgeBool(isLoadOfField(relT+".closed"), false), nil)
		r1.guard(f, "rsvp[p] = expire", ups, "constraints.Reserve()==nil", edgeNil(isCallResult(0, "(*"+relP+".constraints).Reserve"), true), nil)
		for _, u := range ups {
			r1.Check(remotePeerOfS(strip(u.(*ssa.MapUpdate).Key)), hr+": reservation keyed by the stream's remote peer", instrPos(u), 1, "", "", "")
		}
		for _, call := range callsIn(f, "(*"+relP+".constraints).Reserve") {
			a := callArgs(call)
			r1.Check(remotePeerOfS(strip(a[1])) && remoteAddrOfS(strip(a[2])), hr+": constraints.Reserve(p, remote addr, ..)", instrPos(call.(ssa.Instruction)), 1, "", "", "")
		}
		for _, call := range callsIn(f, "("+relP+".ACLFilter).AllowReserve") {
			a := callArgs(call)
			r1.Check(remotePeerOfS(strip(a[1])) && remoteAddrOfS(strip(a[2])), hr+": AllowReserve(p, remote addr)", instrPos(call.(ssa.Instruction)), 1, "", "", "")
		}
		mk := callsIn(f, relP+".makeReservationMsg")
		okMk := len(mk) == 1
		if okMk {
			a := mk[0].Common().Args // filter, signingKey, selfID, selfAddrs, p, expire
			pk := isResultOfCall(a[1], 0, "(core/peerstore.*).PrivKey")
			selfID := func(v ssa.Value) bool { return isResultOfCall(v, 0, "(core/host.Host).ID") != nil }
			okMk = pk != nil && selfID(strip(callArgs(pk)[1])) && selfID(strip(a[2])) && remotePeerOfS(strip(a[4]))
		}
		r1.Check(okMk, hr+": makeReservationMsg(own key, own ID, .., p, expire)", f.Pos(), 1, "", "the voucher is not for exactly the reserving peer under the relay's own key", "")
		// OK status only past the table update
		for _, ret := range returnsOf(f) {
			if k, ok := constInt(retVal(ret, 0)); ok && k == constIntObj(c, "p2p/protocol/circuitv2/pb", "Status_OK") {
				w, n := (&Cut{Fn: f, Target: isInstr(ret), EdgeCut: failCut(ret), Sep: inSet(ups)}).Run(c)
				r1.Check(w == "", hr+": OK only after the reservation was recorded", instrPos(ret), n+1, "", "", w)
			}
		}
	}
	if f := r1.need(relP + ".makeReservationMsg"); f != nil {
		vT := "p2p/protocol/circuitv2/proto.ReservationVoucher"
		okR, okP := false, false
		for _, st := range findInstrs(f, fieldWritePred(vT+".Relay")) {
			okR = isParamVar(c, st.(*ssa.Store).Val, "selfID")
		}
		for _, st := range findInstrs(f, fieldWritePred(vT+".Peer")) {
			okP = isParamVar(c, st.(*ssa.Store).Val, "p")
		}
		seal := callsIn(f, "core/record.Seal")
		okSeal := len(seal) == 1 && isParamVar(c, seal[0].Common().Args[1], "signingKey")
		r1.Check(okR && okP && okSeal, "makeReservationMsg: voucher{Relay: selfID, Peer: p} sealed with signingKey", f.Pos(), 3, "", "", "")
	}

	// ---- R2 ---------------------------------------------------------------
	r2 := r.Rule("C11-R2", "E1/E6", 8, "handleConnect: NewStream(dest, Stop) only past !relayed, ACL, rsvp[dest], conns[src]<Max, conns[dest]<Max; no-dial context")
	var destID func(ssa.Value) bool
	if f := r2.need(hc); f != nil {
		destID = func(v ssa.Value) bool {
			fl, base := loadOfField(strip2(v))
			if fl == nil || fl.Name() != "ID" {
				return false
			}
			return derivesFrom(base, isCallResult(0, "p2p/protocol/circuitv2/util.PeerToPeerInfoV2"))
		}
		srcV := func(v ssa.Value) bool { return remotePeerOfS(strip(v)) }
		ns := findInstrs(f, callPred("(core/host.Host).NewStream"))
		r2.guard(f, "NewStream(dest)", ns, "!isRelayAddr(remote addr)", notRelayed, nil)
		r2.guard(f, "NewStream(dest)", ns, "acl == nil || AllowConnect", aclOK("AllowConnect"), nil)
		lookupOK := func(field string, key func(ssa.Value) bool) func(ssa.Value) bool {
			return func(v ssa.Value) bool {
				e, ok := v.(*ssa.Extract)
				if !ok || e.Index != 1 {
					return false
				}
				lk, ok := e.Tuple.(*ssa.Lookup)
				return ok && isLoadOfField(relT+"."+field)(strip2(lk.X)) && key(lk.Index)
			}
		}
		r2.guard(f, "NewStream(dest)", ns, "rsvp[dest.ID] present", edgeBool(lookupOK("rsvp", destID), true), nil)
		below := func(key func(ssa.Value) bool) EdgePred {
			return edgeExcl(func(v ssa.Value) bool {
				lk, ok := strip2(v).(*ssa.Lookup)
				return ok && isLoadOfField(relT+".conns")(strip2(lk.X)) && key(lk.Index)
			}, func(v ssa.Value) bool {
				fl, _ := loadOfField(strip2(v))
				return fl != nil && fl.Name() == "MaxCircuits"
			}, ordEQ, ordGT)
		}
		r2.guard(f, "NewStream(dest)", ns, "conns[src] < MaxCircuits", below(srcV), nil)
		r2.guard(f, "NewStream(dest)", ns, "conns[dest.ID] < MaxCircuits", below(destID), nil)
		for _, n := range ns {
			a := callArgs(n.(ssa.CallInstruction))
			r2.Check(derivesFrom(a[1], isCallResult(0, "core/network.WithNoDial")), hc+": stop stream opened under WithNoDial", instrPos(n), 1, "", "the relay would dial the destination instead of using its existing connection", "")
			r2.Check(destID(a[2]), hc+": stop stream opened to the requested destination", instrPos(n), 1, "", "", "")
		}
		for _, call := range callsIn(f, "("+relP+".ACLFilter).AllowConnect") {
			a := callArgs(call)
			r2.Check(srcV(a[1]) && destID(a[3]), hc+": AllowConnect(src, .., dest)", instrPos(call.(ssa.Instruction)), 1, "", "", "")
		}
		// the two counter increments are for src and dest
		adds := callsIn(f, "(*"+relT+").addConn")
		okAdds := len(adds) == 2
		if okAdds {
			a0, a1 := callArgs(adds[0])[1], callArgs(adds[1])[1]
			okAdds = (srcV(a0) && destID(a1)) || (srcV(a1) && destID(a0))
		}
		r2.Check(okAdds, hc+": addConn(src) and addConn(dest.ID)", f.Pos(), 2, "", "", "")
		// the checks and the increments happen in one critical section
		lf := computeLockFlow(f, heldSet{})
		heldMx := func(in ssa.Instruction) bool {
			for k := range lf.must[in] {
				if strings.HasSuffix(k, ".mx") {
					return true
				}
			}
			return false
		}
		if okAdds {
			var lks []ssa.Instruction
			allInstrs(f, func(in ssa.Instruction) {
				if lk, ok := in.(*ssa.Lookup); ok && (isLoadOfField(relT+".conns")(strip2(lk.X)) || isLoadOfField(relT+".rsvp")(strip2(lk.X))) {
					lks = append(lks, in)
				}
			})
			okCS := len(lks) >= 3
			for _, in := range append(lks, adds[0].(ssa.Instruction), adds[1].(ssa.Instruction)) {
				if !heldMx(in) {
					okCS = false
				}
			}
			// no unlock between the first lookup and the second addConn on the passing path
			for _, u := range callsIn(f, "(*sync.Mutex).Unlock") {
				ui := u.(ssa.Instruction)
				w1, _ := (&Cut{Fn: f, From: lks[:1], Target: isInstr(ui), Sep: isInstr(adds[1].(ssa.Instruction))}).Run(c)
				w2, _ := (&Cut{Fn: f, From: []ssa.Instruction{ui}, Target: isInstr(adds[1].(ssa.Instruction))}).Run(c)
				if w1 != "" && w2 != "" {
					okCS = false
				}
			}
			r2.Check(okCS, hc+": reservation/circuit-count checks and increments in one critical section", f.Pos(), len(lks)+2, "", "two concurrent requests could both pass the cap check", "")
		}
	}

	// ---- R3 ---------------------------------------------------------------
	r3 := r.Rule("C11-R3", "E2", 4, "handleConnect exits: span released; both circuit counters rolled back on every non-OK exit; stop stream reset on failure")
	if f := r3.need(hc); f != nil {
		// (a) span: covered by the generic ownership engine (same as C04-R1, re-evaluated here)
		own := newOwn(c, ownSpec{what: "span", relNames: []string{"Done"}})
		for _, acq := range callsIn(f, "(core/network.*).BeginSpan") {
			own.checkAcquire(r3, f, acq, 0)
		}
		// (b) counters: model the pair of increments as a resource whose release is rmConn x2.
		adds := findInstrs(f, callPred("(*"+relT+").addConn"))
		if len(adds) == 2 {
			cnt := newOwn(c, ownSpec{what: "circuit counters", relNames: []string{"Done"}})
			cnt.reset()
			// a closure "must roll back" when on all its paths it calls rmConn twice (src and dest) or calls such a closure
			rollsBack := map[*ssa.Function]int{}
			var must func(cl *ssa.Function) bool
			must = func(cl *ssa.Function) bool {
				switch rollsBack[cl] {
				case 1:
					return true
				case 2, 3:
					return false
				}
				rollsBack[cl] = 3
				rm := findInstrs(cl, callPred("(*"+relT+").rmConn"))
				sep := func(in ssa.Instruction) bool {
					if ci, ok := in.(ssa.CallInstruction); ok {
						for _, t := range cnt.callTargets(cl, ci) {
							if must(t) {
								return true
							}
						}
					}
					return false
				}
				ok := false
				if len(rm) == 2 {
					// both rmConn on every path
					w1, _ := (&Cut{Fn: cl, Target: func(in ssa.Instruction) bool { _, ok := in.(*ssa.Return); return ok }, Sep: isInstr(rm[0])}).Run(c)
					w2, _ := (&Cut{Fn: cl, Target: func(in ssa.Instruction) bool { _, ok := in.(*ssa.Return); return ok }, Sep: isInstr(rm[1])}).Run(c)
					ok = w1 == "" && w2 == ""
				}
				if !ok {
					w, _ := (&Cut{Fn: cl, Target: func(in ssa.Instruction) bool { _, ok := in.(*ssa.Return); return ok }, Sep: sep}).Run(c)
					ok = w == "" && len(cl.Blocks) > 0 && hasCallTo(cl, sep)
				}
				if ok {
					rollsBack[cl] = 1
				} else {
					rollsBack[cl] = 2
				}
				return ok
			}
			may := func(cl *ssa.Function) bool {
				found := false
				var walk func(g *ssa.Function, seen map[*ssa.Function]bool)
				walk = func(g *ssa.Function, seen map[*ssa.Function]bool) {
					if seen[g] {
						return
					}
					seen[g] = true
					if len(callsIn(g, "(*"+relT+").rmConn")) > 0 {
						found = true
					}
					allInstrs(g, func(in ssa.Instruction) {
						if ci, ok := in.(ssa.CallInstruction); ok {
							for _, t := range cnt.callTargets(g, ci) {
								walk(t, seen)
							}
						}
					})
				}
				walk(cl, map[*ssa.Function]bool{})
				return found
			}
			statusOK := constIntObj(c, "p2p/protocol/circuitv2/pb", "Status_OK")
			q := &Cut{Fn: f, From: []ssa.Instruction{adds[1]},
				Sep: func(in ssa.Instruction) bool {
					ci, ok := in.(ssa.CallInstruction)
					if !ok {
						return false
					}
					for _, t := range cnt.callTargets(f, ci) {
						if must(t) {
							return true
						}
					}
					// goroutine that receives the rolling-back completion callback
					if _, isGo := in.(*ssa.Go); isGo {
						for _, a := range ci.Common().Args {
							for _, t := range cnt.closureValues(f, a) {
								if may(t) {
									return true
								}
							}
						}
					}
					return false
				},
				Target: func(in ssa.Instruction) bool {
					ret, ok := in.(*ssa.Return)
					if !ok {
						return false
					}
					k, isC := constInt(retVal(ret, 0))
					return !(isC && k == statusOK)
				}}
			r3.mustPass(f, hc+": past addConn(src)+addConn(dest) every non-OK exit rolls both counters back", q, 2)
			// the OK exit hands the rollback to the copy goroutines
			q2 := &Cut{Fn: f, From: []ssa.Instruction{adds[1]}, Sep: q.Sep, Target: func(in ssa.Instruction) bool {
				ret, ok := in.(*ssa.Return)
				if !ok {
					return false
				}
				k, isC := constInt(retVal(ret, 0))
				return isC && k == statusOK
			}}
			r3.mustPass(f, hc+": the OK exit hands the rollback to the copy goroutines", q2, 2)
		} else {
			r3.Fail(hc+": two addConn calls", f.Pos(), "expected the source and destination counter increments", "")
		}
		// (c) stop stream
		strOwn := newOwn(c, ownSpec{what: "stop stream", relNames: []string{"Reset", "ResetWithError", "Close"}, listedTransfersOnly: true})
		for _, acq := range callsIn(f, "(core/host.Host).NewStream") {
			var h ssa.Value
			for _, ref := range *acq.(ssa.Value).Referrers() {
				if e, ok := ref.(*ssa.Extract); ok && e.Index == 0 {
					h = e
				}
			}
			if h == nil {
				continue
			}
			hs := buildHandleSet(f, []ssa.Value{h}, nil)
			strOwn.reset()
			statusOK := constIntObj(c, "p2p/protocol/circuitv2/pb", "Status_OK")
			acqErr := edgeNil(func(v ssa.Value) bool { ci, i := resultOf(v); return ci == acq && i == 1 }, false)
			// exits other than OK must have reset/closed the stop stream (or handed it to the copy goroutines)
			q := &Cut{Fn: f, From: []ssa.Instruction{acq.(ssa.Instruction)}, EdgeCut: acqErr,
				Sep: func(in ssa.Instruction) bool { ok, _ := strOwn.consumes(f, in, hs, 0); return ok },
				Target: func(in ssa.Instruction) bool {
					ret, ok := in.(*ssa.Return)
					if !ok {
						return false
					}
					k, isC := constInt(retVal(ret, 0))
					return !(isC && k == statusOK)
				}}
			strOwn.scopes[f] = hs
			r3.mustPass(f, hc+": past NewStream(dest) every non-OK exit resets the stop stream", q, 1)
		}
	}
	// rmConn / addConn callers
	r3.onlyCallers("call rmConn", []string{"(*" + relT + ").rmConn"}, c.FnsOfPkg(relP), hc)
	r3.onlyCallers("call addConn", []string{"(*" + relT + ").addConn"}, c.FnsOfPkg(relP), hc)

	// ---- R4 ---------------------------------------------------------------
	r4 := r.Rule("C11-R4", "E1/E6", 5, "limited relays: unlimited copy only when no limit configured; limited copy through LimitReader(limit.Data); deadlines from limit.Duration")
	limT := relP + ".RelayLimit"
	if f := r4.need(hc); f != nil {
		isLimit := isLoadOfField(relP + ".Resources.Limit")
		unl := findInstrs(f, func(in ssa.Instruction) bool {
			_, isGo := in.(*ssa.Go)
			return isGo && isCallTo(in, "(*"+relT+").relayUnlimited")
		})
		lim := findInstrs(f, func(in ssa.Instruction) bool {
			_, isGo := in.(*ssa.Go)
			return isGo && isCallTo(in, "(*"+relT+").relayLimited")
		})
		r4.guard(f, "go relayUnlimited", unl, "r.rc.Limit == nil", edgeNil(isLimit, true), nil)
		r4.Check(len(lim) == 2 && len(unl) == 2, hc+": two copy goroutines per mode", f.Pos(), 4, "", "", "")
		for _, g := range lim {
			a := callArgs(g.(ssa.CallInstruction))
			fl, base := loadOfField(strip2(a[5]))
			r4.Check(fl != nil && fieldKeyOf(base, fl) == limT+".Data", hc+": relayLimited(limit = rc.Limit.Data)", instrPos(g), 1, "", "", "")
		}
		// deadlines before the limited copies start
		dls := findInstrs(f, func(in ssa.Instruction) bool {
			if !isCallTo(in, "(core/network.*).SetDeadline") {
				return false
			}
			return derivesFrom(callArgs(in.(ssa.CallInstruction))[1], func(v ssa.Value) bool {
				fl, base := loadOfField(v)
				return fl != nil && fieldKeyOf(base, fl) == limT+".Duration"
			}, "(time.Time).Add")
		})
		okDL := len(dls) == 2
		for _, g := range lim {
			for _, d := range dls {
				w, _ := (&Cut{Fn: f, Target: isInstr(g), Sep: isInstr(d)}).Run(c)
				if w != "" {
					okDL = false
				}
			}
		}
		r4.Check(okDL, hc+": both streams get a deadline from Limit.Duration before the limited copies start", f.Pos(), len(dls)+1, "", "a limited circuit would not end at the configured duration", "")
	}
	if f := r4.need("(*" + relT + ").relayLimited"); f != nil {
		ok := false
		for _, cp := range callsIn(f, "(*"+relT+").copyWithBuffer") {
			// the source is src capped at limit bytes: io.LimitReader(src, limit), or the LimitedReader it stands for
			rd := callArgs(cp)[2]
			okSrc := false
			if lr := isResultOfCall(rd, 0, "io.LimitReader"); lr != nil {
				okSrc = isParamVar(c, lr.Common().Args[0], "src") && isParamVar(c, lr.Common().Args[1], "limit")
			} else if al, isAl := strip2(rd).(*ssa.Alloc); isAl && strings.HasSuffix(types.TypeString(al.Type(), nil), "io.LimitedReader") {
				rOK, nOK, other := false, false, false
				for _, ref := range *al.Referrers() {
					fa, isFA := ref.(*ssa.FieldAddr)
					if !isFA {
						continue
					}
					fl, _ := fieldAddrOf(fa)
					for _, r2 := range *fa.Referrers() {
						st, isSt := r2.(*ssa.Store)
						if !isSt {
							continue
						}
						switch {
						case fl != nil && fl.Name() == "R" && isParamVar(c, st.Val, "src"):
							rOK = true
						case fl != nil && fl.Name() == "N" && isParamVar(c, st.Val, "limit"):
							nOK = true
						default:
							other = true
						}
					}
				}
				okSrc = rOK && nOK && !other
			}
			ok = okSrc && isParamVar(c, callArgs(cp)[1], "dest")
		}
		r4.Check(ok, "relayLimited: copy(dest, io.LimitReader(src, limit))", f.Pos(), 1, "", "more than the configured number of bytes can be forwarded", "")
		for _, d := range findInstrs(f, func(in ssa.Instruction) bool { _, ok := in.(*ssa.Defer); return ok }) {
			if isParamVar(c, d.(*ssa.Defer).Call.Value, "done") {
				w, _ := (&Cut{Fn: f, Target: callPred("(*" + relT + ").copyWithBuffer"), Sep: isInstr(d)}).Run(c)
				r4.Check(w == "", "relayLimited: defer done() registered before copying", instrPos(d), 1, "", "", w)
			}
		}
	}
	if f := r4.need("(*" + relT + ").relayUnlimited"); f != nil {
		n := 0
		for _, d := range findInstrs(f, func(in ssa.Instruction) bool { _, ok := in.(*ssa.Defer); return ok }) {
			if isParamVar(c, d.(*ssa.Defer).Call.Value, "done") {
				n++
			}
		}
		r4.Check(n == 1, "relayUnlimited: defer done()", f.Pos(), 1, "", "", "")
	}

	// ---- R5 ---------------------------------------------------------------
	r5 := r.Rule("C11-R5", "E3/E1", 6, "rsvp writers = {handleReserve, gc, disconnected}; gc deletes on closed or expired; disconnected deletes past not-Connected and cleans the constraints")
	r5.onlyIn("write "+relT+".rsvp", fieldWritePred(relT+".rsvp"), c.FnsOfPkg(relP), hr, "(*"+relT+").gc", "(*"+relT+").disconnected", relP+".New")
	if f := r5.need("(*" + relT + ").gc"); f != nil {
		dels := findInstrs(f, func(in ssa.Instruction) bool { return isCallTo(in, "builtin.delete") && isFieldWrite(in, relT+".rsvp") })
		// expire < now, however spelled: A = the reservation's expiry (value of the rsvp range), B = time.Now()
		isExpire := func(v ssa.Value) bool {
			e, ok := strip2(v).(*ssa.Extract)
			if !ok || e.Index != 2 {
				return false
			}
			nx, ok := e.Tuple.(*ssa.Next)
			if !ok {
				return false
			}
			rg, ok := nx.Iter.(*ssa.Range)
			return ok && isLoadOfField(relT+".rsvp")(strip2(rg.X))
		}
		expired := edgeExcl(isExpire, isCallResult(0, "time.Now"), ordEQ, ordGT)
		r5.guard(f, "delete(rsvp, p)", dels, "closed || expire.Before(now)", anyEdge(edgeBool(isLoadOfField(relT+".closed"), true), expired), nil)
		// and every expired/closed entry is deleted: the true edges lead to the delete
		var hit []CFGEdge
		for _, b := range blocksDeep(f) {
			for s := range b.Succs {
				if expired(b, s) || edgeBool(isLoadOfField(relT+".closed"), true)(b, s) {
					hit = append(hit, CFGEdge{b, s})
				}
			}
		}
		if len(hit) > 0 && len(dels) == 1 {
			rg := findInstrs(f, func(in ssa.Instruction) bool { _, ok := in.(*ssa.Next); return ok })
			q := &Cut{Fn: f, FromEdges: hit, Sep: inSet(dels), Target: func(in ssa.Instruction) bool {
				_, isRet := in.(*ssa.Return)
				return isRet || inSet(rg)(in)
			}}
			r5.mustPass(f, "gc: a closed relay / an expired reservation is deleted", q, len(hit))
		} else {
			r5.Fail("gc: delete site", f.Pos(), "expected one delete(rsvp, p) under the closed/expired test", "")
		}
	}
	if f := r5.need("(*" + relT + ").disconnected"); f != nil {
		dels := findInstrs(f, func(in ssa.Instruction) bool { return isCallTo(in, "builtin.delete") && isFieldWrite(in, relT+".rsvp") })
		connected := constIntObj(c, "core/network", "Connected")
		notConn := edgeExcl(func(v ssa.Value) bool { return isResultOfCall(v, 0, "(core/network.*).Connectedness") != nil },
			func(v ssa.Value) bool { k, ok := constInt(v); return ok && k == connected }, ordEQ)
		r5.guard(f, "delete(rsvp, p)", dels, "Connectedness(p) != Connected", notConn, nil)
		cps := findInstrs(f, callPred("(*"+relP+".constraints).cleanupPeer"))
		r5.guard(f, "constraints.cleanupPeer(p)", cps, "Connectedness(p) != Connected", notConn, nil)
		// not-connected path deletes the reservation (when present) and cleans the constraints
		var nc []CFGEdge
		for _, b := range blocksDeep(f) {
			for s := range b.Succs {
				if notConn(b, s) {
					nc = append(nc, CFGEdge{b, s})
				}
			}
		}
		if len(nc) > 0 {
			q := &Cut{Fn: f, FromEdges: nc, Sep: inSet(cps), Target: func(in ssa.Instruction) bool { _, ok := in.(*ssa.Return); return ok }}
			r5.mustPass(f, "disconnected: [not connected] every path cleans the constraints", q, len(nc))
			// with the reservation present, the delete precedes the constraints cleanup
			var okVal ssa.Value
			allInstrs(f, func(in ssa.Instruction) {
				if e, ok := in.(*ssa.Extract); ok && e.Index == 1 {
					if lk, ok := e.Tuple.(*ssa.Lookup); ok && isLoadOfField(relT+".rsvp")(strip2(lk.X)) {
						okVal = e
					}
				}
			})
			if okVal != nil {
				q := &Cut{Fn: f, Assume: map[ssa.Value]bool{okVal: true}, Sep: inSet(dels), Target: inSet(cps)}
				r5.mustPass(f, "disconnected: [not connected, reservation present] the reservation is deleted", q, 1)
			} else {
				r5.Fail("disconnected: reservation lookup", f.Pos(), "not found", "")
			}
		} else {
			r5.Fail("disconnected: Connectedness test", f.Pos(), "not found", "")
		}
	}
	// disconnected is wired as the DisconnectedF of the relay's notifiee
	if f := r5.need(relP + ".New"); f != nil {
		wired := false
		for _, st := range findInstrs(f, fieldWritePred("core/network.NotifyBundle.DisconnectedF")) {
			for _, t := range finalClosureOrMethod(st.(*ssa.Store).Val) {
				if t == "(*"+relT+").disconnected" {
					wired = true
				}
			}
		}
		r5.Check(wired && len(callsIn(f, "(core/network.*).Notify")) == 1, "New: DisconnectedF = r.disconnected, registered", f.Pos(), 2, "", "reservations would no longer disappear when the peer disconnects", "")
	}

	// ---- R6 ---------------------------------------------------------------
	r6 := r.Rule("C11-R6", "E4", 20, "rsvp/conns/closed under Relay.mx; constraints' tables under Relay.mx as external lock")
	lockRule(c, r6, lockSpec{Pkg: relP, Type: "Relay", Mutex: "mx", Guarded: []string{"rsvp", "conns", "closed"},
		Requires: []string{"(*" + relT + ").addConn", "(*" + relT + ").rmConn"},
		Exempt:   map[string]string{relP + ".New": "constructor"}})
	lockRule(c, r6, lockSpec{Pkg: relP, Type: "constraints", Mutex: "mutex", ExternalClass: relP + ".Relay.mx",
		Guarded: []string{"total", "ips", "asns"},
		Exempt:  map[string]string{relP + ".newConstraints": "constructor"}})

	// ---- R7 ---------------------------------------------------------------
	r7 := r.Rule("C11-R7", "E1", 2, "constraints.Reserve: no error exit is reachable after a counter change other than expiry cleanup")
	if f := r7.need("(*" + relP + ".constraints).Reserve"); f != nil {
		cT := relP + ".constraints"
		muts := findInstrs(f, func(in ssa.Instruction) bool {
			return isCallTo(in, "(*"+relP+".constraints).cleanupPeer") || isFieldWrite(in, cT+".total") || isFieldWrite(in, cT+".ips") || isFieldWrite(in, cT+".asns")
		})
		if len(muts) < 3 {
			r7.Fail("constraints.Reserve: mutations", f.Pos(), "expected the replacement of the peer's entry and the three table updates", "")
		}
		var errRets []ssa.Instruction
		for _, ret := range returnsOf(f) {
			if !isNilConst(retVal(ret, 0)) {
				errRets = append(errRets, ret)
			}
		}
		w, n := (&Cut{Fn: f, From: muts, Target: inSet(errRets)}).Run(c)
		r7.Check(w == "", "(*"+relP+".constraints).Reserve", f.Pos(), n+len(muts), "", "a refused reservation has already changed the counters (a refused refresh drops the peer from the counts while the relay keeps its reservation)", w)
		// success passes the append to every table that is keyed for this peer
		for _, ret := range successReturns(f) {
			for _, fld := range []string{"total", "ips"} {
				w, n := (&Cut{Fn: f, Target: isInstr(ret), EdgeCut: failCut(ret), Sep: fieldWritePred(cT + "." + fld)}).Run(c)
				r7.Check(w == "", "constraints.Reserve: success records the reservation in "+fld, instrPos(ret), n+1, "", "", w)
			}
		}
	}

	// the tables are keyed by what the caps are about: ips by the IP address of the remote multiaddr, asns by its ASN
	if f := r7.need("(*" + relP + ".constraints).Reserve"); f != nil {
		cT := relP + ".constraints"
		isIPString := func(v ssa.Value) bool {
			ci := isResultOfCall(v, 0, "(net.IP).String")
			if ci == nil {
				return false
			}
			return derivesFrom(callArgs(ci)[0], func(x ssa.Value) bool {
				tc := isResultOfCall(x, 0, "github.com/multiformats/go-multiaddr/net.ToIP")
				return tc != nil && isParamVar(c, callArgs(tc)[0], "a")
			})
		}
		nKeys := 0
		okKeys := true
		bad := ""
		allInstrs(f, func(in ssa.Instruction) {
			var key ssa.Value
			switch x := in.(type) {
			case *ssa.Lookup:
				if isLoadOfField(cT + ".ips")(strip2(x.X)) {
					key = x.Index
				}
			case *ssa.MapUpdate:
				if isLoadOfField(cT + ".ips")(strip2(x.Map)) {
					key = x.Key
				}
			}
			if key == nil {
				return
			}
			nKeys++
			if !isIPString(strip(key)) {
				okKeys = false
				bad = describeVal(key)
			}
		})
		r7.Check(nKeys >= 2 && okKeys, "constraints.Reserve: the per-IP table is keyed by ToIP(a).String()", f.Pos(), nKeys, "", "peers sharing an IP address but differing in port or transport land in different buckets: the per-IP cap is never reached", bad)
	}

	// ---- R8 ---------------------------------------------------------------
	r8 := r.Rule("C11-R8", "E1", 3, "client Reserve: voucher accepted only past ConsumeEnvelope(RecordDomain), signer == voucher.Relay, self == voucher.Peer")
	if f := r8.need("p2p/protocol/circuitv2/client.Reserve"); f != nil {
		sts := findInstrs(f, fieldWritePred("p2p/protocol/circuitv2/client.Reservation.Voucher"))
		ce := "core/record.ConsumeEnvelope"
		r8.guard(f, "result.Voucher = voucher", sts, "ConsumeEnvelope err==nil", edgeNil(isCallResult(2, ce), true), nil)
		vT := "p2p/protocol/circuitv2/proto.ReservationVoucher"
		r8.guard(f, "result.Voucher = voucher", sts, "signer == voucher.Relay", eqEdge(isCallResult(0, "core/peer.IDFromPublicKey"), isLoadOfField(vT+".Relay"), true), nil)
		r8.guard(f, "result.Voucher = voucher", sts, "h.ID() == voucher.Peer", eqEdge(isCallResult(0, "(core/host.Host).ID"), isLoadOfField(vT+".Peer"), true), nil)
		for _, call := range callsIn(f, ce) {
			g, ok := strip2(call.Common().Args[1]).(*ssa.Const)
			dom := ""
			if ok {
				dom, _ = constString(g)
			}
			want := constStrObj(c, "p2p/protocol/circuitv2/proto", "RecordDomain")
			r8.Check(dom != "" && dom == want, "client Reserve: ConsumeEnvelope(.., proto.RecordDomain)", instrPos(call.(ssa.Instruction)), 1, "", "voucher validated in the wrong domain", dom)
		}
		for _, id := range callsIn(f, "core/peer.IDFromPublicKey") {
			fl, _ := loadOfField(strip2(id.Common().Args[0]))
			r8.Check(fl != nil && fl.Name() == "PublicKey", "client Reserve: signer = IDFromPublicKey(envelope.PublicKey)", instrPos(id.(ssa.Instruction)), 1, "", "", "")
		}
	}

	// ---- R9 ---------------------------------------------------------------
	r9 := r.Rule("C11-R9", "E8/E1", 10, "circuit bookkeeping: addConn stores the peer's count plus one and tags the peer with its first circuit; rmConn stores the count minus one, or with the last circuit forgets the peer and removes the tag; a reservation that is granted tags the peer and the collection of an expired or closed one untags it; the limited copy stops the source once the byte budget is used")
	rm := func(n string) string { return "(*" + relT + ")." + n }
	connsK := relT + ".conns"
	for _, q := range []struct {
		fn string
		op token.Token
	}{{"addConn", token.ADD}, {"rmConn", token.SUB}} {
		f := r9.need(rm(q.fn))
		if f == nil {
			continue
		}
		pp := f.Params[1]
		isPeer := func(v ssa.Value) bool {
			v = resolveLoad(strip2(v))
			return v == ssa.Value(pp) || isParamCellLoad(c, v, pp)
		}
		isStep := func(v ssa.Value) bool {
			bo, ok := v.(*ssa.BinOp)
			if !ok {
				return false
			}
			k, isC := constInt(bo.Y)
			if !isC || !((bo.Op == q.op && k == 1) || (bo.Op != q.op && (bo.Op == token.ADD || bo.Op == token.SUB) && k == -1)) {
				return false
			}
			lk, isL := resolveLoad(strip2(bo.X)).(*ssa.Lookup)
			return isL && isLoadOfField(connsK)(strip2(lk.X)) && isPeer(lk.Index)
		}
		stores := findInstrs(f, func(in ssa.Instruction) bool {
			mu, ok := in.(*ssa.MapUpdate)
			return ok && isLoadOfField(connsK)(strip2(mu.Map)) && isPeer(mu.Key) && derivesFrom(mu.Value, isStep)
		})
		isCount := func(v ssa.Value) bool {
			if derivesFrom(v, isStep) {
				return true
			}
			// conns[p] read again after the new count was stored
			lk, isL := resolveLoad(strip2(v)).(*ssa.Lookup)
			if !isL || !isLoadOfField(connsK)(strip2(lk.X)) || !isPeer(lk.Index) {
				return false
			}
			for _, st := range stores {
				if st.Block() == lk.Block() && instrIndex(st) < instrIndex(lk) || (st.Block() != lk.Block() && st.Block().Dominates(lk.Block())) {
					return true
				}
			}
			return false
		}
		one := func(v ssa.Value) bool { k, ok := constInt(v); return ok && k == 1 }
		zero := func(v ssa.Value) bool { k, ok := constInt(v); return ok && k == 0 }
		if q.fn == "addConn" {
			r9.mustPass(f, rm(q.fn)+": conns[p] = conns[p] + 1", &Cut{Fn: f, Target: isRetInstr, Sep: inSet(stores)}, len(stores))
			tags := findInstrs(f, func(in ssa.Instruction) bool {
				return calleeNameIs(in, "TagPeer") && isPeer(callArgs(in.(ssa.CallInstruction))[1])
			})
			first := anyEdge(eqEdge(isCount, one, true), edgeExcl(isCount, one, ordGT, ordLT))
			r9.guard(f, "tag the peer", tags, "this is its first circuit", first, nil)
			var from []CFGEdge
			for _, b := range blocksDeep(f) {
				for si := range b.Succs {
					if first(b, si) {
						from = append(from, CFGEdge{b, si})
					}
				}
			}
			r9.mustPass(f, rm(q.fn)+": the first circuit tags the peer", &Cut{Fn: f, FromEdges: from, Target: isRetInstr, Sep: inSet(tags)}, len(from))
			r9.Check(len(from) >= 1 && len(tags) >= 1, rm(q.fn)+": first-circuit test and tag", f.Pos(), len(from), "", "", "")
			continue
		}
		// rmConn: some circuits left -> store; none -> delete + untag
		left := edgeExcl(isCount, zero, ordEQ, ordLT)
		none := edgeExcl(isCount, zero, ordGT)
		dels := findInstrs(f, func(in ssa.Instruction) bool {
			if !isCallTo(in, "builtin.delete") {
				return false
			}
			a := callArgs(in.(ssa.CallInstruction))
			return len(a) == 2 && isLoadOfField(connsK)(strip2(a[0])) && isPeer(a[1])
		})
		untags := findInstrs(f, func(in ssa.Instruction) bool {
			return calleeNameIs(in, "UntagPeer") && isPeer(callArgs(in.(ssa.CallInstruction))[1])
		})
		var fromLeft, fromNone []CFGEdge
		for _, b := range blocksDeep(f) {
			for si := range b.Succs {
				if left(b, si) {
					fromLeft = append(fromLeft, CFGEdge{b, si})
				}
				if none(b, si) {
					fromNone = append(fromNone, CFGEdge{b, si})
				}
			}
		}
		r9.Check(len(fromLeft) >= 1 && len(fromNone) >= 1, rm(q.fn)+": tests whether circuits are left", f.Pos(), len(fromLeft)+len(fromNone), "", "", "")
		r9.mustPass(f, rm(q.fn)+": with circuits left, conns[p] = conns[p] - 1", &Cut{Fn: f, FromEdges: fromLeft, Target: isRetInstr, Sep: inSet(stores)}, len(stores))
		r9.mustPass(f, rm(q.fn)+": with none left, the peer is forgotten", &Cut{Fn: f, FromEdges: fromNone, Target: isRetInstr, Sep: inSet(dels)}, len(dels))
		r9.mustPass(f, rm(q.fn)+": with none left, the tag is removed", &Cut{Fn: f, FromEdges: fromNone, Target: isRetInstr, Sep: inSet(untags)}, len(untags))
		r9.guard(f, "remove the tag", untags, "no circuit is left", none, nil)
	}
	if f := r9.need(hr); f != nil {
		// granted (rsvp[p] written) => tagged
		grants := findInstrs(f, fieldWritePred(relT+".rsvp"))
		tags := findInstrs(f, func(in ssa.Instruction) bool { return calleeNameIs(in, "TagPeer") })
		r9.mustPass(f, "handleReserve: a granted reservation tags the peer", &Cut{Fn: f, From: grants, Target: isRetInstr, Sep: inSet(tags)}, len(grants))
		r9.Check(len(grants) >= 1 && len(tags) >= 1, "handleReserve: grant and tag sites", f.Pos(), len(grants), "", "", "")
	}
	if f := r9.need(rm("gc")); f != nil {
		dels := findInstrs(f, func(in ssa.Instruction) bool {
			return isCallTo(in, "builtin.delete") && isLoadOfField(relT+".rsvp")(strip2(callArgs(in.(ssa.CallInstruction))[0]))
		})
		untags := findInstrs(f, func(in ssa.Instruction) bool { return calleeNameIs(in, "UntagPeer") })
		okG := len(dels) >= 1 && len(untags) >= 1
		w := ""
		n := 0
		if okG {
			h := iterationOf(dels[0].Parent(), dels[0].Block())
			w, n = (&Cut{Fn: f, From: dels, Sep: inSet(untags), Target: func(in ssa.Instruction) bool {
				return isRetInstr(in) || (h != nil && in.Block() == h && instrIndex(in) == 0)
			}}).Run(c)
		}
		r9.Check(okG && w == "", "gc: a collected reservation loses its connection-manager tag", f.Pos(), n+1, "", "the tag outlives the reservation: the peer stays protected from trimming", w)
	}
	if f := r9.need(rm("relayLimited")); f != nil {
		limitP := f.Params[len(f.Params)-2]
		isLimit := func(v ssa.Value) bool {
			v = resolveLoad(strip2(v))
			return v == ssa.Value(limitP) || isParamCellLoad(c, v, limitP)
		}
		isCopied := func(v ssa.Value) bool { return isResultOfCall(resolveLoad(strip2(v)), 0, rm("copyWithBuffer")) != nil }
		used := eqEdge(isCopied, isLimit, true)
		stops := findInstrs(f, func(in ssa.Instruction) bool { return calleeNameIs(in, "CloseRead", "Reset") })
		var from []CFGEdge
		for _, b := range blocksDeep(f) {
			for si := range b.Succs {
				if used(b, si) {
					from = append(from, CFGEdge{b, si})
				}
			}
		}
		r9.Check(len(from) >= 1, "relayLimited: compares the bytes copied with the budget", f.Pos(), len(from), "", "the source keeps being read after the budget is used", "")
		r9.mustPass(f, "relayLimited: once the budget is used the source is stopped", &Cut{Fn: f, FromEdges: from, Target: isRetInstr, Sep: inSet(stops)}, len(from))
	}
}

func hasCallTo(f *ssa.Function, pred func(ssa.Instruction) bool) bool {
	return len(findInstrs(f, pred)) > 0
}

// finalClosureOrMethod names the function a stored function value denotes
// (bound method closure or plain function).
func finalClosureOrMethod(v ssa.Value) []string {
	switch x := strip2(v).(type) {
	case *ssa.MakeClosure:
		fn := x.Fn.(*ssa.Function)
		if fn.Synthetic != "" && fn.Object() != nil {
			return []string{objKeyOf(fn)}
		}
		return []string{fnKey(fn)}
	case *ssa.Function:
		return []string{fnKey(x)}
	}
	return nil
}

func objKeyOf(fn *ssa.Function) string { return staticKey(fn) }
