package main

import (
	"fmt"
	"go/token"
	"go/types"
	"sort"
	"strings"

	"golang.org/x/tools/go/ssa"
)

func init() {
	register("C12", checkC12,
		"Decides on every CFG path: a stream is opened on a limited connection only past the caller's allow-limited flag (at both the swarm and the connection level), otherwise only on the connection returned by the direct-connection waiter, which returns only non-limited connections, waits under a bounded context, registers its wake-up channel in the same critical section in which it looked at the connection table and unregisters on cancellation; "+
			"a force-direct request gets only direct connections (selection function, address filter, and the dial worker answers each request using that request's own context); Connected is reported only for an open non-limited connection; "+
			"only the relay client marks connections limited; hole punching filters relay addresses from wire-supplied lists, dials under force-direct, coordinates under allow-limited+no-dial, accepts only over a relayed connection and reports success only with a direct connection; context option keys agree; lock discipline of the waiter table.",
		"waiter timing, appearance/disappearance of direct connections while waiting beyond the lost-wake-up structure, what transports do with the addresses")
}

const hpP = "p2p/protocol/holepunch"

// isLimitedOf: v is `X.Stat().Limited` (Field or load of FieldAddr on the Stat() result).
func isStatLimited(v ssa.Value) bool {
	f, base := loadOfField(v)
	if f == nil || f.Name() != "Limited" {
		return false
	}
	// base is the Stat() result (value) or a local cell holding it
	return derivesFrom(base, func(x ssa.Value) bool {
		return isResultOfCall(x, 0, "(*"+swarmP+".Conn).Stat", "(core/network.*).Stat") != nil
	})
}

func ctxKeyDesc(v ssa.Value) string {
	v = strip2(v)
	switch x := v.(type) {
	case *ssa.UnOp:
		if g, ok := x.X.(*ssa.Global); ok && x.Op == token.MUL {
			return "global " + g.Name()
		}
	case *ssa.Const:
		return "value of type " + strings.ReplaceAll(types.TypeString(x.Type(), nil), Mod, "")
	}
	return "?" + v.Name()
}

func checkC12(c *Ctx, r *Report) {
	netP := "core/network"
	connNS := "(*" + swarmP + ".Conn).NewStream"
	wfd := "(*" + swarmP + ".Swarm).waitForDirectConn"
	bestK := "(*" + swarmP + ".Swarm).bestConnToPeer"
	bestAccK := "(*" + swarmP + ".Swarm).bestAcceptableConnToPeer"

	allowLimited := func(ctxName string) func(ssa.Value) bool {
		return func(v ssa.Value) bool {
			ci := isResultOfCall(v, 0, netP+".GetAllowLimitedConn")
			return ci != nil && isParamVar(c, ci.Common().Args[0], ctxName)
		}
	}

	// ---- R1 ---------------------------------------------------------------
	r1 := r.Rule("C12-R1", "E1/E4", 12, "streams on limited connections only with allow-limited; waiter returns only direct connections, bounded, registers atomically, unregisters on cancel")
	if f := r1.need(connNS); f != nil {
		opens := findInstrs(f, callPred("(core/network.*).OpenStream", "(*"+swarmP+".Conn).openAndAddStream"))
		r1.guard(f, "open stream", opens, "!Stat().Limited || GetAllowLimitedConn(ctx)", anyEdge(edgeBool(isStatLimited, false), edgeBool(allowLimited("ctx"), true)), nil)
	}
	if f := r1.need("(*" + swarmP + ".Swarm).NewStream"); f != nil {
		ns := findInstrs(f, callPred(connNS))
		r1.guard(f, "c.NewStream(ctx)", ns, "allow-limited || !Limited || conn from waitForDirectConn",
			anyEdge(edgeBool(allowLimited("ctx"), true), edgeBool(isStatLimited, false), edgeNil(isCallResult(1, wfd), true)), nil)
		for _, n := range ns {
			r1.Check(isParamVar(c, callArgs(n.(ssa.CallInstruction))[1], "ctx"), "Swarm.NewStream: c.NewStream gets the caller's ctx", instrPos(n), 1, "", "the connection-level limited check would see a different context", "")
		}
		// a stream is returned only from c.NewStream
		for _, ret := range successReturns(f) {
			r1.Check(isResultOfCall(retVal(ret.(*ssa.Return), 0), 0, connNS) != nil, "Swarm.NewStream: returned stream comes from Conn.NewStream", instrPos(ret), 1, "", "", "")
		}
	}
	if f := r1.need(wfd); f != nil {
		var connRets []ssa.Instruction
		for _, ret := range returnsOf(f) {
			if !isNilConst(retVal(ret, 0)) {
				connRets = append(connRets, ret)
			}
		}
		r1.guard(f, "return conn", connRets, "!c.Stat().Limited", edgeBool(isStatLimited, false), nil)
		for _, ret := range connRets {
			r1.Check(isResultOfCall(retVal(ret.(*ssa.Return), 0), 0, bestK) != nil, "waitForDirectConn: returned conn comes from bestConnToPeer", instrPos(ret), 1, "", "", "")
		}
		// bounded wait
		sels := findInstrs(f, func(in ssa.Instruction) bool { s, ok := in.(*ssa.Select); return ok && s.Blocking })
		okSel := len(sels) == 1
		if okSel {
			sel := sels[0].(*ssa.Select)
			hasDone := false
			for _, st := range sel.States {
				if d := isResultOfCall(st.Chan, 0, "(context.Context).Done"); d != nil {
					ctxv := callArgs(d)[0]
					wt := isResultOfCall(ctxv, 0, "context.WithTimeout")
					if wt != nil && isResultOfCall(wt.Common().Args[1], 0, netP+".GetDialPeerTimeout") != nil && isParamVar(c, wt.Common().Args[0], "ctx") {
						hasDone = true
					}
				}
			}
			okSel = hasDone
		}
		r1.Check(okSel, "waitForDirectConn: blocking select has a <-ctx.Done() arm on WithTimeout(ctx, GetDialPeerTimeout(ctx))", f.Pos(), 1, "", "the wait for a direct connection is unbounded or ignores the caller's context", "")
		// cancellation arm unregisters: returns of ctx.Err() pass a write to directConnNotifs.m
		mapKey := "struct{sync.Mutex; m map[" + Mod + "core/peer.ID][]chan struct{}}.m"
		isNotifWrite0 := func(in ssa.Instruction) bool {
			switch x := in.(type) {
			case *ssa.MapUpdate:
				f, _ := loadOfField(strip2(x.Map))
				return f != nil && f.Name() == "m" && strings.Contains(types.TypeString(x.Map.Type(), nil), "chan struct{}")
			case *ssa.Call:
				// deleting the (emptied) waiter list is a removal too
				if calleeKey(x) == "builtin.delete" && len(x.Call.Args) == 2 {
					f, _ := loadOfField(strip2(x.Call.Args[0]))
					return f != nil && f.Name() == "m" && strings.Contains(types.TypeString(x.Call.Args[0].Type(), nil), "chan struct{}")
				}
			}
			return false
		}
		isNotifWrite := func(in ssa.Instruction) bool { return passesLike(in, isNotifWrite0, 2) }
		_ = mapKey
		for _, ret := range returnsOf(f) {
			if isResultOfCall(retVal(ret, 1), 0, "(context.Context).Err") != nil {
				w, n := (&Cut{Fn: f, From: sels, Target: isInstr(ret), EdgeCut: failCut(ret), Sep: isNotifWrite}).Run(c)
				r1.Check(w == "" && len(sels) == 1, "waitForDirectConn: cancelled waiter removes its channel before returning", instrPos(ret), n+1, "", "a cancelled waiter leaves its channel registered", w)
			}
		}
		// ... and it is its own channel that goes: a removal by predicate (slices.DeleteFunc) deletes exactly the
		// elements equal to the waiter's channel (a "keep" predicate there removes every other waiter, who then sleeps
		// through the direct connection's arrival)
		for _, df := range callsIn(f, "slices.DeleteFunc") {
			a := df.Common().Args
			pred := installedFunc(a[1])
			if pred == nil || pred.Blocks == nil || len(pred.Params) != 1 {
				r1.OK("waitForDirectConn: the removal predicate answers true exactly for the waiter's own channel", instrPos(df.(ssa.Instruction)), 1, "not decided: predicate not resolved")
				continue
			}
			isOwnCh := func(v ssa.Value) bool {
				// (resolved relative to waitForDirectConn: the removal may sit in a helper that is handed the channel)
				r := false
				asRoot(f, func() {
					r = derivesFrom(v, func(x ssa.Value) bool { _, isMk := x.(*ssa.MakeChan); return isMk && x.Parent() == f })
				})
				return r
			}
			eq := func(v ssa.Value) (bool, bool) {
				bo, isB := v.(*ssa.BinOp)
				if !isB || (bo.Op != token.EQL && bo.Op != token.NEQ) {
					return false, false
				}
				x, y := strip(bo.X), strip(bo.Y)
				isArg := func(v ssa.Value) bool { return v == ssa.Value(pred.Params[0]) || isParamCellLoad(c, v, pred.Params[0]) }
				if (isArg(x) && isOwnCh(y)) || (isArg(y) && isOwnCh(x)) {
					return true, bo.Op == token.EQL
				}
				return false, false
			}
			var tab map[int]int
			var okT bool
			asRoot(pred, func() { tab, okT = boolReturnTable(pred, []atomPred{eq}, 0) })
			r1.Check(okT && tab[1] == 2 && tab[0] == 1, "waitForDirectConn: the removal predicate answers true exactly for the waiter's own channel", instrPos(df.(ssa.Instruction)), 2, "",
				"a waiter that gives up removes the other waiters (or nobody): they are never woken when the direct connection arrives, or a stale channel stays registered", fmt.Sprint(tab))
		}
		// atomic check-and-register: no Unlock between the table lookup and the registration
		regs := findInstrs(f, isNotifWrite)
		var firstBest ssa.Instruction
		if bs := callsIn(f, bestK); len(bs) > 0 {
			firstBest = bs[0].(ssa.Instruction)
		}
		// the registration reachable from the entry without passing the select
		var reg ssa.Instruction
		for _, m := range regs {
			w, _ := (&Cut{Fn: f, Target: isInstr(m), Sep: inSet(sels)}).Run(c)
			if w != "" {
				reg = m
			}
		}
		if firstBest == nil || reg == nil {
			r1.Fail("waitForDirectConn: lookup + registration", f.Pos(), "bestConnToPeer call or registration of the wake-up channel not found", "")
		} else {
			lf := computeLockFlow(f, heldSet{})
			held := func(in ssa.Instruction) bool {
				for k := range lf.must[in] {
					if strings.HasSuffix(k, "directConnNotifs.Mutex") {
						return true
					}
				}
				return false
			}
			r1.Check(held(firstBest) && held(reg), "waitForDirectConn: lookup and registration under directConnNotifs lock", instrPos(reg), 2, "", "the connection table is inspected, or the waiter registered, without the notification lock", "")
			bad := ""
			for _, u := range callsIn(f, "(*sync.Mutex).Unlock") {
				ui := u.(ssa.Instruction)
				if _, isDefer := ui.(*ssa.Defer); isDefer {
					continue
				}
				w1, _ := (&Cut{Fn: f, From: []ssa.Instruction{firstBest}, Target: isInstr(ui), Sep: isInstr(reg)}).Run(c)
				w2, _ := (&Cut{Fn: f, From: []ssa.Instruction{ui}, Target: isInstr(reg)}).Run(c)
				if w1 != "" && w2 != "" {
					bad = c.Pos(instrPos(ui))
				}
			}
			r1.Check(bad == "", "waitForDirectConn: no unlock between inspecting the connection table and registering the waiter (lost wake-up)", instrPos(reg), 3, "",
				"a direct connection added between the check and the registration is never signalled to this waiter", "unlock at "+bad)
		}
	}
	// notifier side: addConn closes every registered channel for non-limited conns, after the conn is in the table
	if f := r1.need("(*" + swarmP + ".Swarm).addConn"); f != nil {
		closes := findInstrs(f, func(in ssa.Instruction) bool { return isCallTo(in, "builtin.close") })
		tableAdd := findInstrs(f, func(in ssa.Instruction) bool {
			mu, ok := in.(*ssa.MapUpdate)
			return ok && strings.Contains(types.TypeString(mu.Map.Type(), nil), "swarm.Conn")
		})
		ok := len(closes) >= 1 && len(tableAdd) == 1
		if ok {
			w, _ := (&Cut{Fn: f, Target: inSet(closes), Sep: inSet(tableAdd)}).Run(c)
			ok = w == ""
		}
		r1.Check(ok, "addConn: waiters are woken only after the connection is in the table", f.Pos(), 2, "", "a woken waiter could fail to find the direct connection", "")
	}

	// ---- R2 ---------------------------------------------------------------
	r2 := r.Rule("C12-R2", "E1/E6", 7, "force-direct: only direct connections selected; only non-proxy addresses; worker answers each request with that request's own context")
	if f := r2.need(bestAccK); f != nil {
		var nn []ssa.Instruction
		for _, ret := range returnsOf(f) {
			if !isNilConst(retVal(ret, 0)) {
				nn = append(nn, ret)
			}
		}
		fd := func(v ssa.Value) bool {
			ci := isResultOfCall(v, 0, netP+".GetForceDirectDial")
			return ci != nil && isParamVar(c, ci.Common().Args[0], "ctx")
		}
		direct := func(v ssa.Value) bool { return isResultOfCall(v, 0, swarmP+".isDirectConn") != nil }
		r2.guard(f, "return conn", nn, "!forceDirect || isDirectConn(conn)", anyEdge(edgeBool(fd, false), edgeBool(direct, true)), nil)
		for _, dcall := range callsIn(f, swarmP+".isDirectConn") {
			r2.Check(isResultOfCall(dcall.Common().Args[0], 0, bestK) != nil, "bestAcceptableConnToPeer: isDirectConn applied to the selected conn", instrPos(dcall.(ssa.Instruction)), 1, "", "", "")
		}
	}
	isProxyAns := func(v ssa.Value) (bool, bool) {
		return isResultOfCall(v, 0, "(core/transport.*).Proxy") != nil, true
	}
	if f := r2.need(swarmP + ".isDirectConn"); f != nil {
		// the answer as a function of "c != nil" and "the connection's transport is a proxy", however it is written
		atoms := []atomPred{
			func(v ssa.Value) (bool, bool) {
				x, nilOnTrue, ok := nilCmp(v)
				return ok && isParamVar(c, x, "c"), !nilOnTrue
			},
			isProxyAns,
		}
		tab, okT := boolReturnTable(f, atoms, 0)
		// assignment bits: 0 = c != nil, 1 = proxy
		r2.Check(okT && tab[1] == 2 && tab[0] == 1 && tab[2] == 1 && tab[3] == 1, "isDirectConn: c != nil && !Transport().Proxy()", f.Pos(), 4, "", "a relayed (or missing) connection is taken for a direct one", fmt.Sprint(tab))
		for _, pc := range callsIn(f, "(core/transport.*).Proxy") {
			tr := isResultOfCall(callArgs(pc)[0], 0, "(core/transport.*).Transport", "(core/network.*).Transport")
			r2.Check(tr != nil && derivesFrom(callArgs(tr)[0], func(v ssa.Value) bool { return isParamVar(c, v, "c") }), "isDirectConn: the transport asked is the connection's", instrPos(pc.(ssa.Instruction)), 1, "", "", "")
		}
	}
	if f := r2.need("(*" + swarmP + ".Swarm).addrsForDial"); f != nil {
		fd := func(v ssa.Value) bool { return isResultOfCall(v, 0, netP+".GetForceDirectDial") != nil }
		var rets []ssa.Instruction
		for _, ret := range returnsOf(f) {
			if !isNilConst(retVal(ret, 0)) {
				rets = append(rets, ret)
			}
		}
		isFilter := func(in ssa.Instruction) bool {
			if !isCallTo(in, "github.com/multiformats/go-multiaddr.FilterAddrs") {
				return false
			}
			return derivesFrom(in.(*ssa.Call).Call.Args[1], func(x ssa.Value) bool {
				mc, ok := x.(*ssa.MakeClosure)
				if !ok {
					return false
				}
				fn, _ := mc.Fn.(*ssa.Function)
				return fn != nil && fn.Object() != nil && fn.Object().Name() == "nonProxyAddr"
			})
		}
		q := &Cut{Fn: f, Target: inSet(rets), Sep: isFilter, EdgeCut: edgeBool(fd, false)}
		r2.mustPass(f, "addrsForDial: [force-direct] returned addresses passed FilterAddrs(nonProxyAddr)", q, len(rets))
		// the filter is applied after (on the output of) the gater/known-undialable filter
		for _, ret := range rets {
			_ = ret
		}
	}
	if f := r2.need("(*" + swarmP + ".Swarm).nonProxyAddr"); f != nil {
		tab, okT := boolReturnTable(f, []atomPred{isProxyAns}, 0)
		okRecv := false
		for _, pc := range callsIn(f, "(core/transport.*).Proxy") {
			tf := isResultOfCall(callArgs(pc)[0], 0, "(*"+swarmP+".Swarm).TransportForDialing")
			okRecv = tf != nil && isParamVar(c, callArgs(tf)[1], "addr")
		}
		r2.Check(okT && okRecv && tab[0] == 2 && tab[1] == 1, "nonProxyAddr: !TransportForDialing(addr).Proxy()", f.Pos(), 2, "", "", fmt.Sprint(tab))
	}
	// dial worker: a connection found by bestAcceptableConnToPeer(ctxX) is sent on the resch of the same request
	nPairs := 0
	for _, k := range []string{"(*" + swarmP + ".dialWorker).loop", "(*" + swarmP + ".dialWorker).dispatchError"} {
		f := r2.need(k)
		if f == nil {
			continue
		}
		for _, call := range callsIn(f, bestAccK) {
			cv := call.(ssa.Value)
			ctxPath := pathOf(call.Common().Args[1])
			if !strings.HasSuffix(ctxPath, ".ctx") {
				r2.Fail(k+": bestAcceptableConnToPeer context", instrPos(call.(ssa.Instruction)), "the context is not a request's ctx field", ctxPath)
				continue
			}
			base := strings.TrimSuffix(ctxPath, ".ctx")
			// sends whose payload carries this conn
			for _, snd := range findInstrs(f, func(in ssa.Instruction) bool { _, ok := in.(*ssa.Send); return ok }) {
				s := snd.(*ssa.Send)
				if !derivesFrom(s.X, func(x ssa.Value) bool { return x == cv }) {
					continue
				}
				nPairs++
				chPath := pathOf(s.Chan)
				r2.Check(chPath == base+".resch", k+": conn selected under a request's ctx is answered on that request's resch", instrPos(snd), 1, "",
					"a connection acceptable for one request's context (e.g. a relayed one) is handed to another request (e.g. a force-direct one)", ctxPath+" vs "+chPath)
			}
		}
	}
	if nPairs < 2 {
		r2.Fail("dialWorker: bestAcceptableConnToPeer/answer pairs", token.NoPos, fmt.Sprintf("expected 2 pairs (request arm, last-one check), found %d", nPairs), "")
	}

	// host level: Connect may answer "already connected" without dialing only when the caller did not demand a direct
	// connection (a peer can be Connected over an unlimited relay: connectedness says nothing about directness)
	if f := r2.need("(*p2p/host/basic.BasicHost).Connect"); f != nil {
		dials := findInstrs(f, callPred("(*p2p/host/basic.BasicHost).dialPeer"))
		var shortcuts []ssa.Instruction
		for _, ret := range returnsOf(f) {
			if !isNilConst(retVal(ret, 0)) {
				continue
			}
			if w, _ := (&Cut{Fn: f, Target: isInstr(ret), EdgeCut: failCut(ret), Sep: inSet(dials)}).Run(c); w != "" {
				shortcuts = append(shortcuts, ret) // reachable without dialing
			}
		}
		forceDirect := func(v ssa.Value) bool {
			ci := isResultOfCall(v, 0, netP+".GetForceDirectDial")
			return ci != nil && isParamVar(c, callArgs(ci)[0], "ctx")
		}
		if len(dials) == 0 {
			r2.Fail("BasicHost.Connect: dialPeer", f.Pos(), "not found", "")
		} else if len(shortcuts) > 0 {
			q := &Cut{Fn: f, Target: inSet(shortcuts), Sep: inSet(dials), EdgeCut: edgeBool(forceDirect, false)}
			w, n := q.Run(c)
			r2.Check(w == "", "BasicHost.Connect: returns without dialing only when no direct connection was demanded", f.Pos(), n+1, "", "a force-direct Connect reports success on the strength of an existing relayed connection: hole punching reports success without a direct connection", w)
		} else {
			r2.OK("BasicHost.Connect: returns without dialing only when no direct connection was demanded", f.Pos(), 1, "every success dials")
		}
	}

	// ---- R3 ---------------------------------------------------------------
	r3 := r.Rule("C12-R3", "E1", 4, "connectednessUnlocked: Connected only past an open non-limited connection and always after one; Limited only past a limited one; never NotConnected after one (stated on where the answer is decided: returns and phi edges)")
	if f := r3.need("(*" + swarmP + ".Swarm).connectednessUnlocked"); f != nil {
		connectednessRules(c, r3, f, "")
	}

	// ---- R4 ---------------------------------------------------------------
	r4 := r.Rule("C12-R4", "E3", 2, "ConnStats.Limited = true only in the relay client, under limit != nil")
	cliP := "p2p/protocol/circuitv2/client"
	nW := 0
	for _, f := range c.Fns {
		if f.Pkg == nil || strings.HasSuffix(f.Pkg.Pkg.Path(), controlsPkg) {
			continue
		}
		for _, st := range findInstrsIn(f, fieldWritePred(netP+".Stats.Limited")) {
			v, isC := constBool(st.(*ssa.Store).Val)
			if isC && !v {
				continue
			}
			nW++
			inClient := f.Pkg.Pkg.Path() == Mod+cliP
			key := fnKey(f) + ": ConnStats.Limited = true"
			if !inClient {
				r4.Fail(key, instrPos(st), "a connection is marked limited outside the relay client", "")
				continue
			}
			// decided in the function that holds the relay's message: the writer itself, or — when the translation was
			// moved into a helper since — every pinned function that calls it
			hosts := []*ssa.Function{f}
			if inlinable(f) {
				hosts = nil
				for _, g := range c.Fns {
					if g.Pkg == nil || g.Pkg.Pkg.Path() != Mod+cliP || inlinable(g) {
						continue
					}
					for _, in := range findInstrs(g, isInstr(st)) {
						_ = in
						hosts = append(hosts, g)
					}
				}
			}
			w, n := "", 0
			if len(hosts) == 0 {
				w = "no caller"
			}
			for _, g := range hosts {
				w1, n1 := (&Cut{Fn: g, Target: isInstr(st), EdgeCut: edgeNil(func(v ssa.Value) bool {
					return isFieldOrGetter("p2p/protocol/circuitv2/pb.StopMessage.Limit")(v) || isFieldOrGetter("p2p/protocol/circuitv2/pb.HopMessage.Limit")(v)
				}, false)}).Run(c)
				n += n1
				if w1 != "" {
					w = w1
				}
			}
			r4.Check(w == "", key, instrPos(st), n+1, "under limit != nil", "marked limited without a limit from the relay", w)
			if len(hosts) > 1 {
				nW += len(hosts) - 1
			}
		}
	}
	if nW < 2 {
		r4.Fail("ConnStats.Limited writers", token.NoPos, "expected the two relay-client sites (connect, handleStreamV2)", "")
	}
	// the reverse: with a limit present, the stat handed on is marked
	// (a relayed conn not marked limited would be treated as direct)
	for _, k := range []string{"(*" + cliP + ".Client).connect", "(*" + cliP + ".Client).handleStreamV2"} {
		f := r4.need(k)
		if f == nil {
			continue
		}
		var lim []CFGEdge
		for _, b := range blocksDeep(f) {
			for s := range b.Succs {
				if edgeNil(func(v ssa.Value) bool {
					return isFieldOrGetter("p2p/protocol/circuitv2/pb.StopMessage.Limit")(v) || isFieldOrGetter("p2p/protocol/circuitv2/pb.HopMessage.Limit")(v)
				}, false)(b, s) {
					lim = append(lim, CFGEdge{b, s})
				}
			}
		}
		if len(lim) == 0 {
			r4.Fail(k+": limit != nil branch", f.Pos(), "not found", "")
			continue
		}
		q := &Cut{Fn: f, FromEdges: lim, Sep: fieldWritePred(netP + ".Stats.Limited"), Target: func(in ssa.Instruction) bool {
			switch in.(type) {
			case *ssa.Return, *ssa.Send, *ssa.Select:
				return true
			}
			return false
		}}
		r4.mustPass(f, k+": a circuit with a limit is marked Limited before it is handed on", q, len(lim))
	}

	// ---- R5 ---------------------------------------------------------------
	r5 := r.Rule("C12-R5", "E6/E1", 10, "hole punching: relay addresses removed from wire lists; force-direct dials; allow-limited+no-dial coordination; relayed-only acceptance; success only with a direct connection")
	rmRelay := hpP + ".removeRelayAddrs"
	fromWire := func(v ssa.Value) bool {
		return isResultOfCall(v, 0, hpP+".addrsFromBytes") != nil
	}
	// every use of addrsFromBytes' result is as the argument of removeRelayAddrs
	for _, f := range c.FnsOfPkg(hpP) {
		for _, call := range callsInOnly(f, hpP+".addrsFromBytes") {
			uses := finalUses(call.(ssa.Value))
			ok := len(uses) > 0
			for _, u := range uses {
				if !isCallTo(u, rmRelay) {
					ok = false
				}
			}
			r5.Check(ok, fnKey(f)+": wire-supplied addresses go through removeRelayAddrs", instrPos(call.(ssa.Instruction)), len(uses), "", "addresses parsed from the wire reach the dialer without the relay filter", "")
		}
	}
	_ = fromWire
	if f := r5.need(rmRelay); f != nil {
		ok := false
		for _, call := range callsIn(f, "slices.DeleteFunc") {
			if fn, isF := strip2(call.Common().Args[1]).(*ssa.Function); isF && fnKey(fn) == hpP+".isRelayAddress" {
				ok = true
			}
		}
		if !ok {
			// ... or the filter written out: an address is kept (appended to what is returned) only past
			// !isRelayAddress(that address), and only kept addresses are returned
			apps := findInstrs(f, callPred("builtin.append"))
			isRelay := func(v ssa.Value) bool { return isResultOfCall(v, 0, hpP+".isRelayAddress") != nil }
			okLoop := len(apps) >= 1
			for _, ap := range apps {
				w, _ := (&Cut{Fn: f, Target: isInstr(ap), EdgeCut: edgeBool(isRelay, false)}).Run(c)
				if w != "" {
					okLoop = false
				}
				// the element appended is the one tested
				for _, rc := range callsIn(f, hpP+".isRelayAddress") {
					el := strip(ap.(*ssa.Call).Call.Args[1])
					if sl, isSl := el.(*ssa.Slice); isSl { // append(kept, a) packs a into a one-element slice
						el = strip(sl.X)
					}
					if !derivesFrom(el, func(v ssa.Value) bool { return v == strip(rc.Common().Args[0]) }) && !derivesFrom(ap.(*ssa.Call).Call.Args[1], func(v ssa.Value) bool { return v == strip(rc.Common().Args[0]) }) {
						okLoop = false
					}
				}
			}
			for _, ret := range returnsOf(f) {
				fromAppend := false
				for _, l := range phiLeaves(retVal(ret, 0)) {
					if isResultOfCall(strip(l), 0, "builtin.append") != nil {
						fromAppend = true
					} else if sl, isSl := strip(l).(*ssa.Slice); isSl {
						// the empty prefix addrs[:0] the kept addresses are appended to
						if k, isC := constInt(sl.High); !(isC && k == 0) {
							okLoop = false
						}
					} else {
						okLoop = false
					}
				}
				if !fromAppend {
					okLoop = false
				}
			}
			ok = okLoop
		}
		r5.Check(ok, "removeRelayAddrs: DeleteFunc(addrs, isRelayAddress)", f.Pos(), 1, "", "", "")
	}
	if f := r5.need(hpP + ".isRelayAddress"); f != nil {
		circuit := constIntObj(c, "github.com/multiformats/go-multiaddr", "P_CIRCUIT")
		ok := false
		for _, call := range callsIn(f, "(github.com/multiformats/go-multiaddr.Multiaddr).ValueForProtocol") {
			if n, isC := constInt(callArgs(call)[1]); isC && n == circuit {
				ok = true
			}
		}
		r5.Check(ok, "isRelayAddress: tests for P_CIRCUIT", f.Pos(), 1, "", "", "")
	}
	if f := r5.need(hpP + ".holePunchConnect"); f != nil {
		for _, call := range callsIn(f, "(core/host.Host).Connect") {
			r5.Check(derivesFrom(callArgs(call)[1], isCallResult(0, netP+".WithForceDirectDial"), "context.WithTimeout"), "holePunchConnect: Connect under WithForceDirectDial", instrPos(call.(ssa.Instruction)), 1, "", "the hole punch could be satisfied by the existing relayed connection", "")
			r5.Check(isParamVar(c, callArgs(call)[2], "pi"), "holePunchConnect: Connect(pi) with exactly the addresses given", instrPos(call.(ssa.Instruction)), 1, "", "", "")
		}
		rets := successReturns(f)
		r5.guard(f, "return nil", rets, "Connect()==nil", edgeNil(isCallResult(0, "(core/host.Host).Connect"), true), nil)
	}
	if f := r5.need("(*" + hpP + ".holePuncher).directConnect"); f != nil {
		rets := successReturns(f)
		direct := edgeNil(isCallResult(0, hpP+".getDirectConnection"), false)
		connOK := edgeNil(func(v ssa.Value) bool {
			ci := isResultOfCall(v, 0, "(core/host.Host).Connect")
			return ci != nil && derivesFrom(callArgs(ci)[1], isCallResult(0, netP+".WithForceDirectDial"), "context.WithTimeout")
		}, true)
		hpOK := edgeNil(isCallResult(0, hpP+".holePunchConnect"), true)
		r5.guard(f, "return nil", rets, "direct conn exists || force-direct Connect()==nil || holePunchConnect()==nil", anyEdge(direct, connOK, hpOK), nil)
		// addresses given to holePunchConnect come from initiateHolePunch (filtered)
		for _, call := range callsIn(f, hpP+".holePunchConnect") {
			r5.Check(derivesFrom(call.Common().Args[2], isCallResult(0, "(*"+hpP+".holePuncher).initiateHolePunch")), "directConnect: hole punch dials the addresses returned by initiateHolePunch", instrPos(call.(ssa.Instruction)), 1, "", "", "")
		}
	}
	if f := r5.need("(*" + hpP + ".holePuncher).initiateHolePunch"); f != nil {
		for _, call := range callsIn(f, "(core/host.Host).NewStream") {
			a := callArgs(call)[1]
			r5.Check(derivesFrom(a, isCallResult(0, netP+".WithAllowLimitedConn"), netP+".WithNoDial") && derivesFrom(a, isCallResult(0, netP+".WithNoDial")),
				"initiateHolePunch: coordination stream under WithAllowLimitedConn + WithNoDial", instrPos(call.(ssa.Instruction)), 1, "", "coordination must use the existing relayed connection and never dial", "")
		}
	}
	if f := r5.need("(*" + hpP + ".holePuncher).initiateHolePunchImpl"); f != nil {
		// the addresses returned (result 0) derive from removeRelayAddrs
		for _, ret := range successReturns(f) {
			r5.Check(derivesFrom(ret.(*ssa.Return).Results[0], isCallResult(0, rmRelay), "("+hpP+".AddrFilter).FilterRemote"), "initiateHolePunchImpl: returned remote addresses are relay-filtered", instrPos(ret), 1, "", "", "")
		}
	}
	if f := r5.need("(*" + hpP + ".Service).incomingHolePunch"); f != nil {
		rets := successReturns(f)
		relayed := func(v ssa.Value) bool {
			ci := isResultOfCall(v, 0, hpP+".isRelayAddress")
			return ci != nil && isResultOfCall(ci.Common().Args[0], 0, "(core/network.*).RemoteMultiaddr") != nil
		}
		r5.guard(f, "return success", rets, "isRelayAddress(str.Conn().RemoteMultiaddr())", edgeBool(relayed, true), nil)
		for _, ret := range rets {
			r5.Check(derivesFrom(ret.(*ssa.Return).Results[1], isCallResult(0, rmRelay), "("+hpP+".AddrFilter).FilterRemote"), "incomingHolePunch: returned remote addresses are relay-filtered", instrPos(ret), 1, "", "", "")
		}
	}
	if f := r5.need("(*" + hpP + ".Service).handleNewStream"); f != nil {
		for _, call := range callsIn(f, hpP+".holePunchConnect") {
			r5.Check(derivesFrom(call.Common().Args[2], isCallResult(1, "(*"+hpP+".Service).incomingHolePunch")), "handleNewStream: dials the addresses returned by incomingHolePunch", instrPos(call.(ssa.Instruction)), 1, "", "", "")
			r5.guard(f, "holePunchConnect", []ssa.Instruction{call.(ssa.Instruction)}, "incomingHolePunch err==nil", edgeNil(isCallResult(3, "(*"+hpP+".Service).incomingHolePunch"), true), nil)
		}
	}
	if f := r5.need(hpP + ".getDirectConnection"); f != nil {
		var nn []ssa.Instruction
		for _, ret := range returnsOf(f) {
			if !isNilConst(retVal(ret, 0)) {
				nn = append(nn, ret)
			}
		}
		isRelayTest := func(v ssa.Value) bool {
			ci := isResultOfCall(v, 0, hpP+".isRelayAddress")
			return ci != nil && isResultOfCall(ci.Common().Args[0], 0, "(core/network.ConnMultiaddrs).RemoteMultiaddr", "(core/network.*).RemoteMultiaddr") != nil
		}
		for _, ret := range nn {
			// the connection returned: the loop variable past the test, or conns[i] with i found by a predicate that
			// implies the test
			handled := false
			if ld, ok := strip2(retVal(ret.(*ssa.Return), 0)).(*ssa.UnOp); ok && ld.Op == token.MUL {
				if ia, ok := ld.X.(*ssa.IndexAddr); ok {
					if ic, ok := strip2(ia.Index).(*ssa.Call); ok && strings.HasPrefix(calleeKey(ic), "slices.IndexFunc") && (strip(ic.Call.Args[0]) == strip(ia.X) || sameExpr(ic.Call.Args[0], ia.X, 0)) {
						handled = true
						mc, isMC := strip2(ic.Call.Args[1]).(*ssa.MakeClosure)
						var g *ssa.Function
						th := identity
						if isMC {
							g, _ = mc.Fn.(*ssa.Function)
							th = throughClosure(mc)
						} else if fn, isFn := strip2(ic.Call.Args[1]).(*ssa.Function); isFn {
							g = fn
						}
						okPred := false
						if g != nil && g.Blocks != nil {
							cj := conjunct{name: "!isRelayAddress(c.RemoteMultiaddr())", cond: func(func(ssa.Value) ssa.Value) condPred {
								return func(v ssa.Value) (bool, bool) { return isRelayTest(v), false }
							}}
							okPred = len(answerGuardedBy(c, g, th, []conjunct{cj}, true)) == 0
						}
						r5.Check(okPred, fnKey(f)+": the index searched is that of a connection whose remote address is not a relay address", instrPos(ret), 2, "", "a relayed connection is taken for a direct one: hole punching reports success without a direct connection", "")
						r5.guard(f, "return conns[i]", []ssa.Instruction{ret}, "i >= 0", edgeExcl(func(v ssa.Value) bool { return v == ssa.Value(ic) }, func(v ssa.Value) bool { k, ok := constInt(v); return ok && k == 0 }, ordLT), nil)
					}
				}
			}
			if !handled {
				r5.guard(f, "return conn", []ssa.Instruction{ret}, "!isRelayAddress(c.RemoteMultiaddr())", edgeBool(isRelayTest, false), nil)
			}
		}
		r5.Check(len(nn) >= 1, fnKey(f)+": returns a connection", f.Pos(), len(nn), "", "", "")
	}

	// ---- R6 ---------------------------------------------------------------
	r6 := r.Rule("C12-R6", "E5", 6, "context option keys: each With*/Get* pair uses the same key objects, pairs are disjoint, Get answers true only on a present value")
	pairs := [][2]string{
		{"WithForceDirectDial", "GetForceDirectDial"}, {"WithSimultaneousConnect", "GetSimultaneousConnect"}, {"WithNoDial", "GetNoDial"},
		{"WithDialPeerTimeout", "GetDialPeerTimeout"}, {"WithAllowLimitedConn", "GetAllowLimitedConn"}, {"WithUseTransient", "GetUseTransient"},
	}
	keysOf := func(fn *ssa.Function, callee string, argIdx int) []string {
		m := map[string]bool{}
		for _, call := range callsIn(fn, callee) {
			m[ctxKeyDesc(callArgs(call)[argIdx])] = true
		}
		// a deprecated alias may simply hand its arguments to the option it stands for: that option's keys
		for _, p := range pairs {
			for _, sib := range p {
				if g := c.Fn(netP + "." + sib); g != nil && g != fn {
					for range callsIn(fn, netP+"."+sib) {
						for _, call := range callsIn(g, callee) {
							m[ctxKeyDesc(callArgs(call)[argIdx])] = true
						}
					}
				}
			}
		}
		var out []string
		for k := range m {
			out = append(out, k)
		}
		sort.Strings(out)
		return out
	}
	all := map[string]string{}
	for _, p := range pairs {
		wf, gf := r6.need(netP+"."+p[0]), r6.need(netP+"."+p[1])
		if wf == nil || gf == nil {
			continue
		}
		wk := keysOf(wf, "context.WithValue", 1)
		gk := keysOf(gf, "(context.Context).Value", 1)
		r6.Check(len(wk) > 0 && strings.Join(wk, ",") == strings.Join(gk, ",") && !strings.Contains(strings.Join(wk, ","), "?"), p[0]+" ↔ "+p[1]+": same context keys", wf.Pos(), len(wk)+len(gk), strings.Join(wk, ","),
			"the option set by "+p[0]+" is not the one "+p[1]+" reads", strings.Join(wk, ",")+" vs "+strings.Join(gk, ","))
		for _, k := range wk {
			if prev, ok := all[k]; ok && !(strings.Contains(prev, "AllowLimited") && strings.Contains(p[0], "UseTransient")) {
				r6.Fail(p[0]+": key shared with "+prev, wf.Pos(), "two different options use the same context key", k)
			} else if !ok {
				all[k] = p[0]
			}
		}
		// Get answers true only when a value is present
		if p[1] != "GetDialPeerTimeout" {
			var trueRets []ssa.Instruction
			for _, ret := range returnsOf(gf) {
				if b, ok := constBool(retVal(ret, 0)); ok && b {
					trueRets = append(trueRets, ret)
				}
			}
			r6.guard(gf, "return true", trueRets, "ctx.Value(key) != nil", edgeNil(isCallResult(0, "(context.Context).Value"), false), nil)
		}
	}

	// ---- R7 ---------------------------------------------------------------
	r7 := r.Rule("C12-R7", "E4", 6, "directConnNotifs.m only under its mutex")
	lockRule(c, r7, lockSpec{Pkg: swarmP, Type: "Swarm", Mutex: "directConnNotifs.Mutex", Guarded: []string{"directConnNotifs.m"},
		Exempt: map[string]string{swarmP + ".NewSwarm": "constructor"}})

	// ---- R8 ---------------------------------------------------------------
	r8 := r.Rule("C12-R8", "E7b", 2, "choice among connections: isBetterConn(a, b) answers true when only b is limited and false when only a is; among equally limited ones true when only a is direct and false when only b is")
	if f := r8.need(swarmP + ".isBetterConn"); f != nil && len(f.Params) == 2 {
		isParamK := func(v ssa.Value, k int) bool {
			v = resolveLoad(strip2(v))
			return v == ssa.Value(f.Params[k]) || isParamCellLoad(c, v, f.Params[k])
		}
		limitedOf := func(k int) atomPred {
			return func(v ssa.Value) (bool, bool) {
				v = resolveLoad(strip2(v))
				fv, ok := v.(*ssa.Field)
				if !ok {
					fl, base := loadOfField(v)
					if fl == nil || fl.Name() != "Limited" {
						return false, false
					}
					ci := isResultOfCall(resolveLoad(strip2(base)), 0, "(*"+swarmP+".Conn).Stat")
					return ci != nil && isParamK(callArgs(ci)[0], k), true
				}
				st, isSt := fv.X.Type().Underlying().(*types.Struct)
				if !isSt || st.Field(fv.Field).Name() != "Limited" {
					return false, false
				}
				x := resolveLoad(strip2(fv.X))
				if f2, isF := x.(*ssa.Field); isF { // ConnStats embeds Stats
					x = resolveLoad(strip2(f2.X))
				}
				ci := isResultOfCall(x, 0, "(*"+swarmP+".Conn).Stat")
				return ci != nil && isParamK(callArgs(ci)[0], k), true
			}
		}
		directOf := func(k int) atomPred {
			return func(v ssa.Value) (bool, bool) {
				ci := isResultOfCall(resolveLoad(strip2(v)), 0, swarmP+".isDirectConn")
				return ci != nil && isParamK(ci.Common().Args[0], k), true
			}
		}
		tab, okT := boolReturnTable(f, []atomPred{limitedOf(0), limitedOf(1), directOf(0), directOf(1)}, 0)
		if !okT || len(tab) == 0 {
			r8.OK("isBetterConn: limited and direct decide before anything else", f.Pos(), 1, "not decided: the answer is not a function of a.Stat().Limited, b.Stat().Limited, isDirectConn(a), isDirectConn(b) in a recognised form")
		} else {
			bad := ""
			for a := 0; a < 16; a++ {
				got, seen := tab[a]
				if !seen {
					continue
				}
				aL, bL, aD, bD := a&1 != 0, a&2 != 0, a&4 != 0, a&8 != 0
				want := 3
				switch {
				case aL != bL:
					want = 2
					if aL {
						want = 1
					}
				case aD != bD:
					want = 1
					if aD {
						want = 2
					}
				}
				if want != 3 && got != want && bad == "" {
					bad = fmt.Sprintf("a limited=%v direct=%v, b limited=%v direct=%v: the answer can be %s", aL, aD, bL, bD, []string{"", "false", "true", "false or true"}[got])
				}
			}
			r8.Check(bad == "", "isBetterConn: an unlimited connection beats a limited one, then a direct one beats a proxied one", f.Pos(), len(tab), "", "a stream that must not use a limited connection is handed the relayed one although a direct one exists (or Connectedness says Limited)", bad)
		}
	}
}
