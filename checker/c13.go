package main

import (
	"fmt"
	"go/token"
	"strings"

	"golang.org/x/tools/go/ssa"
)

func init() {
	register("C13", checkC13,
		"Decides structurally for the identify service: (R1) every peerstore write and every identification event in the package is keyed by RemotePeer() of the connection the message / notification arrived on; (R2) addresses of a signed record are used only past `key-derived ID == remote peer` and `record.PeerID == remote peer`, the envelope is consumed under the peer-record domain, and the address list written derives only from the validated record or the message's own listen addresses, filtered by the connection's remote address; "+
			"(R3) a received public key is stored only past `IDFromPublicKey(key) == remote peer`; (R4) the protocol list and the address lists written are bounded by the package caps on every path (bound analysis), the reader and the message loop are bounded; (R5) addrMu is held from the Connectedness read to the last TTL rewrite in both the identify and the disconnect path, the connected TTL is chosen only on the connected/limited edges, and the last-disconnect path rewrites ConnectedAddrTTL to a finite TTL; "+
			"(R6) the identify-wait channel is closed by a deferred close at the top of the worker goroutine, the closed-connection path returns a closed channel, the conns table is under connsMu and the entry is deleted on disconnect; (R7) the outbound identify stream gets its deadline before the first blocking negotiation step.",
		"the message space and chunk merging, validity of envelope signatures (record package), races between identify and disconnect beyond the critical sections, that the timeout actually fires")
}

func checkC13(c *Ctx, r *Report) {
	idP := "p2p/protocol/identify"
	ids := func(n string) string { return "(*" + idP + ".idService)." + n }
	nn := func(n string) string { return "(*" + idP + ".netNotifiee)." + n }
	isRet := func(in ssa.Instruction) bool { _, ok := in.(*ssa.Return); return ok }

	// the remote peer of the function's connection parameter
	isRemotePeerOf := func(f *ssa.Function, connParam string) func(ssa.Value) bool {
		return func(v ssa.Value) bool {
			v = strip(v)
			if p, ok := v.(*ssa.Parameter); ok && connParam == "" {
				_ = p
				return false
			}
			ci := isResultOfCall(v, 0, "(core/network.*).RemotePeer")
			if ci == nil {
				return false
			}
			return isParamVar(c, callArgs(ci)[0], connParam)
		}
	}
	mutators := []string{"SetProtocols", "AddProtocols", "RemoveProtocols", "AddAddr", "AddAddrs", "SetAddr", "SetAddrs", "UpdateAddrs", "ClearAddrs", "Put", "AddPubKey", "AddPrivKey", "ConsumePeerRecord", "RemovePeer"}
	isMutator := func(in ssa.Instruction) bool {
		ci, ok := in.(ssa.CallInstruction)
		if !ok || !ci.Common().IsInvoke() {
			return false
		}
		k := calleeKey(ci)
		if !strings.HasPrefix(k, "(core/peerstore.") {
			return false
		}
		return calleeNameIs(in, mutators...)
	}

	// ---- R1 ---------------------------------------------------------------
	r1 := r.Rule("C13-R1", "E6", 14, "every peerstore write / identification event in package identify is keyed by RemotePeer() of the connection the message or notification arrived on")
	connParamOf := map[string]string{
		ids("consumeMessage"): "c", ids("consumeReceivedPubKey"): "c", nn("Disconnected"): "c",
	}
	nMut := 0
	for _, f := range c.FnsOfPkg(idP) {
		for _, in := range findInstrsIn(f, isMutator) {
			nMut++
			root := c.Root(f)
			cp, known := connParamOf[fnKey(root)]
			key := fmt.Sprintf("%s: %s peer argument", fnKey(f), calleeShort(in.(ssa.CallInstruction)))
			if !known {
				r1.Fail(key, instrPos(in), "peerstore write in a function that is not one of the three consumers of a connection's identity (consumeMessage, consumeReceivedPubKey, Disconnected)", "")
				continue
			}
			peerArg := callArgs(in.(ssa.CallInstruction))[1]
			if cc := in.(ssa.CallInstruction).Common(); cc.IsInvoke() && fnKeyHasConsume(cc) {
				// ConsumePeerRecord(envelope, ttl) has no peer argument: not used by identify today
				r1.Fail(key, instrPos(in), "ConsumePeerRecord attributes by the record's own peer ID", "")
				continue
			}
			r1.Check(isRemotePeerOf(root, cp)(peerArg), key, instrPos(in), 1, "", "what a message carries is recorded under a peer other than the authenticated remote peer of the connection", describeVal(peerArg))
		}
	}
	_ = nMut
	// events
	for _, ev := range []struct{ fn, typ string }{
		{ids("consumeMessage"), "core/event.EvtPeerIdentificationCompleted"},
		{ids("consumeMessage"), "core/event.EvtPeerProtocolsUpdated"},
	} {
		f := r1.need(ev.fn)
		if f == nil {
			continue
		}
		stores := findInstrs(f, fieldWritePred(ev.typ+".Peer"))
		ok := len(stores) >= 1
		for _, st := range stores {
			if !isRemotePeerOf(f, "c")(st.(*ssa.Store).Val) {
				ok = false
			}
		}
		r1.Check(ok, ev.fn+": "+ev.typ+".Peer is the connection's remote peer", f.Pos(), len(stores), "", "", "")
	}
	// the connection handed to consumeMessage is the stream's own connection
	if f := r1.need(ids("handleIdentifyResponse")); f != nil {
		calls := callsIn(f, ids("consumeMessage"))
		ok := len(calls) == 1
		if ok {
			ci := isResultOfCall(strip(callArgs(calls[0])[2]), 0, "(core/network.*).Conn")
			ok = ci != nil && isParamVar(c, callArgs(ci)[0], "s")
		}
		r1.Check(ok, ids("handleIdentifyResponse")+": consumeMessage(mes, s.Conn(), ..)", f.Pos(), 1, "", "a message is consumed on behalf of a connection other than the one it arrived on", "")
	}
	if f := r1.need(ids("consumeMessage")); f != nil {
		calls := callsIn(f, ids("consumeSignedPeerRecord"))
		ok := len(calls) == 1 && isRemotePeerOf(f, "c")(callArgs(calls[0])[1])
		r1.Check(ok, ids("consumeMessage")+": consumeSignedPeerRecord(c.RemotePeer(), ..)", f.Pos(), 1, "", "the signed record is validated against a peer other than the connection's", "")
		calls = callsIn(f, ids("consumeReceivedPubKey"))
		ok = len(calls) == 1 && isParamVar(c, callArgs(calls[0])[1], "c")
		r1.Check(ok, ids("consumeMessage")+": consumeReceivedPubKey(c, ..)", f.Pos(), 1, "", "", "")
	}

	// ---- R2 ---------------------------------------------------------------
	r2 := r.Rule("C13-R2", "E1/E6", 5, "signed record: addresses used only past key-ID == p and rec.PeerID == p; peer-record domain; written addresses come only from the validated record or the unsigned listen addrs")
	if f := r2.need(ids("consumeSignedPeerRecord")); f != nil {
		var rets []ssa.Instruction
		for _, ret := range returnsOf(f) {
			if !isNilConst(retVal(ret, 0)) {
				rets = append(rets, ret)
			}
		}
		isP := func(v ssa.Value) bool { return isParamVar(c, v, "p") }
		keyID := func(v ssa.Value) bool {
			ci := isResultOfCall(strip(v), 0, "core/peer.IDFromPublicKey")
			return ci != nil && isLoadOfField("core/record.Envelope.PublicKey")(strip(callArgs(ci)[0]))
		}
		recID := func(v ssa.Value) bool {
			if !isLoadOfField("core/peer.PeerRecord.PeerID")(strip(v)) {
				return false
			}
			return true
		}
		r2.guard(f, "return addrs", rets, "IDFromPublicKey(env.PublicKey) == p", eqEdge(keyID, isP, true), nil)
		r2.guard(f, "return addrs", rets, "rec.PeerID == p", eqEdge(recID, isP, true), nil)
		// the returned addresses and the checked PeerID belong to the record obtained from the envelope
		ok := len(rets) > 0
		for _, ret := range rets {
			v := retVal(ret.(*ssa.Return), 0)
			fl, base := loadOfField(strip(v))
			if fl == nil || fieldKeyOf(base, fl) != "core/peer.PeerRecord.Addrs" || !derivesFrom(base, isCallResult(0, "(*core/record.Envelope).Record")) {
				ok = false
			}
		}
		r2.Check(ok, ids("consumeSignedPeerRecord")+": returns rec.Addrs of the envelope's own record", f.Pos(), 1, "", "", "")
	}
	if f := r2.need(idP + ".signedPeerRecordFromMessage"); f != nil {
		calls := callsIn(f, "core/record.ConsumeEnvelope")
		ok := len(calls) == 1
		if ok {
			a := callArgs(calls[0])
			d, isC := constString(a[1])
			ok = isC && d == constStrObj(c, "core/peer", "PeerRecordEnvelopeDomain") && isFieldOrGetter(idP+"/pb.Identify.SignedPeerRecord")(strip(a[0]))
		}
		r2.Check(ok, idP+".signedPeerRecordFromMessage: ConsumeEnvelope(msg.SignedPeerRecord, PeerRecordEnvelopeDomain)", f.Pos(), 1, "", "an envelope signed for another purpose (domain) is accepted as a peer record", "")
	}
	var addAddrsCM ssa.CallInstruction
	if f := r2.need(ids("consumeMessage")); f != nil {
		for _, call := range callsIn(f, "(core/peerstore.*).AddAddrs") {
			addAddrsCM = call
		}
		if addAddrsCM == nil {
			r2.Fail(ids("consumeMessage")+": AddAddrs", f.Pos(), "not found", "")
		} else {
			arg := callArgs(addAddrsCM)[2]
			// through the cap and filterAddrs
			filt := derivesThroughCall(arg, idP+".filterAddrs")
			ok := filt != nil
			if ok {
				ok = isResultOfCall(callArgs(filt)[1], 0, "(core/network.*).RemoteMultiaddr") != nil
				for _, l := range phiLeaves(strip(callArgs(filt)[0])) {
					l = strip(l)
					switch {
					case isNilConst(l):
					case isMakeSlice(l):
					case isResultOfCall(l, 0, ids("consumeSignedPeerRecord")) != nil:
					case derivesFrom(l, func(v ssa.Value) bool {
						ci := isResultOfCall(v, 0, "github.com/multiformats/go-multiaddr.NewMultiaddrBytes")
						return ci != nil
					}) && !derivesFrom(l, isCallResult(0, "(core/network.*).RemoteMultiaddr")):
					default:
						ok = false
					}
				}
			}
			r2.Check(ok, ids("consumeMessage")+": addresses written = filterAddrs(validated record addrs | message listen addrs, c.RemoteMultiaddr())", instrPos(addAddrsCM.(ssa.Instruction)), 2, "", "addresses from an unvalidated source (or unfiltered by the remote address class) are recorded for the peer", "")
			// the signed record's addresses are used only when consumeSignedPeerRecord returned no error
			for _, call := range callsIn(f, ids("consumeSignedPeerRecord")) {
				if filt == nil {
					break
				}
				res := call.(ssa.Value)
				var phi *ssa.Phi
				if p, isPhi := strip(callArgs(filt)[0]).(*ssa.Phi); isPhi {
					phi = p
				}
				if phi == nil {
					r2.Fail(ids("consumeMessage")+": signed addrs only when validation succeeded", instrPos(call.(ssa.Instruction)), "address selection phi not found", "")
					continue
				}
				es := phiEdgesWhere(phi, func(v ssa.Value) bool { ci, i := resultOf(strip(v)); return ci == call && i == 0 })
				w, n := (&Cut{Fn: f, TargetEdge: edgeSet(es), EdgeCut: edgeNil(func(v ssa.Value) bool { ci, i := resultOf(v); return ci == call && i == 1 }, true)}).Run(c)
				_ = res
				r2.Check(len(es) > 0 && w == "", ids("consumeMessage")+": signed addrs only when validation succeeded", instrPos(call.(ssa.Instruction)), n+1, "", "addresses of a record that failed validation are recorded", w)
			}
		}
	}

	// the record handed out with the identification event: a record that consumeSignedPeerRecord refused (foreign key,
	// foreign PeerID, not a peer record) does not travel on in EvtPeerIdentificationCompleted.SignedPeerRecord
	if f := c.Fn(ids("consumeMessage")); f != nil {
		stores := findInstrs(f, func(in ssa.Instruction) bool {
			_, ok := in.(*ssa.Store)
			return ok && isFieldWrite(in, "core/event.EvtPeerIdentificationCompleted.SignedPeerRecord")
		})
		for _, call := range callsIn(f, ids("consumeSignedPeerRecord")) {
			refused := edgeNil(func(v ssa.Value) bool { ci, i := resultOf(v); return ci == call && i == 1 }, false)
			var failEdges []CFGEdge
			for _, b := range blocksDeep(f) {
				for sx := range b.Succs {
					if refused(b, sx) {
						failEdges = append(failEdges, CFGEdge{b, sx})
					}
				}
			}
			for _, st := range stores {
				key := ids("consumeMessage") + ": a refused signed record is not handed out with the identification event"
				v := strip(st.(*ssa.Store).Val)
				if isNilConst(v) {
					r2.OK(key, instrPos(st), 1, "the event carries no record")
					continue
				}
				if len(failEdges) == 0 {
					r2.OK(key, instrPos(st), 1, "not decided: the refusal is not tested in this function")
					continue
				}
				var w string
				var n int
				if phi, isPhi := v.(*ssa.Phi); isPhi {
					es := phiEdgesWhere(phi, func(v ssa.Value) bool { return !isNilConst(strip(v)) })
					isE := edgeSet(es)
					for _, fe := range failEdges {
						if isE(fe.B, fe.Succ) {
							w = "the refusal edge itself carries the record on"
						}
					}
					if w == "" {
						w, n = (&Cut{Fn: f, FromEdges: failEdges, TargetEdge: isE}).Run(c)
					}
				} else {
					w, n = (&Cut{Fn: f, FromEdges: failEdges, Target: isInstr(st)}).Run(c)
				}
				r2.Check(w == "", key, instrPos(st), n+1, "", "a record signed by (or naming) another peer is published as this peer's", w)
			}
		}
	}

	// ---- R3 ---------------------------------------------------------------
	r3 := r.Rule("C13-R3", "E1", 2, "a received public key is stored only past IDFromPublicKey(key) == remote peer (or when the connection has no authenticated peer)")
	if f := r3.need(ids("consumeReceivedPubKey")); f != nil {
		isRP := isRemotePeerOf(f, "c")
		newKey := func(v ssa.Value) bool {
			ci := isResultOfCall(strip(v), 0, "core/crypto.UnmarshalPublicKey")
			return ci != nil && isParamVar(c, callArgs(ci)[0], "kb")
		}
		np := func(v ssa.Value) bool {
			ci := isResultOfCall(strip(v), 0, "core/peer.IDFromPublicKey")
			return ci != nil && newKey(callArgs(ci)[0])
		}
		emptyRP := eqEdge(isRP, func(v ssa.Value) bool { s, ok := constString(v); return ok && s == "" }, true)
		adds := findInstrs(f, func(in ssa.Instruction) bool { return isMutator(in) && calleeNameIs(in, "AddPubKey") })
		r3.guard(f, "AddPubKey", adds, "IDFromPublicKey(newKey) == rp  (or rp == \"\")", anyEdge(eqEdge(np, isRP, true), emptyRP), nil)
		ok := len(adds) > 0
		for _, a := range adds {
			if !newKey(callArgs(a.(ssa.CallInstruction))[2]) {
				ok = false
			}
		}
		r3.Check(ok, ids("consumeReceivedPubKey")+": the stored key is the key that was checked", f.Pos(), len(adds), "", "", "")
	}

	// ---- R4 ---------------------------------------------------------------
	r4 := r.Rule("C13-R4", "E7c", 5, "caps: protocol list <= maxPeerProtocols, address lists <= connectedPeerMaxAddrs / recentlyConnectedPeerMaxAddrs at the write; bounded reader and message loop")
	capCheck := func(fnK, callee string, argIdx int, capName string) {
		f := r4.need(fnK)
		if f == nil {
			return
		}
		C := constIntObj(c, idP, capName)
		calls := callsIn(f, callee)
		if len(calls) == 0 || C < 0 {
			r4.Fail(fnK+": "+callee+" bounded by "+capName, f.Pos(), "call or constant not found", "")
			return
		}
		for _, call := range calls {
			w, n := sliceBoundedAt(c, f, call.(ssa.Instruction), callArgs(call)[argIdx], C)
			r4.Check(w == "", fmt.Sprintf("%s: len(arg) of %s <= %s", fnK, calleeShort(call), capName), instrPos(call.(ssa.Instruction)), n+1, "", "a peer can make us retain an unbounded number of entries", w)
		}
	}
	capCheck(ids("consumeMessage"), "(core/peerstore.*).SetProtocols", 2, "maxPeerProtocols")
	capCheck(ids("consumeMessage"), "(core/peerstore.*).AddAddrs", 2, "connectedPeerMaxAddrs")
	capCheck(nn("Disconnected"), "(core/peerstore.*).AddAddrs", 2, "recentlyConnectedPeerMaxAddrs")
	if f := r4.need(ids("handleIdentifyResponse")); f != nil {
		ok := false
		for _, call := range callsIn(f, "github.com/libp2p/go-msgio/pbio.NewDelimitedReader") {
			k, isC := constInt(callArgs(call)[1])
			ok = isC && k == constIntObj(c, idP, "signedIDSize")
		}
		r4.Check(ok, ids("handleIdentifyResponse")+": reader bounded by signedIDSize", f.Pos(), 1, "", "", "")
	}
	if f := r4.need(idP + ".readAllIDMessages"); f != nil {
		// the ReadMsg call sits in a loop whose trip count is the constant maxMessages
		reads := findInstrs(f, func(in ssa.Instruction) bool { return calleeNameIs(in, "ReadMsg") })
		ok := len(reads) == 1
		if ok {
			ok = false
			for _, b := range blocksDeep(f) {
				ifi := ifOf(b)
				if ifi == nil {
					continue
				}
				if K, isC := constOperand(ifi.Cond); isC && K == constIntObj(c, idP, "maxMessages") && blockReaches(reads[0].Block(), b) && blockReaches(b, reads[0].Block()) {
					ok = true
				}
			}
		}
		r4.Check(ok, idP+".readAllIDMessages: at most maxMessages parts are merged", f.Pos(), 1, "", "", "")
	}

	// ---- R5 ---------------------------------------------------------------
	r5 := r.Rule("C13-R5", "E4/E1", 8, "addrMu held from the Connectedness read to the last TTL rewrite (identify and disconnect paths); connected TTL only on connected/limited edges; last disconnect rewrites ConnectedAddrTTL to a finite TTL")
	isAddrOp := func(in ssa.Instruction) bool {
		return (isMutator(in) && calleeNameIs(in, "UpdateAddrs", "AddAddrs", "SetAddrs", "AddAddr", "SetAddr")) || isCallTo(in, "(core/network.*).Connectedness")
	}
	connTTL := constIntObj(c, "core/peerstore", "ConnectedAddrTTL")
	// ttlIs: v is the named TTL of core/peerstore (a constant, or a load of the package variable)
	ttlIs := func(v ssa.Value, name string) bool {
		if k, isC := constInt(v); isC {
			return k == constIntObj(c, "core/peerstore", name)
		}
		if u, ok := strip2(v).(*ssa.UnOp); ok && u.Op == token.MUL {
			if g, isG := u.X.(*ssa.Global); isG {
				return g.Name() == name && g.Pkg.Pkg.Path() == Mod+"core/peerstore"
			}
		}
		return false
	}
	finiteTTL := func(v ssa.Value) bool {
		if k, isC := constInt(v); isC {
			return k > 0 && k < connTTL
		}
		for _, n := range []string{"TempAddrTTL", "RecentlyConnectedAddrTTL", "AddressTTL", "OwnObservedAddrTTL"} {
			if ttlIs(v, n) {
				return true
			}
		}
		return false
	}
	isConnectedState := func(v ssa.Value) bool {
		k, ok := constInt(v)
		return ok && (k == constIntObj(c, "core/network", "Connected") || k == constIntObj(c, "core/network", "Limited"))
	}
	for _, fnK := range []string{ids("consumeMessage"), nn("Disconnected")} {
		f := r5.need(fnK)
		if f == nil {
			continue
		}
		lf := computeLockFlow(f, heldSet{})
		ops := findInstrs(f, isAddrOp)
		if len(ops) < 4 {
			r5.Fail(fnK+": address operations", f.Pos(), "expected the Connectedness read and at least three peerstore address writes", "")
			continue
		}
		for i, in := range ops {
			held := false
			for k := range lf.must[in] {
				if strings.HasSuffix(k, ".addrMu") {
					held = true
				}
			}
			r5.Check(held, fmt.Sprintf("%s: %s#%d under addrMu", fnK, calleeShort(in.(ssa.CallInstruction)), i), instrPos(in), 1, "", "the connectedness decision and the TTL rewrites can interleave with a concurrent disconnect / identify: addresses keep the connected TTL with no connection (or lose it with one)", fmtHeld(lf.must[in]))
		}
		// one critical section: no explicit unlock from which an address operation is still reachable
		for _, u := range callsIn(f, "(*sync.Mutex).Unlock") {
			ui := u.(ssa.Instruction)
			if _, isDefer := ui.(*ssa.Defer); isDefer || !strings.HasSuffix(pathOf(callArgs(u)[0]), ".addrMu") {
				continue
			}
			w, n := (&Cut{Fn: f, From: []ssa.Instruction{ui}, Target: isAddrOp}).Run(c)
			r5.Check(w == "", fnK+": addrMu is not released between the Connectedness read and the last TTL rewrite", instrPos(ui), n+1, "", "", w)
		}
	}
	if f := r5.need(ids("consumeMessage")); f != nil && addAddrsCM != nil {
		ttl := callArgs(addAddrsCM)[3]
		phi, isPhi := strip(ttl).(*ssa.Phi)
		conn := callsIn(f, "(core/network.*).Connectedness")
		if !isPhi || len(conn) != 1 {
			r5.Fail(ids("consumeMessage")+": TTL selection", f.Pos(), "expected AddAddrs(.., ttl) with ttl chosen by one Connectedness read", "")
		} else {
			okLeaves := true
			for _, l := range phiLeaves(phi) {
				if !ttlIs(l, "ConnectedAddrTTL") && !finiteTTL(l) {
					okLeaves = false
				}
			}
			isConnRes := func(v ssa.Value) bool { ci, _ := resultOf(strip(v)); return ci == conn[0] }
			es := phiEdgesWhere(phi, func(v ssa.Value) bool { k, isC := constInt(v); return isC && k == connTTL })
			w, n := (&Cut{Fn: f, TargetEdge: edgeSet(es), EdgeCut: eqEdge(isConnRes, isConnectedState, true)}).Run(c)
			es2 := phiEdgesWhere(phi, finiteTTL)
			// and the finite TTL is not chosen on a connected edge
			w2, n2 := (&Cut{Fn: f, FromEdges: edgesWhere(f, eqEdge(isConnRes, isConnectedState, true)), TargetEdge: edgeSet(es2)}).Run(c)
			r5.Check(okLeaves && len(es) > 0 && w == "" && w2 == "" && isRemotePeerOfArg(c, conn[0], "c"), ids("consumeMessage")+": ConnectedAddrTTL iff Connectedness(c.RemotePeer()) is Connected/Limited", instrPos(addAddrsCM.(ssa.Instruction)), n+n2+1, "", "addresses get the connected lifetime without a connection (never expire), or a finite one while connected", w+w2)
		}
		// downgrade of both classes to Temp before, expiry of Temp after, the write
		ups := callsIn(f, "(core/peerstore.*).UpdateAddrs")
		var pre, post []ssa.Instruction
		for _, u := range ups {
			a := callArgs(u)
			if ttlIs(a[3], "TempAddrTTL") {
				pre = append(pre, u.(ssa.Instruction))
			}
			if ttlIs(a[2], "TempAddrTTL") {
				if k2, isC2 := constInt(a[3]); isC2 && k2 == 0 {
					post = append(post, u.(ssa.Instruction))
				}
			}
		}
		// which TTL classes are parked before the write, on every path
		covered := map[string]bool{}
		target := addAddrsCM.(ssa.Instruction)
		for _, u := range pre {
			oldTTL := callArgs(u.(ssa.CallInstruction))[2]
			names, header := ttlClassesOf(oldTTL, ttlIs)
			if header == nil {
				if w, _ := (&Cut{Fn: f, Target: isInstr(target), Sep: isInstr(u)}).Run(c); w == "" {
					for _, n := range names {
						covered[n] = true
					}
				}
				continue
			}
			// a range loop over a literal: the header is on every path to the write, and every iteration passes the call
			wa, _ := (&Cut{Fn: f, Target: isInstr(target), Sep: isInstr(header.Instrs[0])}).Run(c)
			var bodyEdge []CFGEdge
			if ifi := ifOf(header); ifi != nil {
				bodyEdge = []CFGEdge{{header, 0}}
			}
			wb, _ := (&Cut{Fn: f, FromEdges: bodyEdge, Target: isInstr(header.Instrs[0]), Sep: isInstr(u)}).Run(c)
			if wa == "" && wb == "" && len(bodyEdge) == 1 {
				for _, n := range names {
					covered[n] = true
				}
			}
		}
		w2, _ := (&Cut{Fn: f, From: []ssa.Instruction{target}, Target: isRet, Sep: inSet(post)}).Run(c)
		r5.Check(covered["ConnectedAddrTTL"] && covered["RecentlyConnectedAddrTTL"] && len(post) == 1 && w2 == "", ids("consumeMessage")+": old addresses (connected and recently-connected classes) are parked at TempAddrTTL before, and expired after, the new list is written", f.Pos(), 3, "", "addresses the peer no longer announces survive an identify", fmt.Sprint(covered)+w2)
	}
	if f := r5.need(nn("Disconnected")); f != nil {
		conn := callsIn(f, "(core/network.*).Connectedness")
		if len(conn) != 1 {
			r5.Fail(nn("Disconnected")+": Connectedness read", f.Pos(), "expected exactly one", "")
		} else {
			isConnRes := func(v ssa.Value) bool { ci, _ := resultOf(strip(v)); return ci == conn[0] }
			down := findInstrs(f, func(in ssa.Instruction) bool {
				if !isMutator(in) || !calleeNameIs(in, "UpdateAddrs") {
					return false
				}
				a := callArgs(in.(ssa.CallInstruction))
				return ttlIs(a[2], "ConnectedAddrTTL") && finiteTTL(a[3])
			})
			w, n := (&Cut{Fn: f, Target: isRet, Sep: inSet(down), EdgeCut: eqEdge(isConnRes, isConnectedState, true)}).Run(c)
			r5.Check(len(down) == 1 && w == "" && isRemotePeerOfArg(c, conn[0], "c"), nn("Disconnected")+": unless still Connected/Limited, ConnectedAddrTTL entries are rewritten to a finite TTL", f.Pos(), n+1, "", "after the last connection closes the peer's addresses keep the connected lifetime and never expire", w)
			// re-added addresses get a finite TTL
			ok := true
			for _, a := range callsIn(f, "(core/peerstore.*).AddAddrs") {
				if !finiteTTL(callArgs(a)[3]) {
					ok = false
				}
			}
			r5.Check(ok, nn("Disconnected")+": re-added addresses get a finite TTL", f.Pos(), 1, "", "", "")
		}
	}
	// Disconnected is what the swarm calls: netNotifiee registered in the constructor/Start
	{
		found := false
		for _, f := range c.FnsOfPkg(idP) {
			for _, call := range callsInOnly(f, "(core/network.*).Notify") {
				if mi, ok := callArgs(call)[1].(*ssa.MakeInterface); ok && strings.Contains(mi.X.Type().String(), "identify.netNotifiee") {
					found = true
				}
			}
		}
		r5.Check(found, "identify registers netNotifiee with the network", token.NoPos, 1, "", "", "")
	}

	// ---- R6 ---------------------------------------------------------------
	// the TTL rewrites above rely on the in-memory address book: UpdateAddrs(p, old, new) leaves no entry of p on
	// the old TTL — each one is re-classed (TTL/Expiry set, addrs.Update) or dropped (addrs.Delete)
	if f := r5.need("(*p2p/host/peerstore/pstoremem.memoryAddrBook).UpdateAddrs"); f != nil {
		eaT := "p2p/host/peerstore/pstoremem.expiringAddr"
		isOld := func(v ssa.Value) bool { return isParamVar(c, v, "oldTTL") }
		isTTL := func(v ssa.Value) bool { return isLoadOfField(eaT + ".TTL")(strip2(v)) }
		match := eqEdge(isOld, isTTL, true)
		var from []CFGEdge
		for _, b := range blocksDeep(f) {
			for s := range b.Succs {
				if match(b, s) {
					from = append(from, CFGEdge{b, s})
				}
			}
		}
		if len(from) == 0 {
			r5.Fail("pstoremem UpdateAddrs: oldTTL == a.TTL test", f.Pos(), "not found", "")
		} else {
			maint := func(in ssa.Instruction) bool {
				return isCallTo(in, "(*p2p/host/peerstore/pstoremem.peerAddrs).Update", "(*p2p/host/peerstore/pstoremem.peerAddrs).Delete")
			}
			h := iterationOf(f, from[0].B)
			q := &Cut{Fn: f, FromEdges: from, Sep: maint, Target: func(in ssa.Instruction) bool {
				if _, isRet := in.(*ssa.Return); isRet {
					return true
				}
				if _, isNext := in.(*ssa.Next); isNext {
					return true
				}
				return h != nil && in.Block() == h && instrIndex(in) == 0
			}}
			r5.mustPass(f, "pstoremem UpdateAddrs: every entry on the old TTL is re-classed or dropped before the next one is looked at", q, len(from))
		}
	}

	r6 := r.Rule("C13-R6", "E1/E4", 10, "identify-wait channel always released; conns under connsMu; entry deleted on disconnect")
	if f := r6.need(ids("IdentifyWait")); f != nil {
		gos := findInstrs(f, func(in ssa.Instruction) bool { _, ok := in.(*ssa.Go); return ok })
		if len(gos) != 1 {
			r6.Fail(ids("IdentifyWait")+": worker goroutine", f.Pos(), "expected exactly one go statement", "")
		} else {
			var g *ssa.Function
			if mc, ok := gos[0].(*ssa.Go).Call.Value.(*ssa.MakeClosure); ok {
				g = mc.Fn.(*ssa.Function)
			}
			if g == nil {
				r6.Fail(ids("IdentifyWait")+": worker goroutine", f.Pos(), "not a function literal", "")
			} else {
				// the entry's wait channel: read from the field, or the very channel that is stored into it
				isWaitChan := func(v ssa.Value) bool {
					if derivesFrom(v, isLoadOfField(idP+".entry.IdentifyWaitChan")) {
						return true
					}
					mk, isMk := strip(v).(*ssa.MakeChan)
					return isMk && storedInField(mk, idP+".entry.IdentifyWaitChan")
				}
				dcl := findInstrs(g, func(in ssa.Instruction) bool {
					d, ok := in.(*ssa.Defer)
					return ok && isCallTo(in, "builtin.close") && isWaitChan(d.Call.Args[0])
				})
				// nothing that can block or panic runs before the deferred close is registered
				w, n := (&Cut{Fn: g, Sep: inSet(dcl), Target: func(in ssa.Instruction) bool {
					switch x := in.(type) {
					case *ssa.Return:
						return true
					case ssa.CallInstruction:
						_ = x
						_, isD := in.(*ssa.Defer)
						return !isD
					}
					return false
				}}).Run(c)
				r6.Check(len(dcl) == 1 && w == "", ids("IdentifyWait")+": worker defers close(IdentifyWaitChan) before doing anything else", g.Pos(), n+1, "", "a failing or panicking identify leaves waiters blocked forever", w)
				calls := callsIn(g, ids("identifyConn"))
				r6.Check(len(calls) == 1, ids("IdentifyWait")+": worker runs identifyConn", g.Pos(), 1, "", "", "")
			}
			// a freshly created wait channel is returned only after the worker was started
			mk := findInstrs(f, func(in ssa.Instruction) bool {
				st, ok := in.(*ssa.Store)
				if !ok || !isFieldWrite(in, idP+".entry.IdentifyWaitChan") {
					return false
				}
				_, isMk := strip(st.Val).(*ssa.MakeChan)
				return isMk
			})
			w, n := "wait channel creation not found", 0
			if len(mk) == 1 {
				w, n = (&Cut{Fn: f, From: mk, Target: isRet, Sep: inSet(gos)}).Run(c)
			}
			r6.Check(len(mk) == 1 && w == "", ids("IdentifyWait")+": a new wait channel is always paired with a started worker", f.Pos(), n+1, "", "", w)
		}
		// closed-connection path: the returned fresh channel is closed
		for _, ret := range returnsOf(f) {
			v := strip(retVal(ret, 0))
			if mkc, ok := v.(*ssa.MakeChan); ok && storedInField(mkc, idP+".entry.IdentifyWaitChan") {
				r6.OK(ids("IdentifyWait")+": returns the entry's wait channel", instrPos(ret), 1, "the channel just stored in the entry")
			} else if ok {
				cl := findInstrs(f, func(in ssa.Instruction) bool {
					ci, ok := in.(*ssa.Call)
					return ok && calleeKey(ci) == "builtin.close" && strip(ci.Call.Args[0]) == ssa.Value(mkc)
				})
				w, n := (&Cut{Fn: f, From: []ssa.Instruction{mkc}, Target: isInstr(ret), EdgeCut: failCut(ret), Sep: inSet(cl)}).Run(c)
				r6.Check(len(cl) >= 1 && w == "", ids("IdentifyWait")+": the channel returned for an untracked closed connection is already closed", instrPos(ret), n+1, "", "IdentifyConn on a closed connection blocks forever", w)
			} else {
				r6.Check(derivesFrom(v, isLoadOfField(idP+".entry.IdentifyWaitChan")) || derivesFrom(v, func(x ssa.Value) bool { _, ok := x.(*ssa.MakeChan); return ok }), ids("IdentifyWait")+": returns the entry's wait channel", instrPos(ret), 1, "", "", describeVal(v))
			}
		}
	}
	lockRule(c, r6, lockSpec{Pkg: idP, Type: "idService", Mutex: "connsMu", Guarded: []string{"conns"},
		Exempt: map[string]string{idP + ".NewIDService": "constructor: not yet shared"}})
	if f := r6.need(nn("Disconnected")); f != nil {
		dels := findInstrs(f, func(in ssa.Instruction) bool {
			return isCallTo(in, "builtin.delete") && isFieldWrite(in, idP+".idService.conns")
		})
		w, _ := (&Cut{Fn: f, Target: isRet, Sep: inSet(dels)}).Run(c)
		r6.Check(len(dels) == 1 && w == "", nn("Disconnected")+": stops tracking the connection on every path", f.Pos(), 1, "", "per-connection state grows without bound", w)
	}
	if f := r6.need(nn("Connected")); f != nil {
		r6.Check(len(callsIn(f, ids("IdentifyWait"))) == 1 && len(callsIn(f, ids("addConnWithLock"))) == 1, nn("Connected")+": tracks the connection and starts identify", f.Pos(), 1, "", "", "")
	}

	// ---- R7 ---------------------------------------------------------------
	r7 := r.Rule("C13-R7", "E1", 3, "identify streams get a deadline before the first blocking step (negotiation / read)")
	if f := r7.need(idP + ".newStreamAndNegotiate"); f != nil {
		ns := callsIn(f, "(core/network.*).NewStream")
		if len(ns) != 1 {
			r7.Fail(idP+".newStreamAndNegotiate: NewStream", f.Pos(), "expected exactly one", "")
		} else {
			isS := func(v ssa.Value) bool { ci, i := resultOf(strip(v)); return ci == ns[0] && i == 0 }
			dl := findInstrs(f, func(in ssa.Instruction) bool {
				if !isCallTo(in, "(core/network.*).SetDeadline", "(core/network.*).SetReadDeadline") {
					return false
				}
				a := callArgs(in.(ssa.CallInstruction))
				if !isS(a[0]) {
					return false
				}
				// time.Now().Add(timeout)
				add := isResultOfCall(a[1], 0, "(time.Time).Add")
				return add != nil && isParamVar(c, callArgs(add)[1], "timeout") && isResultOfCall(callArgs(add)[0], 0, "time.Now") != nil
			})
			blocking := func(in ssa.Instruction) bool {
				if isCallTo(in, "github.com/multiformats/go-multistream.SelectProtoOrFail", "github.com/multiformats/go-multistream.SelectOneOf") {
					return true
				}
				ret, isR := in.(*ssa.Return)
				if !isR || ret.Parent() != f {
					return false
				}
				// a hand-over: some stream may be returned (nil through a local "abort" helper is not one)
				for _, l := range phiLeaves(retVal(ret, 0)) {
					if !isNilConst(l) {
						return true
					}
				}
				return false
			}
			w, n := (&Cut{Fn: f, Target: blocking, Sep: inSet(dl)}).Run(c)
			r7.Check(len(dl) >= 1 && w == "", idP+".newStreamAndNegotiate: SetDeadline(now+timeout) on the new stream precedes negotiation and the hand-over", f.Pos(), n+1, "", "an unresponsive peer blocks the negotiation forever: the identify-wait of that connection is never released", w)
		}
	}
	if f := r7.need(ids("identifyConn")); f != nil {
		ok := false
		for _, call := range callsIn(f, idP+".newStreamAndNegotiate") {
			ok = isLoadOfField(idP + ".idService.timeout")(strip(callArgs(call)[3]))
		}
		r7.Check(ok, ids("identifyConn")+": negotiates with the service timeout", f.Pos(), 1, "", "", "")
	}
	if f := r7.need(ids("handlePush")); f != nil {
		dl := findInstrs(f, callPred("(core/network.*).SetDeadline", "(core/network.*).SetReadDeadline"))
		w, n := (&Cut{Fn: f, Target: callPred(ids("handleIdentifyResponse")), Sep: inSet(dl)}).Run(c)
		r7.Check(len(dl) >= 1 && w == "", ids("handlePush")+": deadline before reading the push", f.Pos(), n+1, "", "", w)
	}
}

func fnKeyHasConsume(cc *ssa.CallCommon) bool {
	return cc.Method != nil && cc.Method.Name() == "ConsumePeerRecord"
}

// derivesThroughCall: follows v backwards through phis and slicing to the
// unique call of `key` whose result it is.
func derivesThroughCall(v ssa.Value, key string) ssa.CallInstruction {
	var found ssa.CallInstruction
	n := 0
	for _, l := range phiLeaves(strip(v)) {
		l = strip(l)
		for {
			if s, ok := l.(*ssa.Slice); ok {
				l = strip(s.X)
				if p, isPhi := l.(*ssa.Phi); isPhi {
					_ = p
					break
				}
				continue
			}
			break
		}
		for _, l2 := range phiLeaves(l) {
			ci := isResultOfCall(strip(l2), 0, key)
			if ci == nil {
				return nil
			}
			if found != ci {
				found = ci
				n++
			}
		}
	}
	if n != 1 {
		return nil
	}
	return found
}

func isRemotePeerOfArg(c *Ctx, call ssa.CallInstruction, connParam string) bool {
	a := callArgs(call)
	if len(a) < 2 {
		return false
	}
	ci := isResultOfCall(strip(a[1]), 0, "(core/network.*).RemotePeer")
	return ci != nil && isParamVar(c, callArgs(ci)[0], connParam)
}

func edgesWhere(f *ssa.Function, p EdgePred) []CFGEdge {
	var out []CFGEdge
	for _, b := range blocksDeep(f) {
		for s := range b.Succs {
			if p(b, s) {
				out = append(out, CFGEdge{b, s})
			}
		}
	}
	return out
}

func isMakeSlice(v ssa.Value) bool { _, ok := v.(*ssa.MakeSlice); return ok }

// ttlClassesOf: the TTL classes an UpdateAddrs old-TTL argument ranges over:
// a named TTL, or the elements of a slice literal iterated by a range loop
// (then the loop header block is returned too).
func ttlClassesOf(v ssa.Value, ttlIs func(ssa.Value, string) bool) ([]string, *ssa.BasicBlock) {
	all := []string{"ConnectedAddrTTL", "RecentlyConnectedAddrTTL", "TempAddrTTL", "AddressTTL", "PermanentAddrTTL"}
	for _, n := range all {
		if ttlIs(v, n) {
			return []string{n}, nil
		}
	}
	ld, ok := v.(*ssa.UnOp)
	if !ok || ld.Op != token.MUL {
		return nil, nil
	}
	ia, ok := ld.X.(*ssa.IndexAddr)
	if !ok {
		return nil, nil
	}
	base := ia.X
	if sl, isSl := base.(*ssa.Slice); isSl {
		base = sl.X
	}
	al, ok := base.(*ssa.Alloc)
	if !ok {
		return nil, nil
	}
	// the index runs over the whole list: the index of a range loop, or a counter from 0 in steps of 1 while it is
	// below the length of the list
	var phi *ssa.Phi
	if idx, isB := ia.Index.(*ssa.BinOp); isB {
		if p, isPhi := idx.X.(*ssa.Phi); isPhi && p.Comment == "rangeindex" {
			phi = p
		}
	}
	if p, isPhi := ia.Index.(*ssa.Phi); isPhi && phi == nil {
		zero, step := false, false
		for _, e := range p.Edges {
			if k, isC := constInt(e); isC && k == 0 {
				zero = true
			} else if bo, isB := e.(*ssa.BinOp); isB && bo.Op == token.ADD && bo.X == ssa.Value(p) {
				if k, isC := constInt(bo.Y); isC && k == 1 {
					step = true
				}
			} else {
				zero, step = false, false
				break
			}
		}
		bounded := false
		if ifi := ifOf(p.Block()); ifi != nil && zero && step {
			if bo, isB := ifi.Cond.(*ssa.BinOp); isB && bo.Op == token.LSS && bo.X == ssa.Value(p) {
				if call, isCall := bo.Y.(*ssa.Call); isCall && calleeKey(call) == "builtin.len" {
					lb := strip2(call.Call.Args[0])
					if sl, isSl := lb.(*ssa.Slice); isSl {
						lb = sl.X
					}
					bounded = lb == ssa.Value(al) || lb == ia.X
				}
			}
		}
		if bounded {
			phi = p
		}
	}
	if phi == nil {
		return nil, nil
	}
	var names []string
	for _, ref := range *al.Referrers() {
		ea, isIA := ref.(*ssa.IndexAddr)
		if !isIA || ea == ia {
			continue
		}
		if _, isC := constInt(ea.Index); !isC {
			continue
		}
		for _, r2 := range *ea.Referrers() {
			if st, isSt := r2.(*ssa.Store); isSt && st.Addr == ssa.Value(ea) {
				for _, n := range all {
					if ttlIs(st.Val, n) {
						names = append(names, n)
					}
				}
			}
		}
	}
	return names, phi.Block()
}

// storedInField: the value is stored (directly) into the keyed struct field somewhere in its function.
func storedInField(v ssa.Value, fieldKey string) bool {
	refs := v.Referrers()
	if refs == nil {
		return false
	}
	for _, r := range *refs {
		st, ok := r.(*ssa.Store)
		if !ok || st.Val != v {
			continue
		}
		if isFieldWrite(st, fieldKey) {
			return true
		}
		// through a local variable (a cell when a closure captures it): the loads of the cell that see this value
		if al, isAl := st.Addr.(*ssa.Alloc); isAl {
			for _, r2 := range *al.Referrers() {
				if ld, isLd := r2.(*ssa.UnOp); isLd && ld.Op == token.MUL && strip(ld) == v && storedInField(ld, fieldKey) {
					return true
				}
			}
		}
	}
	return false
}
