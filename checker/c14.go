package main

import (
	"fmt"
	"go/token"
	"go/types"
	"strings"

	"golang.org/x/tools/go/ssa"
)

func init() {
	register("C14", checkC14,
		"Decides structurally for the connection manager: (R1) a peer becomes a trim candidate only past the protected-miss edge for that same peer and past `firstSeen is not after the grace-period start`; nothing is selected at or below the low watermark or with fewer out-of-grace connections than it, selection stops at the target; the emergency selector admits protected peers only past its not-enough test; "+
			"(R2) connections are closed only when they come out of the two selectors, the emergency selector is called only by ForceTrim; (R3) connCount moves by +1 exactly with the registration of an untracked connection and by -1 exactly with the removal of a tracked one; (R4) affine delta accounting: on every path the cached total `value` changes by exactly the change of the tag / decaying-tag entries (per owner object); writers of these fields are a closed list; "+
			"(R5) peer state under the segment lock, protection table under plk; (R6) candidates are sorted before every selection loop and the comparator orders by ascending value once the temp flags agree; (R7) the first Connected of a temporary entry restarts its grace period.",
		"`lowest value first` as a property of sort.Slice, counts after a trim under concurrent connects, decay arithmetic, interleavings of trims with notifications beyond lock discipline")
}

func checkC14(c *Ctx, r *Report) {
	cmP := "p2p/net/connmgr"
	cm := func(n string) string { return "(*" + cmP + ".BasicConnMgr)." + n }
	// The value-shape rules of the two selectors follow the candidate list, the selection and the target as SSA values.
	// When these variables are shared with function literals that write them (the passes turned into local closures
	// called twice), they are memory cells and those rules cannot decide: they say so instead of guessing.
	sharedState := func(f *ssa.Function) bool {
		shared := false
		allInstrs(f, func(in ssa.Instruction) {
			al, ok := in.(*ssa.Alloc)
			if !ok || !capturedAndWritten(al) {
				return
			}
			t := types.TypeString(al.Type(), nil)
			if strings.Contains(t, "peerInfos") || strings.Contains(t, "network.Conn") || (al.Comment == "target") {
				shared = true
			}
		})
		return shared
	}
	selFn := func(ru *Rule, k string) *ssa.Function {
		f := ru.need(k)
		if f != nil && sharedState(f) {
			ru.OK(k+": selector state shared with function literals", f.Pos(), 1, "not decided: candidate list / selection / target are variables written inside function literals; the value-shape rules of this selector do not apply")
			return nil
		}
		return f
	}
	nn := func(n string) string { return "(*" + cmP + ".cmNotifee)." + n }
	piT := cmP + ".peerInfo"
	isRet := func(in ssa.Instruction) bool { _, ok := in.(*ssa.Return); return ok }

	appendOfType := func(f *ssa.Function, typeSub string) []ssa.Instruction {
		return findInstrs(f, func(in ssa.Instruction) bool {
			call, ok := in.(*ssa.Call)
			return ok && calleeKey(call) == "builtin.append" && strings.Contains(call.Type().String(), typeSub)
		})
	}
	// the single element appended through a varargs array
	appended := func(call *ssa.Call) ssa.Value {
		sl, ok := call.Call.Args[1].(*ssa.Slice)
		if !ok {
			return nil
		}
		al, ok := sl.X.(*ssa.Alloc)
		if !ok {
			return nil
		}
		for _, ref := range *al.Referrers() {
			if ia, ok := ref.(*ssa.IndexAddr); ok {
				for _, r2 := range *ia.Referrers() {
					if st, ok := r2.(*ssa.Store); ok && st.Addr == ssa.Value(ia) {
						return st.Val
					}
				}
			}
		}
		return nil
	}
	lowWater := isLoadOfField(cmP + ".config.lowWater")
	lenOfConns := func(of func(ssa.Value) bool) func(ssa.Value) bool {
		return func(v ssa.Value) bool {
			call, ok := v.(*ssa.Call)
			if !ok || calleeKey(call) != "builtin.len" {
				return false
			}
			f, base := loadOfField(call.Call.Args[0])
			return f != nil && fieldKeyOf(base, f) == piT+".conns" && (of == nil || of(base))
		}
	}
	isNCand := func(v ssa.Value) bool {
		p, ok := v.(*ssa.Phi)
		if !ok || !isIntType(p.Type()) {
			return false
		}
		for _, l := range phiLeaves(p) {
			if b, ok := l.(*ssa.BinOp); ok && b.Op == token.ADD && (lenOfConns(nil)(b.Y) || lenOfConns(nil)(b.X)) {
				return true
			}
		}
		return false
	}
	isTarget := func(f *ssa.Function) func(ssa.Value) bool {
		return func(v ssa.Value) bool {
			if pr, ok := v.(*ssa.Parameter); ok && paramIs(pr, "target") {
				return true
			}
			p, ok := v.(*ssa.Phi)
			if !ok || !isIntType(p.Type()) {
				return false
			}
			for _, l := range phiLeaves(p) {
				if b, ok := l.(*ssa.BinOp); ok && b.Op == token.SUB && isNCand(b.X) && lowWater(b.Y) {
					return true
				}
				if pr, ok := l.(*ssa.Parameter); ok && paramIs(pr, "target") {
					return true
				}
			}
			return false
		}
	}
	isZero := func(v ssa.Value) bool { k, ok := constInt(v); return ok && k == 0 }

	// candidate appends of a selector with their protected/grace guards
	type candInfo struct {
		in          ssa.Instruction
		elem        ssa.Value
		protGuard   EdgePred
		unprotected bool
	}
	candidatesOf := func(ru *Rule, f *ssa.Function) []candInfo {
		var out []candInfo
		for _, in := range appendOfType(f, "peerInfos") {
			el := appended(in.(*ssa.Call))
			ex, ok := el.(*ssa.Extract)
			var next *ssa.Next
			if ok && ex.Index == 2 {
				next, _ = ex.Tuple.(*ssa.Next)
			}
			okSrc := false
			if next != nil {
				if rng, isR := next.Iter.(*ssa.Range); isR {
					okSrc = isLoadOfField(cmP + ".segment.peers")(rng.X)
				}
			}
			ru.Check(okSrc, fnKey(f)+": candidate is a value of a segment's peers table", instrPos(in), 1, "", "", describeVal(el))
			if !okSrc {
				continue
			}
			prot := edgeBool(func(v ssa.Value) bool {
				e, ok := v.(*ssa.Extract)
				if !ok || e.Index != 1 {
					return false
				}
				lk, ok := e.Tuple.(*ssa.Lookup)
				if !ok || !isLoadOfField(cmP+".BasicConnMgr.protected")(lk.X) {
					return false
				}
				k, ok := lk.Index.(*ssa.Extract)
				return ok && k.Tuple == ssa.Value(next) && k.Index == 1
			}, false)
			out = append(out, candInfo{in: in, elem: el, protGuard: prot})
		}
		return out
	}

	// ---- R1 ---------------------------------------------------------------
	r1 := r.Rule("C14-R1", "E1/E7b", 10, "eligibility: protected miss (same peer) and out-of-grace before a peer becomes a candidate; nothing at/below low water; stop at target; emergency admits protected peers only past the not-enough test")
	var sortCalls = map[*ssa.Function][]ssa.Instruction{}
	if f := r1.need(cm("getConnsToClose")); f != nil {
		cands := candidatesOf(r1, f)
		if len(cands) != 1 {
			r1.Fail(cm("getConnsToClose")+": candidate collection", f.Pos(), fmt.Sprintf("expected one append to candidates, found %d", len(cands)), "")
		}
		for _, cd := range cands {
			r1.guard(f, "append(candidates, inf)", []ssa.Instruction{cd.in}, "cm.protected[id] miss for the same id", cd.protGuard, nil)
			elem := cd.elem
			firstSeen := func(v ssa.Value) bool {
				fl, base := loadOfField(v)
				return fl != nil && fieldKeyOf(base, fl) == piT+".firstSeen" && base == elem
			}
			graceStart := func(v ssa.Value) bool {
				add := isResultOfCall(v, 0, "(time.Time).Add")
				if add == nil {
					return false
				}
				a := callArgs(add)
				if isResultOfCall(a[0], 0, "(github.com/benbjohnson/clock.Clock).Now", "(*github.com/benbjohnson/clock.*).Now", "(github.com/benbjohnson/clock.*).Now") == nil {
					return false
				}
				neg, ok := a[1].(*ssa.UnOp)
				return ok && neg.Op == token.SUB && isLoadOfField(cmP+".config.gracePeriod")(neg.X)
			}
			r1.guard(f, "append(candidates, inf)", []ssa.Instruction{cd.in}, "!inf.firstSeen.After(now - gracePeriod)", edgeExcl(firstSeen, graceStart, ordGT), nil)
		}
		var rets []ssa.Instruction
		for _, ret := range returnsOf(f) {
			if !isNilConst(retVal(ret, 0)) {
				rets = append(rets, ret)
			}
		}
		connCount := func(v ssa.Value) bool {
			return isResultOfCall(strip2(v), 0, "(*sync/atomic.Int32).Load") != nil && derivesFrom(v, func(x ssa.Value) bool {
				fa, ok := x.(*ssa.FieldAddr)
				if !ok {
					return false
				}
				fl, base := fieldAddrOf(fa)
				return fl != nil && fieldKeyOf(base, fl) == cmP+".BasicConnMgr.connCount"
			})
		}
		_ = connCount
		isConnCount := func(v ssa.Value) bool {
			ci := isResultOfCall(strip2(v), 0, "(*sync/atomic.Int32).Load")
			if ci == nil {
				return false
			}
			fl, base := fieldAddrOf(callArgs(ci)[0])
			return fl != nil && fieldKeyOf(base, fl) == cmP+".BasicConnMgr.connCount"
		}
		r1.guard(f, "return selected", rets, "connCount > lowWater", edgeExcl(isConnCount, lowWater, ordLT, ordEQ), nil)
		r1.guard(f, "return selected", rets, "ncandidates >= lowWater", edgeExcl(isNCand, lowWater, ordLT), nil)
		sel := appendOfType(f, "network.Conn")
		r1.guard(f, "append(selected, c)", sel, "target > 0", edgeExcl(isTarget(f), isZero, ordLT, ordEQ), nil)
		// ncandidates counts exactly the connections of the candidates
		for _, cd := range cands {
			elem := cd.elem
			incr := findInstrs(f, func(in ssa.Instruction) bool {
				b, ok := in.(*ssa.BinOp)
				return ok && b.Op == token.ADD && (lenOfConns(func(base ssa.Value) bool { return base == elem })(b.Y) || lenOfConns(func(base ssa.Value) bool { return base == elem })(b.X))
			})
			ok := len(incr) == 1 && incr[0].Block() == cd.in.Block()
			r1.Check(ok, cm("getConnsToClose")+": ncandidates += len(inf.conns) exactly with the candidate", instrPos(cd.in), 1, "", "the target is computed from a count that includes ineligible peers (or misses eligible ones)", "")
		}
		// the target shrinks by the connections selected
		okDec := false
		allInstrs(f, func(in ssa.Instruction) {
			if b, ok := in.(*ssa.BinOp); ok && b.Op == token.SUB && isTarget(f)(b.X) && lenOfConns(nil)(b.Y) {
				okDec = true
			}
		})
		r1.Check(okDec, cm("getConnsToClose")+": target -= len(inf.conns) for every selected peer", f.Pos(), 1, "", "selection does not stop at the low watermark", "")
	}
	if f := selFn(r1, cm("getConnsToCloseEmergency")); f != nil {
		cands := candidatesOf(r1, f)
		selectedLen := func(v ssa.Value) bool {
			call, ok := v.(*ssa.Call)
			return ok && calleeKey(call) == "builtin.len" && strings.Contains(call.Call.Args[0].Type().String(), "network.Conn")
		}
		notEnough := edgeExcl(selectedLen, isTarget(f), ordGT, ordEQ)
		nProt, nAny := 0, 0
		for _, cd := range cands {
			w, _ := (&Cut{Fn: f, Target: isInstr(cd.in), EdgeCut: cd.protGuard}).Run(c)
			if w == "" {
				nProt++
				r1.OK(cm("getConnsToCloseEmergency")+": first pass skips protected peers", instrPos(cd.in), 1, "")
				continue
			}
			nAny++
			w2, n := (&Cut{Fn: f, Target: isInstr(cd.in), EdgeCut: notEnough}).Run(c)
			r1.Check(w2 == "", cm("getConnsToCloseEmergency")+": protected peers become candidates only past the not-enough test", instrPos(cd.in), n+1, "", "protected peers are closed while unprotected ones would have sufficed", w2)
		}
		r1.Check(nProt == 1 && nAny == 1, cm("getConnsToCloseEmergency")+": one unprotected pass, one all-peers pass", f.Pos(), 2, "", "", fmt.Sprintf("guarded=%d unguarded=%d", nProt, nAny))
		sel := appendOfType(f, "network.Conn")
		r1.guard(f, "append(selected, c)", sel, "target > 0", edgeExcl(isTarget(f), isZero, ordLT, ordEQ), nil)
	}
	if f := r1.need(cm("ForceTrim")); f != nil {
		calls := callsIn(f, cm("getConnsToCloseEmergency"))
		ok := len(calls) == 1
		if ok {
			b, isB := callArgs(calls[0])[1].(*ssa.BinOp)
			ok = isB && b.Op == token.SUB && lowWater(b.Y) && isResultOfCall(strip2(b.X), 0, "(*sync/atomic.Int32).Load") != nil
		}
		r1.Check(ok, cm("ForceTrim")+": target = connCount - lowWater", f.Pos(), 1, "", "", "")
	}

	// ---- R2 ---------------------------------------------------------------
	r2 := r.Rule("C14-R2", "E3/E6", 4, "inside connmgr a connection is closed only when it comes out of a selector; the emergency selector is called only by ForceTrim")
	closeOf := func(sel string) func(f *ssa.Function) {
		return func(f *ssa.Function) {
			for _, in := range findInstrs(f, func(in ssa.Instruction) bool {
				return isCallTo(in, "(core/network.*).Close", "(core/network.*).CloseWithError")
			}) {
				recv := callArgs(in.(ssa.CallInstruction))[0]
				ok := derivesFrom(recv, isCallResult(0, sel))
				r2.Check(ok, fnKey(f)+": closed connection is an element of "+sel+"()", instrPos(in), 1, "", "a connection that the selector did not choose is closed", describeVal(recv))
			}
		}
	}
	r2.onlyIn("close a network.Conn", func(in ssa.Instruction) bool {
		return isCallTo(in, "(core/network.*).Close", "(core/network.*).CloseWithError") && strings.Contains(callArgs(in.(ssa.CallInstruction))[0].Type().String(), "network.Conn")
	}, c.FnsOfPkg(cmP), cm("trim"), cm("ForceTrim"))
	if f := r2.need(cm("trim")); f != nil {
		closeOf(cm("getConnsToClose"))(f)
	}
	if f := r2.need(cm("ForceTrim")); f != nil {
		closeOf(cm("getConnsToCloseEmergency"))(f)
	}
	r2.onlyCallers("call getConnsToCloseEmergency", []string{cm("getConnsToCloseEmergency")}, c.FnsOfPkg(cmP), cm("ForceTrim"))
	// selected connections are keys of a candidate's conns table
	for _, k := range []string{cm("getConnsToClose"), cm("getConnsToCloseEmergency")} {
		if f := selFn(r2, k); f != nil {
			for _, in := range appendOfType(f, "network.Conn") {
				el := appended(in.(*ssa.Call))
				ok := false
				if ex, isE := el.(*ssa.Extract); isE && ex.Index == 1 {
					if nx, isN := ex.Tuple.(*ssa.Next); isN {
						if rng, isR := nx.Iter.(*ssa.Range); isR {
							fl, base := loadOfField(rng.X)
							ok = fl != nil && fieldKeyOf(base, fl) == piT+".conns" && derivesFrom(base, func(v ssa.Value) bool {
								call, isC := v.(*ssa.Call)
								return isC && calleeKey(call) == "builtin.append" && strings.Contains(call.Type().String(), "peerInfos")
							})
						}
					}
				}
				r2.Check(ok, k+": a selected connection is a key of a candidate's conns table", instrPos(in), 1, "", "connections of a non-candidate are selected", describeVal(el))
			}
		}
	}

	// the selection only grows: what a selector returns contains every connection it appended (no truncation / restart
	// of `selected` between the passes), so the unprotected pass is never discarded in favour of the all-peers pass
	for _, k := range []string{cm("getConnsToClose"), cm("getConnsToCloseEmergency")} {
		f := selFn(r2, k)
		if f == nil {
			continue
		}
		apps := appendOfType(f, "network.Conn")
		inSel := map[ssa.Value]bool{}
		for _, a := range apps {
			inSel[a.(ssa.Value)] = true
		}
		// close under phis
		for changed := true; changed; {
			changed = false
			allInstrs(f, func(in ssa.Instruction) {
				if p, ok := in.(*ssa.Phi); ok && !inSel[p] {
					for _, e := range p.Edges {
						if inSel[e] {
							inSel[p] = true
							changed = true
						}
					}
				}
			})
		}
		bad := ""
		allInstrs(f, func(in ssa.Instruction) {
			if sl, ok := in.(*ssa.Slice); ok && inSel[strip2(sl.X)] {
				bad = c.Pos(instrPos(in))
			}
		})
		// every append continues the previous selection (its first argument is the selection so far or the fresh slice)
		for _, a := range apps {
			base := strip2(a.(*ssa.Call).Call.Args[0])
			if _, fresh := base.(*ssa.MakeSlice); !fresh && !inSel[base] {
				bad = c.Pos(instrPos(a))
			}
		}
		okRet := true
		for _, ret := range returnsOf(f) {
			v := retVal(ret, 0)
			if isNilConst(v) {
				continue
			}
			if _, fresh := strip2(v).(*ssa.MakeSlice); !fresh && !inSel[strip2(v)] {
				okRet = false
			}
		}
		r2.Check(bad == "" && okRet && len(apps) >= 1, k+": the selection only grows and is what is returned", f.Pos(), len(apps)+1, "", "connections chosen in an earlier pass are dropped from the result: protected peers are closed while unprotected ones selected before them stay open", bad)
	}

	// ---- R3 ---------------------------------------------------------------
	r3 := r.Rule("C14-R3", "E1", 6, "connCount moves by +1 exactly with registering an untracked connection, by -1 exactly with removing a tracked one")
	isCountAdd := func(delta int64) func(ssa.Instruction) bool {
		return func(in ssa.Instruction) bool {
			if !isCallTo(in, "(*sync/atomic.Int32).Add") {
				return false
			}
			a := callArgs(in.(ssa.CallInstruction))
			fl, base := fieldAddrOf(a[0])
			if fl == nil || fieldKeyOf(base, fl) != cmP+".BasicConnMgr.connCount" {
				return false
			}
			k, ok := constInt(a[1])
			return delta == 0 || (ok && k == delta)
		}
	}
	r3.onlyIn("connCount.Add", isCountAdd(0), c.FnsOfPkg(cmP), nn("Connected"), nn("Disconnected"))
	connsLookupOK := func(f *ssa.Function) func(ssa.Value) bool {
		return func(v ssa.Value) bool {
			e, ok := v.(*ssa.Extract)
			if !ok || e.Index != 1 {
				return false
			}
			lk, ok := e.Tuple.(*ssa.Lookup)
			return ok && isLoadOfField(piT+".conns")(lk.X) && isParamVar(c, lk.Index, "c")
		}
	}
	if f := r3.need(nn("Connected")); f != nil {
		adds := findInstrs(f, isCountAdd(1))
		regs := findInstrs(f, func(in ssa.Instruction) bool {
			mu, ok := in.(*ssa.MapUpdate)
			return ok && isFieldWrite(in, piT+".conns") && isParamVar(c, mu.Key, "c")
		})
		r3.guard(f, "connCount.Add(1)", adds, "conns[c] miss", edgeBool(connsLookupOK(f), false), nil)
		w1, _ := (&Cut{Fn: f, From: regs, Target: isRet, Sep: inSet(adds)}).Run(c)
		w2, _ := (&Cut{Fn: f, Target: inSet(adds), Sep: inSet(regs)}).Run(c)
		r3.Check(len(adds) == 1 && len(regs) == 1 && w1 == "" && w2 == "", nn("Connected")+": conns[c] = .. and connCount.Add(1) always together", f.Pos(), 2, "", "the count diverges from the connections tracked", w1+w2)
		// an untracked connection is always registered
		w3, _ := (&Cut{Fn: f, Target: isRet, Sep: inSet(regs), EdgeCut: edgeBool(connsLookupOK(f), true)}).Run(c)
		r3.Check(w3 == "", nn("Connected")+": an untracked connection is always registered", f.Pos(), 1, "", "", w3)
		if len(findInstrs(f, isCountAdd(-1))) > 0 {
			r3.Fail(nn("Connected")+": no decrement", f.Pos(), "Connected decrements the count", "")
		}
	}
	if f := r3.need(nn("Disconnected")); f != nil {
		subs := findInstrs(f, isCountAdd(-1))
		dels := findInstrs(f, func(in ssa.Instruction) bool {
			call, ok := in.(*ssa.Call)
			return ok && calleeKey(call) == "builtin.delete" && isFieldWrite(in, piT+".conns") && isParamVar(c, call.Call.Args[1], "c")
		})
		r3.guard(f, "connCount.Add(-1)", subs, "conns[c] hit", edgeBool(connsLookupOK(f), true), nil)
		w1, _ := (&Cut{Fn: f, From: dels, Target: isRet, Sep: inSet(subs)}).Run(c)
		w2, _ := (&Cut{Fn: f, Target: inSet(subs), Sep: inSet(dels)}).Run(c)
		r3.Check(len(subs) == 1 && len(dels) == 1 && w1 == "" && w2 == "", nn("Disconnected")+": delete(conns, c) and connCount.Add(-1) always together", f.Pos(), 2, "", "the count diverges from the connections tracked", w1+w2)
		// the peer entry goes exactly when its last connection went
		pdel := findInstrs(f, func(in ssa.Instruction) bool {
			return isCallTo(in, "builtin.delete") && isFieldWrite(in, cmP+".segment.peers")
		})
		lenConns := lenOfConns(nil)
		r3.guard(f, "delete(s.peers, p)", pdel, "len(conns) == 0", edgeExcl(lenConns, isZero, ordGT, ordLT), nil)
		w3, _ := (&Cut{Fn: f, From: dels, Target: isRet, Sep: inSet(pdel), EdgeCut: edgeExcl(lenConns, isZero, ordEQ)}).Run(c)
		r3.Check(w3 == "", nn("Disconnected")+": a peer without connections stops being tracked", f.Pos(), 1, "", "entries of gone peers accumulate (and stay trim candidates)", w3)
		if len(findInstrs(f, isCountAdd(1))) > 0 {
			r3.Fail(nn("Disconnected")+": no increment", f.Pos(), "Disconnected increments the count", "")
		}
	}

	// ---- R4 ---------------------------------------------------------------
	r4 := r.Rule("C14-R4", "E8", 8, "affine delta accounting: peerInfo.value changes by exactly the change of tags / decaying entries on every path; closed list of writers")
	spec := acctSpec{Account: piT + ".value", IntMaps: []string{piT + ".tags"}, PtrMaps: map[string]string{piT + ".decaying": "core/connmgr.DecayingValue.Value"}}
	writers := []string{cm("TagPeer"), cm("UntagPeer"), cm("UpsertTag"), "(*" + cmP + ".decayer).process"}
	for _, k := range writers {
		f := r4.need(k)
		if f == nil {
			continue
		}
		res := acctCheck(c, f, spec)
		if res.overflow {
			r4.Err(k+": accounting", "path budget exceeded")
			continue
		}
		if res.events == 0 {
			r4.Fail(k+": accounting", f.Pos(), "no tag / value update found in a listed writer", "")
			continue
		}
		r4.Check(len(res.failures) == 0, k+": value changes by exactly the change of the tag entries on every path", f.Pos(), res.paths, fmt.Sprintf("%d events, %d paths", res.events, res.paths), "the cached total drifts from the sum of the tags: peers are ordered for trimming by a wrong value", strings.Join(res.failures, " | "))
		// the arithmetic above is per path; it describes what happens only if the entry read and the update form one
		// critical section: between reading a tag entry (or the total) and writing tags / value the segment lock is
		// not released (an update computed from a value read before the release overwrites what another writer did
		// in between)
		isRead := func(in ssa.Instruction) bool {
			// (the entry: what the update is computed from; `value += d` re-reads the total by itself)
			x, ok := in.(*ssa.Lookup)
			return ok && isLoadOfField(piT+".tags")(strip2(x.X))
		}
		isWrite := func(in ssa.Instruction) bool {
			if st, ok := in.(*ssa.Store); ok && localAllocRoot(st.Addr) != nil {
				return false
			}
			return isAcctEvent(spec, in)
		}
		isRelease := func(in ssa.Instruction) bool {
			if _, deferred := in.(*ssa.Defer); deferred {
				return false
			}
			return isCallTo(in, "(*sync.Mutex).Unlock", "(*sync.RWMutex).Unlock")
		}
		reads := findInstrs(f, isRead)
		if len(reads) > 0 {
			// a release reached from a read, from which a write is still reached
			bad := ""
			nEx := 0
			for _, rel := range findInstrs(f, isRelease) {
				w1, n1 := (&Cut{Fn: f, From: reads, Target: isInstr(rel), Sep: isWrite}).Run(c)
				w2, n2 := (&Cut{Fn: f, From: []ssa.Instruction{rel}, Target: isWrite, Sep: isRead}).Run(c)
				nEx += n1 + n2
				if w1 != "" && w2 != "" {
					bad = c.Pos(instrPos(rel)) + ": " + w1
				}
			}
			r4.Check(bad == "", k+": the entry read and the update of tags / value form one critical section", f.Pos(), nEx+1, "", "two overlapping tag operations on one peer lose an update: the total no longer equals the sum of the tags", bad)
		}
	}
	var scope []*ssa.Function
	scope = append(scope, c.FnsOfPkg(cmP)...)
	r4.onlyIn("change tags/decaying/value of a tracked peer", func(in ssa.Instruction) bool {
		if st, ok := in.(*ssa.Store); ok {
			// initialisation of a fresh peerInfo / DecayingValue is not a change
			if localAllocRoot(st.Addr) != nil {
				return false
			}
		}
		return isAcctEvent(spec, in)
	}, scope, writers...)

	// ---- R5 ---------------------------------------------------------------
	r5 := r.Rule("C14-R5", "E4", 30, "peer state under the segment lock; protection table under plk")
	lockRule(c, r5, lockSpec{Pkg: cmP, Type: "segment", Mutex: "Mutex", Guarded: []string{"peers"},
		Owned:  map[string][]string{"peerInfo": {"tags", "decaying", "value", "temp", "conns", "firstSeen"}},
		Exempt: map[string]string{cmP + ".NewConnManager": "constructor: segments not yet shared"}})
	lockRule(c, r5, lockSpec{Pkg: cmP, Type: "BasicConnMgr", Mutex: "plk", Guarded: []string{"protected"},
		Exempt: map[string]string{cmP + ".NewConnManager": "constructor"}})

	// ---- R6 ---------------------------------------------------------------
	r6 := r.Rule("C14-R6", "E1/E7b", 4, "candidates sorted before every selection loop; comparator: ascending value once temp flags agree")
	sortK := "(" + cmP + ".peerInfos).SortByValueAndStreams"
	for _, k := range []string{cm("getConnsToClose"), cm("getConnsToCloseEmergency")} {
		f := selFn(r6, k)
		if f == nil {
			continue
		}
		sorts := findInstrs(f, callPred(sortK))
		sortCalls[f] = sorts
		cands := appendOfType(f, "peerInfos")
		sel := appendOfType(f, "network.Conn")
		for i, cd := range cands {
			// from this collection to the selection that follows it, a sort intervenes
			w, n := (&Cut{Fn: f, From: []ssa.Instruction{cd}, Target: inSet(sel), Sep: inSet(sorts)}).Run(c)
			r6.Check(len(sorts) >= 1 && len(sel) >= 1 && w == "", fmt.Sprintf("%s: collection #%d is sorted before selection", k, i), instrPos(cd), n+1, "", "connections are selected in table order instead of lowest value first", w)
		}
		for _, s := range sorts {
			recv := callArgs(s.(ssa.CallInstruction))[0]
			r6.Check(derivesFrom(recv, func(v ssa.Value) bool {
				call, isC := v.(*ssa.Call)
				return isC && calleeKey(call) == "builtin.append" && strings.Contains(call.Type().String(), "peerInfos")
			}), k+": the sorted slice is the candidate list", instrPos(s), 1, "", "", "")
		}
	}
	if f := r6.need(sortK); f != nil {
		var less *ssa.Function
		for _, a := range allAnon(f) {
			if a.Signature.Results().Len() == 1 && a.Signature.Params().Len() == 2 {
				less = a
			}
		}
		if less == nil {
			r6.Fail(sortK+": comparator", f.Pos(), "less function not found", "")
		} else {
			// left = p[i], right = p[j]
			side := func(idx string) func(ssa.Value) bool {
				return func(v ssa.Value) bool {
					fl, base := loadOfField(v)
					if fl == nil || fieldKeyOf(base, fl) != piT+".value" {
						return false
					}
					ld, ok := strip(base).(*ssa.UnOp)
					if !ok {
						return false
					}
					ia, ok := ld.X.(*ssa.IndexAddr)
					return ok && isParamVar(c, ia.Index, idx)
				}
			}
			// with equal temp flags — both set or both clear, however the flags are tested — the value order decides
			sideOf := func(v ssa.Value, field string) string { // "i", "j" or ""
				fl, base := loadOfField(v)
				if fl == nil || fieldKeyOf(base, fl) != piT+"."+field {
					return ""
				}
				ld, ok := strip(base).(*ssa.UnOp)
				if !ok {
					return ""
				}
				ia, ok := ld.X.(*ssa.IndexAddr)
				if !ok {
					return ""
				}
				for _, n := range []string{"i", "j"} {
					if isParamVar(c, ia.Index, n) {
						return n
					}
				}
				return ""
			}
			nTemp := 0
			ok := true
			tab := [3]int{}
			for _, flag := range []bool{false, true} {
				assume := map[ssa.Value]bool{}
				allInstrs(less, func(in ssa.Instruction) {
					if v, isV := in.(ssa.Value); isV && sideOf(v, "temp") != "" {
						assume[v] = flag
						nTemp++
					}
				})
				t, okT := orderTableAssume(less, side("i"), side("j"), 0, assume)
				ok = ok && okT
				for o := range t {
					tab[o] |= t[o]
				}
			}
			assume := map[ssa.Value]bool{}
			if nTemp >= 2 {
				assume[nil] = true
			}
			r6.Check(ok && len(assume) >= 1 && tab[ordLT] == 2 && tab[ordGT] == 1, sortK+": with equal temp flags, less(i,j) is true for value[i] < value[j] and false for value[i] > value[j]", less.Pos(), 3, "", "higher-valued peers are trimmed before lower-valued ones", fmtTable(tab))
			// sort.Slice is applied to the receiver
			ok2 := false
			for _, call := range callsIn(f, "sort.Slice", "sort.SliceStable", "slices.SortFunc", "slices.SortStableFunc") {
				ok2 = isParamVar(c, callArgs(call)[0], "p")
			}
			r6.Check(ok2, sortK+": sorts the receiver", f.Pos(), 1, "", "", "")
		}
	}

	// ---- R7 ---------------------------------------------------------------
	r7 := r.Rule("C14-R7", "E1", 4, "grace period starts at the first Connected: a temporary entry's firstSeen is reset when its first connection arrives; temporary entries past grace are pruned")
	isNow := func(v ssa.Value) bool {
		return isResultOfCall(v, 0, "(github.com/benbjohnson/clock.Clock).Now", "(github.com/benbjohnson/clock.*).Now") != nil
	}
	if f := r7.need(nn("Connected")); f != nil {
		tempLoad := isLoadOfField(piT + ".temp")
		tempEdges := edgesWhere(f, edgeBool(tempLoad, true))
		fsStores := findInstrs(f, func(in ssa.Instruction) bool {
			st, ok := in.(*ssa.Store)
			return ok && isFieldWrite(in, piT+".firstSeen") && localAllocRoot(st.Addr) == nil && isNow(st.Val)
		})
		tmpClear := findInstrs(f, func(in ssa.Instruction) bool {
			st, ok := in.(*ssa.Store)
			if !ok || !isFieldWrite(in, piT+".temp") || localAllocRoot(st.Addr) != nil {
				return false
			}
			b, isC := constBool(st.Val)
			return isC && !b
		})
		w1, n1 := (&Cut{Fn: f, FromEdges: tempEdges, Target: isRet, Sep: inSet(fsStores)}).Run(c)
		w2, n2 := (&Cut{Fn: f, FromEdges: tempEdges, Target: isRet, Sep: inSet(tmpClear)}).Run(c)
		r7.Check(len(tempEdges) >= 1 && len(fsStores) >= 1 && w1 == "", nn("Connected")+": a temporary entry gets firstSeen = now when its first connection arrives", f.Pos(), n1+1, "", "the grace period of a peer that was tagged before connecting is measured from the tag, not from the connection: it can be trimmed inside its grace period", w1)
		r7.Check(len(tmpClear) >= 1 && w2 == "", nn("Connected")+": a temporary entry stops being temporary", f.Pos(), n2+1, "", "a connected peer stays preferred for pruning", w2)
		// a new entry starts at now
		ok := false
		for _, in := range findInstrs(f, fieldWritePred(piT+".firstSeen")) {
			st := in.(*ssa.Store)
			if localAllocRoot(st.Addr) != nil && (isNow(st.Val) || isNow(strip(st.Val))) {
				ok = true
			}
		}
		r7.Check(ok, nn("Connected")+": a new entry starts its grace period now", f.Pos(), 1, "", "", "")
	}
	if f := r7.need("(*" + cmP + ".segment).tagInfoFor"); f != nil {
		ok := false
		for _, in := range findInstrs(f, fieldWritePred(piT+".temp")) {
			b, isC := constBool(strip(in.(*ssa.Store).Val)) // (through the parameter of a constructor helper extracted since)
			ok = isC && b
		}
		r7.Check(ok, "(*segment).tagInfoFor: entries created by early tags are temporary", f.Pos(), 1, "", "", "")
	}
	if f := r7.need(cm("getConnsToClose")); f != nil {
		pdel := findInstrs(f, func(in ssa.Instruction) bool {
			return isCallTo(in, "builtin.delete") && isFieldWrite(in, cmP+".segment.peers")
		})
		r7.guard(f, "delete(s.peers, id)", pdel, "len(conns) == 0", edgeExcl(lenOfConns(nil), isZero, ordGT, ordLT), nil)
		r7.guard(f, "delete(s.peers, id)", pdel, "temp", edgeBool(isLoadOfField(piT+".temp"), true), nil)
	}

	// ---- R8 ---------------------------------------------------------------
	r8 := r.Rule("C14-R8", "E1", 6, "protection and trimming take effect: Protect records the tag under the peer (creating the peer's tag set only when it has none); Unprotect removes exactly that tag and forgets the peer with its last one; trim closes every connection getConnsToClose selected; TrimOpenConns and ForceTrim reach the trim")
	bm := func(n string) string { return "(*" + cmP + ".BasicConnMgr)." + n }
	protK := cmP + ".BasicConnMgr.protected"
	isTagSet := func(v ssa.Value) bool {
		// the peer's tag set: what the lookup in cm.protected yielded, or the fresh map made for it
		return derivesFrom(v, func(x ssa.Value) bool {
			if ex, ok := x.(*ssa.Extract); ok && ex.Index == 0 {
				if lk, isL := ex.Tuple.(*ssa.Lookup); isL && isLoadOfField(protK)(strip2(lk.X)) {
					return true
				}
			}
			if lk, isL := x.(*ssa.Lookup); isL && !lk.CommaOk && isLoadOfField(protK)(strip2(lk.X)) {
				return true
			}
			_, isMk := x.(*ssa.MakeMap)
			return isMk
		})
	}
	if f := r8.need(bm("Protect")); f != nil {
		idP, tagP := f.Params[1], f.Params[2]
		isP := func(v ssa.Value, p *ssa.Parameter) bool {
			v = resolveLoad(strip2(v))
			return v == ssa.Value(p) || isParamCellLoad(c, v, p)
		}
		recs := findInstrs(f, func(in ssa.Instruction) bool {
			mu, ok := in.(*ssa.MapUpdate)
			return ok && isTagSet(mu.Map) && !isLoadOfField(protK)(strip2(mu.Map)) && isP(mu.Key, tagP)
		})
		r8.mustPass(f, bm("Protect")+": the tag is recorded in the peer's tag set", &Cut{Fn: f, Target: isRetInstr, Sep: inSet(recs)}, len(recs))
		mks := findInstrs(f, func(in ssa.Instruction) bool { _, ok := in.(*ssa.MakeMap); return ok })
		isMiss := func(v ssa.Value) bool {
			ex, ok := resolveLoad(strip2(v)).(*ssa.Extract)
			if !ok || ex.Index != 1 {
				return false
			}
			lk, ok := ex.Tuple.(*ssa.Lookup)
			return ok && isLoadOfField(protK)(strip2(lk.X))
		}
		isLooked := func(v ssa.Value) bool {
			v = resolveLoad(strip2(v))
			if ex, ok := v.(*ssa.Extract); ok && ex.Index == 0 {
				v = ex.Tuple
			}
			lk, ok := v.(*ssa.Lookup)
			return ok && isLoadOfField(protK)(strip2(lk.X))
		}
		r8.guard(f, "make a tag set", mks, "the peer has none", anyEdge(edgeBool(isMiss, false), edgeNil(isLooked, true)), nil)
		for _, mk := range mks {
			reg := func(in ssa.Instruction) bool {
				mu, ok := in.(*ssa.MapUpdate)
				return ok && isLoadOfField(protK)(strip2(mu.Map)) && isP(mu.Key, idP) && resolveLoad(strip2(mu.Value)) == mk.(ssa.Value)
			}
			r8.mustPass(f, bm("Protect")+": a new tag set is registered under the peer", &Cut{Fn: f, From: []ssa.Instruction{mk}, Target: isRetInstr, Sep: reg}, 1)
		}
		r8.Check(len(mks) == 1, bm("Protect")+": one construction of a tag set", f.Pos(), len(mks), "", "", "")
	}
	if f := r8.need(bm("Unprotect")); f != nil {
		idP, tagP := f.Params[1], f.Params[2]
		isP := func(v ssa.Value, p *ssa.Parameter) bool {
			v = resolveLoad(strip2(v))
			return v == ssa.Value(p) || isParamCellLoad(c, v, p)
		}
		isFound := func(v ssa.Value) bool {
			ex, ok := resolveLoad(strip2(v)).(*ssa.Extract)
			if !ok || ex.Index != 1 {
				return false
			}
			lk, ok := ex.Tuple.(*ssa.Lookup)
			return ok && isLoadOfField(protK)(strip2(lk.X))
		}
		dels := findInstrs(f, func(in ssa.Instruction) bool {
			if !isCallTo(in, "builtin.delete") {
				return false
			}
			a := callArgs(in.(ssa.CallInstruction))
			return len(a) == 2 && isTagSet(a[0]) && !isLoadOfField(protK)(strip2(a[0])) && isP(a[1], tagP)
		})
		var from []CFGEdge
		for _, b := range blocksDeep(f) {
			for si := range b.Succs {
				if edgeBool(isFound, true)(b, si) {
					from = append(from, CFGEdge{b, si})
				}
			}
		}
		r8.mustPass(f, bm("Unprotect")+": the tag is deleted from the peer's tag set whenever the peer has one", &Cut{Fn: f, FromEdges: from, Target: isRetInstr, Sep: inSet(dels)}, len(dels))
		r8.Check(len(from) >= 1 && len(dels) == 1, bm("Unprotect")+": lookup and deletion sites", f.Pos(), len(from)+len(dels), "", "", "")
		forget := findInstrs(f, func(in ssa.Instruction) bool {
			if !isCallTo(in, "builtin.delete") {
				return false
			}
			a := callArgs(in.(ssa.CallInstruction))
			return len(a) == 2 && isLoadOfField(protK)(strip2(a[0])) && isP(a[1], idP)
		})
		isLen := func(v ssa.Value) bool {
			ci := isResultOfCall(v, 0, "builtin.len")
			return ci != nil && isTagSet(ci.Common().Args[0])
		}
		isZero8 := func(v ssa.Value) bool { k, ok := constInt(v); return ok && k == 0 }
		isEmpty := anyEdge(eqEdge(isLen, isZero8, true), edgeExcl(isLen, isZero8, ordGT))
		r8.guard(f, "forget the peer", forget, "its tag set is empty", isEmpty, nil)
		var fromE []CFGEdge
		for _, b := range blocksDeep(f) {
			for si := range b.Succs {
				if isEmpty(b, si) {
					fromE = append(fromE, CFGEdge{b, si})
				}
			}
		}
		r8.mustPass(f, bm("Unprotect")+": a peer whose last tag went is forgotten", &Cut{Fn: f, FromEdges: fromE, Target: isRetInstr, Sep: inSet(forget)}, len(fromE))
	}
	if f := r8.need(bm("trim")); f != nil {
		sel := findInstrs(f, callPred(bm("getConnsToClose")))
		closes := findInstrs(f, func(in ssa.Instruction) bool {
			if !calleeNameIs(in, "Close", "CloseWithError") {
				return false
			}
			h := iterationOf(in.Parent(), in.Block())
			return h != nil && len(sel) == 1 && derivesFrom(rangedOverOf(h), func(v ssa.Value) bool { return v == sel[0].(ssa.Value) })
		})
		okT := len(sel) == 1 && len(closes) >= 1
		w := ""
		n := 0
		if okT {
			h := iterationOf(closes[0].Parent(), closes[0].Block())
			var body []CFGEdge
			for si, sc := range h.Succs {
				if sc.Dominates(closes[0].Block()) || sc == closes[0].Block() {
					body = append(body, CFGEdge{h, si})
				}
			}
			w, n = (&Cut{Fn: closes[0].Parent(), FromEdges: body, Sep: inSet(closes), Target: func(in ssa.Instruction) bool {
				return isRetInstr(in) || (in.Block() == h && instrIndex(in) == 0)
			}}).Run(c)
		}
		r8.Check(okT && w == "", bm("trim")+": every connection getConnsToClose selected is closed", f.Pos(), n+1, "", "the trim selects and closes nothing: the connection count stays above the high water mark", w)
	}
	for _, k := range []struct{ fn, callee string }{{"TrimOpenConns", "doTrim"}, {"ForceTrim", "getConnsToCloseEmergency"}, {"doTrim", "trim"}} {
		if f := r8.need(bm(k.fn)); f != nil {
			calls := findInstrs(f, callPred(bm(k.callee)))
			r8.Check(len(calls) >= 1, bm(k.fn)+": reaches "+k.callee, f.Pos(), len(calls), "", "a requested trim does nothing", "")
		}
	}
}
