package main

import (
	"fmt"
	"go/token"
	"go/types"
	"strings"

	"golang.org/x/tools/go/ssa"
)

func init() {
	register("C15", checkC15,
		"Decides structurally for the event bus: (R1) path event counting: every iteration of the delivery loops of node.emit and wildcardNode.emit, and every path of emitAndLogError, performs exactly one send of the emitted value on that sink's channel (no drop, no duplicate), and Emit calls both delivery functions exactly once unless closed; (R2) sinks/last/keepLast/nodes under their locks, withNode runs both callbacks with the node lock held and hands it to the async goroutine, basicBus.lk is never taken (directly or via the dropper) while a node lock may be held; "+
			"(R3) sub.Close starts its drainer before touching a node lock, closes the channel only after the removal loop and only inside closeOnce, nothing else closes a subscription channel; the wildcard remover starts its drainer before taking the write lock; (R4) the retained event is replayed inside the critical section that registered the sink, keepLast never goes from true to false, last is written only under keepLast; "+
			"(R5) a node is dropped only past `no emitters` and `no sinks` (both), the dropper is invoked only when the last emitter / sink went, Emit refuses after Close.",
		"per-emitter order and exactly-once under concurrent subscribe/close as a property of schedules, deadlock freedom in general, fairness of the drainers")
}

func checkC15(c *Ctx, r *Report) {
	ebP := "p2p/host/eventbus"
	nodeT := ebP + ".node"
	wT := ebP + ".wildcardNode"
	busT := ebP + ".basicBus"
	nodeM := func(n string) string { return "(*" + nodeT + ")." + n }
	wM := func(n string) string { return "(*" + wT + ")." + n }
	busM := func(n string) string { return "(*" + busT + ")." + n }
	isRet := func(in ssa.Instruction) bool { _, ok := in.(*ssa.Return); return ok }
	isZero := func(v ssa.Value) bool { k, ok := constInt(v); return ok && k == 0 }

	// ---- R1 ---------------------------------------------------------------
	r1 := r.Rule("C15-R1", "E9", 5, "exactly one send of the emitted value per sink per emit (delivery loops, slow-consumer helper); Emit delivers to the typed node and the wildcard node exactly once")
	chanOf := func(isSink func(ssa.Value) bool) func(ssa.Value) bool {
		return func(v ssa.Value) bool {
			fl, base := loadOfField(v)
			return fl != nil && fieldKeyOf(base, fl) == ebP+".namedSink.ch" && isSink(base)
		}
	}
	elk := ebP + ".emitAndLogError"
	// deliversOnce: every path of h sends the value of its evtIdx-th parameter on the channel of the sink that is its
	// sinkIdx-th parameter exactly once — directly, through a select case, or by handing both to a function that does.
	type dkey struct {
		f         *ssa.Function
		sink, evt int
	}
	dmemo := map[dkey]*pathResult{}
	var deliversOnce func(h *ssa.Function, sinkIdx, evtIdx, depth int) pathResult
	// countIn: the per-path send counter of function g, given what its sink and event are
	countIn := func(g *ssa.Function, header *ssa.BasicBlock, body map[*ssa.BasicBlock]bool, isSink, isEvt func(ssa.Value) bool, depth int) pathResult {
		return (&pathEnum{Fn: g, Header: header, Body: body,
			Instr: func(in ssa.Instruction) int {
				if s, ok := in.(*ssa.Send); ok && chanOf(isSink)(s.Chan) && isEvt(s.X) {
					return 1
				}
				call, ok := in.(*ssa.Call)
				if !ok || depth <= 0 {
					return 0
				}
				h := call.Call.StaticCallee()
				if h == nil || h.Blocks == nil || h.Pkg == nil || !strings.HasPrefix(h.Pkg.Pkg.Path()+"/", Mod) {
					return 0
				}
				si, ei := -1, -1
				for i, a := range call.Call.Args {
					if isSink(a) {
						si = i
					}
					if isEvt(a) {
						ei = i
					}
				}
				if si < 0 || ei < 0 {
					return 0
				}
				res := deliversOnce(h, si, ei, depth-1)
				if res.only(1) {
					return 1
				}
				if res.only(0) {
					return 0
				}
				return 1000 // sometimes: never acceptable
			},
			Edge: func(b *ssa.BasicBlock, s int) int {
				if selectSendEdge(b, s, chanOf(isSink), isEvt) {
					return 1
				}
				return 0
			},
			Maybe: func(in ssa.Instruction) bool { return selectSendUntested(in, chanOf(isSink), isEvt) }}).Run()
	}
	deliversOnce = func(h *ssa.Function, sinkIdx, evtIdx, depth int) pathResult {
		k := dkey{h, sinkIdx, evtIdx}
		if r, ok := dmemo[k]; ok {
			if r == nil {
				return pathResult{counts: map[int]string{1000: "recursion"}, paths: 1}
			}
			return *r
		}
		dmemo[k] = nil
		ps, pe := h.Params[sinkIdx], h.Params[evtIdx]
		var res pathResult
		asRoot(h, func() {
			res = countIn(h, nil, nil,
				func(v ssa.Value) bool { return v == ssa.Value(ps) || isParamCellLoad(c, v, ps) },
				func(v ssa.Value) bool { return v == ssa.Value(pe) || isParamCellLoad(c, v, pe) }, depth)
		})
		dmemo[k] = &res
		return res
	}
	if f := r1.need(elk); f != nil {
		si, ei := -1, -1
		for i, p := range f.Params {
			if paramIs(p, "sink") {
				si = i
			}
			if paramIs(p, "evt") {
				ei = i
			}
		}
		if si < 0 || ei < 0 {
			r1.Fail(elk+": parameters", f.Pos(), "sink / evt parameters not found", "")
		} else {
			res := deliversOnce(f, si, ei, 2)
			r1.Check(res.only(1), elk+": every path sends evt on sink.ch exactly once", f.Pos(), res.paths, res.String(), "a slow subscriber's event is dropped (or delivered twice)", res.String())
		}
	}
	for _, k := range []struct{ fn, sinksField string }{{nodeM("emit"), nodeT + ".sinks"}, {wM("emit"), wT + ".sinks"}} {
		f := r1.need(k.fn)
		if f == nil {
			continue
		}
		// the delivery loop: the innermost loop that loads an element of the sinks list
		var elemBlock *ssa.BasicBlock
		isSinksList := func(v ssa.Value) bool {
			return derivesFrom(v, isLoadOfField(k.sinksField), "slices.Clone")
		}
		allInstrs(f, func(in ssa.Instruction) {
			if ld, ok := in.(*ssa.UnOp); ok && ld.Op == token.MUL {
				if ia, ok := ld.X.(*ssa.IndexAddr); ok && isSinksList(ia.X) {
					elemBlock = in.Block()
				}
			}
		})
		if elemBlock == nil {
			r1.Fail(k.fn+": delivery loop", f.Pos(), "no loop over the sinks found", "")
			continue
		}
		h, body := innermostLoop(f, elemBlock)
		if h == nil {
			r1.Fail(k.fn+": delivery loop", f.Pos(), "the sinks are not visited in a loop", "")
			continue
		}
		isSink := func(v ssa.Value) bool {
			ld, ok := v.(*ssa.UnOp)
			if !ok || ld.Op != token.MUL {
				return false
			}
			ia, ok := ld.X.(*ssa.IndexAddr)
			if !ok || !body[ld.Block()] {
				return false
			}
			return isSinksList(ia.X)
		}
		isEvt := func(v ssa.Value) bool { return isParamVar(c, v, "evt") }
		res := countIn(f, h, body, isSink, isEvt, 3)
		r1.Check(res.only(1), k.fn+": every iteration over the sinks sends evt to that sink exactly once", f.Pos(), res.paths, res.String(), "an event is dropped for (or delivered twice to) a subscriber", res.String())
	}
	// delivery happens inside the node's critical section: Close (typed: sub.Close, wildcard: removeSink) takes the
	// lock to know that no emit is still on its way to the sink it removes
	for _, k := range []struct{ fn, lock string }{{nodeM("emit"), ".lk"}, {wM("emit"), "RWMutex"}} {
		f := r1.need(k.fn)
		if f == nil {
			continue
		}
		isSinkSend := func(in ssa.Instruction) bool {
			isSinkCh := func(v ssa.Value) bool {
				fl, _ := loadOfField(strip2(v))
				return fl != nil && fl.Name() == "ch"
			}
			switch x := in.(type) {
			case *ssa.Send:
				return isSinkCh(x.Chan)
			case *ssa.Select:
				for _, st := range x.States {
					if st.Send != nil && isSinkCh(st.Chan) {
						return true
					}
				}
			}
			return false
		}
		lf := computeLockFlow(f, heldSet{})
		n := 0
		for _, in := range findInstrsIn(f, func(in ssa.Instruction) bool {
			if _, isGo := in.(*ssa.Go); isGo {
				return false
			}
			return writesLike(in, isSinkSend, 3)
		}) {
			n++
			held := false
			for h := range lf.must[in] {
				if strings.HasSuffix(h, k.lock) {
					held = true
				}
			}
			r1.Check(held, k.fn+": events are sent to the sinks while the node's lock is held", instrPos(in), 1, "", "Close can finish (lock taken, sink removed, final sweep done) while an emit that already picked the sink still delivers to it: a closed subscription receives an event", fmtHeld(lf.must[in]))
		}
		r1.Check(n >= 1, k.fn+": delivery site", f.Pos(), n, "", "", "")
	}
	if f := r1.need("(*" + ebP + ".emitter).Emit"); f != nil {
		res := (&pathEnum{Fn: f, Instr: func(in ssa.Instruction) int {
			n := 0
			if isCallTo(in, nodeM("emit")) && isParamVar(c, callArgs(in.(ssa.CallInstruction))[1], "evt") {
				n += 1
			}
			if isCallTo(in, wM("emit")) && isParamVar(c, callArgs(in.(ssa.CallInstruction))[1], "evt") {
				n += 100
			}
			if ret, ok := in.(*ssa.Return); ok && !isNilConst(retVal(ret, 0)) {
				n += 10000
			}
			return n
		}}).Run()
		ok := !res.overflow && res.paths > 0
		for k := range res.counts {
			if k != 101 && k != 10000 {
				ok = false
			}
		}
		_, hasOK := res.counts[101]
		r1.Check(ok && hasOK, "(*emitter).Emit: a nil return means the typed node and the wildcard node each got the event exactly once", f.Pos(), res.paths, res.String(), "an accepted event is not delivered to typed (or wildcard) subscribers", res.String())
		// closed => error
		var okRets []ssa.Instruction
		for _, ret := range returnsOf(f) {
			if isNilConst(retVal(ret, 0)) {
				okRets = append(okRets, ret)
			}
		}
		r1.guard(f, "return nil", okRets, "!closed", edgeBool(func(v ssa.Value) bool {
			ci := isResultOfCall(v, 0, "(*sync/atomic.Bool).Load")
			if ci == nil {
				return false
			}
			fl, base := fieldAddrOf(callArgs(ci)[0])
			return fl != nil && fieldKeyOf(base, fl) == ebP+".emitter.closed"
		}, false), nil)
	}

	// ---- R2 ---------------------------------------------------------------
	r2 := r.Rule("C15-R2", "E4", 25, "sinks/last/keepLast under node.lk, wildcard sinks under its lock, nodes under basicBus.lk; withNode contract; lock order node.lk -/-> basicBus.lk")
	withNodeK := busM("withNode")
	lockRule(c, r2, lockSpec{Pkg: ebP, Type: "node", Mutex: "lk", Guarded: []string{"sinks", "last", "keepLast"},
		Exempt:     map[string]string{ebP + ".newNode": "constructor"},
		RunsLocked: map[string]string{withNodeK: "withNode invokes cb and async with n.lk held (contract checked below)"}})
	lockRule(c, r2, lockSpec{Pkg: ebP, Type: "wildcardNode", Mutex: "RWMutex", Guarded: []string{"sinks"}})
	lockRule(c, r2, lockSpec{Pkg: ebP, Type: "basicBus", Mutex: "lk", Guarded: []string{"nodes"},
		Exempt: map[string]string{ebP + ".NewBus": "constructor"}})
	heldSuffix := func(h heldSet, suffix string) bool {
		for k := range h {
			if strings.HasSuffix(k, suffix) {
				return true
			}
		}
		return false
	}
	if f := r2.need(withNodeK); f != nil {
		lf := computeLockFlow(f, heldSet{})
		var cbCalls, gos []ssa.Instruction
		allInstrs(f, func(in ssa.Instruction) {
			if call, ok := in.(*ssa.Call); ok && !call.Call.IsInvoke() {
				if isParamVar(c, call.Call.Value, "cb") {
					cbCalls = append(cbCalls, in)
				}
			}
			if _, ok := in.(*ssa.Go); ok {
				gos = append(gos, in)
			}
		})
		ok := len(cbCalls) == 1 && len(gos) == 1
		for _, in := range append(append([]ssa.Instruction{}, cbCalls...), gos...) {
			if !heldSuffix(lf.must[in], ".lk") || heldSuffix(lf.may[in], "b.lk") {
				ok = false
			}
		}
		r2.Check(ok, withNodeK+": cb(n) and the async hand-over happen with n.lk held and b.lk released", f.Pos(), 2, "", "the registration callback or the replay runs outside the node's critical section", "")
		// the goroutine releases the lock it was handed (deferred) and runs async(n)
		okG := false
		if len(gos) == 1 {
			if mc, isMC := gos[0].(*ssa.Go).Call.Value.(*ssa.MakeClosure); isMC {
				g := mc.Fn.(*ssa.Function)
				defs := findInstrs(g, func(in ssa.Instruction) bool {
					_, isD := in.(*ssa.Defer)
					return isD && isCallTo(in, "(*sync.Mutex).Unlock")
				})
				var asyncCalls []ssa.Instruction
				allInstrs(g, func(in ssa.Instruction) {
					if call, ok := in.(*ssa.Call); ok && !call.Call.IsInvoke() && isFreeVarOrParam(call.Call.Value, "async") {
						asyncCalls = append(asyncCalls, in)
					}
				})
				w, _ := (&Cut{Fn: g, Target: func(in ssa.Instruction) bool { return inSet(asyncCalls)(in) || isRet(in) }, Sep: inSet(defs)}).Run(c)
				okG = len(defs) == 1 && len(asyncCalls) == 1 && w == ""
			}
		}
		r2.Check(okG, withNodeK+": the async goroutine defers n.lk.Unlock() before running async(n)", f.Pos(), 2, "", "the node lock is leaked or released before the replay", "")
		// every path releases the node lock exactly through one of the two ways
		unl := findInstrs(f, func(in ssa.Instruction) bool {
			if !isCallTo(in, "(*sync.Mutex).Unlock") {
				return false
			}
			return strings.HasSuffix(pathOf(callArgs(in.(ssa.CallInstruction))[0]), ".lk") && !strings.HasPrefix(pathOf(callArgs(in.(ssa.CallInstruction))[0]), "b.")
		})
		w, n := (&Cut{Fn: f, From: cbCalls, Target: isRet, Sep: func(in ssa.Instruction) bool { return inSet(unl)(in) || inSet(gos)(in) }}).Run(c)
		r2.Check(w == "", withNodeK+": the node lock is released (or handed over) on every path", f.Pos(), n+1, "", "", w)
	}
	// lock order: never basicBus.lk (nor the dropper, which takes it) while a node lock may be held
	nOrder := 0
	for _, f := range c.FnsOfPkg(ebP) {
		lf := computeLockFlow(f, heldSet{})
		allInstrsIn(f, func(in ssa.Instruction) {
			ci, ok := in.(ssa.CallInstruction)
			if !ok {
				return
			}
			takesBusLock := false
			what := ""
			if op, isOp := mutexOps[calleeKey(ci)]; isOp && op.acquire {
				if mutexClass(callArgs(ci)[0]) == busT+".lk" {
					takesBusLock, what = true, "basicBus.lk acquired"
				}
			}
			if isCallTo(in, busM("tryDropNode"), busM("withNode")) || isDynCallOfField(in, ebP+".sub.dropper") || isDynCallOfField(in, ebP+".emitter.dropper") {
				takesBusLock, what = true, "call of "+calleeShort(ci)+" (takes basicBus.lk)"
			}
			if !takesBusLock {
				return
			}
			nOrder++
			bad := ""
			for k, h := range lf.may[in] {
				if h.class == nodeT+".lk" || (strings.HasSuffix(k, ".lk") && h.class != busT+".lk") {
					bad = k
				}
			}
			r2.Check(bad == "", fmt.Sprintf("%s: %s with no node lock held", fnKey(f), what), instrPos(in), 1, "", "lock order violation node.lk → basicBus.lk (deadlock with withNode / tryDropNode, which take basicBus.lk then node.lk)", bad)
		})
	}
	if nOrder < 5 {
		r2.Fail("basicBus.lk acquisition sites", token.NoPos, fmt.Sprintf("expected at least 5 (withNode, tryDropNode, GetAllEventTypes, two dropper calls), found %d", nOrder), "")
	}

	// ---- R3 ---------------------------------------------------------------
	r3 := r.Rule("C15-R3", "E1/E3", 6, "close protocol: drainer first, removal under the lock, close after the removal loop and only once; wildcard remover drains before taking the write lock")
	subClose := "(*" + ebP + ".sub).Close"
	isSubChanClose := func(in ssa.Instruction) bool {
		call, ok := in.(*ssa.Call)
		if !ok || calleeKey(call) != "builtin.close" {
			return false
		}
		fl, base := loadOfField(call.Call.Args[0])
		return fl != nil && (fieldKeyOf(base, fl) == ebP+".sub.ch" || fieldKeyOf(base, fl) == ebP+".wildcardSub.ch" || fieldKeyOf(base, fl) == ebP+".namedSink.ch")
	}
	var ebFns []*ssa.Function
	ebFns = append(ebFns, c.FnsOfPkg(ebP)...)
	r3.onlyIn("close a subscription channel", isSubChanClose, ebFns, subClose)
	if f := r3.need(subClose); f != nil {
		gos := findInstrs(f, func(in ssa.Instruction) bool { _, ok := in.(*ssa.Go); return ok })
		once := findInstrs(f, callPred("(*sync.Once).Do"))
		w, _ := (&Cut{Fn: f, Target: inSet(once), Sep: inSet(gos)}).Run(c)
		okDrain := false
		if len(gos) == 1 {
			if mc, isMC := gos[0].(*ssa.Go).Call.Value.(*ssa.MakeClosure); isMC {
				g := mc.Fn.(*ssa.Function)
				// the goroutine receives from s.ch until it is closed
				allInstrs(g, func(in ssa.Instruction) {
					if u, ok := in.(*ssa.UnOp); ok && u.Op == token.ARROW && u.CommaOk {
						fl, base := loadOfField(u.X)
						if fl != nil && fieldKeyOf(base, fl) == ebP+".sub.ch" {
							okDrain = true
						}
					}
				})
			}
		}
		r3.Check(len(gos) == 1 && len(once) == 1 && w == "" && okDrain, subClose+": a goroutine draining s.ch is started before the removal begins", f.Pos(), 2, "", "an emit blocked on this subscription holds the node lock that Close needs: deadlock", w)
		// inside the once-closure
		var body *ssa.Function
		for _, a := range allAnon(f) {
			if len(findInstrsIn(a, isSubChanClose)) > 0 {
				body = a
			}
		}
		if body == nil {
			r3.Fail(subClose+": close(s.ch)", f.Pos(), "not found inside the closeOnce closure", "")
		} else {
			isOnceArg := false
			for _, o := range once {
				if mc, ok := callArgs(o.(ssa.CallInstruction))[1].(*ssa.MakeClosure); ok && mc.Fn == ssa.Value(body) {
					isOnceArg = true
				}
			}
			r3.Check(isOnceArg, subClose+": the channel is closed inside closeOnce.Do", body.Pos(), 1, "", "a second Close closes the channel twice (panic)", "")
			cl := findInstrs(body, isSubChanClose)
			// the removal: a write to n.sinks under the node lock, in a loop over s.nodes; close is outside that loop and after it
			rem := findInstrs(body, fieldWritePred(nodeT+".sinks"))
			okAfter := len(cl) == 1 && len(rem) >= 1
			if okAfter {
				h, lbody := innermostLoop(body, rem[0].Block())
				// outermost loop containing the removal: climb
				for h != nil {
					h2, b2 := outerLoop(body, h, lbody)
					if h2 == nil {
						break
					}
					h, lbody = h2, b2
				}
				okAfter = h != nil && !lbody[cl[0].Block()]
				if okAfter {
					w, _ := (&Cut{Fn: body, Target: isInstr(cl[0]), Sep: isInstr(h.Instrs[0])}).Run(c)
					okAfter = w == ""
					// the loop ranges over s.nodes
					okAfter = okAfter && len(findInstrs(body, func(in ssa.Instruction) bool {
						u, ok := in.(*ssa.UnOp)
						return ok && u.Op == token.MUL && isLoadOfField(ebP+".sub.nodes")(u)
					})) >= 1
				}
			}
			r3.Check(okAfter, subClose+": close(s.ch) comes after the loop that removed the sink from every node", body.Pos(), 2, "", "an emit still holding a reference sends on a closed channel (panic)", "")
			// removal only for this subscription's channel
			lfB := computeLockFlow(body, heldSet{})
			okL := len(rem) >= 1
			for _, in := range rem {
				if !heldSuffix(lfB.must[in], ".lk") {
					okL = false
				}
			}
			r3.Check(okL, subClose+": the sink is removed under the node lock", body.Pos(), len(rem), "", "", "")
		}
	}
	// the sink removed is the closing subscription's own: identified by its channel (names are not unique)
	{
		isSinksOf := func(field string) func(ssa.Value) bool {
			return func(v ssa.Value) bool { return isLoadOfField(field)(strip2(v)) }
		}
		chOfElem := conjunctChEq(c, ebP)
		if f := c.Fn(subClose); f != nil {
			var body *ssa.Function
			for _, a := range allAnon(f) {
				if len(findInstrsIn(a, fieldWritePred(nodeT+".sinks"))) > 0 {
					body = a
				}
			}
			if body == nil {
				r3.Fail(subClose+": sink removal", f.Pos(), "no write to n.sinks found", "")
			} else {
				isSinks := isSinksOf(nodeT + ".sinks")
				isSubCh := func(v ssa.Value) bool { return isLoadOfField(ebP + ".sub.ch")(strip2(v)) }
				// every write to the list: element stores and the re-slice
				var writes []ssa.Instruction
				idxOfStore := map[ssa.Instruction]ssa.Value{}
				allInstrs(body, func(in ssa.Instruction) {
					if st, ok := in.(*ssa.Store); ok {
						if ia, ok := st.Addr.(*ssa.IndexAddr); ok && isSinks(ia.X) {
							writes = append(writes, in)
							idxOfStore[in] = ia.Index
						}
					}
					if isFieldWrite(in, nodeT+".sinks") {
						writes = append(writes, in)
					}
				})
				matched := map[ssa.Value]bool{}
				// (a) a comparison of an element's channel with s.ch
				elemIdx := func(v ssa.Value) ssa.Value {
					fl, base := loadOfField(strip2(v))
					if fl == nil || fl.Name() != "ch" {
						return nil
					}
					ld, ok := strip2(base).(*ssa.UnOp)
					if !ok || ld.Op != token.MUL {
						return nil
					}
					ia, ok := ld.X.(*ssa.IndexAddr)
					if !ok || !isSinks(ia.X) {
						return nil
					}
					return ia.Index
				}
				eqA := func(b *ssa.BasicBlock, si int) bool {
					if ifOf(b) == nil {
						return false
					}
					base, neg := stripNot(condOf(b))
					bo, ok := base.(*ssa.BinOp)
					if !ok || (bo.Op != token.EQL && bo.Op != token.NEQ) {
						return false
					}
					var idx ssa.Value
					if i := elemIdx(bo.X); i != nil && isSubCh(bo.Y) {
						idx = i
					} else if i := elemIdx(bo.Y); i != nil && isSubCh(bo.X) {
						idx = i
					}
					if idx == nil {
						return false
					}
					matched[resolveLoad(idx)] = true
					return (si == 0) == ((bo.Op == token.EQL) != neg)
				}
				// (b) idx := slices.IndexFunc(n.sinks, pred), pred answering true exactly for the sink on s.ch
				var idxCalls []ssa.Value
				for _, call := range callsIn(body, "slices.IndexFunc") {
					a := call.Common().Args
					mc, ok := strip2(a[1]).(*ssa.MakeClosure)
					if !isSinks(a[0]) || !ok {
						continue
					}
					g := mc.Fn.(*ssa.Function)
					cj := chOfElem(func(v ssa.Value) bool { return isSubCh(v) })
					m1 := answerGuardedBy(c, g, throughClosure(mc), []conjunct{cj}, true)
					m2 := answerGuardedBy(c, g, throughClosure(mc), []conjunct{cj.negate()}, false)
					r3.Check(len(m1) == 0 && len(m2) == 0, subClose+": the index searched is that of the sink on s.ch", instrPos(call.(ssa.Instruction)), 2, "", "another subscription's sink is detached, or this one stays registered with a closed channel", strings.Join(append(m1, m2...), "; "))
					if len(m1) == 0 {
						idxCalls = append(idxCalls, call.Value())
						matched[call.Value()] = true
					}
				}
				isIdx := func(v ssa.Value) bool {
					for _, x := range idxCalls {
						if v == x {
							return true
						}
					}
					return false
				}
				found := anyEdge(edgeExcl(isIdx, func(v ssa.Value) bool { k, ok := constInt(v); return ok && k == 0 }, ordLT),
					eqEdge(isIdx, func(v ssa.Value) bool { k, ok := constInt(v); return ok && k == -1 }, false))
				r3.guard(body, "write to n.sinks", writes, "the sink on s.ch was found", anyEdge(eqA, found), nil)
				okIdx := false
				for _, ix := range idxOfStore {
					if matched[ix] || matched[resolveLoad(ix)] {
						okIdx = true
					}
				}
				r3.Check(okIdx, subClose+": the slot overwritten is the one that compared equal", body.Pos(), len(idxOfStore)+1, "", "the sink detached is not the one that was identified", "")
			}
		}
		if f := c.Fn(wM("removeSink")); f != nil {
			n := 0
			for _, call := range callsIn(f, "slices.DeleteFunc") {
				a := call.Common().Args
				mc, ok := strip2(a[1]).(*ssa.MakeClosure)
				if !isSinksOf(wT+".sinks")(a[0]) || !ok {
					continue
				}
				n++
				g := mc.Fn.(*ssa.Function)
				th := throughClosure(mc)
				cj := chOfElem(func(v ssa.Value) bool { return isParamVar(c, th(v), "ch") || isParamVar(c, v, "ch") })
				m1 := answerGuardedBy(c, g, th, []conjunct{cj}, true)
				m2 := answerGuardedBy(c, g, th, []conjunct{cj.negate()}, false)
				r3.Check(len(m1) == 0 && len(m2) == 0, wM("removeSink")+": exactly the sinks on the closing channel are deleted", instrPos(call.(ssa.Instruction)), 2, "", "another wildcard subscription is detached, or the closing one keeps receiving", strings.Join(append(m1, m2...), "; "))
			}
			if n == 0 {
				// a hand-written filter: the new list is built by appends of the elements whose channel differs
				isCh := func(v ssa.Value) bool { return isParamVar(c, v, "ch") }
				isElemCh := func(v ssa.Value) bool {
					fl, _ := loadOfField(strip2(v))
					return fl != nil && fl.Name() == "ch" && !isCh(v)
				}
				var keeps []ssa.Instruction
				allInstrs(f, func(in ssa.Instruction) {
					call, ok := in.(*ssa.Call)
					if ok && calleeKey(call) == "builtin.append" && strings.Contains(types.TypeString(call.Type(), nil), "namedSink") {
						keeps = append(keeps, in)
					}
				})
				stores := findInstrs(f, fieldWritePred(wT+".sinks"))
				okBuilt := len(stores) == 1 && len(keeps) >= 1
				if okBuilt {
					okBuilt = derivesFrom(stores[0].(*ssa.Store).Val, func(v ssa.Value) bool {
						for _, k := range keeps {
							if v == k.(ssa.Value) {
								return true
							}
						}
						return false
					})
				}
				r3.Check(okBuilt, wM("removeSink")+": the new sink list is what the filter kept", f.Pos(), 2, "", "", "")
				differ := eqEdge(isElemCh, isCh, false)
				r3.guard(f, "keep a sink", keeps, "sink.ch != ch", differ, nil)
				var from []CFGEdge
				for _, b := range blocksDeep(f) {
					for sidx := range b.Succs {
						if differ(b, sidx) {
							from = append(from, CFGEdge{b, sidx})
						}
					}
				}
				if len(from) > 0 && len(keeps) > 0 {
					h := iterationOf(f, from[0].B)
					q := &Cut{Fn: f, FromEdges: from, Sep: inSet(keeps), Target: func(in ssa.Instruction) bool {
						if _, isRet := in.(*ssa.Return); isRet {
							return true
						}
						return h != nil && in.Block() == h && instrIndex(in) == 0
					}}
					r3.mustPass(f, wM("removeSink")+": every sink on another channel is kept", q, len(from))
					n = 1
				}
			}
			r3.Check(n == 1, wM("removeSink")+": one DeleteFunc over the sinks", f.Pos(), n, "", "", "")
		}
	}
	if f := r3.need(wM("removeSink")); f != nil {
		locks := findInstrs(f, callPred("(*sync.RWMutex).Lock"))
		starts := findInstrs(f, func(in ssa.Instruction) bool {
			if _, ok := in.(*ssa.Go); ok {
				return true
			}
			_, isDefer := in.(*ssa.Defer)
			return !isDefer && isCallTo(in, "(*sync.WaitGroup).Go")
		})
		w, n := (&Cut{Fn: f, Target: inSet(locks), Sep: inSet(starts)}).Run(c)
		// the goroutine started (its literal, or what that calls) receives from the channel being closed
		okDrain := false
		for _, a := range allAnon(f) {
			if receivesFrom(c, a, func(v ssa.Value) bool { return isFreeVarOrParam(v, "ch") || isParamVar(c, v, "ch") }, 0) {
				okDrain = true
			}
		}
		r3.Check(len(locks) == 1 && len(starts) >= 1 && w == "" && okDrain, wM("removeSink")+": a drainer of the sink's channel runs before the write lock is requested", f.Pos(), n+1, "", "a stalled wildcard emit holds the read lock forever: Close deadlocks", w)
		rem := findInstrs(f, fieldWritePred(wT+".sinks"))
		r3.Check(len(rem) == 1, wM("removeSink")+": removes the sink", f.Pos(), 1, "", "", "")
	}

	// ---- R4 ---------------------------------------------------------------
	r4 := r.Rule("C15-R4", "E1/E1b", 5, "stateful replay inside the registering critical section; keepLast monotone; last written only under keepLast")
	if f := r4.need(busM("Subscribe")); f != nil {
		calls := callsIn(f, withNodeK)
		var typed ssa.CallInstruction
		for _, call := range calls {
			if _, isNil := callArgs(call)[3].(*ssa.Const); !isNil {
				typed = call
			}
		}
		if typed == nil {
			r4.Fail(busM("Subscribe")+": withNode(typ, register, replay)", f.Pos(), "call with both callbacks not found", "")
		} else {
			a := callArgs(typed)
			reg, _ := a[2].(*ssa.MakeClosure)
			rep, _ := a[3].(*ssa.MakeClosure)
			ok := reg != nil && rep != nil
			if ok {
				regF, repF := reg.Fn.(*ssa.Function), rep.Fn.(*ssa.Function)
				// registration appends a sink for out.ch to n.sinks
				okReg := len(findInstrs(regF, fieldWritePred(nodeT+".sinks"))) == 1
				// replay: a send of n.last on out.ch, only past keepLast and non-nil
				sends := findInstrs(repF, func(in ssa.Instruction) bool {
					s, ok := in.(*ssa.Send)
					return ok && derivesFrom(s.X, isLoadOfField(nodeT+".last"))
				})
				// the replay blocks rather than drops: n.last is never offered through a select that has another way out
				var droppy []ssa.Instruction
				allInstrs(repF, func(in ssa.Instruction) {
					sel, ok := in.(*ssa.Select)
					if !ok {
						return
					}
					for _, st := range sel.States {
						if st.Send != nil && derivesFrom(st.Send, isLoadOfField(nodeT+".last")) && (!sel.Blocking || len(sel.States) > 1) {
							droppy = append(droppy, in)
						}
					}
				})
				for _, d := range droppy {
					r4.Fail(busM("Subscribe")+": the retained event is replayed with a blocking send", instrPos(d), "the replay is offered in a select with another way out (default / other case): a subscriber with a full or unbuffered queue never receives the retained event", "")
				}
				if len(droppy) == 0 {
					r4.OK(busM("Subscribe")+": the retained event is replayed with a blocking send", repF.Pos(), 1, "")
				}
				r4.Check(okReg && len(sends)+len(droppy) == 1, busM("Subscribe")+": the sink is registered in cb and the retained event replayed in async of the same withNode call", instrPos(typed.(ssa.Instruction)), 2, "", "an emit can slip between registration and replay: the subscriber sees a newer event before the retained one, or misses one", "")
				if len(sends) > 0 {
					r4.guard(repF, "out.ch <- n.last", sends, "n.keepLast", edgeBool(isLoadOfField(nodeT+".keepLast"), true), nil)
					r4.guard(repF, "out.ch <- n.last", sends, "n.last != nil", edgeNil(func(v ssa.Value) bool { return derivesFrom(v, isLoadOfField(nodeT+".last")) }, false), nil)
				}
			} else {
				r4.Fail(busM("Subscribe")+": callbacks", f.Pos(), "register/replay are not function literals", "")
			}
		}
	}
	// keepLast monotone: every store writes true, the old value, or a value that is true whenever the old value was
	nKL := 0
	for _, f := range c.FnsOfPkg(ebP) {
		for _, in := range findInstrsIn(f, fieldWritePred(nodeT+".keepLast")) {
			st := in.(*ssa.Store)
			if localAllocRoot(st.Addr) != nil {
				continue
			}
			nKL++
			assume := map[ssa.Value]bool{}
			allInstrsIn(f, func(x ssa.Instruction) {
				if v, ok := x.(ssa.Value); ok && isLoadOfField(nodeT+".keepLast")(v) {
					assume[v] = true
				}
			})
			ok := false
			detail := describeVal(st.Val)
			switch v := st.Val.(type) {
			case *ssa.Const:
				b, isC := constBool(v)
				ok = isC && b
			case *ssa.Phi:
				// edges carrying something other than true must be unreachable when the old value is true
				es := phiEdgesWhere(v, func(x ssa.Value) bool { b, isC := constBool(x); return !(isC && b) && !assume[x] })
				w, _ := (&Cut{Fn: f, TargetEdge: edgeSet(es), Assume: assume}).Run(c)
				ok = w == "" && len(assume) > 0
				detail = w
			case *ssa.BinOp:
				ok = v.Op == token.OR && (assume[v.X] || assume[v.Y])
			default:
				ok = assume[st.Val]
			}
			r4.Check(ok, fnKey(f)+": node.keepLast only goes from false to true", instrPos(in), 1, "", "a later non-stateful emitter of the same type switches off the replay of the last event for new subscribers", detail)
		}
	}
	if nKL < 1 {
		r4.Fail("stores to node.keepLast", token.NoPos, "none found", "")
	}
	if f := r4.need(nodeM("emit")); f != nil {
		st := findInstrs(f, fieldWritePred(nodeT+".last"))
		r4.guard(f, "n.last = evt", st, "n.keepLast", edgeBool(isLoadOfField(nodeT+".keepLast"), true), nil)
		// and a stateful node always records: the false edge of keepLast is the only way around the store
		w, n := (&Cut{Fn: f, Target: isRet, Sep: inSet(st), EdgeCut: edgeBool(isLoadOfField(nodeT+".keepLast"), false)}).Run(c)
		okVal := len(st) == 1 && isParamVar(c, st[0].(*ssa.Store).Val, "evt")
		r4.Check(w == "" && okVal, nodeM("emit")+": a stateful node records every emitted event as last", f.Pos(), n+1, "", "a new subscriber is replayed a stale event", w)
	}

	// ---- R5 ---------------------------------------------------------------
	r5 := r.Rule("C15-R5", "E1/E7b", 6, "a node is dropped only past `no emitters` and `no sinks`; the dropper runs only when the last emitter/sink went; emitters are counted inside the node's critical section")
	nEmitters := func(v ssa.Value) bool {
		ci := isResultOfCall(strip2(v), 0, "(*sync/atomic.Int32).Load")
		if ci == nil {
			return false
		}
		fl, base := fieldAddrOf(callArgs(ci)[0])
		return fl != nil && fieldKeyOf(base, fl) == nodeT+".nEmitters"
	}
	lenSinks := func(v ssa.Value) bool {
		call, ok := v.(*ssa.Call)
		return ok && calleeKey(call) == "builtin.len" && isLoadOfField(nodeT+".sinks")(call.Call.Args[0])
	}
	if f := r5.need(busM("tryDropNode")); f != nil {
		dels := findInstrs(f, func(in ssa.Instruction) bool {
			return isCallTo(in, "builtin.delete") && isFieldWrite(in, busT+".nodes")
		})
		r5.guard(f, "delete(b.nodes, typ)", dels, "nEmitters == 0", edgeExcl(nEmitters, isZero, ordGT), nil)
		r5.guard(f, "delete(b.nodes, typ)", dels, "len(sinks) == 0", edgeExcl(lenSinks, isZero, ordGT), nil)
		// the test and the delete are in one critical section of b.lk
		lf := computeLockFlow(f, heldSet{})
		ok := len(dels) == 1
		for _, d := range dels {
			if !heldSuffix(lf.must[d], f.Params[0].Name()+".lk") { // (the receiver, whatever it is called)
				ok = false
			}
		}
		for _, u := range callsIn(f, "(*sync.RWMutex).Unlock") {
			ui := u.(ssa.Instruction)
			if !strings.HasPrefix(pathOf(callArgs(u)[0]), f.Params[0].Name()+".") {
				continue
			}
			if _, deferred := ui.(*ssa.Defer); deferred {
				continue // runs at the exit, after the delete
			}
			if w, _ := (&Cut{Fn: f, From: []ssa.Instruction{ui}, Target: inSet(dels)}).Run(c); w != "" {
				ok = false
			}
		}
		r5.Check(ok, busM("tryDropNode")+": lookup, in-use test and delete form one critical section of b.lk", f.Pos(), 2, "", "a subscriber or emitter registered in between loses its node", "")
	}
	if f := r5.need("(*" + ebP + ".emitter).Close"); f != nil {
		drops := findInstrs(f, func(in ssa.Instruction) bool { return isDynCallOfField(in, ebP+".emitter.dropper") })
		lastGone := func(v ssa.Value) bool {
			ci := isResultOfCall(v, 0, "(*sync/atomic.Int32).Add")
			if ci == nil {
				return false
			}
			k, isC := constInt(callArgs(ci)[1])
			fl, base := fieldAddrOf(callArgs(ci)[0])
			return isC && k == -1 && fl != nil && fieldKeyOf(base, fl) == nodeT+".nEmitters"
		}
		r5.guard(f, "dropper(typ)", drops, "nEmitters.Add(-1) == 0", edgeExcl(lastGone, isZero, ordGT, ordLT), nil)
		// exactly one decrement, only for the winner of the CAS
		decs := findInstrs(f, func(in ssa.Instruction) bool { v, ok := in.(ssa.Value); return ok && lastGone(v) })
		// exactly one Close wins: CompareAndSwap(false, true) succeeded, or Swap(true) returned the old value false
		wonCAS := edgeBool(func(v ssa.Value) bool {
			ci := isResultOfCall(v, 0, "(*sync/atomic.Bool).CompareAndSwap")
			if ci == nil {
				return false
			}
			o, ok1 := constBool(callArgs(ci)[1])
			n, ok2 := constBool(callArgs(ci)[2])
			return ok1 && ok2 && !o && n && isLoadOfFieldAddr(callArgs(ci)[0], ebP+".emitter.closed")
		}, true)
		wonSwap := edgeBool(func(v ssa.Value) bool {
			ci := isResultOfCall(v, 0, "(*sync/atomic.Bool).Swap")
			if ci == nil {
				return false
			}
			n, ok := constBool(callArgs(ci)[1])
			return ok && n && isLoadOfFieldAddr(callArgs(ci)[0], ebP+".emitter.closed")
		}, false)
		r5.guard(f, "nEmitters.Add(-1)", decs, "closed.CompareAndSwap(false, true)", anyEdge(wonCAS, wonSwap), nil)
	}
	if f := r5.need(busM("Emitter")); f != nil {
		ok := false
		for _, call := range callsIn(f, withNodeK) {
			if mc, isMC := callArgs(call)[2].(*ssa.MakeClosure); isMC {
				g := mc.Fn.(*ssa.Function)
				incs := findInstrs(g, func(in ssa.Instruction) bool {
					if !isCallTo(in, "(*sync/atomic.Int32).Add") {
						return false
					}
					k, isC := constInt(callArgs(in.(ssa.CallInstruction))[1])
					return isC && k == 1
				})
				ok = len(incs) == 1
			}
		}
		r5.Check(ok, busM("Emitter")+": the emitter is counted inside the node's critical section", f.Pos(), 1, "", "tryDropNode can drop the node between its creation and the emitter's registration", "")
	}
	if f := r5.need(subClose); f != nil {
		for _, a := range allAnon(f) {
			drops := findInstrsIn(a, func(in ssa.Instruction) bool { return isDynCallOfField(in, ebP+".sub.dropper") })
			if len(drops) == 0 {
				continue
			}
			// tryDrop := len(n.sinks) == 0 && nEmitters == 0 (a phi of the two tests); the call is past its true edge
			for _, d := range drops {
				w1, n1 := (&Cut{Fn: a, Target: isInstr(d), EdgeCut: edgeExcl(lenSinks, isZero, ordGT)}).Run(c)
				w2, n2 := (&Cut{Fn: a, Target: isInstr(d), EdgeCut: edgeExcl(nEmitters, isZero, ordGT)}).Run(c)
				// the flag phi: reaching the call requires the flag true, which is only set on the path through both tests
				ok := w1 == "" && w2 == ""
				if !ok {
					ok = flagGuarded(c, a, d, []ordGuard{{lenSinks, isZero, []ordering{ordGT}}, {nEmitters, isZero, []ordering{ordGT}}})
				}
				r5.Check(ok, subClose+": dropper(n.typ) only when the node has no sinks and no emitters", instrPos(d), n1+n2+1, "", "", w1+w2)
			}
		}
	}
}

func isFreeVarOrParam(v ssa.Value, name string) bool {
	switch x := v.(type) {
	case *ssa.FreeVar:
		return freeVarIs(x, name)
	case *ssa.Parameter:
		return paramIs(x, name)
	case *ssa.UnOp:
		if x.Op == token.MUL {
			return isFreeVarOrParam(x.X, name)
		}
	}
	return false
}

// outerLoop: the next enclosing loop of the loop (h, body).
func outerLoop(f *ssa.Function, h *ssa.BasicBlock, body map[*ssa.BasicBlock]bool) (*ssa.BasicBlock, map[*ssa.BasicBlock]bool) {
	var bestH *ssa.BasicBlock
	var best map[*ssa.BasicBlock]bool
	for _, blk := range f.Blocks {
		if blk == h {
			continue
		}
		h2, b2 := innermostLoopWithHeader(f, blk)
		if h2 == nil || !b2[h] || len(b2) <= len(body) {
			continue
		}
		if best == nil || len(b2) < len(best) {
			bestH, best = h2, b2
		}
	}
	return bestH, best
}

// innermostLoopWithHeader: the natural loop whose header is blk (nil if none).
func innermostLoopWithHeader(f *ssa.Function, blk *ssa.BasicBlock) (*ssa.BasicBlock, map[*ssa.BasicBlock]bool) {
	body := map[*ssa.BasicBlock]bool{}
	found := false
	for _, t := range blk.Preds {
		if !blk.Dominates(t) {
			continue
		}
		found = true
		body[blk] = true
		stack := []*ssa.BasicBlock{t}
		for len(stack) > 0 {
			n := stack[len(stack)-1]
			stack = stack[:len(stack)-1]
			if body[n] {
				continue
			}
			body[n] = true
			stack = append(stack, n.Preds...)
		}
	}
	if !found {
		return nil, nil
	}
	return blk, body
}

type ordGuard struct {
	isA, isB func(ssa.Value) bool
	excl     []ordering
}

// flagGuarded: the target is reached only past the true edge of a boolean
// phi flag, and every operand of the phi that may be true either arrives over
// an edge reachable only past the guard, or is itself a comparison whose
// truth establishes the guard.
func flagGuarded(c *Ctx, f *ssa.Function, target ssa.Instruction, guards []ordGuard) bool {
	for _, b := range blocksDeep(f) {
		ifi := ifOf(b)
		if ifi == nil {
			continue
		}
		phi, ok := ifi.Cond.(*ssa.Phi)
		if !ok {
			continue
		}
		// target only past the true edge of this If
		w, _ := (&Cut{Fn: f, Target: isInstr(target), EdgeCut: func(bb *ssa.BasicBlock, s int) bool { return bb == b && s == 0 }}).Run(c)
		if w != "" {
			continue
		}
		ok = true
		for _, g := range guards {
			establishes := func(v ssa.Value) bool {
				tab := condTable(v, g.isA, g.isB)
				for _, o := range g.excl {
					if tab[o] != triFalse {
						return false
					}
				}
				return true
			}
			// operands that may be true and do not establish the guard by themselves
			es := phiEdgesWhere(phi, func(v ssa.Value) bool {
				bv, isC := constBool(v)
				if isC && !bv {
					return false
				}
				return !establishes(v)
			})
			if len(es) == 0 {
				continue
			}
			if w, _ := (&Cut{Fn: f, TargetEdge: edgeSet(es), EdgeCut: edgeExcl(g.isA, g.isB, g.excl...)}).Run(c); w != "" {
				ok = false
			}
		}
		if ok {
			return true
		}
	}
	return false
}

// conjunctChEq: "the sink's ch equals the closing channel": a comparison of a namedSink's ch field with a value
// satisfying isOurs.
func conjunctChEq(c *Ctx, ebP string) func(isOurs func(ssa.Value) bool) conjunct {
	return func(isOurs func(ssa.Value) bool) conjunct {
		return conjunct{name: "sink.ch == closing channel", cond: func(th func(ssa.Value) ssa.Value) condPred {
			isElemCh := func(v ssa.Value) bool {
				fl, _ := loadOfField(strip2(v))
				return fl != nil && fl.Name() == "ch" && !isOurs(v)
			}
			return eqCond(isElemCh, func(v ssa.Value) bool { return isOurs(v) || isOurs(th(v)) })
		}}
	}
}

// isLoadOfFieldAddr: v is the address of the keyed field (&x.f), as passed to a method with pointer receiver.
func isLoadOfFieldAddr(v ssa.Value, fieldKey string) bool {
	fl, base := fieldAddrOf(strip2(v))
	return fl != nil && fieldKeyOf(base, fl) == fieldKey
}

// receivesFrom: g receives (plain receive or select case) from a channel satisfying isCh, or passes such a channel
// to a module function that does (two levels).
func receivesFrom(c *Ctx, g *ssa.Function, isCh func(ssa.Value) bool, depth int) bool {
	found := false
	allInstrs(g, func(in ssa.Instruction) {
		if found {
			return
		}
		switch x := in.(type) {
		case *ssa.Select:
			for _, st := range x.States {
				if st.Send == nil && isCh(strip2(st.Chan)) {
					found = true
				}
			}
		case *ssa.UnOp:
			if x.Op == token.ARROW && isCh(strip2(x.X)) {
				found = true
			}
		case *ssa.Call:
			h := x.Call.StaticCallee()
			if h == nil || h.Blocks == nil || depth >= 2 || h.Pkg == nil || !strings.HasPrefix(h.Pkg.Pkg.Path()+"/", Mod) {
				return
			}
			for i, a := range x.Call.Args {
				if i < len(h.Params) && isCh(strip2(a)) {
					p := h.Params[i]
					asRoot(h, func() {
						if receivesFrom(c, h, func(v ssa.Value) bool { return v == ssa.Value(p) || isParamCellLoad(c, v, p) }, depth+1) {
							found = true
						}
					})
				}
			}
		}
	})
	return found
}
