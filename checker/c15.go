package main

import (
	"fmt"
	"go/token"
	"go/types"
	"sort"
	"strings"

	"golang.org/x/tools/go/ssa"
)

func init() {
	register("C15", checkC15,
		"Decides structurally for the event bus: (R1) path event counting: every iteration of the delivery loops of node.emit and wildcardNode.emit, and every path of emitAndLogError, performs exactly one send of the emitted value on that sink's channel (no drop, no duplicate), and Emit calls both delivery functions exactly once unless closed; (R2) sinks/last/keepLast/nodes under their locks, withNode runs both callbacks with the node lock held and hands it to the async goroutine, basicBus.lk is never taken (directly or via the dropper) while a node lock may be held; "+
			"(R3) sub.Close starts its drainer before touching a node lock, closes the channel only after the removal loop and only inside closeOnce, nothing else closes a subscription channel; the wildcard remover starts its drainer before taking the write lock; (R4) the retained event is replayed inside the critical section that registered the sink, keepLast never goes from true to false, last is written only under keepLast; "+
			"(R5) a node is dropped only past `no emitters` and `no sinks` (both), the dropper is invoked only when the last emitter / sink went, Emit refuses after Close.",
		"per-emitter order and exactly-once under concurrent subscribe/close as a property of schedules, deadlock freedom in general, fairness of the drainers")
}

func checkC15(c *Ctx, r *Report) {
	ebP := "p2p/host/eventbus"
	nodeT := ebP + ".node"
	wT := ebP + ".wildcardNode"
	busT := ebP + ".basicBus"
	nodeM := func(n string) string { return "(*" + nodeT + ")." + n }
	wM := func(n string) string { return "(*" + wT + ")." + n }
	busM := func(n string) string { return "(*" + busT + ")." + n }
	isRet := func(in ssa.Instruction) bool { _, ok := in.(*ssa.Return); return ok }
	isZero := func(v ssa.Value) bool { k, ok := constInt(v); return ok && k == 0 }

	// ---- R1 ---------------------------------------------------------------
	r1 := r.Rule("C15-R1", "E9", 5, "exactly one send of the emitted value per sink per emit (delivery loops, slow-consumer helper); Emit delivers to the typed node and the wildcard node exactly once")
	chanOf := func(isSink func(ssa.Value) bool) func(ssa.Value) bool {
		return func(v ssa.Value) bool {
			fl, base := loadOfField(v)
			return fl != nil && fieldKeyOf(base, fl) == ebP+".namedSink.ch" && isSink(base)
		}
	}
	elk := ebP + ".emitAndLogError"
	// deliversOnce: every path of h sends the value of its evtIdx-th parameter on the channel of the sink that is its
	// sinkIdx-th parameter exactly once — directly, through a select case, or by handing both to a function that does.
	type dkey struct {
		f         *ssa.Function
		sink, evt int
	}
	dmemo := map[dkey]*pathResult{}
	var deliversOnce func(h *ssa.Function, sinkIdx, evtIdx, depth int) pathResult
	// countIn: the per-path send counter of function g, given what its sink and event are
	countIn := func(g *ssa.Function, header *ssa.BasicBlock, body map[*ssa.BasicBlock]bool, isSink, isEvt func(ssa.Value) bool, depth int) pathResult {
		return (&pathEnum{Fn: g, Header: header, Body: body,
			Instr: func(in ssa.Instruction) int {
				if s, ok := in.(*ssa.Send); ok && chanOf(isSink)(s.Chan) && isEvt(s.X) {
					return 1
				}
				call, ok := in.(*ssa.Call)
				if !ok || depth <= 0 {
					return 0
				}
				h := call.Call.StaticCallee()
				if h == nil || h.Blocks == nil || h.Pkg == nil || !strings.HasPrefix(h.Pkg.Pkg.Path()+"/", Mod) {
					return 0
				}
				si, ei := -1, -1
				for i, a := range call.Call.Args {
					if isSink(a) {
						si = i
					}
					if isEvt(a) {
						ei = i
					}
				}
				if si < 0 || ei < 0 {
					return 0
				}
				res := deliversOnce(h, si, ei, depth-1)
				if res.only(1) {
					return 1
				}
				if res.only(0) {
					return 0
				}
				return 1000 // sometimes: never acceptable
			},
			Edge: func(b *ssa.BasicBlock, s int) int {
				if selectSendEdge(b, s, chanOf(isSink), isEvt) {
					return 1
				}
				return 0
			},
			Maybe: func(in ssa.Instruction) bool { return selectSendUntested(in, chanOf(isSink), isEvt) }}).Run()
	}
	deliversOnce = func(h *ssa.Function, sinkIdx, evtIdx, depth int) pathResult {
		k := dkey{h, sinkIdx, evtIdx}
		if r, ok := dmemo[k]; ok {
			if r == nil {
				return pathResult{counts: map[int]string{1000: "recursion"}, paths: 1}
			}
			return *r
		}
		dmemo[k] = nil
		ps, pe := h.Params[sinkIdx], h.Params[evtIdx]
		var res pathResult
		asRoot(h, func() {
			res = countIn(h, nil, nil,
				func(v ssa.Value) bool { return v == ssa.Value(ps) || isParamCellLoad(c, v, ps) },
				func(v ssa.Value) bool { return v == ssa.Value(pe) || isParamCellLoad(c, v, pe) }, depth)
		})
		dmemo[k] = &res
		return res
	}
	if f := r1.need(elk); f != nil {
		si, ei := -1, -1
		for i, p := range f.Params {
			if paramIs(p, "sink") {
				si = i
			}
			if paramIs(p, "evt") {
				ei = i
			}
		}
		if si < 0 || ei < 0 {
			r1.Fail(elk+": parameters", f.Pos(), "sink / evt parameters not found", "")
		} else {
			res := deliversOnce(f, si, ei, 2)
			r1.Check(res.only(1), elk+": every path sends evt on sink.ch exactly once", f.Pos(), res.paths, res.String(), "a slow subscriber's event is dropped (or delivered twice)", res.String())
		}
	}
	for _, k := range []struct{ fn, sinksField string }{{nodeM("emit"), nodeT + ".sinks"}, {wM("emit"), wT + ".sinks"}} {
		f := r1.need(k.fn)
		if f == nil {
			continue
		}
		// the delivery loop: the innermost loop that loads an element of the sinks list
		var elemBlock *ssa.BasicBlock
		isSinksList := func(v ssa.Value) bool {
			return derivesFrom(v, isLoadOfField(k.sinksField), "slices.Clone")
		}
		allInstrs(f, func(in ssa.Instruction) {
			if ld, ok := in.(*ssa.UnOp); ok && ld.Op == token.MUL {
				if ia, ok := ld.X.(*ssa.IndexAddr); ok && isSinksList(ia.X) {
					elemBlock = in.Block()
				}
			}
		})
		if elemBlock == nil {
			r1.Fail(k.fn+": delivery loop", f.Pos(), "no loop over the sinks found", "")
			continue
		}
		// (the loop may have moved, whole, into a helper the emit function calls under its lock)
		lf := elemBlock.Parent()
		h, body := innermostLoop(lf, elemBlock)
		if h == nil {
			r1.Fail(k.fn+": delivery loop", f.Pos(), "the sinks are not visited in a loop", "")
			continue
		}
		isSink := func(v ssa.Value) bool {
			ld, ok := v.(*ssa.UnOp)
			if !ok || ld.Op != token.MUL {
				return false
			}
			ia, ok := ld.X.(*ssa.IndexAddr)
			if !ok || !body[ld.Block()] {
				return false
			}
			return isSinksList(ia.X)
		}
		isEvt := func(v ssa.Value) bool { return isParamVar(c, v, "evt") }
		var res pathResult
		asRoot(f, func() { res = countIn(lf, h, body, isSink, isEvt, 3) })
		r1.Check(res.only(1), k.fn+": every iteration over the sinks sends evt to that sink exactly once", f.Pos(), res.paths, res.String(), "an event is dropped for (or delivered twice to) a subscriber", res.String())
	}
	// delivery happens inside the node's critical section: Close (typed: sub.Close, wildcard: removeSink) takes the
	// lock to know that no emit is still on its way to the sink it removes
	for _, k := range []struct{ fn, lock string }{{nodeM("emit"), ".lk"}, {wM("emit"), "RWMutex"}} {
		f := r1.need(k.fn)
		if f == nil {
			continue
		}
		isSinkSend := func(in ssa.Instruction) bool {
			isSinkCh := func(v ssa.Value) bool {
				fl, _ := loadOfField(strip2(v))
				return fl != nil && fl.Name() == "ch"
			}
			switch x := in.(type) {
			case *ssa.Send:
				return isSinkCh(x.Chan)
			case *ssa.Select:
				for _, st := range x.States {
					if st.Send != nil && isSinkCh(st.Chan) {
						return true
					}
				}
			}
			return false
		}
		lf := computeLockFlow(f, heldSet{})
		n := 0
		for _, in := range findInstrsIn(f, func(in ssa.Instruction) bool {
			if _, isGo := in.(*ssa.Go); isGo {
				return false
			}
			return writesLike(in, isSinkSend, 3)
		}) {
			n++
			held := false
			for h := range lf.must[in] {
				if strings.HasSuffix(h, k.lock) {
					held = true
				}
			}
			r1.Check(held, k.fn+": events are sent to the sinks while the node's lock is held", instrPos(in), 1, "", "Close can finish (lock taken, sink removed, final sweep done) while an emit that already picked the sink still delivers to it: a closed subscription receives an event", fmtHeld(lf.must[in]))
		}
		r1.Check(n >= 1, k.fn+": delivery site", f.Pos(), n, "", "", "")
	}
	if f := r1.need("(*" + ebP + ".emitter).Emit"); f != nil {
		res := (&pathEnum{Fn: f, Instr: func(in ssa.Instruction) int {
			n := 0
			if isCallTo(in, nodeM("emit")) && isParamVar(c, callArgs(in.(ssa.CallInstruction))[1], "evt") {
				n += 1
			}
			if isCallTo(in, wM("emit")) && isParamVar(c, callArgs(in.(ssa.CallInstruction))[1], "evt") {
				n += 100
			}
			if ret, ok := in.(*ssa.Return); ok && !isNilConst(retVal(ret, 0)) {
				n += 10000
			}
			return n
		}}).Run()
		ok := !res.overflow && res.paths > 0
		for k := range res.counts {
			if k != 101 && k != 10000 {
				ok = false
			}
		}
		_, hasOK := res.counts[101]
		r1.Check(ok && hasOK, "(*emitter).Emit: a nil return means the typed node and the wildcard node each got the event exactly once", f.Pos(), res.paths, res.String(), "an accepted event is not delivered to typed (or wildcard) subscribers", res.String())
		// closed => error
		var okRets []ssa.Instruction
		for _, ret := range returnsOf(f) {
			if isNilConst(retVal(ret, 0)) {
				okRets = append(okRets, ret)
			}
		}
		r1.guard(f, "return nil", okRets, "!closed", edgeBool(func(v ssa.Value) bool {
			ci := isResultOfCall(v, 0, "(*sync/atomic.Bool).Load")
			if ci == nil {
				return false
			}
			fl, base := fieldAddrOf(callArgs(ci)[0])
			return fl != nil && fieldKeyOf(base, fl) == ebP+".emitter.closed"
		}, false), nil)
	}

	// the slow-consumer path dereferences its logger: every field a logger reaches the helper from is set, on every
	// path, before the constructor that allocated its owner returns
	{
		ebAll := c.FnsOfPkg(ebP)
		logFields := map[string]bool{}
		var addSrc func(v ssa.Value, depth int)
		addSrc = func(v ssa.Value, depth int) {
			v = resolveLoad(strip2(v))
			if fl, base := loadOfField(v); fl != nil {
				k := fieldKeyOf(base, fl)
				if logFields[k] || !strings.HasPrefix(k, ebP+".") {
					return
				}
				logFields[k] = true
				for _, g := range ebAll {
					for _, in := range findInstrsIn(g, fieldWritePred(k)) {
						if st, ok := in.(*ssa.Store); ok && depth < 6 {
							addSrc(st.Val, depth+1)
						}
					}
				}
				return
			}
			p, ok := v.(*ssa.Parameter)
			if !ok || depth >= 6 {
				return
			}
			h := p.Parent()
			idx := -1
			for i, q := range h.Params {
				if q == p {
					idx = i
				}
			}
			for _, g := range ebAll {
				for _, in := range findInstrsIn(g, func(in ssa.Instruction) bool {
					ci, ok := in.(ssa.CallInstruction)
					return ok && ci.Common().StaticCallee() == h
				}) {
					if a := in.(ssa.CallInstruction).Common().Args; idx >= 0 && idx < len(a) {
						addSrc(a[idx], depth+1)
					}
				}
			}
		}
		for _, g := range ebAll {
			for _, in := range findInstrsIn(g, callPred(elk)) {
				asRoot(g, func() { addSrc(callArgs(in.(ssa.CallInstruction))[0], 0) })
			}
		}
		var keys []string
		for k := range logFields {
			keys = append(keys, k)
		}
		sort.Strings(keys)
		nAlloc := 0
		for _, k := range keys {
			owner := k[:strings.LastIndex(k, ".")]
			found := false
			for _, g := range ebAll {
				for _, in := range findInstrsIn(g, func(in ssa.Instruction) bool {
					a, ok := in.(*ssa.Alloc)
					if !ok {
						return false
					}
					return strings.ReplaceAll(types.TypeString(a.Type().Underlying().(*types.Pointer).Elem(), nil), Mod, "") == owner
				}) {
					a := in.(*ssa.Alloc)
					found = true
					nAlloc++
					isOurs := func(v ssa.Value) bool { return strip2(v) == ssa.Value(a) }
					sets := findInstrsIn(g, func(in ssa.Instruction) bool {
						st, ok := in.(*ssa.Store)
						if !ok || isNilConst(st.Val) {
							return false
						}
						fl, base := fieldAddrOf(st.Addr)
						return fl != nil && isOurs(base) && fieldKeyOf(base, fl) == k
					})
					isSet := eqEdge(func(v ssa.Value) bool {
						fl, base := loadOfField(v)
						return fl != nil && isOurs(base) && fieldKeyOf(base, fl) == k
					}, isNilConst, false)
					q := &Cut{Fn: g, From: []ssa.Instruction{a}, Target: isRet, Sep: inSet(sets), EdgeCut: isSet}
					r1.mustPass(g, fnKey(g)+": the "+k+" of the object allocated here is set before the function returns", q, len(sets))
				}
			}
			r1.Check(found, k+": reaches the slow-consumer helper's logger; its owner's construction site", token.NoPos, 1, "", "", "no allocation of "+owner+" found in the package")
		}
		r1.Check(len(keys) >= 2 && nAlloc >= 2, "logger of the slow-consumer path: fields it is read from", token.NoPos, len(keys), strings.Join(keys, ", "), "", "fewer than the two node kinds")
	}

	// ---- R2 ---------------------------------------------------------------
	r2 := r.Rule("C15-R2", "E4", 25, "sinks/last/keepLast under node.lk, wildcard sinks under its lock, nodes under basicBus.lk; withNode contract; lock order node.lk -/-> basicBus.lk")
	withNodeK := busM("withNode")
	lockRule(c, r2, lockSpec{Pkg: ebP, Type: "node", Mutex: "lk", Guarded: []string{"sinks", "last", "keepLast"},
		Exempt:     map[string]string{ebP + ".newNode": "constructor"},
		RunsLocked: map[string]string{withNodeK: "withNode invokes cb and async with n.lk held (contract checked below)"}})
	lockRule(c, r2, lockSpec{Pkg: ebP, Type: "wildcardNode", Mutex: "RWMutex", Guarded: []string{"sinks"}})
	lockRule(c, r2, lockSpec{Pkg: ebP, Type: "basicBus", Mutex: "lk", Guarded: []string{"nodes"},
		Exempt: map[string]string{ebP + ".NewBus": "constructor"}})
	heldSuffix := func(h heldSet, suffix string) bool {
		for k := range h {
			if strings.HasSuffix(k, suffix) {
				return true
			}
		}
		return false
	}
	if f := r2.need(withNodeK); f != nil {
		lf := computeLockFlow(f, heldSet{})
		var cbCalls, gos []ssa.Instruction
		allInstrs(f, func(in ssa.Instruction) {
			if call, ok := in.(*ssa.Call); ok && !call.Call.IsInvoke() {
				if isParamVar(c, call.Call.Value, "cb") {
					cbCalls = append(cbCalls, in)
				}
			}
			if _, ok := in.(*ssa.Go); ok {
				gos = append(gos, in)
			}
		})
		ok := len(cbCalls) == 1 && len(gos) == 1
		for _, in := range append(append([]ssa.Instruction{}, cbCalls...), gos...) {
			if !heldSuffix(lf.must[in], ".lk") || heldSuffix(lf.may[in], "b.lk") {
				ok = false
			}
		}
		r2.Check(ok, withNodeK+": cb(n) and the async hand-over happen with n.lk held and b.lk released", f.Pos(), 2, "", "the registration callback or the replay runs outside the node's critical section", "")
		// the goroutine releases the lock it was handed (deferred) and runs async(n)
		okG := false
		if len(gos) == 1 {
			if mc, isMC := gos[0].(*ssa.Go).Call.Value.(*ssa.MakeClosure); isMC {
				g := mc.Fn.(*ssa.Function)
				defs := findInstrs(g, func(in ssa.Instruction) bool {
					_, isD := in.(*ssa.Defer)
					return isD && isCallTo(in, "(*sync.Mutex).Unlock")
				})
				var asyncCalls []ssa.Instruction
				allInstrs(g, func(in ssa.Instruction) {
					if call, ok := in.(*ssa.Call); ok && !call.Call.IsInvoke() && isFreeVarOrParam(call.Call.Value, "async") {
						asyncCalls = append(asyncCalls, in)
					}
				})
				w, _ := (&Cut{Fn: g, Target: func(in ssa.Instruction) bool { return inSet(asyncCalls)(in) || isRet(in) }, Sep: inSet(defs)}).Run(c)
				okG = len(defs) == 1 && len(asyncCalls) == 1 && w == ""
			}
		}
		r2.Check(okG, withNodeK+": the async goroutine defers n.lk.Unlock() before running async(n)", f.Pos(), 2, "", "the node lock is leaked or released before the replay", "")
		// every path releases the node lock exactly through one of the two ways
		unl := findInstrs(f, func(in ssa.Instruction) bool {
			if !isCallTo(in, "(*sync.Mutex).Unlock") {
				return false
			}
			return strings.HasSuffix(pathOf(callArgs(in.(ssa.CallInstruction))[0]), ".lk") && !strings.HasPrefix(pathOf(callArgs(in.(ssa.CallInstruction))[0]), "b.")
		})
		w, n := (&Cut{Fn: f, From: cbCalls, Target: isRet, Sep: func(in ssa.Instruction) bool { return inSet(unl)(in) || inSet(gos)(in) }}).Run(c)
		r2.Check(w == "", withNodeK+": the node lock is released (or handed over) on every path", f.Pos(), n+1, "", "", w)
	}
	// lock order: never basicBus.lk (nor the dropper, which takes it) while a node lock may be held
	nOrder := 0
	for _, f := range c.FnsOfPkg(ebP) {
		lf := computeLockFlow(f, heldSet{})
		allInstrsIn(f, func(in ssa.Instruction) {
			ci, ok := in.(ssa.CallInstruction)
			if !ok {
				return
			}
			takesBusLock := false
			what := ""
			if op, isOp := mutexOps[calleeKey(ci)]; isOp && op.acquire {
				if mutexClass(callArgs(ci)[0]) == busT+".lk" {
					takesBusLock, what = true, "basicBus.lk acquired"
				}
			}
			if isCallTo(in, busM("tryDropNode"), busM("withNode")) || isDynCallOfField(in, ebP+".sub.dropper") || isDynCallOfField(in, ebP+".emitter.dropper") {
				takesBusLock, what = true, "call of "+calleeShort(ci)+" (takes basicBus.lk)"
			}
			if !takesBusLock {
				return
			}
			nOrder++
			bad := ""
			for k, h := range lf.may[in] {
				if h.class == nodeT+".lk" || (strings.HasSuffix(k, ".lk") && h.class != busT+".lk") {
					bad = k
				}
			}
			r2.Check(bad == "", fmt.Sprintf("%s: %s with no node lock held", fnKey(f), what), instrPos(in), 1, "", "lock order violation node.lk → basicBus.lk (deadlock with withNode / tryDropNode, which take basicBus.lk then node.lk)", bad)
		})
	}
	if nOrder < 5 {
		r2.Fail("basicBus.lk acquisition sites", token.NoPos, fmt.Sprintf("expected at least 5 (withNode, tryDropNode, GetAllEventTypes, two dropper calls), found %d", nOrder), "")
	}

	// ---- R3 ---------------------------------------------------------------
	r3 := r.Rule("C15-R3", "E1/E3", 6, "close protocol: drainer first, removal under the lock, close after the removal loop and only once; wildcard remover drains before taking the write lock")
	subClose := "(*" + ebP + ".sub).Close"
	isSubChanClose := func(in ssa.Instruction) bool {
		call, ok := in.(*ssa.Call)
		if !ok || calleeKey(call) != "builtin.close" {
			return false
		}
		fl, base := loadOfField(call.Call.Args[0])
		return fl != nil && (fieldKeyOf(base, fl) == ebP+".sub.ch" || fieldKeyOf(base, fl) == ebP+".wildcardSub.ch" || fieldKeyOf(base, fl) == ebP+".namedSink.ch")
	}
	var ebFns []*ssa.Function
	ebFns = append(ebFns, c.FnsOfPkg(ebP)...)
	r3.onlyIn("close a subscription channel", isSubChanClose, ebFns, subClose)
	if f := r3.need(subClose); f != nil {
		gos := findInstrs(f, func(in ssa.Instruction) bool { _, ok := in.(*ssa.Go); return ok })
		once := findInstrs(f, callPred("(*sync.Once).Do"))
		w, _ := (&Cut{Fn: f, Target: inSet(once), Sep: inSet(gos)}).Run(c)
		okDrain := false
		if len(gos) == 1 {
			if mc, isMC := gos[0].(*ssa.Go).Call.Value.(*ssa.MakeClosure); isMC {
				g := mc.Fn.(*ssa.Function)
				// the goroutine receives from s.ch until it is closed
				allInstrs(g, func(in ssa.Instruction) {
					if u, ok := in.(*ssa.UnOp); ok && u.Op == token.ARROW && u.CommaOk {
						fl, base := loadOfField(u.X)
						if fl != nil && fieldKeyOf(base, fl) == ebP+".sub.ch" {
							okDrain = true
						}
					}
				})
			}
		}
		r3.Check(len(gos) == 1 && len(once) == 1 && w == "" && okDrain, subClose+": a goroutine draining s.ch is started before the removal begins", f.Pos(), 2, "", "an emit blocked on this subscription holds the node lock that Close needs: deadlock", w)
		// inside the once-closure
		var body *ssa.Function
		for _, a := range allAnon(f) {
			if len(findInstrsIn(a, isSubChanClose)) > 0 {
				body = a
			}
		}
		if body == nil {
			r3.Fail(subClose+": close(s.ch)", f.Pos(), "not found inside the closeOnce closure", "")
		} else {
			isOnceArg := false
			for _, o := range once {
				if mc, ok := callArgs(o.(ssa.CallInstruction))[1].(*ssa.MakeClosure); ok && mc.Fn == ssa.Value(body) {
					isOnceArg = true
				}
			}
			r3.Check(isOnceArg, subClose+": the channel is closed inside closeOnce.Do", body.Pos(), 1, "", "a second Close closes the channel twice (panic)", "")
			cl := findInstrs(body, isSubChanClose)
			// the removal: a write to n.sinks under the node lock, in a loop over s.nodes; close is outside that loop and after it
			rem := findInstrs(body, fieldWritePred(nodeT+".sinks"))
			okAfter := len(cl) == 1 && len(rem) >= 1
			if okAfter {
				h, lbody := innermostLoop(body, rem[0].Block())
				// outermost loop containing the removal: climb
				for h != nil {
					h2, b2 := outerLoop(body, h, lbody)
					if h2 == nil {
						break
					}
					h, lbody = h2, b2
				}
				okAfter = h != nil && !lbody[cl[0].Block()]
				if okAfter {
					w, _ := (&Cut{Fn: body, Target: isInstr(cl[0]), Sep: isInstr(h.Instrs[0])}).Run(c)
					okAfter = w == ""
					// the loop ranges over s.nodes
					okAfter = okAfter && len(findInstrs(body, func(in ssa.Instruction) bool {
						u, ok := in.(*ssa.UnOp)
						return ok && u.Op == token.MUL && isLoadOfField(ebP+".sub.nodes")(u)
					})) >= 1
				}
			}
			r3.Check(okAfter, subClose+": close(s.ch) comes after the loop that removed the sink from every node", body.Pos(), 2, "", "an emit still holding a reference sends on a closed channel (panic)", "")
			// removal only for this subscription's channel
			lfB := computeLockFlow(body, heldSet{})
			okL := len(rem) >= 1
			for _, in := range rem {
				if !heldSuffix(lfB.must[in], ".lk") {
					okL = false
				}
			}
			r3.Check(okL, subClose+": the sink is removed under the node lock", body.Pos(), len(rem), "", "", "")
		}
	}
	// the sink removed is the closing subscription's own: identified by its channel (names are not unique)
	{
		isSinksOf := func(field string) func(ssa.Value) bool {
			return func(v ssa.Value) bool { return isLoadOfField(field)(strip2(v)) }
		}
		chOfElem := conjunctChEq(c, ebP)
		if f := c.Fn(subClose); f != nil {
			var body *ssa.Function
			for _, a := range allAnon(f) {
				if len(findInstrsIn(a, fieldWritePred(nodeT+".sinks"))) > 0 {
					body = a
				}
			}
			if body == nil {
				r3.Fail(subClose+": sink removal", f.Pos(), "no write to n.sinks found", "")
			} else {
				isSinks := isSinksOf(nodeT + ".sinks")
				isSubCh := func(v ssa.Value) bool { return isLoadOfField(ebP + ".sub.ch")(strip2(v)) }
				// every write to the list: element stores and the re-slice
				var writes []ssa.Instruction
				idxOfStore := map[ssa.Instruction]ssa.Value{}
				allInstrs(body, func(in ssa.Instruction) {
					if st, ok := in.(*ssa.Store); ok {
						if ia, ok := st.Addr.(*ssa.IndexAddr); ok && isSinks(ia.X) {
							writes = append(writes, in)
							idxOfStore[in] = ia.Index
						}
					}
					if isFieldWrite(in, nodeT+".sinks") {
						writes = append(writes, in)
					}
				})
				matched := map[ssa.Value]bool{}
				// (a) a comparison of an element's channel with s.ch
				elemIdx := func(v ssa.Value) ssa.Value {
					fl, base := loadOfField(strip2(v))
					if fl == nil || fl.Name() != "ch" {
						return nil
					}
					ld, ok := strip2(base).(*ssa.UnOp)
					if !ok || ld.Op != token.MUL {
						return nil
					}
					ia, ok := ld.X.(*ssa.IndexAddr)
					if !ok || !isSinks(ia.X) {
						return nil
					}
					return ia.Index
				}
				eqA := func(b *ssa.BasicBlock, si int) bool {
					if ifOf(b) == nil {
						return false
					}
					base, neg := stripNot(condOf(b))
					bo, ok := base.(*ssa.BinOp)
					if !ok || (bo.Op != token.EQL && bo.Op != token.NEQ) {
						return false
					}
					var idx ssa.Value
					if i := elemIdx(bo.X); i != nil && isSubCh(bo.Y) {
						idx = i
					} else if i := elemIdx(bo.Y); i != nil && isSubCh(bo.X) {
						idx = i
					}
					if idx == nil {
						return false
					}
					matched[resolveLoad(idx)] = true
					return (si == 0) == ((bo.Op == token.EQL) != neg)
				}
				// (b) idx := slices.IndexFunc(n.sinks, pred), pred answering true exactly for the sink on s.ch
				var idxCalls []ssa.Value
				for _, call := range callsIn(body, "slices.IndexFunc") {
					a := call.Common().Args
					mc, ok := strip2(a[1]).(*ssa.MakeClosure)
					if !isSinks(a[0]) || !ok {
						continue
					}
					g := mc.Fn.(*ssa.Function)
					cj := chOfElem(func(v ssa.Value) bool { return isSubCh(v) })
					m1 := answerGuardedBy(c, g, throughClosure(mc), []conjunct{cj}, true)
					m2 := answerGuardedBy(c, g, throughClosure(mc), []conjunct{cj.negate()}, false)
					r3.Check(len(m1) == 0 && len(m2) == 0, subClose+": the index searched is that of the sink on s.ch", instrPos(call.(ssa.Instruction)), 2, "", "another subscription's sink is detached, or this one stays registered with a closed channel", strings.Join(append(m1, m2...), "; "))
					if len(m1) == 0 {
						idxCalls = append(idxCalls, call.Value())
						matched[call.Value()] = true
					}
				}
				isIdx := func(v ssa.Value) bool {
					for _, x := range idxCalls {
						if v == x {
							return true
						}
					}
					return false
				}
				found := anyEdge(edgeExcl(isIdx, func(v ssa.Value) bool { k, ok := constInt(v); return ok && k == 0 }, ordLT),
					eqEdge(isIdx, func(v ssa.Value) bool { k, ok := constInt(v); return ok && k == -1 }, false))
				r3.guard(body, "write to n.sinks", writes, "the sink on s.ch was found", anyEdge(eqA, found), nil)
				okIdx := false
				for _, ix := range idxOfStore {
					if matched[ix] || matched[resolveLoad(ix)] {
						okIdx = true
					}
				}
				r3.Check(okIdx, subClose+": the slot overwritten is the one that compared equal", body.Pos(), len(idxOfStore)+1, "", "the sink detached is not the one that was identified", "")
			}
		}
		if f := c.Fn(wM("removeSink")); f != nil {
			n := 0
			for _, call := range callsIn(f, "slices.DeleteFunc") {
				a := call.Common().Args
				mc, ok := strip2(a[1]).(*ssa.MakeClosure)
				if !isSinksOf(wT+".sinks")(a[0]) || !ok {
					continue
				}
				n++
				g := mc.Fn.(*ssa.Function)
				th := throughClosure(mc)
				cj := chOfElem(func(v ssa.Value) bool { return isParamVar(c, th(v), "ch") || isParamVar(c, v, "ch") })
				m1 := answerGuardedBy(c, g, th, []conjunct{cj}, true)
				m2 := answerGuardedBy(c, g, th, []conjunct{cj.negate()}, false)
				r3.Check(len(m1) == 0 && len(m2) == 0, wM("removeSink")+": exactly the sinks on the closing channel are deleted", instrPos(call.(ssa.Instruction)), 2, "", "another wildcard subscription is detached, or the closing one keeps receiving", strings.Join(append(m1, m2...), "; "))
			}
			if n == 0 {
				// a hand-written filter: the new list is built by appends of the elements whose channel differs
				isCh := func(v ssa.Value) bool { return isParamVar(c, v, "ch") }
				isElemCh := func(v ssa.Value) bool {
					fl, _ := loadOfField(strip2(v))
					return fl != nil && fl.Name() == "ch" && !isCh(v)
				}
				var keeps []ssa.Instruction
				allInstrs(f, func(in ssa.Instruction) {
					call, ok := in.(*ssa.Call)
					if ok && calleeKey(call) == "builtin.append" && strings.Contains(types.TypeString(call.Type(), nil), "namedSink") {
						keeps = append(keeps, in)
					}
				})
				stores := findInstrs(f, fieldWritePred(wT+".sinks"))
				okBuilt := len(stores) == 1 && len(keeps) >= 1
				if okBuilt {
					okBuilt = derivesFrom(stores[0].(*ssa.Store).Val, func(v ssa.Value) bool {
						for _, k := range keeps {
							if v == k.(ssa.Value) {
								return true
							}
						}
						return false
					})
				}
				r3.Check(okBuilt, wM("removeSink")+": the new sink list is what the filter kept", f.Pos(), 2, "", "", "")
				differ := eqEdge(isElemCh, isCh, false)
				r3.guard(f, "keep a sink", keeps, "sink.ch != ch", differ, nil)
				var from []CFGEdge
				for _, b := range blocksDeep(f) {
					for sidx := range b.Succs {
						if differ(b, sidx) {
							from = append(from, CFGEdge{b, sidx})
						}
					}
				}
				if len(from) > 0 && len(keeps) > 0 {
					h := iterationOf(f, from[0].B)
					q := &Cut{Fn: f, FromEdges: from, Sep: inSet(keeps), Target: func(in ssa.Instruction) bool {
						if _, isRet := in.(*ssa.Return); isRet {
							return true
						}
						return h != nil && in.Block() == h && instrIndex(in) == 0
					}}
					r3.mustPass(f, wM("removeSink")+": every sink on another channel is kept", q, len(from))
					n = 1
				}
			}
			r3.Check(n == 1, wM("removeSink")+": one DeleteFunc over the sinks", f.Pos(), n, "", "", "")
		}
	}
	if f := r3.need(wM("removeSink")); f != nil {
		locks := findInstrs(f, callPred("(*sync.RWMutex).Lock"))
		starts := findInstrs(f, func(in ssa.Instruction) bool {
			if _, ok := in.(*ssa.Go); ok {
				return true
			}
			_, isDefer := in.(*ssa.Defer)
			return !isDefer && isCallTo(in, "(*sync.WaitGroup).Go")
		})
		w, n := (&Cut{Fn: f, Target: inSet(locks), Sep: inSet(starts)}).Run(c)
		// the goroutine started (its literal, or what that calls) receives from the channel being closed
		okDrain := false
		for _, a := range allAnon(f) {
			if receivesFrom(c, a, func(v ssa.Value) bool { return isFreeVarOrParam(v, "ch") || isParamVar(c, v, "ch") }, 0) {
				okDrain = true
			}
		}
		r3.Check(len(locks) == 1 && len(starts) >= 1 && w == "" && okDrain, wM("removeSink")+": a drainer of the sink's channel runs before the write lock is requested", f.Pos(), n+1, "", "a stalled wildcard emit holds the read lock forever: Close deadlocks", w)
		rem := findInstrs(f, fieldWritePred(wT+".sinks"))
		r3.Check(len(rem) == 1, wM("removeSink")+": removes the sink", f.Pos(), 1, "", "", "")
		// what tells a drainer to finish (a close of, or send on, a channel it also receives from, other than the
		// sink's) is reached only once the write lock has been acquired: until then a stalled emit may hold the
		// read lock, blocked on the sink
		var stops []ssa.Instruction
		for _, in := range findInstrs(f, func(in ssa.Instruction) bool {
			var ch ssa.Value
			switch x := in.(type) {
			case *ssa.Send:
				ch = x.Chan
			case ssa.CallInstruction:
				if calleeKey(x) == "builtin.close" {
					ch = x.Common().Args[0]
				}
			}
			if ch == nil {
				return false
			}
			sig := resolveLoad(strip2(ch))
			if isParamVar(c, sig, "ch") || isParamVar(c, ch, "ch") {
				return false
			}
			for _, a := range allAnon(f) {
				if receivesFrom(c, a, func(v ssa.Value) bool { return resolveLoad(strip2(v)) == sig }, 0) {
					return true
				}
			}
			return false
		}) {
			if _, isDefer := in.(*ssa.Defer); isDefer {
				stops = append(stops, findInstrs(f, func(in ssa.Instruction) bool { _, ok := in.(*ssa.RunDefers); return ok })...)
			} else {
				stops = append(stops, in)
			}
		}
		if len(stops) == 0 {
			r3.Fail(wM("removeSink")+": the drainer's stop signal", f.Pos(), "no close of / send on a channel the drainer also receives from was found", "")
		} else {
			r3.mustPass(f, wM("removeSink")+": the drainer is told to finish only after the write lock was acquired", &Cut{Fn: f, Target: inSet(stops), Sep: inSet(locks)}, len(stops))
		}
	}

	// ---- R4 ---------------------------------------------------------------
	r4 := r.Rule("C15-R4", "E1/E1b", 5, "stateful replay inside the registering critical section; keepLast monotone; last written only under keepLast")
	if f := r4.need(busM("Subscribe")); f != nil {
		calls := callsIn(f, withNodeK)
		var typed ssa.CallInstruction
		for _, call := range calls {
			if _, isNil := callArgs(call)[3].(*ssa.Const); !isNil {
				typed = call
			}
		}
		if typed == nil {
			r4.Fail(busM("Subscribe")+": withNode(typ, register, replay)", f.Pos(), "call with both callbacks not found", "")
		} else {
			a := callArgs(typed)
			reg, _ := a[2].(*ssa.MakeClosure)
			rep, _ := a[3].(*ssa.MakeClosure)
			ok := reg != nil && rep != nil
			if ok {
				regF, repF := reg.Fn.(*ssa.Function), rep.Fn.(*ssa.Function)
				// registration appends a sink for out.ch to n.sinks
				okReg := len(findInstrs(regF, fieldWritePred(nodeT+".sinks"))) == 1
				// replay: a send of n.last on out.ch, only past keepLast and non-nil
				sends := findInstrs(repF, func(in ssa.Instruction) bool {
					s, ok := in.(*ssa.Send)
					return ok && derivesFrom(s.X, isLoadOfField(nodeT+".last"))
				})
				// the replay blocks rather than drops: n.last is never offered through a select that has another way out
				var droppy []ssa.Instruction
				allInstrs(repF, func(in ssa.Instruction) {
					sel, ok := in.(*ssa.Select)
					if !ok {
						return
					}
					for _, st := range sel.States {
						if st.Send != nil && derivesFrom(st.Send, isLoadOfField(nodeT+".last")) && (!sel.Blocking || len(sel.States) > 1) {
							droppy = append(droppy, in)
						}
					}
				})
				for _, d := range droppy {
					r4.Fail(busM("Subscribe")+": the retained event is replayed with a blocking send", instrPos(d), "the replay is offered in a select with another way out (default / other case): a subscriber with a full or unbuffered queue never receives the retained event", "")
				}
				if len(droppy) == 0 {
					r4.OK(busM("Subscribe")+": the retained event is replayed with a blocking send", repF.Pos(), 1, "")
				}
				r4.Check(okReg && len(sends)+len(droppy) == 1, busM("Subscribe")+": the sink is registered in cb and the retained event replayed in async of the same withNode call", instrPos(typed.(ssa.Instruction)), 2, "", "an emit can slip between registration and replay: the subscriber sees a newer event before the retained one, or misses one", "")
				if len(sends) > 0 {
					r4.guard(repF, "out.ch <- n.last", sends, "n.keepLast", edgeBool(isLoadOfField(nodeT+".keepLast"), true), nil)
					r4.guard(repF, "out.ch <- n.last", sends, "n.last != nil", edgeNil(func(v ssa.Value) bool { return derivesFrom(v, isLoadOfField(nodeT+".last")) }, false), nil)
				}
			} else {
				r4.Fail(busM("Subscribe")+": callbacks", f.Pos(), "register/replay are not function literals", "")
			}
		}
	}
	// keepLast monotone: every store writes true, the old value, or a value that is true whenever the old value was
	nKL := 0
	for _, f := range c.FnsOfPkg(ebP) {
		for _, in := range findInstrsIn(f, fieldWritePred(nodeT+".keepLast")) {
			st := in.(*ssa.Store)
			if localAllocRoot(st.Addr) != nil {
				continue
			}
			nKL++
			assume := map[ssa.Value]bool{}
			allInstrsIn(f, func(x ssa.Instruction) {
				if v, ok := x.(ssa.Value); ok && isLoadOfField(nodeT+".keepLast")(v) {
					assume[v] = true
				}
			})
			ok := false
			detail := describeVal(st.Val)
			switch v := st.Val.(type) {
			case *ssa.Const:
				b, isC := constBool(v)
				ok = isC && b
			case *ssa.Phi:
				// edges carrying something other than true must be unreachable when the old value is true
				es := phiEdgesWhere(v, func(x ssa.Value) bool { b, isC := constBool(x); return !(isC && b) && !assume[x] })
				w, _ := (&Cut{Fn: f, TargetEdge: edgeSet(es), Assume: assume}).Run(c)
				ok = w == "" && len(assume) > 0
				detail = w
			case *ssa.BinOp:
				ok = v.Op == token.OR && (assume[v.X] || assume[v.Y])
			default:
				ok = assume[st.Val]
			}
			r4.Check(ok, fnKey(f)+": node.keepLast only goes from false to true", instrPos(in), 1, "", "a later non-stateful emitter of the same type switches off the replay of the last event for new subscribers", detail)
		}
	}
	if nKL < 1 {
		r4.Fail("stores to node.keepLast", token.NoPos, "none found", "")
	}
	if f := r4.need(nodeM("emit")); f != nil {
		st := findInstrs(f, fieldWritePred(nodeT+".last"))
		r4.guard(f, "n.last = evt", st, "n.keepLast", edgeBool(isLoadOfField(nodeT+".keepLast"), true), nil)
		// and a stateful node always records: the false edge of keepLast is the only way around the store
		w, n := (&Cut{Fn: f, Target: isRet, Sep: inSet(st), EdgeCut: edgeBool(isLoadOfField(nodeT+".keepLast"), false)}).Run(c)
		okVal := len(st) == 1 && isParamVar(c, st[0].(*ssa.Store).Val, "evt")
		r4.Check(w == "" && okVal, nodeM("emit")+": a stateful node records every emitted event as last", f.Pos(), n+1, "", "a new subscriber is replayed a stale event", w)
	}

	// ---- R5 ---------------------------------------------------------------
	r5 := r.Rule("C15-R5", "E1/E7b", 6, "a node is dropped only past `no emitters` and `no sinks`; the dropper runs only when the last emitter/sink went; emitters are counted inside the node's critical section")
	nEmitters := func(v ssa.Value) bool {
		ci := isResultOfCall(strip2(v), 0, "(*sync/atomic.Int32).Load")
		if ci == nil {
			return false
		}
		fl, base := fieldAddrOf(callArgs(ci)[0])
		return fl != nil && fieldKeyOf(base, fl) == nodeT+".nEmitters"
	}
	lenSinks := func(v ssa.Value) bool {
		call, ok := v.(*ssa.Call)
		return ok && calleeKey(call) == "builtin.len" && isLoadOfField(nodeT+".sinks")(call.Call.Args[0])
	}
	if f := r5.need(busM("tryDropNode")); f != nil {
		dels := findInstrs(f, func(in ssa.Instruction) bool {
			return isCallTo(in, "builtin.delete") && isFieldWrite(in, busT+".nodes")
		})
		r5.guard(f, "delete(b.nodes, typ)", dels, "nEmitters == 0", edgeExcl(nEmitters, isZero, ordGT), nil)
		r5.guard(f, "delete(b.nodes, typ)", dels, "len(sinks) == 0", edgeExcl(lenSinks, isZero, ordGT), nil)
		// the test and the delete are in one critical section of b.lk
		lf := computeLockFlow(f, heldSet{})
		ok := len(dels) == 1
		for _, d := range dels {
			if !heldSuffix(lf.must[d], f.Params[0].Name()+".lk") { // (the receiver, whatever it is called)
				ok = false
			}
		}
		for _, u := range callsIn(f, "(*sync.RWMutex).Unlock") {
			ui := u.(ssa.Instruction)
			if !strings.HasPrefix(pathOf(callArgs(u)[0]), f.Params[0].Name()+".") {
				continue
			}
			if _, deferred := ui.(*ssa.Defer); deferred {
				continue // runs at the exit, after the delete
			}
			if w, _ := (&Cut{Fn: f, From: []ssa.Instruction{ui}, Target: inSet(dels)}).Run(c); w != "" {
				ok = false
			}
		}
		r5.Check(ok, busM("tryDropNode")+": lookup, in-use test and delete form one critical section of b.lk", f.Pos(), 2, "", "a subscriber or emitter registered in between loses its node", "")
	}
	if f := r5.need("(*" + ebP + ".emitter).Close"); f != nil {
		drops := findInstrs(f, func(in ssa.Instruction) bool { return isDynCallOfField(in, ebP+".emitter.dropper") })
		lastGone := func(v ssa.Value) bool {
			ci := isResultOfCall(v, 0, "(*sync/atomic.Int32).Add")
			if ci == nil {
				return false
			}
			k, isC := constInt(callArgs(ci)[1])
			fl, base := fieldAddrOf(callArgs(ci)[0])
			return isC && k == -1 && fl != nil && fieldKeyOf(base, fl) == nodeT+".nEmitters"
		}
		r5.guard(f, "dropper(typ)", drops, "nEmitters.Add(-1) == 0", edgeExcl(lastGone, isZero, ordGT, ordLT), nil)
		// exactly one decrement, only for the winner of the CAS
		decs := findInstrs(f, func(in ssa.Instruction) bool { v, ok := in.(ssa.Value); return ok && lastGone(v) })
		// exactly one Close wins: CompareAndSwap(false, true) succeeded, or Swap(true) returned the old value false
		wonCAS := edgeBool(func(v ssa.Value) bool {
			ci := isResultOfCall(v, 0, "(*sync/atomic.Bool).CompareAndSwap")
			if ci == nil {
				return false
			}
			o, ok1 := constBool(callArgs(ci)[1])
			n, ok2 := constBool(callArgs(ci)[2])
			return ok1 && ok2 && !o && n && isLoadOfFieldAddr(callArgs(ci)[0], ebP+".emitter.closed")
		}, true)
		wonSwap := edgeBool(func(v ssa.Value) bool {
			ci := isResultOfCall(v, 0, "(*sync/atomic.Bool).Swap")
			if ci == nil {
				return false
			}
			n, ok := constBool(callArgs(ci)[1])
			return ok && n && isLoadOfFieldAddr(callArgs(ci)[0], ebP+".emitter.closed")
		}, false)
		r5.guard(f, "nEmitters.Add(-1)", decs, "closed.CompareAndSwap(false, true)", anyEdge(wonCAS, wonSwap), nil)
	}
	if f := r5.need(busM("Emitter")); f != nil {
		ok := false
		for _, call := range callsIn(f, withNodeK) {
			if mc, isMC := callArgs(call)[2].(*ssa.MakeClosure); isMC {
				g := mc.Fn.(*ssa.Function)
				incs := findInstrs(g, func(in ssa.Instruction) bool {
					if !isCallTo(in, "(*sync/atomic.Int32).Add") {
						return false
					}
					k, isC := constInt(callArgs(in.(ssa.CallInstruction))[1])
					return isC && k == 1
				})
				ok = len(incs) == 1
			}
		}
		r5.Check(ok, busM("Emitter")+": the emitter is counted inside the node's critical section", f.Pos(), 1, "", "tryDropNode can drop the node between its creation and the emitter's registration", "")
	}
	if f := r5.need(subClose); f != nil {
		for _, a := range allAnon(f) {
			drops := findInstrsIn(a, func(in ssa.Instruction) bool { return isDynCallOfField(in, ebP+".sub.dropper") })
			if len(drops) == 0 {
				continue
			}
			// tryDrop := len(n.sinks) == 0 && nEmitters == 0 (a phi of the two tests); the call is past its true edge
			for _, d := range drops {
				w1, n1 := (&Cut{Fn: a, Target: isInstr(d), EdgeCut: edgeExcl(lenSinks, isZero, ordGT)}).Run(c)
				w2, n2 := (&Cut{Fn: a, Target: isInstr(d), EdgeCut: edgeExcl(nEmitters, isZero, ordGT)}).Run(c)
				// the flag phi: reaching the call requires the flag true, which is only set on the path through both tests
				ok := w1 == "" && w2 == ""
				if !ok {
					ok = flagGuarded(c, a, d, []ordGuard{{lenSinks, isZero, []ordering{ordGT}}, {nEmitters, isZero, []ordering{ordGT}}})
				}
				r5.Check(ok, subClose+": dropper(n.typ) only when the node has no sinks and no emitters", instrPos(d), n1+n2+1, "", "", w1+w2)
			}
		}
	}

	// ---- R6 ---------------------------------------------------------------
	r6 := r.Rule("C15-R6", "E1/E6", 12, "registration: withNode creates a node exactly when none is registered and registers it; a wildcard subscription is added to the wildcard node before Subscribe returns it and removed by its Close; addSink appends and counts; the wildcard fast path returns only with no sinks; Stateful sets the flag; single types are wrapped; nodes are keyed by the element type; comma-ok results are used only where the lookup succeeded")
	ebAll := c.FnsOfPkg(ebP)
	if f := r6.need(withNodeK); f != nil {
		news := findInstrs(f, callPred(ebP+".newNode"))
		isMiss := func(v ssa.Value) bool {
			ex, ok := v.(*ssa.Extract)
			if !ok || ex.Index != 1 {
				return false
			}
			lk, ok := ex.Tuple.(*ssa.Lookup)
			return ok && lk.CommaOk && isLoadOfField(busT+".nodes")(strip2(lk.X))
		}
		r6.guard(f, "create a node", news, "no node is registered for the type", edgeBool(isMiss, false), nil)
		for _, nw := range news {
			isReg := func(in ssa.Instruction) bool {
				mu, ok := in.(*ssa.MapUpdate)
				return ok && isLoadOfField(busT+".nodes")(strip2(mu.Map)) && resolveLoad(strip2(mu.Value)) == nw.(ssa.Value) && isParamCellLoadOrParam(c, mu.Key, f.Params[1])
			}
			r6.mustPass(f, withNodeK+": the node created is registered under the type asked for", &Cut{Fn: f, From: []ssa.Instruction{nw}, Target: isRet, Sep: isReg}, 1)
		}
		// the second callback runs (on its own goroutine) exactly when there is one
		async := f.Params[len(f.Params)-1]
		isAsync := func(v ssa.Value) bool { return v == ssa.Value(async) || isParamCellLoad(c, v, async) }
		gos := findInstrs(f, func(in ssa.Instruction) bool { _, ok := in.(*ssa.Go); return ok })
		r6.guard(f, "start the goroutine of the second callback", gos, "async != nil", edgeNil(isAsync, false), nil)
		var from []CFGEdge
		for _, b := range blocksDeep(f) {
			for si := range b.Succs {
				if edgeNil(isAsync, false)(b, si) {
					from = append(from, CFGEdge{b, si})
				}
			}
		}
		if len(from) == 0 {
			r6.Fail(withNodeK+": test of the second callback", f.Pos(), "no `async != nil` test found", "")
		} else {
			r6.mustPass(f, withNodeK+": a second callback, when given, is started", &Cut{Fn: f, FromEdges: from, Target: isRet, Sep: inSet(gos)}, len(from))
		}
	}
	// wildcard subscriptions: registered where they are made, removed by Close
	isChOfAlloc := func(v ssa.Value, a *ssa.Alloc) bool {
		v = resolveLoad(strip2(v))
		if fl, base := loadOfField(v); fl != nil && fl.Name() == "ch" && strip2(base) == ssa.Value(a) {
			return true
		}
		// ... or the very value stored in a.ch
		for _, ref := range *a.Referrers() {
			fa, ok := ref.(*ssa.FieldAddr)
			if !ok || fieldKeyOf(fa.X, fieldOfFA(fa)) != ebP+".wildcardSub.ch" {
				continue
			}
			for _, r2 := range *fa.Referrers() {
				if st, ok := r2.(*ssa.Store); ok && st.Addr == ssa.Value(fa) && resolveLoad(strip2(st.Val)) == v {
					return true
				}
			}
		}
		return false
	}
	nW := 0
	for _, g := range ebAll {
		for _, in := range findInstrsIn(g, func(in ssa.Instruction) bool {
			a, ok := in.(*ssa.Alloc)
			return ok && strings.ReplaceAll(types.TypeString(a.Type().Underlying().(*types.Pointer).Elem(), nil), Mod, "") == ebP+".wildcardSub"
		}) {
			a := in.(*ssa.Alloc)
			nW++
			isAdd := func(in ssa.Instruction) bool {
				if !isCallTo(in, wM("addSink")) {
					return false
				}
				sk, ok := resolveLoad(strip2(callArgs(in.(ssa.CallInstruction))[1])).(*ssa.Alloc)
				if !ok {
					return false
				}
				for _, ref := range *sk.Referrers() {
					fa, ok := ref.(*ssa.FieldAddr)
					if !ok || fieldKeyOf(fa.X, fieldOfFA(fa)) != ebP+".namedSink.ch" {
						continue
					}
					for _, r2 := range *fa.Referrers() {
						if st, ok := r2.(*ssa.Store); ok && st.Addr == ssa.Value(fa) && isChOfAlloc(st.Val, a) {
							return true
						}
					}
				}
				return false
			}
			asRoot(g, func() {
				r6.mustPass(g, fnKey(g)+": a wildcard subscription is added to the wildcard node (a sink on its own channel) before it is returned", &Cut{Fn: g, From: []ssa.Instruction{a}, Target: isRet, Sep: isAdd}, 1)
			})
		}
	}
	r6.Check(nW >= 1, "wildcard subscription: construction site", token.NoPos, nW, "", "", "no allocation of wildcardSub found")
	// which kind of subscription is made is decided by `evtTypes == event.WildcardSubscription`
	if f := r6.need(busM("Subscribe")); f != nil {
		evt := f.Params[1]
		isEvt := func(v ssa.Value) bool {
			v = resolveLoad(strip2(v))
			return v == ssa.Value(evt) || isParamCellLoad(c, v, evt)
		}
		isWild := func(v ssa.Value) bool {
			return derivesFrom(v, func(x ssa.Value) bool {
				g, ok := x.(*ssa.Global)
				return ok && g.Name() == "WildcardSubscription" && g.Pkg.Pkg.Path() == Mod+"core/event"
			})
		}
		isAllocOf := func(tn string) func(ssa.Instruction) bool {
			return func(in ssa.Instruction) bool {
				a, ok := in.(*ssa.Alloc)
				return ok && strings.ReplaceAll(types.TypeString(a.Type().Underlying().(*types.Pointer).Elem(), nil), Mod, "") == ebP+"."+tn
			}
		}
		for _, k := range []struct {
			tn   string
			wild bool
		}{{"wildcardSub", true}, {"sub", false}} {
			if w, _ := (&Cut{Fn: f, Target: isAllocOf(k.tn)}).Run(c); w == "" {
				r6.Fail(busM("Subscribe")+": construction of a "+k.tn, f.Pos(), "not reached from Subscribe", "")
				continue
			}
			w, n := (&Cut{Fn: f, Target: isAllocOf(k.tn), EdgeCut: eqEdge(isEvt, isWild, k.wild)}).Run(c)
			r6.Check(w == "", fmt.Sprintf("%s: a %s is made only when evtTypes == WildcardSubscription is %v", busM("Subscribe"), k.tn, k.wild), f.Pos(), n+1, "", "wildcard subscribers are registered as typed ones (or the reverse) and receive nothing", w)
		}
	}
	// the emitter handed out is bound to the node it was counted on, the wildcard node and the element type
	if f := r6.need(busM("Emitter")); f != nil {
		nE := 0
		for _, g := range ebAll {
			for _, in := range findInstrsIn(g, func(in ssa.Instruction) bool {
				a, ok := in.(*ssa.Alloc)
				return ok && strings.ReplaceAll(types.TypeString(a.Type().Underlying().(*types.Pointer).Elem(), nil), Mod, "") == ebP+".emitter"
			}) {
				a := in.(*ssa.Alloc)
				nE++
				fieldVal := func(name string) ssa.Value {
					for _, ref := range *a.Referrers() {
						fa, ok := ref.(*ssa.FieldAddr)
						if !ok || fieldOfFA(fa).Name() != name {
							continue
						}
						for _, r2 := range *fa.Referrers() {
							if st, ok := r2.(*ssa.Store); ok && st.Addr == ssa.Value(fa) {
								return st.Val
							}
						}
					}
					return nil
				}
				nv := fieldVal("n")
				okN := nv != nil && len(g.Params) > 0
				if okN {
					_, isP := resolveLoad(strip2(nv)).(*ssa.Parameter)
					okN = isP
				}
				wv := fieldVal("w")
				okW := wv != nil && isLoadOfField(busT+".wildcard")(resolveLoad(strip2(wv)))
				r6.Check(okN, busM("Emitter")+": emitter.n is the node the callback was handed", instrPos(in), 1, "", "events go to a node nobody subscribed to", "")
				r6.Check(okW, busM("Emitter")+": emitter.w is the bus's wildcard node", instrPos(in), 1, "", "wildcard subscribers miss this emitter's events", "")
				// ... and it reaches the result on every path of the function that makes it
				isOut := func(in ssa.Instruction) bool {
					st, ok := in.(*ssa.Store)
					return ok && derivesFrom(st.Val, func(v ssa.Value) bool { return v == ssa.Value(a) })
				}
				w, n := (&Cut{Fn: g, From: []ssa.Instruction{a}, Sep: isOut, Target: func(in ssa.Instruction) bool {
					ret, ok := in.(*ssa.Return)
					return ok && !(len(ret.Results) > 0 && derivesFrom(ret.Results[0], func(v ssa.Value) bool { return v == ssa.Value(a) }))
				}}).Run(c)
				r6.Check(w == "", busM("Emitter")+": the emitter made is the one handed out", instrPos(in), n+1, "", "Emitter returns (nil, nil): the caller's first Emit panics", w)
			}
		}
		r6.Check(nE == 1, busM("Emitter")+": one construction site", f.Pos(), nE, "", "", fmt.Sprint(nE))
	}
	if f := r6.need("(*" + ebP + ".wildcardSub).Close"); f != nil {
		dos := findInstrs(f, callPred("(*sync.Once).Do"))
		r6.mustPass(f, "(*wildcardSub).Close: every return passes closeOnce.Do", &Cut{Fn: f, Target: isRet, Sep: inSet(dos)}, len(dos))
		okRem := len(dos) >= 1
		for _, do := range dos {
			g := installedFunc(callArgs(do.(ssa.CallInstruction))[1])
			if g == nil || g.Blocks == nil {
				okRem = false
				continue
			}
			rem := findInstrs(g, func(in ssa.Instruction) bool {
				if !isCallTo(in, wM("removeSink")) {
					return false
				}
				fl, base := loadOfField(resolveLoad(strip2(callArgs(in.(ssa.CallInstruction))[1])))
				return fl != nil && fieldKeyOf(base, fl) == ebP+".wildcardSub.ch"
			})
			if w, _ := (&Cut{Fn: g, Target: isRet, Sep: inSet(rem)}).Run(c); w != "" || len(rem) == 0 {
				okRem = false
			}
		}
		r6.Check(okRem, "(*wildcardSub).Close: the once-body removes the sink on the subscription's channel on every path", f.Pos(), 2, "", "a closed wildcard subscription stays registered: the next emit blocks on a channel nobody reads, forever", "")
	}
	if f := r6.need(wM("addSink")); f != nil {
		sink := f.Params[len(f.Params)-1]
		apps := findInstrs(f, func(in ssa.Instruction) bool {
			st, ok := in.(*ssa.Store)
			if !ok || !isFieldWrite(in, wT+".sinks") {
				return false
			}
			call, ok := resolveLoad(strip2(st.Val)).(*ssa.Call)
			if !ok || calleeKey(call) != "builtin.append" || !isLoadOfField(wT+".sinks")(strip2(call.Call.Args[0])) {
				return false
			}
			return derivesFrom(call.Call.Args[1], func(v ssa.Value) bool { return v == ssa.Value(sink) || isParamCellLoad(c, v, sink) })
		})
		incs := findInstrs(f, func(in ssa.Instruction) bool {
			if !isCallTo(in, "(*sync/atomic.Int32).Add", "(*sync/atomic.Int64).Add") {
				return false
			}
			a := callArgs(in.(ssa.CallInstruction))
			k, ok := constInt(a[1])
			return ok && k == 1 && isLoadOfFieldAddr(a[0], wT+".nSinks")
		})
		r6.mustPass(f, wM("addSink")+": the sink is appended to the list", &Cut{Fn: f, Target: isRet, Sep: inSet(apps)}, len(apps))
		r6.mustPass(f, wM("addSink")+": the sink is counted (the emit fast path reads the count)", &Cut{Fn: f, Target: isRet, Sep: inSet(incs)}, len(incs))
	}
	if f := r6.need(wM("emit")); f != nil {
		rl := findInstrs(f, callPred("(*sync.RWMutex).RLock"))
		isCount := func(v ssa.Value) bool {
			ci := isResultOfCall(v, 0, "(*sync/atomic.Int32).Load", "(*sync/atomic.Int64).Load")
			return ci != nil && isLoadOfFieldAddr(callArgs(ci)[0], wT+".nSinks")
		}
		none := anyEdge(eqEdge(isCount, isZero, true), edgeExcl(isCount, isZero, ordGT))
		w, n := (&Cut{Fn: f, Target: isRet, Sep: inSet(rl), EdgeCut: none}).Run(c)
		r6.Check(w == "" && len(rl) >= 1, wM("emit")+": returns without entering the delivery section only when no sink is counted", f.Pos(), n+1, "", "wildcard subscribers miss events", w)
	}
	if f := r6.need(ebP + ".Stateful"); f != nil {
		sets := findInstrs(f, func(in ssa.Instruction) bool {
			st, ok := in.(*ssa.Store)
			if !ok || !isFieldWrite(in, ebP+".emitterSettings.makeStateful") {
				return false
			}
			b, isC := constBool(st.Val)
			return isC && b
		})
		var okRets []ssa.Instruction
		for _, ret := range returnsOf(f) {
			if isNilConst(retVal(ret, 0)) {
				okRets = append(okRets, ret)
			}
		}
		r6.mustPass(f, "Stateful: makeStateful = true on every accepting path", &Cut{Fn: f, Target: inSet(okRets), Sep: inSet(sets)}, len(sets))
		all := findInstrs(f, fieldWritePred(ebP+".emitterSettings.makeStateful"))
		r6.Check(len(all) == len(sets) && len(sets) >= 1, "Stateful: the flag is only ever set", f.Pos(), len(all), "", "", "")
	}
	// a single type is wrapped into a one-element list: the asserted list is never used alone
	if f := r6.need(busM("Subscribe")); f != nil {
		evt := f.Params[1]
		isEvt := func(v ssa.Value) bool { return v == ssa.Value(evt) || isParamCellLoad(c, v, evt) }
		nTA := 0
		for _, in := range findInstrs(f, func(in ssa.Instruction) bool {
			ta, ok := in.(*ssa.TypeAssert)
			if !ok || !ta.CommaOk || !isEvt(resolveLoad(strip2(ta.X))) {
				return false
			}
			_, isSl := ta.AssertedType.Underlying().(*types.Slice)
			return isSl
		}) {
			nTA++
			okUse := true
			why := ""
			nUse := 0
			for _, ref := range *in.(*ssa.TypeAssert).Referrers() {
				ex, ok := ref.(*ssa.Extract)
				if !ok || ex.Index != 0 {
					continue
				}
				for _, r2 := range *ex.Referrers() {
					if _, isDbg := r2.(*ssa.DebugRef); isDbg {
						continue
					}
					if st, isSt := r2.(*ssa.Store); isSt {
						// (the cell of a variable closures only read: its loads here were replaced by values, lift.go)
						if al, isAl := st.Addr.(*ssa.Alloc); isAl && liftedCells[al] {
							continue
						}
					}
					nUse++
					phi, isPhi := r2.(*ssa.Phi)
					if !isPhi {
						okUse = false
						why = "used directly: " + r2.String()
						continue
					}
					hasWrap := false
					for _, e := range phi.Edges {
						if e == ssa.Value(ex) {
							continue
						}
						if derivesFrom(e, func(v ssa.Value) bool {
							a, isA := v.(*ssa.Alloc)
							if !isA {
								return false
							}
							holds := false
							for _, ar := range *a.Referrers() {
								ia, ok := ar.(*ssa.IndexAddr)
								if !ok {
									continue
								}
								for _, sr := range *ia.Referrers() {
									if st, ok := sr.(*ssa.Store); ok && st.Addr == ssa.Value(ia) && isEvt(resolveLoad(strip2(st.Val))) {
										holds = true
									}
								}
							}
							return holds
						}) {
							hasWrap = true
						}
					}
					if !hasWrap {
						okUse = false
						why = "no [evtTypes] alternative"
						continue
					}
					// the asserted list arrives over the ok edge only
					tup := in.(*ssa.TypeAssert)
					isOk := func(v ssa.Value) bool {
						e2, isEx := resolveLoad(strip2(v)).(*ssa.Extract)
						return isEx && e2.Index == 1 && e2.Tuple == ssa.Value(tup)
					}
					es := phiEdgesWhere(phi, func(v ssa.Value) bool { return v == ssa.Value(ex) })
					if w, _ := (&Cut{Fn: phi.Parent(), TargetEdge: edgeSet(es), EdgeCut: edgeBool(isOk, true)}).Run(c); w != "" {
						okUse = false
						why = "asserted list used without ok: " + w
					}
					es2 := phiEdgesWhere(phi, func(v ssa.Value) bool { return v != ssa.Value(ex) })
					if w, _ := (&Cut{Fn: phi.Parent(), From: []ssa.Instruction{tup}, TargetEdge: edgeSet(es2), EdgeCut: edgeBool(isOk, false)}).Run(c); w != "" {
						okUse = false
						why = "wrapped although the assertion succeeded: " + w
					}
				}
			}
			r6.Check(okUse && nUse >= 1, busM("Subscribe")+": the list of types is the asserted []any or, failing that, [evtTypes]", instrPos(in), nUse+1, "", "a subscription to a single type registers nowhere and never receives an event", why)
		}
		r6.Check(nTA == 1, busM("Subscribe")+": one []any assertion of evtTypes", f.Pos(), nTA, "", "", fmt.Sprint(nTA))
	}
	// nodes are keyed by the element type on both sides
	for _, k := range []string{busM("Subscribe"), busM("Emitter")} {
		f := r6.need(k)
		if f == nil {
			continue
		}
		calls := callsIn(f, withNodeK)
		okElem := len(calls) >= 1
		for _, call := range calls {
			enterScan(f)
			ci, isCall := resolveLoad(strip2(callArgs(call)[1])).(*ssa.Call)
			if !isCall || !ci.Call.IsInvoke() || ci.Call.Method.Name() != "Elem" || !derivesFrom(ci.Call.Value, func(v ssa.Value) bool { return isResultOfCall(v, 0, "reflect.TypeOf") != nil }) {
				okElem = false
			}
		}
		r6.Check(okElem, k+": the node is looked up under reflect.TypeOf(x).Elem()", f.Pos(), len(calls), "", "emitters and subscribers of one type meet at different nodes: nothing is delivered", "")
	}
	commaOkDiscipline(c, r6, ebAll, busT+".nodes")
}

// fieldOfFA: the field a FieldAddr selects.
func fieldOfFA(fa *ssa.FieldAddr) *types.Var {
	t := fa.X.Type().Underlying().(*types.Pointer).Elem().Underlying().(*types.Struct)
	return t.Field(fa.Field)
}

func isParamCellLoadOrParam(c *Ctx, v ssa.Value, p *ssa.Parameter) bool {
	v = resolveLoad(strip2(v))
	return v == ssa.Value(p) || isParamCellLoad(c, v, p)
}

// commaOkDiscipline: where a function tests the ok of `v, ok := m[k]` / `v, ok := x.(*T)`, every dereference of v
// (field access, load, method call on a pointer) lies behind the ok edge or a nil test of v. A contradiction rule in
// the sense of Engler et al.: the function itself says the lookup can fail.
func commaOkDiscipline(c *Ctx, ru *Rule, fns []*ssa.Function, strictMaps ...string) {
	n := 0
	for _, f := range fns {
		if f.Blocks == nil {
			continue
		}
		for _, b := range f.Blocks {
			for _, in := range b.Instrs {
				ex, ok := in.(*ssa.Extract)
				if !ok || ex.Index != 0 {
					continue
				}
				strict := false
				switch t := ex.Tuple.(type) {
				case *ssa.Lookup:
					if !t.CommaOk {
						continue
					}
					// maps whose entries come and go concurrently (named by the caller): a miss is always possible, whether
					// or not this function tests for it
					for _, k := range strictMaps {
						if isLoadOfField(k)(strip2(t.X)) {
							strict = true
						}
					}
				case *ssa.TypeAssert:
					if !t.CommaOk {
						continue
					}
				default:
					continue
				}
				if _, isPtr := ex.Type().Underlying().(*types.Pointer); !isPtr {
					continue
				}
				// the ok of the same tuple, tested somewhere
				var okv ssa.Value
				for _, ref := range *ex.Tuple.Referrers() {
					if e2, isEx := ref.(*ssa.Extract); isEx && e2.Index == 1 {
						okv = e2
					}
				}
				if !strict && (okv == nil || len(*okv.Referrers()) == 0) {
					continue
				}
				var derefs []ssa.Instruction
				for _, ref := range *ex.Referrers() {
					switch x := ref.(type) {
					case *ssa.FieldAddr:
						if x.X == ssa.Value(ex) {
							derefs = append(derefs, x)
						}
					case *ssa.UnOp:
						if x.Op == token.MUL && x.X == ssa.Value(ex) {
							derefs = append(derefs, x)
						}
					case *ssa.Call:
						if !x.Call.IsInvoke() && len(x.Call.Args) > 0 && x.Call.Args[0] == ssa.Value(ex) && x.Call.Signature().Recv() != nil {
							derefs = append(derefs, x)
						}
					}
				}
				if len(derefs) == 0 {
					continue
				}
				found := anyEdge(edgeBool(func(v ssa.Value) bool { return okv != nil && v == okv }, true), edgeNil(func(v ssa.Value) bool { return v == ssa.Value(ex) }, false))
				for _, d := range derefs {
					n++
					w, k := (&Cut{Fn: f, Target: isInstr(d), EdgeCut: found}).Run(c)
					ru.Check(w == "", fnKey(f)+": the result of the comma-ok lookup at line "+fmt.Sprint(c.Prog.Fset.Position(ex.Tuple.Pos()).Line)+" is dereferenced only where it succeeded", instrPos(d), k+1, "", "nil dereference when the entry is absent (a concurrent close already dropped it)", w)
				}
			}
		}
	}
	ru.OK("comma-ok discipline: dereference sites examined", token.NoPos, n, "")
}

func isFreeVarOrParam(v ssa.Value, name string) bool {
	switch x := v.(type) {
	case *ssa.FreeVar:
		return freeVarIs(x, name)
	case *ssa.Parameter:
		return paramIs(x, name)
	case *ssa.UnOp:
		if x.Op == token.MUL {
			return isFreeVarOrParam(x.X, name)
		}
	}
	return false
}

// outerLoop: the next enclosing loop of the loop (h, body).
func outerLoop(f *ssa.Function, h *ssa.BasicBlock, body map[*ssa.BasicBlock]bool) (*ssa.BasicBlock, map[*ssa.BasicBlock]bool) {
	var bestH *ssa.BasicBlock
	var best map[*ssa.BasicBlock]bool
	for _, blk := range f.Blocks {
		if blk == h {
			continue
		}
		h2, b2 := innermostLoopWithHeader(f, blk)
		if h2 == nil || !b2[h] || len(b2) <= len(body) {
			continue
		}
		if best == nil || len(b2) < len(best) {
			bestH, best = h2, b2
		}
	}
	return bestH, best
}

// innermostLoopWithHeader: the natural loop whose header is blk (nil if none).
func innermostLoopWithHeader(f *ssa.Function, blk *ssa.BasicBlock) (*ssa.BasicBlock, map[*ssa.BasicBlock]bool) {
	body := map[*ssa.BasicBlock]bool{}
	found := false
	for _, t := range blk.Preds {
		if !blk.Dominates(t) {
			continue
		}
		found = true
		body[blk] = true
		stack := []*ssa.BasicBlock{t}
		for len(stack) > 0 {
			n := stack[len(stack)-1]
			stack = stack[:len(stack)-1]
			if body[n] {
				continue
			}
			body[n] = true
			stack = append(stack, n.Preds...)
		}
	}
	if !found {
		return nil, nil
	}
	return blk, body
}

type ordGuard struct {
	isA, isB func(ssa.Value) bool
	excl     []ordering
}

// flagGuarded: the target is reached only past the true edge of a boolean
// phi flag, and every operand of the phi that may be true either arrives over
// an edge reachable only past the guard, or is itself a comparison whose
// truth establishes the guard.
func flagGuarded(c *Ctx, f *ssa.Function, target ssa.Instruction, guards []ordGuard) bool {
	for _, b := range blocksDeep(f) {
		ifi := ifOf(b)
		if ifi == nil {
			continue
		}
		phi, ok := ifi.Cond.(*ssa.Phi)
		if !ok {
			continue
		}
		// target only past the true edge of this If
		w, _ := (&Cut{Fn: f, Target: isInstr(target), EdgeCut: func(bb *ssa.BasicBlock, s int) bool { return bb == b && s == 0 }}).Run(c)
		if w != "" {
			continue
		}
		ok = true
		for _, g := range guards {
			establishes := func(v ssa.Value) bool {
				tab := condTable(v, g.isA, g.isB)
				for _, o := range g.excl {
					if tab[o] != triFalse {
						return false
					}
				}
				return true
			}
			// operands that may be true and do not establish the guard by themselves
			es := phiEdgesWhere(phi, func(v ssa.Value) bool {
				bv, isC := constBool(v)
				if isC && !bv {
					return false
				}
				return !establishes(v)
			})
			if len(es) == 0 {
				continue
			}
			if w, _ := (&Cut{Fn: f, TargetEdge: edgeSet(es), EdgeCut: edgeExcl(g.isA, g.isB, g.excl...)}).Run(c); w != "" {
				ok = false
			}
		}
		if ok {
			return true
		}
	}
	return false
}

// conjunctChEq: "the sink's ch equals the closing channel": a comparison of a namedSink's ch field with a value
// satisfying isOurs.
func conjunctChEq(c *Ctx, ebP string) func(isOurs func(ssa.Value) bool) conjunct {
	return func(isOurs func(ssa.Value) bool) conjunct {
		return conjunct{name: "sink.ch == closing channel", cond: func(th func(ssa.Value) ssa.Value) condPred {
			isElemCh := func(v ssa.Value) bool {
				fl, _ := loadOfField(strip2(v))
				return fl != nil && fl.Name() == "ch" && !isOurs(v)
			}
			return eqCond(isElemCh, func(v ssa.Value) bool { return isOurs(v) || isOurs(th(v)) })
		}}
	}
}

// isLoadOfFieldAddr: v is the address of the keyed field (&x.f), as passed to a method with pointer receiver.
func isLoadOfFieldAddr(v ssa.Value, fieldKey string) bool {
	fl, base := fieldAddrOf(strip2(v))
	return fl != nil && fieldKeyOf(base, fl) == fieldKey
}

// receivesFrom: g receives (plain receive or select case) from a channel satisfying isCh, or passes such a channel
// to a module function that does (two levels).
func receivesFrom(c *Ctx, g *ssa.Function, isCh func(ssa.Value) bool, depth int) bool {
	found := false
	allInstrs(g, func(in ssa.Instruction) {
		if found {
			return
		}
		switch x := in.(type) {
		case *ssa.Select:
			for _, st := range x.States {
				if st.Send == nil && isCh(strip2(st.Chan)) {
					found = true
				}
			}
		case *ssa.UnOp:
			if x.Op == token.ARROW && isCh(strip2(x.X)) {
				found = true
			}
		case *ssa.Call:
			h := x.Call.StaticCallee()
			if h == nil || h.Blocks == nil || depth >= 2 || h.Pkg == nil || !strings.HasPrefix(h.Pkg.Pkg.Path()+"/", Mod) {
				return
			}
			for i, a := range x.Call.Args {
				if i < len(h.Params) && isCh(strip2(a)) {
					p := h.Params[i]
					asRoot(h, func() {
						if receivesFrom(c, h, func(v ssa.Value) bool { return v == ssa.Value(p) || isParamCellLoad(c, v, p) }, depth+1) {
							found = true
						}
					})
				}
			}
		}
	})
	return found
}
