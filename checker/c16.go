package main

import (
	"fmt"
	"go/constant"
	"go/token"
	"sort"

	"golang.org/x/tools/go/ssa"
)

func init() {
	register("C16", checkC16,
		"Decides structural necessary conditions of the AutoNAT v2 anti-amplification and rate-limit property on every CFG path of the server: "+
			"(R1) dialBack is reachable only past limiter.Accept==true and, on paths where the dial-data policy answered true, only past AcceptDialDataRequest==true and getDialData==nil; "+
			"(R2) dialBack receives the authenticated remote peer and the address chosen from the request, and inside dialBack AddAddr/Connect/NewStream use exactly those under a force-direct context, with cleanup deferred; who-may-call of the dialer host; "+
			"(R3) a non-nil dial address is produced only from a request entry past the public/CanDial/index-bound checks and nil reaches no dial; "+
			"(R4) dial-data size constants and the default policy; (R5) rate limiter guards, the in-progress count moving by one per admission/completion, and lock discipline; "+
			"(R6) ReadMsg returns a message only when the whole announced length was read and readDialData finishes only when credits of at most the message lengths cover numBytes.",
		"sliding-window arithmetic of the rate limiter, the protobuf framing overhead subtracted in readDialData (only that a credit never exceeds the message length is decided), concurrency beyond lock discipline")
}

const an2 = "p2p/protocol/autonatv2"

func checkC16(c *Ctx, r *Report) {
	srvT := an2 + ".server"
	serve := "(*" + an2 + ".server).serveDialRequest"
	dialBackK := "(*" + an2 + ".server).dialBack"
	acceptK := "(*" + an2 + ".rateLimiter).Accept"
	acceptDDK := "(*" + an2 + ".rateLimiter).AcceptDialDataRequest"
	getDDK := an2 + ".getDialData"

	// ---- R1 ---------------------------------------------------------------
	r1 := r.Rule("C16-R1", "E1/E1b", 3, "dialBack only past limiter.Accept, and (policy=true) past AcceptDialDataRequest and successful getDialData")
	fn := r1.need(serve)
	var policy ssa.Value
	var dialBacks []ssa.Instruction
	if fn != nil {
		dialBacks = findInstrs(fn, callPred(dialBackK))
		r1.guard(fn, "call dialBack", dialBacks, "limiter.Accept(p)==true", edgeBool(isCallResult(0, acceptK), true), nil)
		pcalls := findInstrs(fn, func(in ssa.Instruction) bool { return isDynCallOfField(in, srvT+".dialDataRequestPolicy") })
		if len(pcalls) != 1 {
			r1.Fail(serve+": dialDataRequestPolicy consulted", fn.Pos(), "expected exactly one evaluation of the dial-data policy per request", "")
		} else {
			policy = pcalls[0].(ssa.Value)
			as := map[ssa.Value]bool{policy: true}
			r1.guard(fn, "call dialBack [policy=true]", dialBacks, "AcceptDialDataRequest()==true", edgeBool(isCallResult(0, acceptDDK), true), as)
			r1.guard(fn, "call dialBack [policy=true]", dialBacks, "getDialData()==nil", edgeNil(isCallResult(0, getDDK), true), as)
			// the policy call precedes (dominates) the dial
			q := &Cut{Fn: fn, Target: callPred(dialBackK), Sep: func(in ssa.Instruction) bool { return in == pcalls[0] }}
			r1.mustPass(fn, serve+": dialBack only after the policy was evaluated", q, 1)
		}
	}

	// ---- R2 ---------------------------------------------------------------
	r2 := r.Rule("C16-R2", "E6/E3", 8, "dialBack gets the authenticated peer and the request's address; uses exactly those; dialer host used only from dialBack")
	isRemotePeerOfS := func(f *ssa.Function) func(ssa.Value) bool {
		return func(v ssa.Value) bool {
			call := isResultOfCall(v, 0, "(core/network.*).RemotePeer")
			if call == nil {
				return false
			}
			cn := isResultOfCall(callArgs(call)[0], 0, "(core/network.*).Conn")
			return cn != nil && isParamVar(c, callArgs(cn)[0], "s")
		}
	}
	var dialAddrPhi *ssa.Phi
	if fn != nil {
		for _, db := range dialBacks {
			args := callArgs(db.(ssa.CallInstruction)) // as, ctx, p, addr, nonce
			r2.Check(len(args) == 5 && isRemotePeerOfS(fn)(args[2]), serve+": dialBack peer argument", instrPos(db), 1, "",
				"peer handed to dialBack is not s.Conn().RemotePeer()", describeVal(args[2]))
			if len(args) == 5 {
				if p, ok := args[3].(*ssa.Phi); ok {
					dialAddrPhi = p
				}
				r2.Check(dialAddrPhi != nil && args[3] == ssa.Value(dialAddrPhi), serve+": dialBack address argument", instrPos(db), 1, "",
					"address handed to dialBack is not the dialAddr variable selected from the request", describeVal(args[3]))
			}
		}
		if policy != nil {
			pa := policy.(*ssa.Call).Call.Args
			okObs := len(pa) == 2 && isResultOfCall(pa[0], 0, "(core/network.*).RemoteMultiaddr") != nil
			okDial := len(pa) == 2 && dialAddrPhi != nil && pa[1] == ssa.Value(dialAddrPhi)
			r2.Check(okObs && okDial, serve+": policy arguments", policy.Pos(), 1, "",
				"dial-data policy is not evaluated on (connection's remote address, dialAddr)", "")
		}
	}
	if db := r2.need(dialBackK); db != nil {
		pP := func(v ssa.Value) bool { return isParamVar(c, v, "p") }
		pA := func(v ssa.Value) bool { return isParamVar(c, v, "addr") }
		adds := callsIn(db, "(core/peerstore.*).AddAddr")
		r2.Check(len(adds) == 1 && pP(callArgs(adds[0])[1]) && pA(callArgs(adds[0])[2]), dialBackK+": AddAddr(p, addr)", db.Pos(), 1, "",
			"dialBack must add exactly (p, addr) to the dialer's peerstore", "")
		conns := callsIn(db, "(core/host.Host).Connect")
		okConn := len(conns) == 1
		if okConn {
			a := callArgs(conns[0])
			okConn = derivesFrom(a[1], isCallResult(0, "core/network.WithForceDirectDial"), "context.WithTimeout") &&
				derivesFrom(a[2], pP) && !derivesFrom(a[2], pA) && onlyFieldStores(a[2], "ID")
		}
		r2.Check(okConn, dialBackK+": Connect(force-direct ctx, AddrInfo{ID:p})", db.Pos(), 1, "",
			"Connect must use a context derived from WithForceDirectDial and an AddrInfo naming only p", "")
		ns := callsIn(db, "(core/host.Host).NewStream")
		okNS := len(ns) == 1 && pP(callArgs(ns[0])[2])
		r2.Check(okNS, dialBackK+": NewStream(ctx, p)", db.Pos(), 1, "", "dial-back stream must be opened to p", "")
		// NewStream only after Connect succeeded
		if len(conns) == 1 {
			r2.guard(db, "NewStream", findInstrs(db, callPred("(core/host.Host).NewStream")), "Connect()==nil", edgeNil(isCallResult(0, "(core/host.Host).Connect"), true), nil)
		}
		// deferred cleanup forgets the peer
		cleanupOK := false
		for _, d := range findInstrs(db, func(in ssa.Instruction) bool { _, ok := in.(*ssa.Defer); return ok }) {
			f := d.(*ssa.Defer).Call.StaticCallee()
			if f == nil {
				continue
			}
			cp := callsIn(f, "(core/network.*).ClosePeer")
			ca := callsIn(f, "(core/peerstore.*).ClearAddrs")
			if len(cp) == 1 && len(ca) == 1 && pP(callArgs(cp[0])[1]) && pP(callArgs(ca[0])[1]) {
				// the defer must be registered before Connect
				w, _ := (&Cut{Fn: db, Target: callPred("(core/host.Host).Connect"), Sep: func(in ssa.Instruction) bool { return in == d }}).Run(c)
				cleanupOK = w == ""
			}
		}
		r2.Check(cleanupOK, dialBackK+": deferred ClosePeer(p)+ClearAddrs(p) registered before Connect", db.Pos(), 1, "",
			"the temporary address / connection of the dial-back must be dropped on every exit", "")
	}
	pkgFns := c.FnsOfPkg(an2)
	r2.onlyIn("dialerHost.Connect/NewStream", func(in ssa.Instruction) bool {
		ci, ok := in.(ssa.CallInstruction)
		return ok && isCallTo(in, "(core/host.Host).Connect", "(core/host.Host).NewStream") && recvIsField(ci, srvT+".dialerHost")
	}, pkgFns, dialBackK)
	r2.onlyCallers("call dialBack", []string{dialBackK}, c.Fns, serve)

	// ---- R3 ---------------------------------------------------------------
	r3 := r.Rule("C16-R3", "E1/E6", 5, "non-nil dialAddr only from a request entry past public/CanDial/index checks; nil dialAddr reaches no dial")
	if fn != nil && dialAddrPhi != nil {
		newMA := "github.com/multiformats/go-multiaddr.NewMultiaddrBytes"
		leavesOK := true
		var defCalls []ssa.Instruction
		for _, l := range phiLeaves(dialAddrPhi) {
			if isNilConst(l) {
				continue
			}
			call := isResultOfCall(l, 0, newMA)
			if call == nil {
				leavesOK = false
				continue
			}
			// the bytes come from msg.GetDialRequest().GetAddrs()
			if !derivesFrom(call.Common().Args[0], isFieldOrGetter(an2+"/pb.DialRequest.Addrs")) {
				leavesOK = false
			}
			defCalls = append(defCalls, call.(ssa.Instruction))
		}
		r3.Check(leavesOK && len(defCalls) > 0, serve+": dialAddr provenance", dialAddrPhi.Pos(), len(defCalls), "",
			"every non-nil value of dialAddr must be NewMultiaddrBytes(entry of msg.GetDialRequest().GetAddrs())", "")
		nonNilIn := phiEdgesWhere(dialAddrPhi, func(v ssa.Value) bool { return !isNilConst(v) })
		isA := func(v ssa.Value) bool { return isResultOfCall(v, 0, newMA) != nil }
		argIs := func(ci ssa.CallInstruction, i int) bool {
			a := callArgs(ci)
			return ci != nil && len(a) > i && isA(strip(a[i]))
		}
		canDial := func(v ssa.Value) bool {
			ci := isResultOfCall(v, 0, "(core/network.*).CanDial")
			return ci != nil && argIs(ci, 2) && isRemotePeerOfS(fn)(callArgs(ci)[1])
		}
		public := func(v ssa.Value) bool {
			ci := isResultOfCall(v, 0, "github.com/multiformats/go-multiaddr/net.IsPublicAddr")
			return ci != nil && argIs(ci, 0)
		}
		maxAddrs, _ := constant.Int64Val(c.Obj(an2, "maxPeerAddresses").(interface{ Val() constant.Value }).Val())
		guards := []struct {
			name string
			e    EdgePred
		}{
			{"CanDial(p, a)==true", edgeBool(canDial, true)},
			{"allowPrivateAddrs || IsPublicAddr(a)", anyEdge(edgeBool(isLoadOfField(srvT+".allowPrivateAddrs"), true), edgeBool(public, true))},
			{"NewMultiaddrBytes err==nil", edgeNil(isCallResult(1, newMA), true)},
		}
		for _, g := range guards {
			q := &Cut{Fn: fn, From: defCalls, TargetEdge: edgeSet(nonNilIn), EdgeCut: g.e, StopAtFrom: true}
			r3.mustPass(fn, serve+": dialAddr=a guarded-by "+g.name, q, len(nonNilIn))
		}
		// index bound: only the first maxPeerAddresses entries of the request are parsed: the entry handed to
		// NewMultiaddrBytes is S[i] with i < maxPeerAddresses tested, or S itself cut to at most that many
		for _, dc := range defCalls {
			call := dc.(*ssa.Call)
			var S, idx ssa.Value
			if ld, ok := strip(call.Call.Args[0]).(*ssa.UnOp); ok && ld.Op == token.MUL {
				if ia, ok := ld.X.(*ssa.IndexAddr); ok {
					S, idx = ia.X, ia.Index
				}
			}
			key := serve + ": the entry parsed is among the first maxPeerAddresses"
			if S == nil {
				r3.Fail(key, instrPos(dc), "the parsed bytes are not an element of the request's address list", "")
				continue
			}
			w1, n1 := (&Cut{Fn: fn, Target: isInstr(dc), EdgeCut: edgeExcl(func(v ssa.Value) bool { return v == idx },
				func(v ssa.Value) bool { n, ok := constInt(v); return ok && n == maxAddrs }, ordEQ, ordGT)}).Run(c)
			w2, n2 := sliceBoundedAt(c, fn, dc, S, maxAddrs)
			r3.Check(w1 == "" || w2 == "", key, instrPos(dc), n1+n2+1, "", "a request can make the server examine (CanDial, parse) an unbounded number of addresses", w1)
		}
		r3.guard(fn, "call dialBack", dialBacks, "dialAddr != nil", edgeNil(isValue(dialAddrPhi), false), nil)
		r3.guard(fn, "policy/dial-data request", findInstrs(fn, func(in ssa.Instruction) bool { return in == policy.(ssa.Instruction) }), "dialAddr != nil", edgeNil(isValue(dialAddrPhi), false), nil)
	} else if fn != nil {
		r3.Err(serve+": dialAddr", "the dialAddr variable handed to dialBack was not identified")
	}

	// ---- R4 ---------------------------------------------------------------
	r4 := r.Rule("C16-R4", "E7/E1", 5, "dial-data size range 30k..100k; default policy is amplificationAttackPrevention, false only on equal IPs")
	minV, maxV := constIntObj(c, an2, "minHandshakeSizeBytes"), constIntObj(c, an2, "maxHandshakeSizeBytes")
	r4.Check(minV == 30_000, an2+".minHandshakeSizeBytes == 30000", objPos(c, an2, "minHandshakeSizeBytes"), 1, "", "minimum dial data must be 30 kB", "")
	r4.Check(maxV == 100_000, an2+".maxHandshakeSizeBytes == 100000", objPos(c, an2, "maxHandshakeSizeBytes"), 1, "", "maximum dial data must be 100 kB", "")
	if gd := r4.need(getDDK); gd != nil {
		// NumBytes = min + rand.Intn(max-min), and readDialData gets the same number
		ok := false
		var numBytes ssa.Value
		allInstrs(gd, func(in ssa.Instruction) {
			b, isB := in.(*ssa.BinOp)
			if !isB || b.Op != token.ADD {
				return
			}
			x, okx := constInt(b.X)
			call := isResultOfCall(b.Y, 0, "math/rand.Intn")
			if !okx { // the sum written the other way round
				x, okx = constInt(b.Y)
				call = isResultOfCall(b.X, 0, "math/rand.Intn")
			}
			if okx && x == minV && call != nil {
				if n, okn := constInt(call.Common().Args[0]); okn && n == maxV-minV {
					ok = true
					numBytes = b
				}
			}
		})
		r4.Check(ok, getDDK+": numBytes = min + rand.Intn(max-min)", gd.Pos(), 1, "", "requested dial data is not min+rand.Intn(max-min)", "")
		rd := callsIn(gd, an2+".readDialData")
		r4.Check(len(rd) == 1 && numBytes != nil && rd[0].Common().Args[0] == numBytes, getDDK+": readDialData(numBytes)", gd.Pos(), 1, "",
			"the amount read must be the amount requested", "")
		// success only via readDialData's result or nil after it
		for _, ret := range returnsOf(gd) {
			v := retVal(ret, 0)
			if isResultOfCall(v, 0, an2+".readDialData") != nil {
				r4.OK(getDDK+": return readDialData(...)", instrPos(ret), 1, "")
			} else if isNilConst(v) {
				r4.Fail(getDDK+": return nil", instrPos(ret), "getDialData returns success without reading the dial data", "")
			}
		}
	}
	if ap := r4.need(an2 + ".amplificationAttackPrevention"); ap != nil {
		for _, ret := range returnsOf(ap) {
			v := retVal(ret, 0)
			if b, isC := constBool(v); isC {
				r4.Check(b, an2+".amplificationAttackPrevention: constant return", instrPos(ret), 1, "", "policy answers `no dial data needed` on an error path", "")
				continue
			}
			// must be !observedIP.Equal(dialIP)
			base, neg := stripNot(v)
			call := isResultOfCall(base, 0, "(net.IP).Equal")
			ok := neg && call != nil
			if ok {
				a := callArgs(call)
				o := isResultOfCall(a[0], 0, "github.com/multiformats/go-multiaddr/net.ToIP")
				d := isResultOfCall(a[1], 0, "github.com/multiformats/go-multiaddr/net.ToIP")
				ok = o != nil && d != nil && ((isParamVar(c, o.Common().Args[0], "observedAddr") && isParamVar(c, d.Common().Args[0], "dialAddr")) ||
					(isParamVar(c, d.Common().Args[0], "observedAddr") && isParamVar(c, o.Common().Args[0], "dialAddr")))
			}
			r4.Check(ok, an2+".amplificationAttackPrevention: return !observedIP.Equal(dialIP)", instrPos(ret), 1, "",
				"policy may answer false only when the observed IP equals the dial IP", describeVal(v))
		}
	}
	// the default policy
	defaultOK := 0
	for _, f := range pkgFns {
		allInstrs(f, func(in ssa.Instruction) {
			st, ok := in.(*ssa.Store)
			if !ok {
				return
			}
			fld, base := fieldAddrOf(st.Addr)
			if fld == nil || fld.Name() != "dataRequestPolicy" && fld.Name() != "dialDataRequestPolicy" {
				return
			}
			_ = base
			v := strip(st.Val)
			if g, isF := v.(*ssa.Function); isF {
				if fnKey(g) == an2+".amplificationAttackPrevention" {
					defaultOK++
					r4.OK("default policy "+fnKey(f)+": "+fld.Name()+" = amplificationAttackPrevention", instrPos(in), 1, "")
				} else if fnKey(c.Root(f)) == an2+".defaultAutoNATSettings" {
					r4.Fail("default policy "+fnKey(f)+": "+fld.Name(), instrPos(in), "default dial-data policy is not amplificationAttackPrevention", fnKey(g))
				}
			}
		})
	}
	if defaultOK == 0 {
		r4.Fail("default policy", token.NoPos, "no assignment of amplificationAttackPrevention as the default dial-data policy was found", "")
	}

	// ---- R5 ---------------------------------------------------------------
	r5 := r.Rule("C16-R5", "E1/E4", 8, "rate limiter: state updates only past the caps; CompleteRequest deferred on every accepted request; fields under mu")
	rlT := an2 + ".rateLimiter"
	if acc := r5.need(acceptK); acc != nil {
		isInProgIncr := func(in ssa.Instruction) bool {
			_, isMU := in.(*ssa.MapUpdate)
			return isMU && isFieldWrite(in, rlT+".inProgressReqs")
		}
		writes := findInstrs(acc, func(in ssa.Instruction) bool {
			// the admission: directly, or in a helper that counts the request as in progress
			return isFieldWrite(in, rlT+".inProgressReqs") || isFieldWrite(in, rlT+".reqs") || isFieldWrite(in, rlT+".peerReqs") ||
				writesLike(in, isInProgIncr, 2)
		})
		lenOf := func(field string) func(ssa.Value) bool {
			return func(v ssa.Value) bool {
				call, _ := v.(*ssa.Call)
				if call == nil || calleeKey(call) != "builtin.len" {
					return false
				}
				return derivesFrom(call.Call.Args[0], isLoadOfField(rlT+"."+field))
			}
		}
		ge := func(x func(ssa.Value) bool, limit string) EdgePred {
			return edgeExcl(func(v ssa.Value) bool { return x(strip2(v)) }, func(v ssa.Value) bool { return isLoadOfField(rlT + "." + limit)(strip2(v)) }, ordEQ, ordGT)
		}
		inProg := func(v ssa.Value) bool {
			return derivesFrom(v, isLoadOfField(rlT+".inProgressReqs")) && !isLoadOfField(rlT+".inProgressReqs")(v)
		}
		r5.guard(acc, "state update", writes, "!closed", edgeBool(isLoadOfField(rlT+".closed"), false), nil)
		r5.guard(acc, "state update", writes, "inProgressReqs[p] < MaxConcurrentRequestsPerPeer", ge(inProg, "MaxConcurrentRequestsPerPeer"), nil)
		r5.guard(acc, "state update", writes, "len(reqs) < RPM", ge(lenOf("reqs"), "RPM"), nil)
		r5.guard(acc, "state update", writes, "len(peerReqs[p]) < PerPeerRPM", ge(lenOf("peerReqs"), "PerPeerRPM"), nil)
		// return true only after the updates
		for _, ret := range returnsOf(acc) {
			if b, ok := constBool(retVal(ret, 0)); ok && b {
				w, n := (&Cut{Fn: acc, Target: func(in ssa.Instruction) bool { return in == ssa.Instruction(ret) },
					Sep: func(in ssa.Instruction) bool { return passesLike(in, isInProgIncr, 2) }}).Run(c)
				r5.Check(w == "", acceptK+": return true passes inProgressReqs[p]++", instrPos(ret), n+1, "", "accepts without recording the request", w)
			}
		}
	}
	// the accepted request is entered in both windows, and the windows are pruned before they are measured
	if acc := r5.need(acceptK); acc != nil {
		var trues []ssa.Instruction
		for _, ret := range returnsOf(acc) {
			if b, ok := constBool(resolveLoad(strip(retVal(ret, 0)))); ok && b {
				trues = append(trues, ret)
			}
		}
		isAppendTo := func(field string) func(ssa.Instruction) bool {
			return func(in ssa.Instruction) bool {
				if !isFieldWrite(in, rlT+"."+field) {
					return false
				}
				var val ssa.Value
				switch x := in.(type) {
				case *ssa.Store:
					val = x.Val
				case *ssa.MapUpdate:
					val = x.Value
				default:
					return false
				}
				return derivesFrom(val, func(v ssa.Value) bool { return isResultOfCall(v, 0, "builtin.append") != nil })
			}
		}
		for _, fld := range []string{"reqs", "peerReqs"} {
			w, n := (&Cut{Fn: acc, Target: inSet(trues), Sep: func(in ssa.Instruction) bool { return passesLike(in, isAppendTo(fld), 2) }}).Run(c)
			r5.Check(w == "" && len(trues) >= 1, acceptK+": an accepted request is appended to "+fld, acc.Pos(), n+1, "", "the window never fills: the cap it measures is never reached", w)
		}
	}
	for _, k := range []string{acceptK, acceptDDK} {
		acc := r5.need(k)
		if acc == nil {
			continue
		}
		cleans := findInstrs(acc, callPred("(*"+an2+".rateLimiter).cleanup"))
		w, n := (&Cut{Fn: acc, Sep: inSet(cleans), EdgeCut: edgeBool(isLoadOfField(rlT+".closed"), true), Target: func(in ssa.Instruction) bool {
			_, ok := in.(*ssa.Return)
			return ok
		}}).Run(c)
		r5.Check(w == "" && len(cleans) >= 1, k+": the windows are pruned before they are measured", acc.Pos(), n+1, "", "requests older than a minute keep counting: after a burst the server refuses everybody for good", w)
	}
	if acc := r5.need(acceptDDK); acc != nil {
		isDDAppend := func(in ssa.Instruction) bool {
			st, ok := in.(*ssa.Store)
			return ok && isFieldWrite(in, rlT+".dialDataReqs") && derivesFrom(st.Val, func(v ssa.Value) bool {
				call, isC := v.(*ssa.Call)
				return isC && calleeKey(call) == "builtin.append"
			})
		}
		writes := findInstrs(acc, func(in ssa.Instruction) bool { return writesLike(in, isDDAppend, 2) })
		r5.guard(acc, "append dialDataReqs", writes, "!closed", edgeBool(isLoadOfField(rlT+".closed"), false), nil)
		r5.guard(acc, "append dialDataReqs", writes, "len(dialDataReqs) < DialDataRPM", edgeExcl(func(v ssa.Value) bool {
			call, _ := strip2(v).(*ssa.Call)
			return call != nil && calleeKey(call) == "builtin.len" && isLoadOfField(rlT+".dialDataReqs")(strip2(call.Call.Args[0]))
		}, func(v ssa.Value) bool { return isLoadOfField(rlT + ".DialDataRPM")(strip2(v)) }, ordEQ, ordGT), nil)
		for _, ret := range returnsOf(acc) {
			if b, ok := constBool(retVal(ret, 0)); ok && b {
				w, n := (&Cut{Fn: acc, Target: func(in ssa.Instruction) bool { return in == ssa.Instruction(ret) },
					Sep: func(in ssa.Instruction) bool { return passesLike(in, isDDAppend, 2) }}).Run(c)
				r5.Check(w == "", acceptDDK+": return true passes the append", instrPos(ret), n+1, "", "accepts a dial-data request without recording it", w)
			}
		}
	}
	if fn != nil {
		// past the true edge of Accept, every exit passes `defer CompleteRequest(p)`
		var acceptTrue []CFGEdge
		for _, b := range blocksDeep(fn) {
			for s := range b.Succs {
				if edgeBool(isCallResult(0, acceptK), true)(b, s) {
					acceptTrue = append(acceptTrue, CFGEdge{b, s})
				}
			}
		}
		isComplete := func(in ssa.Instruction) bool {
			d, ok := in.(*ssa.Defer)
			return ok && calleeKey(d) == "(*"+an2+".rateLimiter).CompleteRequest" && isRemotePeerOfS(fn)(callArgs(d)[1])
		}
		if len(acceptTrue) == 0 {
			r5.Fail(serve+": accepted request completes", fn.Pos(), "no branch on limiter.Accept found", "")
		} else {
			q := &Cut{Fn: fn, FromEdges: acceptTrue, Sep: isComplete, Target: func(in ssa.Instruction) bool {
				switch in.(type) {
				case *ssa.Return, *ssa.Panic:
					return true
				}
				return in.Block().Index != acceptTrue[0].B.Succs[acceptTrue[0].Succ].Index && false
			}}
			r5.mustPass(fn, serve+": accepted request passes defer CompleteRequest(p) before any exit", q, len(acceptTrue))
		}
		// ... and exactly once: after one completion of the request (deferred or called on the spot) no second one is
		// reachable (a second completion frees the slot of another request of the same peer that is still being served)
		isAnyComplete := func(in ssa.Instruction) bool {
			ci, ok := in.(ssa.CallInstruction)
			return ok && calleeKey(ci) == "(*"+an2+".rateLimiter).CompleteRequest"
		}
		comps := findInstrs(fn, isAnyComplete)
		for _, c1 := range comps {
			w, n := (&Cut{Fn: fn, From: []ssa.Instruction{c1}, Target: isAnyComplete}).Run(c)
			r5.Check(w == "", serve+": a request is completed at most once", instrPos(c1), n+1, "", "the peer's in-flight counter drops twice for one request: more concurrent requests of that peer are served than configured", w)
		}
	}
	// configuration reaches the limiter it is named for: each parameter of WithServerRateLimit is stored in its own
	// settings field, and each settings field initialises its own limiter field
	{
		setT := an2 + ".autoNATSettings"
		wantOpt := map[string]string{"serverRPM": "rpm", "serverPerPeerRPM": "perPeerRPM", "serverDialDataRPM": "dialDataRPM", "maxConcurrentRequestsPerPeer": "maxConcurrentRequestsPerPeer"}
		nOpt := 0
		if f := r5.need(an2 + ".WithServerRateLimit"); f != nil {
			for _, g := range append([]*ssa.Function{f}, allAnon(f)...) {
				// (the stores may sit in a setter the option closure calls: its parameters are the closure's arguments)
				for _, in := range findInstrs(g, func(in ssa.Instruction) bool { _, ok := in.(*ssa.Store); return ok }) {
					enterScan(g)
					st := in.(*ssa.Store)
					fl, base := fieldAddrOf(st.Addr)
					if fl == nil || fieldKeyOf(base, fl) != setT+"."+fl.Name() {
						continue
					}
					want, tabled := wantOpt[fl.Name()]
					if !tabled {
						continue
					}
					nOpt++
					p, isP := strip(st.Val).(*ssa.Parameter)
					r5.Check(isP && p.Parent() == f && paramIs(p, want), "WithServerRateLimit: "+fl.Name()+" = "+want, instrPos(in), 1, "", "a rate limit is configured from the wrong argument: the limiter enforces a different cap than the operator asked for", describeVal(strip(st.Val)))
				}
			}
			r5.Check(nOpt == 4, "WithServerRateLimit: stores the four limits", f.Pos(), nOpt, "", "", "")
		}
		wantLim := map[string]string{"RPM": "serverRPM", "PerPeerRPM": "serverPerPeerRPM", "DialDataRPM": "serverDialDataRPM", "MaxConcurrentRequestsPerPeer": "maxConcurrentRequestsPerPeer"}
		nLim := 0
		if f := r5.need(an2 + ".newServer"); f != nil {
			for _, in := range findInstrs(f, func(in ssa.Instruction) bool { _, ok := in.(*ssa.Store); return ok }) {
				st := in.(*ssa.Store)
				fl, base := fieldAddrOf(st.Addr)
				if fl == nil || fieldKeyOf(base, fl) != rlT+"."+fl.Name() {
					continue
				}
				want, tabled := wantLim[fl.Name()]
				if !tabled {
					continue
				}
				nLim++
				r5.Check(isLoadOfField(setT+"."+want)(strip(st.Val)) || isLoadOfField(setT+"."+want)(strip2(st.Val)), "newServer: rateLimiter."+fl.Name()+" = settings."+want, instrPos(in), 1, "", "a limiter cap is initialised from another setting", describeVal(strip(st.Val)))
			}
			r5.Check(nLim == 4, "newServer: initialises the four limiter caps", f.Pos(), nLim, "", "", "")
		}
	}
	// the in-progress count: +1 on admission, -1 on completion, the entry dropped only when nothing is in progress
	isInProgMut := func(in ssa.Instruction) bool {
		switch x := in.(type) {
		case *ssa.MapUpdate:
			return isLoadOfField(rlT + ".inProgressReqs")(strip2(x.Map))
		case *ssa.Call:
			return calleeKey(x) == "builtin.delete" && isLoadOfField(rlT+".inProgressReqs")(strip2(x.Call.Args[0]))
		}
		return isFieldWrite(in, rlT+".inProgressReqs")
	}
	completeK := "(*" + an2 + ".rateLimiter).CompleteRequest"
	r5.onlyIn("mutate "+rlT+".inProgressReqs", isInProgMut, c.FnsOfPkg(an2), acceptK, completeK, "(*"+an2+".rateLimiter).init", "(*"+an2+".rateLimiter).Close")
	stepRule := func(fnK string, op token.Token, what string) {
		f := r5.need(fnK)
		if f == nil {
			return
		}
		ups := findInstrs(f, func(in ssa.Instruction) bool { _, ok := in.(*ssa.MapUpdate); return ok && isInProgMut(in) })
		if len(ups) != 1 {
			r5.Fail(fnKey(f)+": one update of inProgressReqs[p]", f.Pos(), "expected exactly one assignment to the peer's in-progress count", fmt.Sprint(len(ups)))
			return
		}
		up := ups[0].(*ssa.MapUpdate)
		isP := func(v ssa.Value) bool { return isParamVar(c, strip(v), "p") }
		isCount := func(v ssa.Value) bool {
			lk, ok := strip2(v).(*ssa.Lookup)
			return ok && isLoadOfField(rlT+".inProgressReqs")(strip2(lk.X)) && isP(lk.Index)
		}
		okStep := false
		if bo, ok := strip(up.Value).(*ssa.BinOp); ok && isP(up.Key) {
			k, isC := constInt(bo.Y)
			okStep = isCount(bo.X) && isC && ((bo.Op == op && k == 1) || (bo.Op != op && (bo.Op == token.ADD || bo.Op == token.SUB) && k == -1))
		}
		r5.Check(okStep, fnKey(f)+": inProgressReqs[p] "+what, instrPos(up), 1, "", "the peer's concurrent-request count no longer follows the requests being served", describeVal(up.Value))
		// the entry is dropped only when the (already updated) count is not positive
		dels := findInstrs(f, func(in ssa.Instruction) bool {
			call, ok := in.(*ssa.Call)
			return ok && calleeKey(call) == "builtin.delete" && isInProgMut(in)
		})
		after := func(v ssa.Value) bool {
			if strip(v) == strip(up.Value) {
				return true
			}
			lk, ok := strip2(v).(*ssa.Lookup)
			if !ok || !isCount(v) {
				return false
			}
			at := rootSite(f, lk) // (a read inside a local predicate happens where the predicate is called)
			if at == nil {
				return false
			}
			return up.Block().Dominates(at.Block()) && (up.Block() != at.Block() || instrIndex(up) < instrIndex(at))
		}
		isZero := func(v ssa.Value) bool { k, ok := constInt(v); return ok && k == 0 }
		for _, d := range dels {
			r5.Check(isP(d.(*ssa.Call).Call.Args[1]), fnKey(f)+": delete(inProgressReqs, p) drops the completing peer's entry", instrPos(d), 1, "", "", "")
		}
		if len(dels) > 0 {
			r5.guard(f, "delete(inProgressReqs, p)", dels, "inProgressReqs[p] <= 0 (after the update)", edgeExcl(after, isZero, ordGT), nil)
		}
	}
	stepRule(acceptK, token.ADD, "+= 1 on admission")
	stepRule(completeK, token.SUB, "-= 1 on completion")

	// window trimming: every trim bound `x = x[k:]` in cleanup is the index of the FIRST
	// live entry: the bound is not loop-carried past a match (the search leaves the loop)
	if cl := r5.need("(*" + an2 + ".rateLimiter).cleanup"); cl != nil {
		n := 0
		allInstrs(cl, func(in ssa.Instruction) {
			sl, ok := in.(*ssa.Slice)
			if !ok || sl.Low == nil || sl.High != nil {
				return
			}
			n++
			p, ok := sl.Low.(*ssa.Phi)
			if !ok {
				r5.OK("cleanup: trim bound not computed by an index search loop", instrPos(in), 1, "bound: "+describeVal(sl.Low))
				return
			}
			okFirst := true
			var walk func(p *ssa.Phi, seen map[*ssa.Phi]bool)
			walk = func(p *ssa.Phi, seen map[*ssa.Phi]bool) {
				if seen[p] {
					return
				}
				seen[p] = true
				for _, e := range p.Edges {
					if q, isPhi := e.(*ssa.Phi); isPhi {
						walk(q, seen)
						continue
					}
					if b, isB := e.(*ssa.BinOp); isB && b.Op == token.ADD {
						if idx, isIdx := b.X.(*ssa.Phi); isIdx && idx.Comment == "rangeindex" && p.Block() == idx.Block() {
							okFirst = false // the bound is carried around the loop: later matches overwrite it
						}
					}
				}
			}
			walk(p, map[*ssa.Phi]bool{})
			r5.Check(okFirst, "cleanup: trim bound is the first live index (search leaves the loop on a match)", instrPos(in), 1, "",
				"the window keeps only what follows the LAST live entry: live requests are forgotten and the per-minute limit can be exceeded", "")
		})
		if n < 3 {
			r5.Fail("cleanup: trim sites", cl.Pos(), "expected three window trims (global, per-peer, dial-data)", "")
		}
	}
	lockRule(c, r5, lockSpec{
		Pkg: an2, Type: "rateLimiter", Mutex: "mu",
		Guarded:  []string{"closed", "reqs", "peerReqs", "dialDataReqs", "inProgressReqs"},
		Requires: []string{"(*" + an2 + ".rateLimiter).init", "(*" + an2 + ".rateLimiter).cleanup"},
	})

	// ---- R6 ---------------------------------------------------------------
	// dial data is credited only for bytes that arrived
	r6 := r.Rule("C16-R6", "E7c/E1", 8, "ReadMsg succeeds only with the whole announced message read; readDialData finishes only when the credited lengths (each at most the message length) cover numBytes")
	peel := func(v ssa.Value) ssa.Value {
		for {
			switch x := v.(type) {
			case *ssa.Convert:
				v = x.X
			case *ssa.ChangeType:
				v = x.X
			default:
				return v
			}
		}
	}
	rmK := "(*" + an2 + ".msgReader).ReadMsg"
	if f := r6.need(rmK); f != nil {
		var szV ssa.Value
		for _, call := range callsIn(f, "github.com/multiformats/go-varint.ReadUvarint") {
			allInstrs(f, func(in ssa.Instruction) {
				if ex, ok := in.(*ssa.Extract); ok && ex.Tuple == call.Value() && ex.Index == 0 {
					szV = ex
				}
			})
		}
		reads := callsIn(f, "(io.Reader).Read")
		isNr := func(v ssa.Value) bool {
			ex, ok := peel(v).(*ssa.Extract)
			if !ok || ex.Index != 0 {
				return false
			}
			for _, rd := range reads {
				if ex.Tuple == rd.Value() {
					return true
				}
			}
			return false
		}
		// n: the integer that starts at 0 and only grows by what Read reported
		var nPhi *ssa.Phi
		allInstrs(f, func(in ssa.Instruction) {
			p, ok := in.(*ssa.Phi)
			if !ok || nPhi != nil {
				return
			}
			zero, adds, other := 0, 0, 0
			for _, e := range p.Edges {
				if k, isC := constInt(e); isC && k == 0 {
					zero++
				} else if bo, isB := e.(*ssa.BinOp); isB && bo.Op == token.ADD && ((peel(bo.X) == ssa.Value(p) && isNr(bo.Y)) || (peel(bo.Y) == ssa.Value(p) && isNr(bo.X))) {
					adds++
				} else {
					other++
				}
			}
			if zero == 1 && adds >= 1 && other == 0 {
				nPhi = p
			}
		})
		if szV == nil || nPhi == nil || len(reads) == 0 {
			r6.Fail(rmK+": announced size, byte counter and Read", f.Pos(), "the length prefix, the counter of bytes read (0, then += Read's count) or the Read call was not identified", "")
		} else {
			isN := func(v ssa.Value) bool { return peel(v) == ssa.Value(nPhi) }
			isBuf := func(v ssa.Value) bool { return isLoadOfField(an2 + ".msgReader.Buf")(strip2(v)) }
			// the message: Buf[:announced size]; its length is the announced size
			var isSz func(v ssa.Value) bool
			isMsg := func(v ssa.Value) bool {
				sl, ok := strip(v).(*ssa.Slice)
				return ok && sl.Low == nil && sl.High != nil && peel(sl.High) == szV && isBuf(sl.X)
			}
			isSz = func(v ssa.Value) bool {
				if peel(v) == szV {
					return true
				}
				call, ok := peel(v).(*ssa.Call)
				return ok && calleeKey(call) == "builtin.len" && isMsg(call.Call.Args[0])
			}
			var okRets []ssa.Instruction
			for _, ret := range returnsOf(f) {
				if !isNilConst(retVal(ret, 0)) {
					okRets = append(okRets, ret)
				}
			}
			r6.guard(f, "return message", okRets, "n >= announced size", edgeExcl(isN, isSz, ordLT), nil)
			r6.guard(f, "return message", okRets, "ReadUvarint err==nil", edgeNil(isCallResult(1, "github.com/multiformats/go-varint.ReadUvarint"), true), nil)
			isBufLen := func(v ssa.Value) bool {
				call, ok := peel(v).(*ssa.Call)
				return ok && calleeKey(call) == "builtin.len" && isLoadOfField(an2+".msgReader.Buf")(strip2(call.Call.Args[0]))
			}
			r6.guard(f, "return message", okRets, "announced size <= len(Buf)", edgeExcl(isSz, isBufLen, ordGT), nil)
			for _, ret := range okRets {
				r6.Check(isMsg(retVal(ret.(*ssa.Return), 0)), rmK+": returns Buf[:announced size]", instrPos(ret), 1, "", "", "")
			}
			for _, rd := range reads {
				// bytes n.. of the message: Buf[n:size], or msg[n:] with msg = Buf[:size]
				sl, ok := strip(rd.Common().Args[0]).(*ssa.Slice)
				okFill := ok && sl.Low != nil && isN(sl.Low) &&
					((sl.High != nil && isSz(sl.High) && isBuf(sl.X)) || (sl.High == nil && isMsg(sl.X)))
				r6.Check(okFill, rmK+": Read fills Buf[n:announced size]", instrPos(rd.(ssa.Instruction)), 1, "", "bytes counted are not the bytes of this message", "")
			}
		}
	}
	rddK := an2 + ".readDialData"
	if f := r6.need(rddK); f != nil {
		var msg ssa.Value
		rms := callsIn(f, rmK)
		if len(rms) == 1 {
			allInstrs(f, func(in ssa.Instruction) {
				if ex, ok := in.(*ssa.Extract); ok && ex.Tuple == rms[0].Value() && ex.Index == 0 {
					msg = ex
				}
			})
		}
		// remain: starts at numBytes, afterwards only remain - d
		var rem *ssa.Phi
		allInstrs(f, func(in ssa.Instruction) {
			p, ok := in.(*ssa.Phi)
			if !ok || rem != nil {
				return
			}
			for _, e := range p.Edges {
				if isParamVar(c, peel(e), "numBytes") {
					rem = p
				}
			}
		})
		if msg == nil || rem == nil {
			r6.Fail(rddK+": message and remaining-bytes counter", f.Pos(), "the ReadMsg result or the counter initialised from numBytes was not identified", "")
		} else {
			// le: the value is at most len(msg) on every path (a credit never exceeds what was received)
			var le func(v ssa.Value, env map[*ssa.Parameter]ssa.Value, seen map[ssa.Value]bool, d int) bool
			le = func(v ssa.Value, env map[*ssa.Parameter]ssa.Value, seen map[ssa.Value]bool, d int) bool {
				v = peel(v)
				if d > 12 {
					return false
				}
				if seen[v] {
					return true
				}
				if k, isC := constInt(v); isC {
					return k <= 0
				}
				switch x := v.(type) {
				case *ssa.Parameter:
					if a, ok := env[x]; ok {
						return le(a, nil, seen, d+1)
					}
				case *ssa.Call:
					switch calleeKey(x) {
					case "builtin.len":
						return peel(x.Call.Args[0]) == msg || strip(x.Call.Args[0]) == msg
					case "builtin.max":
						for _, a := range x.Call.Args {
							if !le(a, env, seen, d+1) {
								return false
							}
						}
						return true
					case "builtin.min":
						for _, a := range x.Call.Args {
							if le(a, env, seen, d+1) {
								return true
							}
						}
						return false
					}
					h := x.Call.StaticCallee()
					if h != nil && h.Blocks != nil && h.Pkg != nil && h.Pkg.Pkg.Path() == Mod+an2 && len(h.Params) == len(x.Call.Args) {
						e2 := map[*ssa.Parameter]ssa.Value{}
						for i, p := range h.Params {
							e2[p] = x.Call.Args[i]
						}
						if env != nil {
							return false // one level of helpers
						}
						for _, ret := range returnsOf(h) {
							if len(ret.Results) != 1 || !le(ret.Results[0], e2, map[ssa.Value]bool{}, d+1) {
								return false
							}
						}
						return true
					}
				case *ssa.BinOp:
					if x.Op == token.SUB {
						k, isC := constInt(x.Y)
						return isC && k >= 0 && le(x.X, env, seen, d+1)
					}
					if x.Op == token.ADD {
						k, isC := constInt(x.Y)
						return isC && k <= 0 && le(x.X, env, seen, d+1)
					}
				case *ssa.Phi:
					seen[v] = true
					for _, e := range x.Edges {
						if !le(e, env, seen, d+1) {
							return false
						}
					}
					return true
				}
				return false
			}
			// every value remain takes after the start is remain - d with d <= len(msg)
			inChain := map[ssa.Value]bool{rem: true}
			nUpd := 0
			okChain := true
			var bad ssa.Value
			var walk func(v ssa.Value, d int)
			walk = func(v ssa.Value, d int) {
				v = peel(v)
				if inChain[v] || d > 8 {
					return
				}
				if isParamVar(c, v, "numBytes") {
					return
				}
				switch x := v.(type) {
				case *ssa.Phi:
					inChain[v] = true
					for _, e := range x.Edges {
						walk(e, d+1)
					}
					return
				case *ssa.BinOp:
					if x.Op == token.SUB && (inChain[peel(x.X)] || func() bool { walk(x.X, d+1); return inChain[peel(x.X)] }()) {
						inChain[v] = true
						nUpd++
						if !le(x.Y, nil, map[ssa.Value]bool{}, 0) {
							okChain, bad = false, x.Y
						}
						return
					}
				}
				okChain, bad = false, v
			}
			for _, e := range rem.Edges {
				walk(e, 0)
			}
			witness := ""
			if bad != nil {
				witness = describeVal(bad)
			}
			r6.Check(okChain && nUpd > 0, rddK+": remain only decreases by credits of at most len(msg)", rem.Pos(), nUpd+1, "", "a message is credited with more bytes than were received, so the dial happens before numBytes arrived", witness)
			isRem := func(v ssa.Value) bool { return peel(v) == ssa.Value(rem) }
			isZero := func(v ssa.Value) bool { k, ok := constInt(v); return ok && k == 0 }
			r6.guard(f, "return nil", successReturns(f), "remain <= 0", edgeExcl(isRem, isZero, ordGT), nil)
			// a message is credited only if it was read successfully
			var subs []ssa.Instruction
			for v := range inChain {
				if bo, ok := v.(*ssa.BinOp); ok {
					subs = append(subs, bo)
				}
			}
			sort.Slice(subs, func(i, j int) bool { return subs[i].Pos() < subs[j].Pos() })
			r6.guard(f, "credit", subs, "ReadMsg err==nil", edgeNil(isCallResult(1, rmK), true), nil)
		}
	}
}

// onlyFieldStores: v is a load of a local struct all of whose initialised
// fields are in names (e.g. AddrInfo{ID: p}).
func onlyFieldStores(v ssa.Value, names ...string) bool {
	u, ok := strip2(v).(*ssa.UnOp)
	if !ok || u.Op != token.MUL {
		return false
	}
	al, ok := u.X.(*ssa.Alloc)
	if !ok {
		return false
	}
	for _, r := range *al.Referrers() {
		fa, ok := r.(*ssa.FieldAddr)
		if !ok {
			continue
		}
		f, _ := fieldAddrOf(fa)
		okName := false
		for _, n := range names {
			if f != nil && f.Name() == n {
				okName = true
			}
		}
		if !okName {
			return false
		}
	}
	return true
}
