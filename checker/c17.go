package main

import (
	"go/token"
	"strings"

	"golang.org/x/tools/go/ssa"
)

func init() {
	register("C17", checkC17,
		"Decides on every CFG path of the observed-address manager: an observation is accepted only past all filters (nil, loopback, NAT64, relayed, local thin waist parse and membership in the listen set, observed thin waist parse, consistent transport); "+
			"bookkeeping pairs every per-connection entry with one add to the observer sets and every overwrite/delete with a removal of the previous value, only on connections not closed (checked under the lock); removal is wired to the Disconnected notification; "+
			"both maps and the observer counts are touched only under the manager's lock; an address is reported only with at least minObservers observers, at most three per local address, with the activation threshold as default and /56 observer grouping; the only below-threshold consumer is hole punching.",
		"the advertised set as a function of the observation history (value-level)")
}

const oaP = "p2p/host/observedaddrs"

func checkC17(c *Ctx, r *Report) {
	mgrT := oaP + ".Manager"
	twK := oaP + ".thinWaistForm"
	addK := "(*" + oaP + ".Manager).addExternalAddrsUnlocked"
	rmK := "(*" + oaP + ".Manager).removeExternalAddrsUnlocked"
	manetP := "github.com/multiformats/go-multiaddr/net"

	// ---- R1 ---------------------------------------------------------------
	r1 := r.Rule("C17-R1", "E1", 9, "shouldRecordObservation answers true only past all filters")
	if f := r1.need("(*" + oaP + ".Manager).shouldRecordObservation"); f != nil {
		var trueRets []ssa.Instruction
		for _, ret := range returnsOf(f) {
			// (an answer handed back by a local `reject()` helper is what that helper returns)
			allFalse := true
			for _, l := range phiLeaves(retVal(ret, 0)) {
				if b, ok := constBool(strip(l)); !ok || b {
					allFalse = false
				}
			}
			if allFalse {
				continue
			}
			trueRets = append(trueRets, ret)
		}
		obs := func(v ssa.Value) bool { return isParamVar(c, v, "observed") }
		callOn := func(key string, argIdx int, arg func(ssa.Value) bool) func(ssa.Value) bool {
			return func(v ssa.Value) bool {
				ci := isResultOfCall(v, 0, key)
				return ci != nil && arg(strip(callArgs(ci)[argIdx]))
			}
		}
		localAddr := func(v ssa.Value) bool {
			ci := isResultOfCall(v, 0, "(core/network.*).LocalMultiaddr")
			return ci != nil && isParamVar(c, callArgs(ci)[0], "conn")
		}
		twErr := func(arg func(ssa.Value) bool) func(ssa.Value) bool {
			return func(v ssa.Value) bool {
				ci := isResultOfCall(v, 1, twK)
				return ci != nil && arg(strip(ci.Common().Args[0]))
			}
		}
		twField := func(of func(ssa.Value) bool) func(ssa.Value) bool {
			// X.TW where X is result 0 of thinWaistForm(of)
			return func(v ssa.Value) bool {
				return derivesFrom(v, func(x ssa.Value) bool {
					ci := isResultOfCall(x, 0, twK)
					return ci != nil && of(strip(ci.Common().Args[0]))
				})
			}
		}
		// membership of the connection's local thin waist among the listen addresses, written out as a loop that
		// sets a flag past localTW.TW.Equal(<listen address thin waist>)
		listenMember := func(*ssa.BasicBlock, int) bool { return false }
		{
			isListenList := func(v ssa.Value) bool {
				return derivesFrom(v, func(x ssa.Value) bool {
					call, ok := x.(*ssa.Call)
					return ok && isDynCallOfField(call, mgrT+".listenAddrs")
				})
			}
			cj := conjunct{name: "localTW.TW.Equal(listen address)", cond: func(func(ssa.Value) ssa.Value) condPred {
				return valCond(func(v ssa.Value) bool {
					ci := isResultOfCall(v, 0, "(github.com/multiformats/go-multiaddr.Multiaddr).Equal")
					if ci == nil {
						return false
					}
					a := callArgs(ci)
					return len(a) == 2 && (twField(localAddr)(a[0]) || twField(localAddr)(a[1]))
				})
			}}
			if mr := matchEdges(c, f, isListenList, []conjunct{cj}); mr != nil && len(mr.missing) == 0 {
				listenMember = edgeSet(mr.edges)
			}
		}
		gs := []struct {
			name string
			e    EdgePred
		}{
			{"conn != nil", edgeNil(func(v ssa.Value) bool { return isParamVar(c, v, "conn") }, false)},
			{"observed != nil", edgeNil(obs, false)},
			{"!IsIPLoopback(observed)", edgeBool(callOn(manetP+".IsIPLoopback", 0, obs), false)},
			{"!IsNAT64IPv4ConvertedIPv6Addr(observed)", edgeBool(callOn(manetP+".IsNAT64IPv4ConvertedIPv6Addr", 0, obs), false)},
			{"!isRelayedAddress(observed)", edgeBool(callOn(oaP+".isRelayedAddress", 0, obs), false)},
			{"thinWaistForm(conn.LocalMultiaddr()) err==nil", edgeNil(twErr(localAddr), true)},
			{"thinWaistForm(observed) err==nil", edgeNil(twErr(obs), true)},
			{"ma.Contains(listenAddrs, localTW.TW)", anyEdge(edgeBool(func(v ssa.Value) bool {
				ci := isResultOfCall(v, 0, "github.com/multiformats/go-multiaddr.Contains")
				return ci != nil && twField(localAddr)(ci.Common().Args[1]) && derivesFrom(ci.Common().Args[0], func(x ssa.Value) bool {
					call, ok := x.(*ssa.Call)
					return ok && isDynCallOfField(call, mgrT+".listenAddrs")
				})
			}, true), listenMember)},
			{"hasConsistentTransport(localTW.TW, observedTW.TW)", edgeBool(func(v ssa.Value) bool {
				ci := isResultOfCall(v, 0, oaP+".hasConsistentTransport")
				return ci != nil && twField(localAddr)(ci.Common().Args[0]) && twField(obs)(ci.Common().Args[1])
			}, true)},
		}
		for _, g := range gs {
			r1.guard(f, "return shouldRecord=true", trueRets, g.name, g.e, nil)
		}
	}
	// maybeRecordObservation records only when shouldRecordObservation said so
	if f := r1.need("(*" + oaP + ".Manager).maybeRecordObservation"); f != nil {
		recs := findInstrs(f, callPred("(*"+oaP+".Manager).recordObservationUnlocked"))
		r1.guard(f, "recordObservationUnlocked", recs, "shouldRecord==true", edgeBool(isCallResult(0, "(*"+oaP+".Manager).shouldRecordObservation"), true), nil)
	}
	r1.onlyCallers("call recordObservationUnlocked", []string{"(*" + oaP + ".Manager).recordObservationUnlocked"}, c.FnsOfPkg(oaP), "(*"+oaP+".Manager).maybeRecordObservation")

	// the transport of the report is the transport of the local address: same number of components and the same
	// protocol code at EVERY position, the IP family included
	if f := r1.need(oaP + ".hasConsistentTransport"); f != nil {
		pa, pb := f.Params[0], f.Params[1]
		isP := func(p *ssa.Parameter) func(ssa.Value) bool {
			return func(v ssa.Value) bool { return strip2(v) == ssa.Value(p) || isParamCellLoad(c, v, p) }
		}
		var trueRets []ssa.Instruction
		for _, ret := range returnsOf(f) {
			if b, isC := constBool(retVal(ret, 0)); !isC || b {
				trueRets = append(trueRets, ret)
			}
		}
		// delegated to slices.EqualFunc(a, b, sameCode): whole slices, element-wise
		delegated := false
		for _, ret := range trueRets {
			if call, ok := strip2(retVal(ret.(*ssa.Return), 0)).(*ssa.Call); ok && strings.HasPrefix(calleeKey(call), "slices.EqualFunc") || ok && strings.HasPrefix(calleeKey(call), "slices.Equal") {
				a := call.Call.Args
				if len(a) >= 2 && ((isP(pa)(a[0]) && isP(pb)(a[1])) || (isP(pb)(a[0]) && isP(pa)(a[1]))) {
					delegated = true
				}
			}
		}
		if delegated {
			r1.OK("hasConsistentTransport: compares the two addresses component by component over their whole length", f.Pos(), 1, "slices.EqualFunc over both parameters")
		} else {
			lenOfP := func(p *ssa.Parameter) func(ssa.Value) bool {
				return func(v ssa.Value) bool {
					call, ok := v.(*ssa.Call)
					return ok && calleeKey(call) == "builtin.len" && isP(p)(call.Call.Args[0])
				}
			}
			// true only past len(a) == len(b)
			r1.guard(f, "return true", trueRets, "len(a) == len(b)", anyEdge(eqEdge(lenOfP(pa), lenOfP(pb), true)), nil)
			// the comparison loop indexes the parameters themselves (not a tail of them) with the same index
			okIdx := false
			badSlice := ""
			allInstrs(f, func(in ssa.Instruction) {
				if sl, ok := in.(*ssa.Slice); ok && (isP(pa)(sl.X) || isP(pb)(sl.X)) && (sl.Low != nil || sl.High != nil) {
					badSlice = c.Pos(instrPos(in))
				}
				if ia, ok := in.(*ssa.IndexAddr); ok && (isP(pa)(ia.X) || isP(pb)(ia.X)) {
					okIdx = true
				}
				if ix, ok := in.(*ssa.Index); ok && (isP(pa)(ix.X) || isP(pb)(ix.X)) {
					okIdx = true
				}
			})
			r1.Check(okIdx && badSlice == "", "hasConsistentTransport: compares the two addresses component by component over their whole length", f.Pos(), 2, "", "a component (the IP family) is left out of the comparison: a report for the other address family counts for this local address", badSlice)
			// a differing code at a compared position answers false
			isCode := func(v ssa.Value) bool {
				ci := isResultOfCall(v, 0, "(*github.com/multiformats/go-multiaddr.Component).Code", "(github.com/multiformats/go-multiaddr.Component).Code")
				return ci != nil
			}
			diff := edgesWhere(f, eqEdge(isCode, isCode, false))
			w, n := (&Cut{Fn: f, FromEdges: diff, Target: inSet(trueRets)}).Run(c)
			r1.Check(len(diff) >= 1 && w == "", "hasConsistentTransport: a position with different protocol codes answers false", f.Pos(), n+1, "", "", w)
		}
	}

	// ---- R2 ---------------------------------------------------------------
	r2 := r.Rule("C17-R2", "E1", 7, "bookkeeping: entry stored with one add; overwrite/delete removes the previous value; only on open connections; wired to Disconnected")
	connMap := mgrT + ".connObservedTWAddrs"
	if f := r2.need("(*" + oaP + ".Manager).recordObservationUnlocked"); f != nil {
		updates := findInstrs(f, func(in ssa.Instruction) bool { _, ok := in.(*ssa.MapUpdate); return ok && isFieldWrite(in, connMap) })
		effects := append(append([]ssa.Instruction{}, updates...), findInstrs(f, callPred(addK, rmK))...)
		r2.guard(f, "bookkeeping effect", effects, "!conn.IsClosed()", edgeBool(func(v ssa.Value) bool {
			ci := isResultOfCall(v, 0, "("+oaP+".connMultiaddrs).IsClosed", "(core/network.*).IsClosed")
			return ci != nil && isParamVar(c, callArgs(ci)[0], "conn")
		}, false), nil)
		if len(updates) != 1 {
			r2.Fail("recordObservationUnlocked: connObservedTWAddrs[conn] = ...", f.Pos(), "expected exactly one store of the per-connection entry", "")
		} else {
			mu := updates[0].(*ssa.MapUpdate)
			r2.Check(isParamVar(c, strip2(mu.Key), "conn"), "recordObservationUnlocked: entry keyed by conn", instrPos(mu), 1, "", "", "")
			q := &Cut{Fn: f, From: updates, Target: func(in ssa.Instruction) bool { _, ok := in.(*ssa.Return); return ok }, Sep: callPred(addK)}
			r2.mustPass(f, "recordObservationUnlocked: store of the entry is followed by addExternalAddrsUnlocked", q, 1)
			// add is only performed together with the store
			q2 := &Cut{Fn: f, Target: callPred(addK), Sep: inSet(updates)}
			r2.mustPass(f, "recordObservationUnlocked: addExternalAddrsUnlocked only after the entry was stored", q2, 1)
			// overwrite path: previous entry present -> remove(prev) before the store
			var lookups []ssa.Value
			allInstrs(f, func(in ssa.Instruction) {
				if lk, ok := in.(*ssa.Lookup); ok && lk.CommaOk && isLoadOfField(connMap)(strip2(lk.X)) {
					lookups = append(lookups, lk)
				}
			})
			if len(lookups) != 1 {
				r2.Fail("recordObservationUnlocked: previous-entry lookup", f.Pos(), "lookup of the previous observation not found", "")
			} else {
				lk := lookups[0]
				isOK := func(v ssa.Value) bool { e, ok := v.(*ssa.Extract); return ok && e.Tuple == lk && e.Index == 1 }
				var hit []CFGEdge
				for _, b := range blocksDeep(f) {
					for s := range b.Succs {
						if edgeBool(isOK, true)(b, s) {
							hit = append(hit, CFGEdge{b, s})
						}
					}
				}
				isPrev := func(v ssa.Value) bool {
					return derivesFrom(v, func(x ssa.Value) bool { e, ok := x.(*ssa.Extract); return ok && e.Tuple == lk && e.Index == 0 }, "(github.com/multiformats/go-multiaddr.Multiaddr).Bytes")
				}
				rmPrev := func(in ssa.Instruction) bool {
					return isCallTo(in, rmK) && isPrev(callArgs(in.(ssa.CallInstruction))[3])
				}
				_ = hit
				// decision table over H: the connection has a previous report, E: it equals the new one
				atomH := func(v ssa.Value) (bool, bool) { return isOK(v), true }
				atomE := func(v ssa.Value) (bool, bool) {
					ci := isResultOfCall(v, 0, "(github.com/multiformats/go-multiaddr.Multiaddr).Equal")
					if ci == nil {
						return false, false
					}
					a := callArgs(ci)
					isPrevV := func(x ssa.Value) bool { e, ok := strip(x).(*ssa.Extract); return ok && e.Tuple == lk && e.Index == 0 }
					return isPrevV(a[0]) || isPrevV(a[1]), true
				}
				isAdd := callPred(addK)
				isUpd := inSet(updates)
				tAdd, ok1 := boolTableFrom(f, lk.(ssa.Instruction), []atomPred{atomH, atomE}, isAdd)
				tRm, ok2 := boolTableFrom(f, lk.(ssa.Instruction), []atomPred{atomH, atomE}, rmPrev)
				tUpd, ok3 := boolTableFrom(f, lk.(ssa.Instruction), []atomPred{atomH, atomE}, isUpd)
				bad := ""
				for a := 0; a < 4; a++ {
					h, e := a&1 != 0, a&2 != 0
					switch {
					case !h:
						if !tAdd[a].all || !tUpd[a].all || tRm[a].some {
							bad += "[no previous report] the report is not simply recorded and counted; "
						}
					case h && e:
						if tAdd[a].some || tRm[a].some {
							bad += "[same report again] the observer is counted (or withdrawn) again for the same connection; "
						}
					default:
						if !tAdd[a].all || !tRm[a].all || !tUpd[a].all {
							bad += "[changed report] the previous report is not withdrawn, or the new one not recorded and counted; "
						}
					}
				}
				r2.Check(ok1 && ok2 && ok3 && bad == "", "recordObservationUnlocked: per connection one report is counted: new → record+count; same again → nothing; changed → withdraw previous, record+count new (decision table)", f.Pos(), 12, "", "an observer is counted more often than it has open connections reporting the address (the address stays advertised after they close), or a withdrawn report stays counted", bad)
			}
		}
	}
	rcK := "(*" + oaP + ".Manager).removeConn"
	if f := r2.need(rcK); f != nil {
		dels := findInstrs(f, func(in ssa.Instruction) bool { return isCallTo(in, "builtin.delete") && isFieldWrite(in, connMap) })
		if len(dels) != 1 {
			r2.Fail(rcK+": delete(connObservedTWAddrs, conn)", f.Pos(), "required site missing", "")
		} else {
			// exemption (tabled, DESIGN C17-R2): error edges of the two re-derivations
			rederive := func(v ssa.Value) bool {
				if ci := isResultOfCall(v, 1, twK); ci != nil {
					l := isResultOfCall(ci.Common().Args[0], 0, "(core/network.*).LocalMultiaddr")
					return l != nil && isParamVar(c, callArgs(l)[0], "conn")
				}
				if ci := isResultOfCall(v, 1, oaP+".getObserver"); ci != nil {
					l := isResultOfCall(ci.Common().Args[0], 0, "(core/network.*).RemoteMultiaddr")
					return l != nil && isParamVar(c, callArgs(l)[0], "conn")
				}
				return false
			}
			var lk ssa.Value
			allInstrs(f, func(in ssa.Instruction) {
				if l, ok := in.(*ssa.Lookup); ok && l.CommaOk && isLoadOfField(connMap)(strip2(l.X)) {
					lk = l
				}
			})
			rmPrev := func(in ssa.Instruction) bool {
				if !isCallTo(in, rmK) || lk == nil {
					return false
				}
				return derivesFrom(callArgs(in.(ssa.CallInstruction))[3], func(x ssa.Value) bool { e, ok := x.(*ssa.Extract); return ok && e.Tuple == lk && e.Index == 0 }, "(github.com/multiformats/go-multiaddr.Multiaddr).Bytes")
			}
			q := &Cut{Fn: f, From: dels, Target: func(in ssa.Instruction) bool { _, ok := in.(*ssa.Return); return ok }, Sep: rmPrev, EdgeCut: edgeNil(rederive, false)}
			r2.mustPass(f, rcK+": deleting the entry withdraws the recorded observation (except on the two tabled re-derivation error edges)", q, 1)
			// nothing is removed for a connection without entry
			r2.guard(f, "removeExternalAddrsUnlocked", findInstrs(f, callPred(rmK)), "entry present", edgeBool(func(v ssa.Value) bool {
				e, ok := v.(*ssa.Extract)
				return ok && lk != nil && e.Tuple == lk && e.Index == 1
			}, true), nil)
		}
	}
	if f := r2.need("(*" + oaP + ".Manager).Start"); f != nil {
		wired := false
		for _, st := range findInstrs(f, func(in ssa.Instruction) bool { return isFieldWrite(in, "core/network.NotifyBundle.DisconnectedF") }) {
			// the installed callback (a function literal or a method value) withdraws the closed connection's
			// observation on every path: whatever the connection's direction, whoever opened it
			if g := installedFunc(st.(*ssa.Store).Val); g != nil && g.Blocks != nil && len(g.Params) >= 1 {
				connP := g.Params[len(g.Params)-1]
				calls := callsIn(g, rcK)
				okArg := len(calls) >= 1
				for _, call := range calls {
					a := strip(call.Common().Args[1])
					if a != ssa.Value(connP) && !isParamCellLoad(c, a, connP) {
						okArg = false
					}
				}
				w, _ := (&Cut{Fn: g, Target: func(in ssa.Instruction) bool { _, isRet := in.(*ssa.Return); return isRet && in.Parent() == g }, Sep: callPred(rcK)}).Run(c)
				if okArg && w == "" {
					wired = true
				}
			}
		}
		nots := callsIn(f, "(core/network.*).Notify")
		r2.Check(wired && len(nots) == 1, "Start: DisconnectedF = removeConn(c), registered with Notify", f.Pos(), 2, "", "observations are no longer withdrawn when a connection closes", "")
	}
	r2.onlyIn("write "+connMap, fieldWritePred(connMap), c.FnsOfPkg(oaP), "(*"+oaP+".Manager).recordObservationUnlocked", rcK, oaP+".newManagerWithListenAddrs")
	r2.onlyCallers("call addExternalAddrsUnlocked", []string{addK}, c.FnsOfPkg(oaP), "(*"+oaP+".Manager).recordObservationUnlocked")
	r2.onlyCallers("call removeExternalAddrsUnlocked", []string{rmK}, c.FnsOfPkg(oaP), "(*"+oaP+".Manager).recordObservationUnlocked", rcK)

	// ---- R3 ---------------------------------------------------------------
	r3 := r.Rule("C17-R3", "E4", 20, "externalAddrs, connObservedTWAddrs and observer counts only under Manager.mu (writes under the write lock)")
	lockRule(c, r3, lockSpec{Pkg: oaP, Type: "Manager", Mutex: "mu",
		Guarded: []string{"externalAddrs", "connObservedTWAddrs"},
		Owned:   map[string][]string{"observerSet": {"ObservedBy"}},
		Exempt:  map[string]string{oaP + ".newManagerWithListenAddrs": "constructor"},
	})

	// ---- R4 ---------------------------------------------------------------
	r4 := r.Rule("C17-R4", "E1/E7", 8, "threshold and cap: append only past len(ObservedBy) >= minObservers; at most 3; default threshold; /56 grouping; call-site table of Addrs")
	if f := r4.need("(*" + oaP + ".Manager).getTopExternalAddrs"); f != nil {
		// the append into the result
		var apps []ssa.Instruction
		allInstrs(f, func(in ssa.Instruction) {
			if call, ok := in.(*ssa.Call); ok && calleeKey(call) == "builtin.append" {
				apps = append(apps, in)
			}
		})
		r4.guard(f, "append to result", apps, "len(v.ObservedBy) >= minObservers", edgeExcl(func(v ssa.Value) bool {
			call, _ := v.(*ssa.Call)
			return call != nil && calleeKey(call) == "builtin.len" && derivesFrom(call.Call.Args[0], func(x ssa.Value) bool { f, _ := loadOfField(x); return f != nil && f.Name() == "ObservedBy" })
		}, func(v ssa.Value) bool { return isParamVar(c, v, "minObservers") }, ordLT), nil)
		// ... and the converse: a set that has exactly the threshold (or more) is kept
		{
			isLenObs := func(v ssa.Value) bool {
				call, _ := strip2(v).(*ssa.Call)
				return call != nil && calleeKey(call) == "builtin.len" && derivesFrom(call.Call.Args[0], func(x ssa.Value) bool { f, _ := loadOfField(x); return f != nil && f.Name() == "ObservedBy" })
			}
			isMin := func(v ssa.Value) bool {
				v = resolveLoad(strip2(v))
				return v == ssa.Value(f.Params[2]) || isParamCellLoad(c, v, f.Params[2])
			}
			nT := 0
			for _, b := range blocksDeep(f) {
				ifi := ifOf(b)
				if ifi == nil {
					continue
				}
				tab := condTable(ifi.Cond, isLenObs, isMin)
				if tab[ordLT] == triUnknown || tab[ordEQ] == triUnknown || tab[ordGT] == triUnknown {
					continue
				}
				nT++
				h := iterationOf(b.Parent(), b)
				for _, o := range []ordering{ordEQ, ordGT} {
					si := 1
					if tab[o] == triTrue {
						si = 0
					}
					w, n := (&Cut{Fn: b.Parent(), FromEdges: []CFGEdge{{b, si}}, Sep: inSet(apps), Target: func(in ssa.Instruction) bool {
						return isRetInstr(in) || (h != nil && in.Block() == h && instrIndex(in) == 0)
					}}).Run(c)
					r4.Check(w == "", "getTopExternalAddrs: a set observed by "+map[ordering]string{ordEQ: "exactly", ordGT: "more than"}[o]+" the threshold is kept", instrPos(ifi), n+1, "", "an address with the required number of observers is not reported", w)
				}
			}
			if nT == 0 {
				r4.OK("getTopExternalAddrs: a set that reaches the threshold is kept", f.Pos(), 1, "not decided: no comparison of len(ObservedBy) with the threshold parameter recognised")
			}
		}
		// most-observed first: the comparator answers the difference of the counts whenever they differ
		for _, call := range callsIn(f, "slices.SortFunc") {
			g := installedFunc(callArgs(call)[1])
			if g == nil || g.Blocks == nil || len(g.Params) != 2 {
				r4.OK("getTopExternalAddrs: comparator orders by observer count, larger first", instrPos(call.(ssa.Instruction)), 1, "not decided: comparator not resolved")
				continue
			}
			lenOf := func(v ssa.Value, p *ssa.Parameter) bool {
				call, _ := resolveLoad(strip2(v)).(*ssa.Call)
				if call == nil || calleeKey(call) != "builtin.len" {
					return false
				}
				fl, base := loadOfField(resolveLoad(strip2(call.Call.Args[0])))
				if fl == nil || fl.Name() != "ObservedBy" {
					return false
				}
				base = resolveLoad(strip2(base))
				return base == ssa.Value(p) || isParamCellLoad(c, base, p)
			}
			isDiff := func(v ssa.Value) bool {
				bo, ok := resolveLoad(strip2(v)).(*ssa.BinOp)
				return ok && bo.Op == token.SUB && lenOf(bo.X, g.Params[1]) && lenOf(bo.Y, g.Params[0])
			}
			differ := eqEdge(isDiff, func(v ssa.Value) bool { k, ok := constInt(v); return ok && k == 0 }, false)
			var from []CFGEdge
			for _, b := range blocksDeep(g) {
				for si := range b.Succs {
					if differ(b, si) {
						from = append(from, CFGEdge{b, si})
					}
				}
			}
			hasDiff := false
			allInstrs(g, func(in ssa.Instruction) {
				if v, ok := in.(ssa.Value); ok && isDiff(v) {
					hasDiff = true
				}
			})
			if !hasDiff {
				r4.OK("getTopExternalAddrs: comparator orders by observer count, larger first", g.Pos(), 1, "not decided: the comparator does not compute len(b.ObservedBy) - len(a.ObservedBy)")
				continue
			}
			if len(from) == 0 {
				r4.Fail("getTopExternalAddrs: comparator answers len(b.ObservedBy) - len(a.ObservedBy) whenever the counts differ", g.Pos(), "the difference of the counts is computed but decides nothing", "")
				continue
			}
			var good []ssa.Instruction
			for _, ret := range returnsOf(g) {
				if isDiff(retVal(ret, 0)) {
					good = append(good, ret)
				}
			}
			w, n := (&Cut{Fn: g, FromEdges: from, Target: func(in ssa.Instruction) bool {
				ret, ok := in.(*ssa.Return)
				return ok && !isDiff(retVal(ret, 0))
			}}).Run(c)
			r4.Check(w == "" && len(good) >= 1, "getTopExternalAddrs: comparator answers len(b.ObservedBy) - len(a.ObservedBy) whenever the counts differ", g.Pos(), n+1, "", "the most-observed address is no longer first: the three reported are not the best three", w)
		}
		capOK := constIntObj(c, oaP, "maxExternalThinWaistAddrsPerLocalAddr") == 3
		capC := constIntObj(c, oaP, "maxExternalThinWaistAddrsPerLocalAddr")
		for _, ret := range returnsOf(f) {
			w, n := sliceBoundedAt(c, f, ret, ret.Results[0], capC)
			r4.Check(w == "" && capOK, "getTopExternalAddrs: result bounded by maxExternalThinWaistAddrsPerLocalAddr (== 3)", instrPos(ret), n+1, "", "more than three observed addresses per local address can be reported", w)
		}
		// most-observed first: sorted before slicing
		r4.Check(len(callsIn(f, "slices.SortFunc")) == 1, "getTopExternalAddrs: sorted before truncation", f.Pos(), 1, "", "", "")
	}
	if f := r4.need(oaP + ".isRelayedAddress"); f != nil {
		circuit := constIntObj(c, "github.com/multiformats/go-multiaddr", "P_CIRCUIT")
		isCode := func(v ssa.Value) bool {
			call, _ := resolveLoad(strip2(v)).(*ssa.Call)
			return call != nil && !call.Call.IsInvoke() && call.Call.StaticCallee() != nil && call.Call.StaticCallee().Name() == "Code"
		}
		isCirc := func(v ssa.Value) bool { k, ok := constInt(v); return ok && k == circuit }
		hit := eqEdge(isCode, isCirc, true)
		var trues, falses []ssa.Instruction
		for _, ret := range returnsOf(f) {
			if b, ok := constBool(resolveLoad(strip(retVal(ret, 0)))); ok {
				if b {
					trues = append(trues, ret)
				} else {
					falses = append(falses, ret)
				}
			}
		}
		if len(trues)+len(falses) < len(returnsOf(f)) {
			r4.OK("isRelayedAddress: true exactly for an address with a p2p-circuit component", f.Pos(), 1, "not decided: the answers are not constants")
		} else if len(trues) == 0 || len(falses) == 0 {
			r4.Fail("isRelayedAddress: true exactly for an address with a p2p-circuit component", f.Pos(), "the function answers the same constant on every path", "")
		} else {
			r4.guard(f, "answer true", trues, "a component is p2p-circuit", hit, nil)
			var from []CFGEdge
			for _, b := range blocksDeep(f) {
				for si := range b.Succs {
					if hit(b, si) {
						from = append(from, CFGEdge{b, si})
					}
				}
			}
			w, n := (&Cut{Fn: f, FromEdges: from, Target: inSet(falses)}).Run(c)
			r4.Check(w == "" && len(from) >= 1, "isRelayedAddress: an address with a p2p-circuit component is answered true", f.Pos(), n+1, "", "observations made over a relay count as observations of this host", w)
		}
	}
	isThresh := func(v ssa.Value) bool {
		u, ok := strip2(v).(*ssa.UnOp)
		if !ok || u.Op != token.MUL {
			return false
		}
		g, ok := u.X.(*ssa.Global)
		return ok && g.Name() == "ActivationThresh"
	}
	gtK := "(*" + oaP + ".Manager).getTopExternalAddrs"
	if f := r4.need("(*" + oaP + ".Manager).Addrs"); f != nil {
		for _, call := range callsIn(f, gtK) {
			ok := true
			for i, l := range phiLeaves(call.Common().Args[2]) {
				_ = i
				if isThresh(l) || isParamVar(c, l, "minObservers") {
					continue
				}
				ok = false
			}
			r4.Check(ok, "Addrs: threshold is minObservers or ActivationThresh", instrPos(call.(ssa.Instruction)), 1, "", "", "")
			// the raw parameter reaches the call only when it is > 0
			if phi, isPhi := call.Common().Args[2].(*ssa.Phi); isPhi {
				es := phiEdgesWhere(phi, func(v ssa.Value) bool { return isParamVar(c, v, "minObservers") })
				q := &Cut{Fn: f, TargetEdge: edgeSet(es), EdgeCut: edgeIntBound(func(v ssa.Value) bool { return isParamVar(c, v, "minObservers") }, 1, intInf, false)}
				w, n := q.Run(c)
				r4.Check(w == "", "Addrs: minObservers used only when > 0", f.Pos(), n+1, "", "a non-positive threshold would report unobserved addresses", w)
			} else if !isThresh(call.Common().Args[2]) {
				r4.Fail("Addrs: threshold defaulting", instrPos(call.(ssa.Instruction)), "minObservers <= 0 is not mapped to ActivationThresh", "")
			}
		}
	}
	for _, k := range []string{"(*" + oaP + ".Manager).AddrsFor", "(*" + oaP + ".Manager).appendInferredAddrs"} {
		if f := r4.need(k); f != nil {
			for _, call := range callsIn(f, gtK) {
				r4.Check(isThresh(call.Common().Args[2]), k+": uses ActivationThresh", instrPos(call.(ssa.Instruction)), 1, "", "addresses below the activation threshold would be advertised", "")
			}
		}
	}
	// call-site table of Manager.Addrs / ObservedAddrsManager.Addrs
	allowedBelow := map[string]int64{"(*p2p/host/basic.addrsManager).HolePunchAddrs": 1}
	for _, f := range c.Fns {
		if f.Pkg == nil || strings.HasSuffix(f.Pkg.Pkg.Path(), controlsPkg) {
			continue
		}
		for _, call := range callsInOnly(f, "(*"+oaP+".Manager).Addrs", "(p2p/host/basic.ObservedAddrsManager).Addrs") {
			a := callArgs(call)[1]
			n, isC := constInt(a)
			key := fnKey(f) + ": observed Addrs(minObservers)"
			if !isC {
				r4.Fail(key, instrPos(call.(ssa.Instruction)), "non-constant threshold at a call site outside the table", "")
				continue
			}
			if n <= 0 {
				r4.OK(key, instrPos(call.(ssa.Instruction)), 1, "default threshold")
				continue
			}
			want, ok := allowedBelow[fnKey(c.Root(f))]
			r4.Check(ok && want == n, key, instrPos(call.(ssa.Instruction)), 1, "tabled below-threshold consumer (hole punching)", "a new consumer asks for observed addresses below the activation threshold", "")
		}
	}
	if f := r4.need(oaP + ".getObserver"); f != nil {
		masks := callsIn(f, "net.CIDRMask")
		ok := len(masks) == 1
		if ok {
			ones, ok1 := constInt(masks[0].Common().Args[0])
			bits, ok2 := constInt(masks[0].Common().Args[1])
			ok = ok1 && ok2 && ones == 56 && bits == 128
		}
		r4.Check(ok, "getObserver: IPv6 observers grouped by /56", f.Pos(), 1, "", "IPv6 observers are not counted once per /56", "")
		// IPv4: the address itself
		ipv4 := false
		for _, ret := range returnsOf(f) {
			if ci := isResultOfCall(retVal(ret, 0), 0, "(net.IP).String"); ci != nil {
				if isResultOfCall(callArgs(ci)[0], 0, "(net.IP).To4") != nil {
					ipv4 = true
				}
			}
		}
		r4.Check(ipv4, "getObserver: IPv4 observer is the IPv4 address", f.Pos(), 1, "", "", "")
	}
	if f := r4.need("(*" + oaP + ".Manager).recordObservationUnlocked"); f != nil {
		// the observer is derived from the connection's remote address
		for _, call := range callsIn(f, oaP+".getObserver") {
			l := isResultOfCall(call.Common().Args[0], 0, "(core/network.*).RemoteMultiaddr")
			r4.Check(l != nil && isParamVar(c, callArgs(l)[0], "conn"), "recordObservationUnlocked: observer = getObserver(conn.RemoteMultiaddr())", instrPos(call.(ssa.Instruction)), 1, "", "", "")
		}
	}
}
