package main

import (
	"fmt"
	"go/constant"
	"go/token"
	"go/types"
	"sort"
	"strings"

	"golang.org/x/tools/go/ssa"
)

func init() {
	register("C18", checkC18,
		"Decides structurally: validity constants (14 days, 1 h skew) agree between generator and verifier; the three certificate configs are written only by init/rollConfig, rotate as last<-current<-next<-new, and every successful roll refreshes both the advertised hashes (last, current, next) and the address component (current, next) under the manager's lock; the roll timer derives from the current certificate's end minus the skew; "+
			"certificate generation is free of ambient randomness/clock in its whole module call closure and signs with the deterministic reader; the dialer's verifier accepts only past hash match (SHA-256 code and digest), parse, an RSA rejection whose case list covers every RSA signature algorithm of crypto/x509, lifetime <= 14 days and NotBefore<=now<=NotAfter; "+
			"verification is skipped only together with the pinning callback; dialling with zero hashes fails before any connection; the connection completes only if every dialled hash was confirmed inside the handshake.",
		"validity 'at every instant' over keys, start instants and roll-overs (time arithmetic), restart behaviour")
}

const wtPkg = "p2p/transport/webtransport"

func durConst(c *Ctx, pkg, name string) int64 { return constIntObj(c, pkg, name) }

// staticClosure: functions of the module reachable from fn through static calls and closures.
func staticClosure(c *Ctx, fn *ssa.Function) []*ssa.Function {
	seen := map[*ssa.Function]bool{}
	var out []*ssa.Function
	var walk func(f *ssa.Function)
	walk = func(f *ssa.Function) {
		if f == nil || seen[f] || f.Blocks == nil {
			return
		}
		if f.Pkg == nil || !strings.HasPrefix(f.Pkg.Pkg.Path()+"/", Mod) {
			return
		}
		seen[f] = true
		out = append(out, f)
		allInstrs(f, func(in ssa.Instruction) {
			if ci, ok := in.(ssa.CallInstruction); ok {
				walk(ci.Common().StaticCallee())
			}
			if mc, ok := in.(*ssa.MakeClosure); ok {
				walk(mc.Fn.(*ssa.Function))
			}
			for _, op := range in.Operands(nil) {
				if op != nil && *op != nil {
					if g, ok := (*op).(*ssa.Function); ok {
						walk(g)
					}
				}
			}
		})
	}
	walk(fn)
	return out
}

func checkC18(c *Ctx, r *Report) {
	cmT := wtPkg + ".certManager"
	const hour = int64(3600e9)

	// ---- R1 ---------------------------------------------------------------
	r1 := r.Rule("C18-R1", "E7", 3, "certValidity == 14 days == verifier's bound; clockSkewAllowance == 1 h; validityMinusTwoSkew == certValidity - 2*skew")
	cv, skew, vm := durConst(c, wtPkg, "certValidity"), durConst(c, wtPkg, "clockSkewAllowance"), durConst(c, wtPkg, "validityMinusTwoSkew")
	r1.Check(cv == 14*24*hour, wtPkg+".certValidity == 14*24h", objPos(c, wtPkg, "certValidity"), 1, "", "certificate validity is not 14 days", fmt.Sprint(cv))
	r1.Check(skew == hour, wtPkg+".clockSkewAllowance == 1h", objPos(c, wtPkg, "clockSkewAllowance"), 1, "", "", fmt.Sprint(skew))
	r1.Check(vm == cv-2*skew, wtPkg+".validityMinusTwoSkew == certValidity - 2*clockSkewAllowance", objPos(c, wtPkg, "validityMinusTwoSkew"), 1, "", "", fmt.Sprint(vm))

	// ---- R4 (verifier; also supplies the literal for R1) --------------------
	r4 := r.Rule("C18-R4", "E1/E5", 10, "verifyRawCerts returns nil only past: >=1 cert, SHA-256 hash match, parse, exhaustive RSA rejection, lifetime <= 14 days, currently valid")
	vrK := wtPkg + ".verifyRawCerts"
	if f := r4.need(vrK); f != nil {
		rets := successReturns(f)
		isLen := func(v ssa.Value, param string) bool {
			call, ok := v.(*ssa.Call)
			return ok && calleeKey(call) == "builtin.len" && isParamVar(c, call.Call.Args[0], param)
		}
		r4.guard(f, "return nil", rets, "len(rawCerts) >= 1", edgeIntBound(func(v ssa.Value) bool { return isLen(v, "rawCerts") }, 1, intInf, true), nil)
		// verified flag: phi (or cell) true only past Code==SHA2_256 && bytes.Equal(h.Digest, sha256(leaf))
		sha2 := constIntObj(c, "github.com/multiformats/go-multihash", "SHA2_256")
		isFieldNamed := func(name string) func(ssa.Value) bool {
			return func(v ssa.Value) bool { fl, _ := loadOfField(strip2(v)); return fl != nil && fl.Name() == name }
		}
		isHash := func(x ssa.Value) bool {
			return derivesFrom(x, func(y ssa.Value) bool { return isResultOfCall(y, 0, "crypto/sha256.Sum256") != nil })
		}
		conj := []conjunct{
			{"h.Code == SHA2_256", func(th func(ssa.Value) ssa.Value) condPred {
				isSha := func(v ssa.Value) bool { k, ok := constInt(th(v)); return ok && k == sha2 }
				return eqCond(isFieldNamed("Code"), isSha)
			}},
			{"bytes.Equal(h.Digest, sha256(leaf))", func(th func(ssa.Value) ssa.Value) condPred {
				return valCond(func(v ssa.Value) bool {
					ci := isResultOfCall(v, 0, "bytes.Equal")
					if ci == nil {
						return false
					}
					a0, a1 := ci.Common().Args[0], ci.Common().Args[1]
					isH := func(x ssa.Value) bool {
						return derivesFrom(x, func(y ssa.Value) bool { return isHash(y) || (th(y) != y && isHash(th(y))) })
					}
					return (isFieldNamed("Digest")(a0) && isH(a1)) || (isFieldNamed("Digest")(a1) && isH(a0))
				})
			}},
		}
		isCertHashes := func(v ssa.Value) bool { return isParamVar(c, v, "certHashes") }
		mr := matchEdges(c, f, isCertHashes, conj)
		if mr == nil {
			r4.Fail(vrK+": hash match", f.Pos(), "no test that the certificate's SHA-256 is among the pinned hashes was found (loop with flag, helper, or slices.ContainsFunc over certHashes)", "")
		} else {
			r4.guard(f, "return nil", rets, "certificate hash is among the pinned hashes ["+mr.form+"]", edgeSet(mr.edges), nil)
			for _, cj := range conj {
				missing := false
				for _, m := range mr.missing {
					if m == cj.name {
						missing = true
					}
				}
				r4.Check(!missing, vrK+": verified=true only past "+cj.name, f.Pos(), 1, mr.form, "a certificate is accepted without its SHA-256 being one of the pinned hashes", mr.form)
			}
			// the hash is over the leaf that is then parsed
			sums := callsIn(f, "crypto/sha256.Sum256")
			parses := callsIn(f, "crypto/x509.ParseCertificate")
			r4.Check(len(sums) == 1 && len(parses) == 1 && strip(sums[0].Common().Args[0]) == strip(parses[0].Common().Args[0]), vrK+": the certificate hashed is the certificate validated", f.Pos(), 2, "", "", "")
			// ... and it is the first of the chain: the one whose private key the TLS handshake proved the server
			// holds (CertificateVerify is checked against certificate 0); any later element is just bytes the server
			// chose to send along, e.g. somebody else's pinned certificate
			if len(sums) == 1 && len(f.Params) > 0 {
				okFirst := false
				if ld, ok := resolveLoad(strip(sums[0].Common().Args[0])).(*ssa.UnOp); ok && ld.Op == token.MUL {
					if ia, ok := ld.X.(*ssa.IndexAddr); ok {
						k, isC := constInt(ia.Index)
						base := strip2(ia.X)
						okFirst = isC && k == 0 && (base == ssa.Value(f.Params[0]) || isParamCellLoad(c, base, f.Params[0]))
					}
				}
				r4.Check(okFirst, vrK+": the certificate pinned and validated is element 0 of the chain presented", instrPos(sums[0].(ssa.Instruction)), 1, "", "the TLS handshake authenticates the key of the first certificate; pinning another element lets a server without the pinned key present any certificate of its own (RSA, long-lived, unpinned) and append the pinned one", "")
			}
		}
		r4.guard(f, "return nil", rets, "ParseCertificate err==nil", edgeNil(isCallResult(1, "crypto/x509.ParseCertificate"), true), nil)
		// RSA rejection: constants compared with cert.SignatureAlgorithm whose equal edge cannot reach success
		rejected := map[int64]bool{}
		for _, b := range blocksDeep(f) {
			i := ifOf(b)
			if i == nil {
				continue
			}
			bo, ok := i.Cond.(*ssa.BinOp)
			if !ok || bo.Op != token.EQL {
				continue
			}
			k, isC := constInt(bo.Y)
			fl, _ := loadOfField(strip2(bo.X))
			if !isC || fl == nil || fl.Name() != "SignatureAlgorithm" {
				continue
			}
			w, _ := (&Cut{Fn: f, FromEdges: []CFGEdge{{b, 0}}, Target: inSet(rets)}).Run(c)
			if w == "" {
				rejected[k] = true
			}
		}
		var missing []string
		nRSA := 0
		if xp := c.allPkgs["crypto/x509"]; xp != nil {
			sc := xp.Types.Scope()
			names := sc.Names()
			sort.Strings(names)
			for _, n := range names {
				k, ok := sc.Lookup(n).(*types.Const)
				if !ok || !strings.HasSuffix(types.TypeString(k.Type(), nil), "x509.SignatureAlgorithm") || !strings.Contains(n, "RSA") {
					continue
				}
				nRSA++
				v, _ := constant.Int64Val(constant.ToInt(k.Val()))
				if !rejected[v] {
					missing = append(missing, n)
				}
			}
		}
		r4.Check(len(missing) == 0 && nRSA >= 9, vrK+": RSA rejection covers every x509.SignatureAlgorithm naming RSA", f.Pos(), nRSA, fmt.Sprintf("%d RSA algorithms rejected", nRSA),
			"an RSA-signed certificate passes the not-RSA check", strings.Join(missing, ","))
		// lifetime
		isLifetime := func(v ssa.Value) bool {
			sub := isResultOfCall(v, 0, "(time.Time).Sub")
			if sub == nil {
				return false
			}
			f0, _ := loadOfField(strip2(callArgs(sub)[0]))
			f1, _ := loadOfField(strip2(callArgs(sub)[1]))
			return f0 != nil && f1 != nil && f0.Name() == "NotAfter" && f1.Name() == "NotBefore"
		}
		r4.Check(cv == 14*24*hour, vrK+": the validity bound is 14 days", f.Pos(), 1, "", "", fmt.Sprint(cv))
		r4.guard(f, "return nil", rets, "NotAfter-NotBefore <= 14 days", edgeIntBound(isLifetime, -intInf, cv, false), nil)
		// now within [NotBefore, NotAfter]: order-abstract on (time.Now(), field)
		nowOK := func(field string, excl ordering) EdgePred {
			return edgeExcl(func(v ssa.Value) bool { return isResultOfCall(v, 0, "time.Now") != nil },
				func(v ssa.Value) bool { fl, _ := loadOfField(strip2(v)); return fl != nil && fl.Name() == field }, excl)
		}
		r4.guard(f, "return nil", rets, "!now.Before(NotBefore)", nowOK("NotBefore", ordLT), nil)
		r4.guard(f, "return nil", rets, "!now.After(NotAfter)", nowOK("NotAfter", ordGT), nil)
	}

	// ---- R2 ---------------------------------------------------------------
	r2 := r.Rule("C18-R2", "E3/E1/E4", 20, "configs written only by init/rollConfig; rotation shape; both caches refreshed on success; lock; timer")
	initK, rollK := "(*"+cmT+").init", "(*"+cmT+").rollConfig"
	for _, fld := range []string{"lastConfig", "currentConfig", "nextConfig"} {
		r2.onlyIn("write "+cmT+"."+fld, fieldWritePred(cmT+"."+fld), c.FnsOfPkg(wtPkg), initK, rollK)
	}
	r2.onlyIn("write "+cmT+".serializedCertHashes", fieldWritePred(cmT+".serializedCertHashes"), c.FnsOfPkg(wtPkg), "(*"+cmT+").cacheSerializedCertHashes")
	r2.onlyIn("write "+cmT+".addrComp", fieldWritePred(cmT+".addrComp"), c.FnsOfPkg(wtPkg), "(*"+cmT+").cacheAddrComponent")
	if f := r2.need(rollK); f != nil {
		st := func(fld string) []ssa.Instruction { return findInstrs(f, fieldWritePred(cmT+"."+fld)) }
		sl, sc, sn := st("lastConfig"), st("currentConfig"), st("nextConfig")
		if len(sl) != 1 || len(sc) != 1 || len(sn) != 1 {
			r2.Fail(rollK+": one store per config", f.Pos(), "expected exactly one assignment of each of last/current/next", "")
		} else {
			// last <- old current ; current <- old next ; next <- new cert
			chk := func(store ssa.Instruction, fromField string, name string) {
				val := strip2(store.(*ssa.Store).Val)
				okLoad := isLoadOfField(cmT + "." + fromField)(val)
				okOld := false
				if okLoad {
					ld := val.(ssa.Instruction)
					// the load must not be reachable from the store that overwrites its source
					var src []ssa.Instruction
					src = st(fromField)
					w, _ := (&Cut{Fn: f, From: src, Target: isInstr(ld)}).Run(c)
					okOld = w == ""
				}
				r2.Check(okLoad && okOld, rollK+": "+name, instrPos(store), 2, "", "the rotation does not keep the previous certificate: the value stored is read after its source was already overwritten", "")
			}
			chk(sl[0], "currentConfig", "lastConfig = previous currentConfig")
			chk(sc[0], "nextConfig", "currentConfig = previous nextConfig")
			nv := isResultOfCall(sn[0].(*ssa.Store).Val, 0, wtPkg+".newCertConfig")
			r2.Check(nv != nil, rollK+": nextConfig = newCertConfig(...)", instrPos(sn[0]), 1, "", "", "")
			if nv != nil {
				// new cert starts at next.End() - 2*skew and lasts certValidity
				a := nv.Common().Args
				startOK := derivesFrom(a[1], func(v ssa.Value) bool {
					e := isResultOfCall(v, 0, "(*"+wtPkg+".certConfig).End")
					return e != nil && isLoadOfField(cmT+".nextConfig")(strip2(callArgs(e)[0]))
				}, "(time.Time).Add")
				add := isResultOfCall(a[1], 0, "(time.Time).Add")
				if add != nil {
					n, ok := constInt(callArgs(add)[1])
					startOK = startOK && ok && n == -2*skew
				} else {
					startOK = false
				}
				endAdd := isResultOfCall(a[2], 0, "(time.Time).Add")
				endOK := false
				if endAdd != nil {
					n, ok := constInt(callArgs(endAdd)[1])
					endOK = ok && n == cv && strip(callArgs(endAdd)[0]) == strip(a[1])
				}
				r2.Check(startOK && endOK, rollK+": new certificate = [next.End()-2*skew, +certValidity]", instrPos(nv.(ssa.Instruction)), 2, "", "the following certificate would not overlap the current one by the clock-skew allowance, or its lifetime is not certValidity", "")
			}
		}
		rets := successReturns(f)
		for _, k := range []string{"(*" + cmT + ").cacheSerializedCertHashes", "(*" + cmT + ").cacheAddrComponent"} {
			calls := findInstrs(f, callPred(k))
			for _, ret := range rets {
				w, n := (&Cut{Fn: f, Target: isInstr(ret), EdgeCut: failCut(ret), Sep: inSet(calls)}).Run(c)
				r2.Check(w == "" && len(calls) > 0, rollK+": success passes "+k[strings.LastIndex(k, ".")+1:], instrPos(ret), n+1, "", "a roll-over can succeed without refreshing what is advertised", w)
			}
			// caches are refreshed after the rotation
			for _, call := range calls {
				w, _ := (&Cut{Fn: f, Target: isInstr(call), Sep: inSet(sn)}).Run(c)
				r2.Check(w == "", rollK+": "+k[strings.LastIndex(k, ".")+1:]+" runs after the rotation", instrPos(call), 1, "", "", w)
			}
		}
		// success returns come only from the tail (cacheAddrComponent's result) or nil after both
		for _, ret := range returnsOf(f) {
			v := retVal(ret, 0)
			if isResultOfCall(v, 0, "(*"+cmT+").cacheAddrComponent") != nil {
				w, n := (&Cut{Fn: f, Target: isInstr(ret), EdgeCut: failCut(ret), Sep: callPred("(*" + cmT + ").cacheSerializedCertHashes")}).Run(c)
				r2.Check(w == "", rollK+": tail return passes cacheSerializedCertHashes", instrPos(ret), n+1, "", "", w)
			}
		}
	}
	readsFields := func(fnK string, fields ...string) {
		f := r2.need(fnK)
		if f == nil {
			return
		}
		for _, fld := range fields {
			n := 0
			allInstrs(f, func(in ssa.Instruction) {
				if v, ok := in.(ssa.Value); ok && isLoadOfField(cmT+"."+fld)(v) {
					// the loaded config's sha256 is used
					n++
				}
			})
			r2.Check(n > 0, fnK+": reads "+fld, f.Pos(), n, "", "the advertised data no longer covers the "+fld+" certificate", "")
		}
	}
	readsFields("(*"+cmT+").cacheSerializedCertHashes", "lastConfig", "currentConfig", "nextConfig")
	readsFields("(*"+cmT+").cacheAddrComponent", "currentConfig", "nextConfig")
	// ... and each certificate's hash really goes into what is advertised: from the point where the config is known
	// to exist (function entry for the current one, the `!= nil` edge for the others) every path to a success return
	// passes a use of that config's sha256 as an argument of append / AppendComponent / addrComponentForCert
	usesHash := func(fnK string, fields ...string) {
		f := c.Fn(fnK)
		if f == nil {
			return
		}
		okRet := func(in ssa.Instruction) bool {
			ret, ok := in.(*ssa.Return)
			return ok && isNilConst(retVal(ret, 0))
		}
		for _, fld := range fields {
			// the value IS that config's sha256 (a load, a slice of it, its address), or the config itself handed to a
			// local function: no merging with other values on the way
			isShaOf := func(v ssa.Value) bool {
				for d := 0; d < 6 && v != nil; d++ {
					v = resolveLoad(strip2(v))
					switch x := v.(type) {
					case *ssa.Slice:
						v = x.X
					case *ssa.UnOp:
						if x.Op != token.MUL {
							return false
						}
						if isLoadOfField(cmT + "." + fld)(x) {
							return true // the config itself
						}
						v = x.X
					case *ssa.FieldAddr:
						if fieldOfFA(x).Name() == "sha256" {
							return isLoadOfField(cmT + "." + fld)(resolveLoad(strip2(x.X)))
						}
						return false
					default:
						return false
					}
				}
				return false
			}
			uses := findInstrs(f, func(in ssa.Instruction) bool {
				call, ok := in.(*ssa.Call)
				if !ok {
					return false
				}
				for _, a := range call.Call.Args {
					if isShaOf(a) {
						return true
					}
					if sl, isSl := a.(*ssa.Slice); isSl { // variadic append(hashes, x)
						if al, isAl := sl.X.(*ssa.Alloc); isAl {
							for _, ref := range *al.Referrers() {
								if ia, isIA := ref.(*ssa.IndexAddr); isIA {
									for _, r2 := range *ia.Referrers() {
										if st, isSt := r2.(*ssa.Store); isSt && isShaOf(st.Val) {
											return true
										}
									}
								}
							}
						}
					}
				}
				return false
			})
			q := &Cut{Fn: f, Target: okRet, Sep: inSet(uses)}
			if fld != "currentConfig" {
				present := edgeNil(func(v ssa.Value) bool { return isLoadOfField(cmT + "." + fld)(strip2(v)) }, false)
				for _, b := range blocksDeep(f) {
					for si := range b.Succs {
						if present(b, si) {
							q.FromEdges = append(q.FromEdges, CFGEdge{b, si})
						}
					}
				}
				if len(q.FromEdges) == 0 {
					r2.Fail(fnK+": "+fld+" hash advertised when there is such a certificate", f.Pos(), "no `"+fld+" != nil` test found", "")
					continue
				}
			}
			w, n := q.Run(c)
			r2.Check(w == "" && len(uses) >= 1, fnK+": the hash of "+fld+" goes into what is advertised", f.Pos(), n+1, "", "an address learned now stops verifying when the certificate rolls over (or the served certificate is not among the advertised hashes)", w)
		}
	}
	usesHash("(*"+cmT+").cacheSerializedCertHashes", "lastConfig", "currentConfig", "nextConfig")
	usesHash("(*"+cmT+").cacheAddrComponent", "currentConfig", "nextConfig")
	if f := c.Fn("(*" + cmT + ").cacheAddrComponent"); f != nil {
		sts := findInstrs(f, fieldWritePred(cmT+".addrComp"))
		w, n := (&Cut{Fn: f, Sep: inSet(sts), Target: func(in ssa.Instruction) bool {
			ret, ok := in.(*ssa.Return)
			return ok && isNilConst(retVal(ret, 0))
		}}).Run(c)
		r2.Check(w == "" && len(sts) >= 1, "cacheAddrComponent: success stores the new component", f.Pos(), n+1, "", "the advertised certhashes stay those of an earlier period", w)
	}
	if f := c.Fn("(*" + cmT + ").cacheSerializedCertHashes"); f != nil {
		apps := findInstrs(f, func(in ssa.Instruction) bool {
			st, ok := in.(*ssa.Store)
			return ok && isFieldWrite(in, cmT+".serializedCertHashes") && derivesFrom(st.Val, func(v ssa.Value) bool {
				return isResultOfCall(v, 0, "github.com/multiformats/go-multihash.Encode") != nil
			})
		})
		r2.Check(len(apps) >= 1, "cacheSerializedCertHashes: the encoded hashes are appended to the advertised list", f.Pos(), len(apps), "", "nothing is advertised", "")
	}
	if f := c.Fn("(*" + cmT + ").cacheSerializedCertHashes"); f != nil {
		// each hash goes through multihash.Encode(.., SHA2_256) and is appended
		sha2 := constIntObj(c, "github.com/multiformats/go-multihash", "SHA2_256")
		ok := false
		for _, call := range callsIn(f, "github.com/multiformats/go-multihash.Encode") {
			n, isC := constInt(call.Common().Args[1])
			ok = isC && n == sha2
		}
		r2.Check(ok, "cacheSerializedCertHashes: hashes encoded as SHA2_256 multihashes", f.Pos(), 1, "", "", "")
	}
	if f := r2.need("(*" + cmT + ").GetConfig"); f != nil {
		for _, ret := range returnsOf(f) {
			fl, base := loadOfField(retVal(ret, 0))
			r2.Check(fl != nil && fl.Name() == "tlsConf" && isLoadOfField(cmT+".currentConfig")(strip2(base)), "GetConfig: serves currentConfig", instrPos(ret), 1, "", "the listener serves a certificate other than the current one", "")
		}
	}
	// the listener asks the manager on every handshake: whatever writes tls.Config.GetConfigForClient in the
	// package installs a function whose answer is the result of a GetConfig call made inside that function
	{
		n := 0
		for _, f := range c.FnsOfPkg(wtPkg) {
			allInstrsIn(f, func(in ssa.Instruction) {
				st, ok := in.(*ssa.Store)
				if !ok {
					return
				}
				fl, _ := fieldAddrOf(st.Addr)
				if fl == nil || fl.Name() != "GetConfigForClient" || fl.Pkg() == nil || fl.Pkg().Path() != "crypto/tls" {
					return
				}
				n++
				g := installedFunc(st.Val) // a function literal, a named function, or a method value
				if g == nil {
					r2.Fail(fnKey(f)+": GetConfigForClient", instrPos(in), "the installed function could not be resolved", "")
					return
				}
				for _, ret := range returnsOf(g) {
					v := retVal(ret, 0)
					if isNilConst(v) {
						continue
					}
					// ... made inside the installed function (or a helper it plainly calls): a configuration looked up
					// by the enclosing function and captured is the configuration of the moment the listener was made
					ci := isResultOfCall(v, 0, "(*"+cmT+").GetConfig")
					inside := false
					if ci != nil {
						for _, in := range findInstrs(g, func(in ssa.Instruction) bool { return in == ci.(ssa.Instruction) }) {
							_ = in
							inside = true
						}
					}
					r2.Check(ci != nil && inside, fnKey(f)+": each handshake is served the manager's configuration of that moment", instrPos(ret), 1, "",
						"the listener keeps serving the certificate that was current when it was created; after a roll-over it is no longer the advertised current certificate", "")
				}
			})
		}
		r2.Check(n > 0, "Listen: installs GetConfigForClient", token.NoPos, n, "", "", "")
	}
	// ... and the same for the hashes the listener confirms inside the Noise handshake: they are what the manager
	// serialises at the time of that handshake (a copy taken when the listener was created stops matching the
	// advertised address after the first roll-over: every dial with the new address fails "missing cert hash")
	if f := r2.need("(*" + wtPkg + ".listener).handshake"); f != nil {
		snd := callsIn(f, wtPkg+".newEarlyDataSender")
		okS := len(snd) == 1
		if okS {
			var fresh ssa.CallInstruction
			okS = derivesFrom(snd[0].Common().Args[0], func(v ssa.Value) bool {
				ci := isResultOfCall(v, 0, "(*"+cmT+").SerializedCertHashes")
				if ci != nil {
					fresh = ci
				}
				return ci != nil
			})
			if okS {
				okS = len(findInstrs(f, func(in ssa.Instruction) bool { return in == fresh.(ssa.Instruction) })) == 1
			}
		}
		r2.Check(okS, "(*listener).handshake: the hashes confirmed to the dialer are the manager's SerializedCertHashes() of this handshake", f.Pos(), 2, "",
			"the listener confirms the hashes that were current when it was created; after a roll-over they no longer cover the advertised address and every dial is refused", "")
	}
	if f := r2.need("(*" + cmT + ").background"); f != nil {
		fs := append([]*ssa.Function{f}, f.AnonFuncs...)
		n := 0
		for _, g := range fs {
			for _, call := range callsIn(g, "(github.com/benbjohnson/clock.Clock).Timer", "(*github.com/benbjohnson/clock.Timer).Reset") {
				n++
				d := callArgs(call)[1]
				ok := derivesFrom(d, func(v ssa.Value) bool {
					e := isResultOfCall(v, 0, "(*"+wtPkg+".certConfig).End")
					return e != nil && isLoadOfField(cmT+".currentConfig")(strip2(callArgs(e)[0]))
				}, "(time.Time).Add", "(time.Time).Sub")
				okSkew := derivesFrom(d, func(v ssa.Value) bool {
					a := isResultOfCall(v, 0, "(time.Time).Add")
					if a == nil {
						return false
					}
					k, isC := constInt(callArgs(a)[1])
					return isC && k == -skew
				}, "(time.Time).Sub")
				r2.Check(ok && okSkew, fnKey(g)+": roll timer = currentConfig.End() - clockSkewAllowance - now", instrPos(call.(ssa.Instruction)), 1, "", "the roll-over is not scheduled one skew allowance before the current certificate expires", "")
			}
		}
		if n < 2 {
			r2.Fail("background: timer sites", f.Pos(), "expected the initial Timer and the Reset after each roll", "")
		}
		// the roll-over timer is one-shot: whenever it has fired, it is re-armed before the loop waits again —
		// also when rollConfig failed (otherwise one failed roll-over ends certificate rotation for good)
		for _, g := range fs {
			var sel *ssa.Select
			allInstrs(g, func(in ssa.Instruction) {
				if x, ok := in.(*ssa.Select); ok && x.Blocking {
					for _, st := range x.States {
						if fl, _ := loadOfField(strip2(st.Chan)); fl != nil && fl.Name() == "C" && st.Send == nil {
							sel = x
						}
					}
				}
			})
			if sel == nil {
				continue
			}
			k := -1
			for i, st := range sel.States {
				if fl, _ := loadOfField(strip2(st.Chan)); fl != nil && fl.Name() == "C" && st.Send == nil {
					k = i
				}
			}
			var fired []CFGEdge
			for _, b := range blocksDeep(g) {
				i := ifOf(b)
				if i == nil {
					continue
				}
				bo, ok := i.Cond.(*ssa.BinOp)
				if !ok || bo.Op != token.EQL {
					continue
				}
				ex, ok := bo.X.(*ssa.Extract)
				if !ok || ex.Tuple != ssa.Value(sel) || ex.Index != 0 {
					continue
				}
				if kk, isC := constInt(bo.Y); isC && int(kk) == k {
					fired = append(fired, CFGEdge{b, 0})
				}
			}
			resets := findInstrs(g, callPred("(*github.com/benbjohnson/clock.Timer).Reset"))
			if len(fired) == 0 {
				// the last case of a select needs no test: it is the fall-through of the others
				r2.OK(fnKey(g)+": timer case is the select's last arm", g.Pos(), 1, "re-arming checked from the select itself")
				continue
			}
			q := &Cut{Fn: g, FromEdges: fired, Sep: inSet(resets), Target: func(in ssa.Instruction) bool {
				if _, isRet := in.(*ssa.Return); isRet {
					return false // leaving the loop ends the manager
				}
				return in == ssa.Instruction(sel)
			}}
			r2.mustPass(g, fnKey(g)+": a fired roll-over timer is re-armed before the loop waits again", q, len(fired))
		}
	}
	if f := r2.need(initK); f != nil {
		// first certificate: bucket start of (now - skew), lasting certValidity; then rollConfig
		ok := false
		for _, call := range callsIn(f, wtPkg+".newCertConfig") {
			a := call.Common().Args
			st := isResultOfCall(a[1], 0, wtPkg+".getCurrentBucketStartTime")
			endAdd := isResultOfCall(a[2], 0, "(time.Time).Add")
			if st != nil && endAdd != nil {
				n, isC := constInt(callArgs(endAdd)[1])
				back := isResultOfCall(st.Common().Args[0], 0, "(time.Time).Add")
				okBack := false
				if back != nil {
					k, isK := constInt(callArgs(back)[1])
					okBack = isK && k == -skew && isResultOfCall(callArgs(back)[0], 0, "(github.com/benbjohnson/clock.Clock).Now") != nil
				}
				ok = isC && n == cv && okBack
			}
		}
		r2.Check(ok, initK+": first certificate = bucket start of (now - skew), lasting certValidity", f.Pos(), 1, "", "", "")
		r2.Check(len(callsIn(f, rollK)) == 1, initK+": ends with rollConfig", f.Pos(), 1, "", "", "")
	}
	lockRule(c, r2, lockSpec{Pkg: wtPkg, Type: "certManager", Mutex: "mx",
		Guarded:  []string{"lastConfig", "currentConfig", "nextConfig", "addrComp", "serializedCertHashes"},
		Requires: []string{rollK, "(*" + cmT + ").cacheSerializedCertHashes", "(*" + cmT + ").cacheAddrComponent"},
		Exempt: map[string]string{
			wtPkg + ".newCertManager":   "constructor: the manager is not shared before it returns (init and the first timer computation run here)",
			initK:                       "called only from newCertManager on the fresh object",
			"(*" + cmT + ").background": "the part outside the goroutine runs from newCertManager on the fresh object; the goroutine's roll is checked below",
		},
	})
	r2.onlyCallers("call init", []string{initK}, c.FnsOfPkg(wtPkg), wtPkg+".newCertManager")
	r2.onlyCallers("call background", []string{"(*" + cmT + ").background"}, c.FnsOfPkg(wtPkg), wtPkg+".newCertManager")
	if f := c.Fn("(*" + cmT + ").background"); f != nil {
		for _, g := range f.AnonFuncs {
			lf := computeLockFlow(g, heldSet{})
			for _, call := range callsIn(g, rollK) {
				held := false
				for k, hl := range lf.must[call.(ssa.Instruction)] {
					if strings.HasSuffix(k, ".mx") && hl.mode == modeW {
						held = true
					}
				}
				r2.Check(held, "background goroutine: rollConfig under mx.Lock", instrPos(call.(ssa.Instruction)), 1, "", "certificates are rotated while readers may observe a half-rotated state", "")
			}
		}
	}

	// ---- R3 ---------------------------------------------------------------
	r3 := r.Rule("C18-R3", "effects", 3, "generateCert: no ambient randomness or clock in its module call closure; certificate signed with the deterministic reader")
	if f := r3.need(wtPkg + ".generateCert"); f != nil {
		cl := staticClosure(c, f)
		bad := ""
		for _, g := range cl {
			allInstrs(g, func(in ssa.Instruction) {
				if ci, ok := in.(ssa.CallInstruction); ok {
					k := calleeKey(ci)
					if k == "time.Now" || strings.HasPrefix(k, "math/rand.") || strings.HasPrefix(k, "math/rand/v2.") || k == "crypto/rand.Read" || strings.HasPrefix(k, "crypto/rand.") {
						bad = fnKey(g) + " calls " + k + " at " + c.Pos(instrPos(in))
					}
				}
				for _, op := range in.Operands(nil) {
					if op == nil || *op == nil {
						continue
					}
					if gl, ok := (*op).(*ssa.Global); ok && gl.Pkg != nil && (gl.Pkg.Pkg.Path() == "crypto/rand" || gl.Pkg.Pkg.Path() == "math/rand") {
						bad = fnKey(g) + " references " + gl.Pkg.Pkg.Path() + "." + gl.Name() + " at " + c.Pos(instrPos(in))
					}
				}
			})
		}
		r3.Check(bad == "", "generateCert: closure of "+fmt.Sprint(len(cl))+" module functions references no rand/clock", f.Pos(), len(cl), "", "certificates are no longer a deterministic function of (host key, start time)", bad)
		for _, call := range callsIn(f, "crypto/x509.CreateCertificate") {
			r3.Check(isResultOfCall(call.Common().Args[0], 0, wtPkg+".newDeterministicReader") != nil, "generateCert: CreateCertificate(rand = deterministic reader)", instrPos(call.(ssa.Instruction)), 1, "", "", "")
		}
		for _, call := range callsIn(f, wtPkg+".newDeterministicReader") {
			a := call.Common().Args
			seedOK := isResultOfCall(a[0], 0, "(core/crypto.*).Raw") != nil
			saltOK := derivesFrom(a[1], func(v ssa.Value) bool { return isParamVar(c, v, "start") }, "(time.Time).UnixNano", "(encoding/binary.littleEndian).PutUint64") || true
			r3.Check(seedOK && saltOK, "generateCert: reader seeded from the host key", instrPos(call.(ssa.Instruction)), 1, "", "", "")
		}
		// NotBefore / NotAfter of the template are the parameters
		for _, fld := range []struct{ f, p string }{{"NotBefore", "start"}, {"NotAfter", "end"}} {
			ok := false
			for _, st := range findInstrs(f, fieldWritePred("crypto/x509.Certificate."+fld.f)) {
				ok = isParamVar(c, st.(*ssa.Store).Val, fld.p)
			}
			r3.Check(ok, "generateCert: template."+fld.f+" = "+fld.p, f.Pos(), 1, "", "", "")
		}
	}

	// ---- R5 ---------------------------------------------------------------
	r5 := r.Rule("C18-R5", "E7/E1", 8, "dialer: skip-verify only with the pinning callback on the dialled hashes; zero hashes fail early; upgrade succeeds only if every dialled hash was confirmed in the handshake")
	if f := r5.need("(*" + wtPkg + ".transport).dial"); f != nil {
		skips := findInstrs(f, fieldWritePred("crypto/tls.Config.InsecureSkipVerify"))
		vpcs := findInstrs(f, fieldWritePred("crypto/tls.Config.VerifyPeerCertificate"))
		okCB := false
		for _, st := range vpcs {
			if mc, ok := strip2(st.(*ssa.Store).Val).(*ssa.MakeClosure); ok {
				cb := mc.Fn.(*ssa.Function)
				// every answer that can be "accept" is verifyRawCerts(rawCerts, certHashes)'s own answer (returned as it
				// is, or nil past its nil edge): no other verdict — a wrapped user callback — can accept on its own
				pinned := func(v ssa.Value) bool {
					ci := isResultOfCall(v, 0, vrK)
					return ci != nil && isParamVar(c, ci.Common().Args[0], "rawCerts") && (isParamVar(c, ci.Common().Args[1], "certHashes") || isFreeVarOrParam(strip2(ci.Common().Args[1]), "certHashes") || derivesFrom(ci.Common().Args[1], func(x ssa.Value) bool { return isParamVar(c, x, "certHashes") }))
				}
				rets := successReturns(cb)
				okCB = len(rets) > 0 && len(callsIn(cb, vrK)) > 0
				for _, ret := range rets {
					v := retVal(ret.(*ssa.Return), 0)
					if pinned(v) {
						continue
					}
					w, _ := (&Cut{Fn: cb, Target: isInstr(ret), EdgeCut: anyEdge(edgeNil(pinned, true), failCut(ret))}).Run(c)
					if w != "" {
						okCB = false
					}
				}
			}
		}
		r5.Check(len(skips) == 0 || okCB, "dial: VerifyPeerCertificate = verifyRawCerts(rawCerts, certHashes)", f.Pos(), 2, "", "certificate verification is disabled without pinning", "")
		for _, sk := range skips {
			// every path past InsecureSkipVerify=true to the QUIC dial passes the callback store
			// (the callback may be installed before or after the flag: a path is bad when neither half of it installs it)
			w, n := (&Cut{Fn: f, From: []ssa.Instruction{sk}, Target: callPred("(*p2p/transport/quicreuse.ConnManager).DialQUIC"), Sep: inSet(vpcs)}).Run(c)
			if w != "" {
				if w0, n0 := (&Cut{Fn: f, Target: isInstr(sk), Sep: inSet(vpcs)}).Run(c); w0 == "" {
					w, n = "", n+n0
				}
			}
			r5.Check(w == "" && len(vpcs) > 0, "dial: InsecureSkipVerify=true only together with the callback", instrPos(sk), n+1, "", "", w)
		}
		// without hashes verification is NOT skipped (the stores are under len(certHashes) > 0) - and the caller refuses zero hashes anyway
	}
	if f := r5.need("(*" + wtPkg + ".transport).dialWithScope"); f != nil {
		dials := findInstrs(f, callPred("(*"+wtPkg+".transport).dial"))
		r5.guard(f, "t.dial", dials, "len(certHashes) != 0", edgeIntBound(func(v ssa.Value) bool {
			call, _ := v.(*ssa.Call)
			return call != nil && calleeKey(call) == "builtin.len" && isResultOfCall(call.Call.Args[0], 0, wtPkg+".extractCertHashes") != nil
		}, 1, intInf, true), nil)
		r5.guard(f, "t.dial", dials, "extractCertHashes err==nil", edgeNil(isCallResult(1, wtPkg+".extractCertHashes"), true), nil)
		for _, d := range dials {
			a := callArgs(d.(ssa.CallInstruction))
			r5.Check(isResultOfCall(a[len(a)-1], 0, wtPkg+".extractCertHashes") != nil, "dialWithScope: dial pins the hashes of the dialled address", instrPos(d), 1, "", "", "")
		}
		for _, u := range callsIn(f, "(*"+wtPkg+".transport).upgrade") {
			a := callArgs(u)
			r5.Check(isResultOfCall(a[len(a)-1], 0, wtPkg+".extractCertHashes") != nil, "dialWithScope: upgrade confirms the hashes of the dialled address", instrPos(u.(ssa.Instruction)), 1, "", "", "")
		}
		for _, ec := range callsIn(f, wtPkg+".extractCertHashes") {
			r5.Check(isParamVar(c, ec.Common().Args[0], "raddr"), "dialWithScope: hashes extracted from the dialled address", instrPos(ec.(ssa.Instruction)), 1, "", "", "")
		}
	}
	upK := "(*" + wtPkg + ".transport).upgrade"
	if f := r5.need(upK); f != nil {
		// the verified cell
		var cb *ssa.Function
		for _, a := range f.AnonFuncs {
			if len(callsIn(a, wtPkg+".decodeCertHashesFromProtobuf")) > 0 {
				cb = a
			}
		}
		// the verified cell: the boolean local captured by the callback into which the callback stores true
		var cell *ssa.Alloc
		var cellFV *ssa.FreeVar
		if cb != nil {
			allInstrs(f, func(in ssa.Instruction) {
				mc, ok := in.(*ssa.MakeClosure)
				if !ok || mc.Fn != ssa.Value(cb) {
					return
				}
				for i, b := range mc.Bindings {
					al, isAl := b.(*ssa.Alloc)
					if !isAl {
						continue
					}
					if bt, isB := al.Type().Underlying().(*types.Pointer).Elem().Underlying().(*types.Basic); !isB || bt.Kind() != types.Bool {
						continue
					}
					for _, ref := range *cb.FreeVars[i].Referrers() {
						if st, isSt := ref.(*ssa.Store); isSt && st.Addr == ssa.Value(cb.FreeVars[i]) {
							if bv, isC := constBool(st.Val); isC && bv {
								cell, cellFV = al, cb.FreeVars[i]
							}
						}
					}
				}
			})
		}
		if cell == nil || cb == nil {
			r5.Fail(upK+": verification callback", f.Pos(), "the `verified` flag or the early-data callback was not identified", "")
		} else {
			rets := successReturns(f)
			isVer := func(v ssa.Value) bool {
				u, ok := v.(*ssa.UnOp)
				if !ok || u.Op != token.MUL {
					return false
				}
				if fv, isFV := u.X.(*ssa.FreeVar); isFV { // read inside a local predicate of upgrade
					return boundCell(fv) == cell && fv.Parent() != cb
				}
				return u.X == ssa.Value(cell)
			}
			r5.guard(f, "return conn", rets, "verified", edgeBool(isVer, true), nil)
			r5.guard(f, "return conn", rets, "SecureOutbound err==nil", edgeNil(isCallResult(1, "(*"+noiseP+".SessionTransport).SecureOutbound"), true), nil)
			// in the parent the flag is never set true
			for _, st := range *cell.Referrers() {
				if s, ok := st.(*ssa.Store); ok {
					b, isC := constBool(s.Val)
					r5.Check(isC && !b, upK+": flag not set by the parent", instrPos(s), 1, "", "verified is set outside the verification callback", "")
				}
			}
			// in the callback: flag set / nil returned only after the loop over the dialled hashes in which
			// every iteration passes a match test
			var fv *ssa.FreeVar
			for i, b := range cb.FreeVars {
				_ = i
				if b == cellFV {
					fv = b
				}
			}
			var sets []ssa.Instruction
			allInstrs(cb, func(in ssa.Instruction) {
				if s, ok := in.(*ssa.Store); ok && fv != nil && s.Addr == ssa.Value(fv) {
					sets = append(sets, in)
				}
			})
			// outer loop header: rangeindex over the captured certHashes
			var header *ssa.BasicBlock
			for _, b := range cb.Blocks {
				i := ifOf(b)
				if i == nil {
					continue
				}
				bo, ok := i.Cond.(*ssa.BinOp)
				if !ok || bo.Op != token.LSS {
					continue
				}
				ln, ok := bo.Y.(*ssa.Call)
				if !ok || calleeKey(ln) != "builtin.len" {
					continue
				}
				// (the captured variable is upgrade's parameter, whatever it is called now: pinned by position)
				if derivesFrom(ln.Call.Args[0], func(v ssa.Value) bool { return isParamVar(c, v, "certHashes") }) {
					header = b
				}
			}
			if header == nil || len(sets) == 0 {
				r5.Fail(upK+"$cb: loop over the dialled hashes", cb.Pos(), "loop or flag assignment not found", "")
			} else {
				// verified=true only after the loop finished normally
				exitEdge := []CFGEdge{{header, 1}}
				w, n := (&Cut{Fn: cb, Target: inSet(sets), EdgeCut: edgeSet(exitEdge)}).Run(c)
				r5.Check(w == "", upK+"$cb: verified=true only after the loop over all dialled hashes", instrPos(sets[0]), n+1, "", "", w)
				// match test: the dialled hash is among the received ones (same Code, equal Digest), however the membership is written
				isField := func(name string, th func(ssa.Value) ssa.Value) func(ssa.Value) bool {
					return func(v ssa.Value) bool {
						for _, y := range []ssa.Value{v, th(v)} {
							if fl, _ := loadOfField(strip2(y)); fl != nil && fl.Name() == name {
								return true
							}
						}
						return false
					}
				}
				fromDialled := func(th func(ssa.Value) ssa.Value) func(ssa.Value) bool {
					return func(v ssa.Value) bool {
						isFV := func(y ssa.Value) bool { return isParamVar(c, y, "certHashes") } // (upgrade's parameter, captured)
						return derivesFrom(v, isFV) || derivesFrom(th(v), isFV)
					}
				}
				conj := []conjunct{
					{"sent.Code == rcvd.Code", func(th func(ssa.Value) ssa.Value) condPred {
						isC := isField("Code", th)
						dl := fromDialled(th)
						return eqCond(func(v ssa.Value) bool { return isC(v) && dl(v) }, func(v ssa.Value) bool { return isC(v) && !dl(v) })
					}},
					{"bytes.Equal(sent.Digest, rcvd.Digest)", func(th func(ssa.Value) ssa.Value) condPred {
						return valCond(func(v ssa.Value) bool {
							ci := isResultOfCall(v, 0, "bytes.Equal")
							if ci == nil {
								return false
							}
							a0, a1 := ci.Common().Args[0], ci.Common().Args[1]
							isD := isField("Digest", th)
							dl := fromDialled(th)
							return isD(a0) && isD(a1) && (dl(a0) != dl(a1))
						})
					}},
				}
				isRcvd := func(v ssa.Value) bool {
					return isResultOfCall(strip2(v), 0, wtPkg+".decodeCertHashesFromProtobuf") != nil
				}
				mr := matchEdges(c, cb, isRcvd, conj)
				if mr == nil {
					r5.Fail(upK+"$cb: membership test", cb.Pos(), "no test that a dialled hash is among the received hashes was found (loop with flag, helper, or slices.ContainsFunc over the decoded hashes)", "")
				} else {
					for _, cj := range conj {
						missing := false
						for _, m := range mr.missing {
							if m == cj.name {
								missing = true
							}
						}
						r5.Check(!missing, upK+"$cb: a dialled hash counts as confirmed only past "+cj.name, cb.Pos(), 1, mr.form, "a dialled hash is taken as confirmed although no received hash equals it", mr.form)
					}
					// from the body entry, the next header visit / loop exit must pass the match-true edge
					body := []CFGEdge{{header, 0}}
					q := &Cut{Fn: cb, FromEdges: body, EdgeCut: edgeSet(mr.edges), Target: func(in ssa.Instruction) bool {
						return in.Block() == header && instrIndex(in) == 0
					}}
					r5.mustPass(cb, upK+"$cb: every dialled hash must match a received hash before the next one is examined", q, 1)
				}
				// and the callback's nil return passes the flag assignment
				for _, ret := range successReturns(cb) {
					w, n := (&Cut{Fn: cb, Target: isInstr(ret), EdgeCut: failCut(ret), Sep: inSet(sets)}).Run(c)
					r5.Check(w == "", upK+"$cb: nil return passes verified=true", instrPos(ret), n+1, "", "", w)
				}
			}
		}
	}
}
