package main

import (
	"fmt"
	"go/ast"
	"go/token"
	"go/types"
	"sort"
	"strings"

	"golang.org/x/tools/go/ssa"
)

func init() {
	register("C19", checkC19,
		"Decides on every CFG path of the HTTP Peer-ID auth handshake: the server's verify-challenge arm succeeds only past HMAC-valid state, the 5-minute challenge TTL, not-a-token, hostname equality and a signature check under the key whose ID is then reported; the bearer arm only past HMAC-valid state, is-token and TokenTTL; "+
			"the opaque state is parsed only past a constant-time HMAC comparison over exactly the parsed bytes; signer and verifier agree on the signed parameter set and its sources (challenge, other side's key, hostname); "+
			"the client reports a server ID only in states entered past a successful signature check; the HTTP wrappers call the application only past a nil Run and PeerID and a validated hostname; the HMAC key is never left empty.",
		"the header mutation space, expiry arithmetic, token reuse policy, strength of HMAC/signatures (trusted libraries)")
}

const hsP = "p2p/http/auth/internal/handshake"
const authP = "p2p/http/auth"

// stateArms finds the comparisons `tag == K` of a switch on the field and
// returns, per constant K, the assumption selecting that arm.
func stateArms(fn *ssa.Function, fieldKey string) map[int64]map[ssa.Value]bool {
	var cmps []*ssa.BinOp
	allInstrs(fn, func(in ssa.Instruction) {
		b, ok := in.(*ssa.BinOp)
		if !ok || b.Op != token.EQL {
			return
		}
		if _, isC := constInt(b.Y); !isC {
			return
		}
		if isLoadOfField(fieldKey)(strip2(b.X)) {
			cmps = append(cmps, b)
		}
	})
	out := map[int64]map[ssa.Value]bool{}
	for _, a := range cmps {
		k, _ := constInt(a.Y)
		as := map[ssa.Value]bool{}
		for _, o := range cmps {
			ko, _ := constInt(o.Y)
			as[o] = ko == k
		}
		out[k] = as
	}
	return out
}

type sigPart struct{ key, src string }

// sigParts extracts the []sigParam literal of a function: the constant key
// of each element and the resolved object its value comes from.
func sigParts(c *Ctx, fn *ssa.Function) []sigPart {
	fd, ok := fn.Syntax().(*ast.FuncDecl)
	if !ok || fn.Pkg == nil {
		return nil
	}
	pkg := c.allPkgs[fn.Pkg.Pkg.Path()]
	if pkg == nil {
		return nil
	}
	info := pkg.TypesInfo
	var out []sigPart
	ast.Inspect(fd, func(n ast.Node) bool {
		cl, ok := n.(*ast.CompositeLit)
		if !ok {
			return true
		}
		t := info.TypeOf(cl)
		sl, ok := t.(*types.Slice)
		if !ok || !strings.HasSuffix(types.TypeString(sl.Elem(), nil), hsP+".sigParam") {
			return true
		}
		for _, el := range cl.Elts {
			ecl, ok := el.(*ast.CompositeLit)
			if !ok || len(ecl.Elts) != 2 {
				out = append(out, sigPart{"?", "?"})
				continue
			}
			kx, vx := ecl.Elts[0], ecl.Elts[1]
			if kv, ok := kx.(*ast.KeyValueExpr); ok {
				kx = kv.Value
			}
			if kv, ok := vx.(*ast.KeyValueExpr); ok {
				vx = kv.Value
			}
			k := "?"
			if tv, ok := info.Types[kx]; ok && tv.Value != nil {
				k = strings.Trim(tv.Value.ExactString(), `"`)
			}
			out = append(out, sigPart{k, exprSource(info, vx, fd)})
		}
		return false
	})
	sort.Slice(out, func(i, j int) bool { return out[i].key < out[j].key })
	return out
}

// exprSource names the object an expression reads: the last selected field
// ("opaqueState.ChallengeClient") or the variable, through conversions.
func exprSource(info *types.Info, e ast.Expr, fd *ast.FuncDecl) string {
	for depth := 0; depth < 6; depth++ {
		switch x := e.(type) {
		case *ast.ParenExpr:
			e = x.X
			continue
		case *ast.CallExpr: // conversion []byte(x)
			if len(x.Args) == 1 {
				if tv, ok := info.Types[x.Fun]; ok && tv.IsType() {
					e = x.Args[0]
					continue
				}
			}
			return "call"
		case *ast.SelectorExpr:
			if sel := info.Selections[x]; sel != nil {
				recv := sel.Recv()
				if p, ok := recv.(*types.Pointer); ok {
					recv = p.Elem()
				}
				_, n := typeNameOf(recv)
				return n + "." + x.Sel.Name
			}
			return x.Sel.Name
		case *ast.Ident:
			if o := info.Uses[x]; o != nil {
				if v, isVar := o.(*types.Var); isVar {
					// a local that is assigned exactly once (`cs := h.p.challengeServer`): what it was assigned
					if rhs := singleAssignment(info, fd, v); rhs != nil {
						e = rhs
						continue
					}
					return "var " + x.Name
				}
			}
			return x.Name
		}
		return "?"
	}
	return "?"
}

// singleAssignment: the right-hand side of the only assignment to the local variable v in fd (a `v := e` or
// `var v = e` with nothing else ever assigning to v or taking its address); nil otherwise.
func singleAssignment(info *types.Info, fd *ast.FuncDecl, v *types.Var) ast.Expr {
	if fd == nil || fd.Body == nil {
		return nil
	}
	var rhs ast.Expr
	n := 0
	bad := false
	ast.Inspect(fd.Body, func(nd ast.Node) bool {
		switch x := nd.(type) {
		case *ast.AssignStmt:
			for i, l := range x.Lhs {
				id, ok := l.(*ast.Ident)
				if !ok {
					continue
				}
				if info.Defs[id] == v || info.Uses[id] == v {
					n++
					if len(x.Lhs) == len(x.Rhs) {
						rhs = x.Rhs[i]
					} else {
						bad = true
					}
				}
			}
		case *ast.ValueSpec:
			for i, id := range x.Names {
				if info.Defs[id] == v {
					n++
					if i < len(x.Values) {
						rhs = x.Values[i]
					} else {
						bad = true
					}
				}
			}
		case *ast.IncDecStmt:
			if id, ok := x.X.(*ast.Ident); ok && info.Uses[id] == v {
				bad = true
			}
		case *ast.UnaryExpr:
			if id, ok := x.X.(*ast.Ident); ok && x.Op == token.AND && info.Uses[id] == v {
				bad = true
			}
		case *ast.RangeStmt:
			for _, l := range []ast.Expr{x.Key, x.Value} {
				if id, ok := l.(*ast.Ident); ok && (info.Defs[id] == v || info.Uses[id] == v) {
					bad = true
				}
			}
		}
		return true
	})
	if n != 1 || bad {
		return nil
	}
	return rhs
}

func checkC19(c *Ctx, r *Report) {
	srvT := hsP + ".PeerIDAuthHandshakeServer"
	cliT := hsP + ".PeerIDAuthHandshakeClient"
	opT := hsP + ".opaqueState"
	runK := "(*" + srvT + ").Run"
	unmK := "(*" + opT + ").Unmarshal"
	vsK := "(*" + srvT + ").verifySig"
	idFromK := "core/peer.IDFromPublicKey"

	stVerifyChallenge := constIntObj(c, hsP, "peerIDAuthServerStateVerifyChallenge")
	stVerifyBearer := constIntObj(c, hsP, "peerIDAuthServerStateVerifyBearer")

	// `nowFn().After(CreatedTime.Add(ttl))` with ttl satisfying m
	// not after created+ttl, however spelled: A = the current time (a time.Time call result other than the Add), B = CreatedTime.Add(ttl)
	notAfterTTL := func(ttl func(ssa.Value) bool) EdgePred {
		isDeadline := func(v ssa.Value) bool {
			add := isResultOfCall(v, 0, "(time.Time).Add")
			if add == nil {
				return false
			}
			return isLoadOfField(opT+".CreatedTime")(strip2(add.Common().Args[0])) && ttl(strip2(add.Common().Args[1]))
		}
		isNowV := func(v ssa.Value) bool {
			call, ok := v.(*ssa.Call)
			return ok && !isDeadline(v) && call.Type().String() == "time.Time" && len(call.Call.Args) == 0
		}
		return edgeExcl(isNowV, isDeadline, ordGT)
	}

	// ---- R1 ---------------------------------------------------------------
	r1 := r.Rule("C19-R1", "E1b/E6", 10, "server Run: success exits of the verify-challenge and bearer arms are cut by every required check; PeerID reported is IDFromPublicKey of the verified key")
	run := r1.need(runK)
	if run != nil {
		arms := stateArms(run, srvT+".state")
		rets := successReturns(run)
		chalTTL := constIntObj(c, hsP, "challengeTTL")
		if as, ok := arms[stVerifyChallenge]; !ok {
			r1.Fail(runK+": verify-challenge arm", run.Pos(), "switch arm not found", "")
		} else {
			g := func(name string, e EdgePred) {
				r1.guard(run, "return nil [arm verify-challenge]", rets, name, e, as)
			}
			g("opaque.Unmarshal(hmac)==nil", edgeNil(isCallResult(0, unmK), true))
			g("!now.After(created+challengeTTL)", notAfterTTL(func(v ssa.Value) bool { n, ok := constInt(v); return ok && n == chalTTL && chalTTL == 5*60*1e9 }))
			g("!opaque.IsToken", edgeBool(isLoadOfField(opT+".IsToken"), false))
			g("Hostname == opaque.Hostname", eqEdge(isLoadOfField(srvT+".Hostname"), isLoadOfField(opT+".Hostname"), true))
			g("verifySig(pubKey)==nil", edgeNil(isCallResult(0, vsK), true))
			// the key verified is the key whose ID is stored
			vs := callsIn(run, vsK)
			var key ssa.Value
			if len(vs) == 1 {
				key = strip(callArgs(vs[0])[1])
			}
			pidStores := findInstrs(run, fieldWritePred(opT+".PeerID"))
			if key == nil || len(pidStores) == 0 {
				r1.Fail(runK+": PeerID = IDFromPublicKey(verified key)", run.Pos(), "verifySig call or PeerID store not found", "")
			}
			for _, st := range pidStores {
				ci := isResultOfCall(st.(*ssa.Store).Val, 0, idFromK)
				r1.Check(ci != nil && key != nil && strip(ci.Common().Args[0]) == key, runK+": PeerID = IDFromPublicKey(verified key)", instrPos(st), 1, "", "the peer ID recorded is not derived from the key whose signature was verified", "")
				r1.guard(run, "store opaque.PeerID", []ssa.Instruction{st}, "verifySig(pubKey)==nil", edgeNil(isCallResult(0, vsK), true), nil)
			}
			// every success exit of this arm has stored the ID
			for _, ret := range rets {
				q := &Cut{Fn: run, Target: isInstr(ret), EdgeCut: failCut(ret), Sep: inSet(pidStores), Assume: as}
				w, n := q.Run(c)
				r1.Check(w == "", runK+": verify-challenge success passes the PeerID store", instrPos(ret), n+1, "", "", w)
			}
			// the public key comes from the HMAC-protected state or the request's public-key parameter
			if key != nil {
				uk := isResultOfCall(key, 0, "core/crypto.UnmarshalPublicKey")
				okSrc := uk != nil
				if okSrc {
					for _, l := range phiLeaves(uk.Common().Args[0]) {
						l = strip(l)
						if isLoadOfField(opT + ".ClientPublicKey")(l) {
							continue
						}
						if d := isResultOfCall(l, 0, "(*encoding/base64.Encoding).AppendDecode"); d != nil && derivesFrom(d.Common().Args[2], func(x ssa.Value) bool { f, _ := loadOfField(x); return f != nil && f.Name() == "publicKeyB64" }) {
							continue
						}
						okSrc = false
					}
				}
				r1.Check(okSrc, runK+": key source = opaque.ClientPublicKey | request public-key", run.Pos(), 1, "", "", "")
			}
		}
		if as, ok := arms[stVerifyBearer]; !ok {
			r1.Fail(runK+": bearer arm", run.Pos(), "switch arm not found", "")
		} else {
			g := func(name string, e EdgePred) {
				r1.guard(run, "return nil [arm bearer]", rets, name, e, as)
			}
			g("opaque.Unmarshal(hmac)==nil", edgeNil(isCallResult(0, unmK), true))
			g("opaque.IsToken", edgeBool(isLoadOfField(opT+".IsToken"), true))
			g("!now.After(created+TokenTTL)", notAfterTTL(isLoadOfField(srvT+".TokenTTL")))
		}
	}
	r1.onlyIn("write "+opT+".PeerID", fieldWritePred(opT+".PeerID"), c.FnsOfPkg(hsP), runK)
	if pid := r1.need("(*" + srvT + ").PeerID"); pid != nil {
		var idRets []ssa.Instruction
		for _, ret := range returnsOf(pid) {
			if s, ok := constString(retVal(ret, 0)); ok && s == "" {
				continue
			}
			idRets = append(idRets, ret)
		}
		r1.guard(pid, "return a peer ID", idRets, "ran", edgeBool(isLoadOfField(srvT+".ran"), true), nil)
		isSrvState := func(v ssa.Value) bool { return isLoadOfField(srvT + ".state")(strip2(v)) }
		okState := anyEdge(edgeIntBound(isSrvState, stVerifyChallenge, stVerifyChallenge, false), edgeIntBound(isSrvState, stVerifyBearer, stVerifyBearer, false))
		r1.guard(pid, "return a peer ID", idRets, "state in {VerifyChallenge, VerifyBearer}", okState, nil)
		for _, ret := range idRets {
			r1.Check(isLoadOfField(opT+".PeerID")(strip2(ret.(*ssa.Return).Results[0])), "(*"+srvT+").PeerID: returns opaque.PeerID", instrPos(ret), 1, "", "", "")
		}
	}

	// a handshake object that is reused starts from nothing: Reset re-initialises every state (unexported) field, so
	// no identity, token flag or parsed parameter of the previous peer survives into the next exchange
	if f := r1.need("(*" + srvT + ").Reset"); f != nil {
		nt := c.Named(hsP, "PeerIDAuthHandshakeServer")
		nF := 0
		if nt != nil {
			if st, ok := nt.Underlying().(*types.Struct); ok {
				for i := 0; i < st.NumFields(); i++ {
					fld := st.Field(i)
					if fld.Exported() {
						continue // configuration, owned by the caller
					}
					nF++
					touched := false
					isF := func(v ssa.Value) bool {
						fa, ok := v.(*ssa.FieldAddr)
						if !ok {
							return false
						}
						fl, base := fieldAddrOf(fa)
						return fl != nil && fl.Name() == fld.Name() && fieldKeyOf(base, fl) == srvT+"."+fld.Name()
					}
					allInstrs(f, func(in ssa.Instruction) {
						switch x := in.(type) {
						case *ssa.Store:
							if isF(x.Addr) {
								touched = true
							}
						case *ssa.Call:
							for _, a := range x.Call.Args {
								if derivesFrom(a, isF) {
									touched = true
								}
							}
						}
					})
					r1.Check(touched, "(*"+srvT+").Reset: clears "+fld.Name(), f.Pos(), 1, "", "state of the previous exchange survives Reset: with omitempty JSON and partial updates, a later blob can carry the previous peer's IsToken / PeerID", "")
				}
			}
		}
		r1.Check(nF >= 5, "(*"+srvT+").Reset: state fields", f.Pos(), nF, "", "", "")
	}

	// ---- R2 ---------------------------------------------------------------
	r2 := r.Rule("C19-R2", "E1/E6", 4, "opaqueState.Unmarshal parses only past hmac.Equal over exactly the parsed bytes")
	if um := r2.need(unmK); um != nil {
		js := findInstrs(um, callPred("encoding/json.Unmarshal"))
		eq := callsIn(um, "crypto/hmac.Equal")
		r2.guard(um, "json.Unmarshal", js, "hmac.Equal(...)==true", edgeBool(isCallResult(0, "crypto/hmac.Equal"), true), nil)
		ok := len(eq) == 1 && len(js) == 1
		if ok {
			fields := strip(js[0].(ssa.CallInstruction).Common().Args[0])
			wr := callsIn(um, "(io.Writer).Write", "(hash.Hash).Write")
			sum := isResultOfCall(eq[0].Common().Args[1], 0, "(hash.Hash).Sum")
			sum0 := isResultOfCall(eq[0].Common().Args[0], 0, "(hash.Hash).Sum")
			macOK := sum != nil || sum0 != nil
			r2.Check(len(wr) == 1 && strip(callArgs(wr[0])[1]) == fields, unmK+": MAC is computed over exactly the bytes parsed", um.Pos(), 1, "", "the bytes authenticated differ from the bytes parsed", "")
			r2.Check(macOK, unmK+": hmac.Equal compares against the computed Sum", um.Pos(), 1, "", "", "")
			// Sum happens after the Write (dominates)
			if len(wr) == 1 && macOK {
				s := sum
				if s == nil {
					s = sum0
				}
				w, n := (&Cut{Fn: um, Target: isInstr(s.(ssa.Instruction)), Sep: isInstr(wr[0].(ssa.Instruction))}).Run(c)
				r2.Check(w == "", unmK+": Sum after Write", um.Pos(), n+1, "", "", w)
			}
		} else {
			r2.Fail(unmK+": one hmac.Equal and one json.Unmarshal", um.Pos(), "required sites missing", "")
		}
		for _, ret := range successReturns(um) {
			w, n := (&Cut{Fn: um, Target: isInstr(ret), EdgeCut: failCut(ret), Sep: inSet(js)}).Run(c)
			r2.Check(w == "", unmK+": success only after parsing", instrPos(ret), n+1, "", "", w)
		}
	}

	// ---- R3 ---------------------------------------------------------------
	r3 := r.Rule("C19-R3", "E5", 6, "signer and verifier agree on the signed parameters and bind challenge, the other side's key and the hostname")
	type pair struct {
		sign, verify string
		want         []string
		signSrc      map[string]string
		verifySrc    map[string]string
	}
	for _, p := range []pair{
		{"(*" + srvT + ").addServerSigParam", "(*" + cliT + ").verifySig", []string{"challenge-server", "client-public-key", "hostname"},
			map[string]string{"challenge-server": "params.challengeServer", "hostname": "PeerIDAuthHandshakeServer.Hostname"},
			map[string]string{"challenge-server": "PeerIDAuthHandshakeClient.challengeServer", "hostname": "PeerIDAuthHandshakeClient.Hostname"}},
		{"(*" + cliT + ").addSigParam", vsK, []string{"challenge-client", "hostname", "server-public-key"},
			map[string]string{"challenge-client": "params.challengeClient", "hostname": "PeerIDAuthHandshakeClient.Hostname"},
			map[string]string{"challenge-client": "opaqueState.ChallengeClient", "hostname": "PeerIDAuthHandshakeServer.Hostname"}},
	} {
		sf, vf := r3.need(p.sign), r3.need(p.verify)
		if sf == nil || vf == nil {
			continue
		}
		sp, vp := sigParts(c, sf), sigParts(c, vf)
		keys := func(ps []sigPart) string {
			var k []string
			for _, x := range ps {
				k = append(k, x.key)
			}
			return strings.Join(k, ",")
		}
		r3.Check(keys(sp) == keys(vp) && keys(sp) == strings.Join(p.want, ","), p.sign+" ↔ "+p.verify+": same signed keys", sf.Pos(), len(sp)+len(vp), keys(sp),
			"signer and verifier do not cover the same parameters (challenge, other side's public key, hostname)", keys(sp)+" vs "+keys(vp))
		for _, side := range []struct {
			fn    string
			parts []sigPart
			src   map[string]string
		}{{p.sign, sp, p.signSrc}, {p.verify, vp, p.verifySrc}} {
			for _, part := range side.parts {
				if want, ok := side.src[part.key]; ok {
					r3.Check(part.src == want, side.fn+": "+part.key+" taken from "+want, sf.Pos(), 1, "", "signed value comes from a different source", part.src)
				}
			}
		}
		// both go through the package-level sign / verifySig with the scheme prefix
		r3.Check(len(callsIn(sf, hsP+".sign")) == 1 && len(callsIn(vf, hsP+".verifySig")) == 1, p.sign+" ↔ "+p.verify+": use sign()/verifySig()", sf.Pos(), 2, "", "", "")
	}
	// the shared pre-image builder is the same function on both sides
	for _, k := range []string{hsP + ".sign", hsP + ".verifySig"} {
		if f := r3.need(k); f != nil {
			r3.Check(len(callsIn(f, hsP+".genDataToSign")) == 1, k+": pre-image from genDataToSign", f.Pos(), 1, "", "", "")
		}
	}
	if vf := r3.need(hsP + ".verifySig"); vf != nil {
		rets := successReturns(vf)
		vk := "(core/crypto.*).Verify"
		r3.guard(vf, "return nil", rets, "Verify ok==true", edgeBool(isCallResult(0, vk), true), nil)
		r3.guard(vf, "return nil", rets, "Verify err==nil", edgeNil(isCallResult(1, vk), true), nil)
		for _, v := range callsIn(vf, vk) {
			a := callArgs(v)
			r3.Check(isParamVar(c, a[0], "publicKey") && isResultOfCall(a[1], 0, hsP+".genDataToSign") != nil && isParamVar(c, a[2], "sig"), hsP+".verifySig: Verify(publicKey, genDataToSign(parts), sig)", instrPos(v.(ssa.Instruction)), 1, "", "", "")
		}
	}
	// server verifySig verifies against the client key it was given, with the request's signature
	if sv := r3.need(vsK); sv != nil {
		for _, call := range callsIn(sv, hsP+".verifySig") {
			a := call.Common().Args
			r3.Check(isParamVar(c, a[0], "clientPubKey"), vsK+": verifies under the client key passed in", instrPos(call.(ssa.Instruction)), 1, "", "", "")
		}
		rets := successReturns(sv)
		r3.guard(sv, "return nil", rets, "verifySig(...)==nil", edgeNil(isCallResult(0, hsP+".verifySig"), true), nil)
	}

	// ---- R4 ---------------------------------------------------------------
	r4 := r.Rule("C19-R4", "E1/E3", 6, "client: the states in which PeerID() answers are entered only past verifySig==nil (or from a state already in the set); serverPeerID derives from the key verifySig uses")
	isCliState := func(v ssa.Value) bool { return isLoadOfField(cliT + ".state")(strip2(v)) }
	stDone := constIntObj(c, hsP, "peerIDAuthClientStateDone")
	stWait := constIntObj(c, hsP, "peerIDAuthClientStateWaitingForBearer")
	cvsK := "(*" + cliT + ").verifySig"
	if cr := r4.need("(*" + cliT + ").Run"); cr != nil {
		n := 0
		for _, st := range findInstrs(cr, fieldWritePred(cliT+".state")) {
			v, ok := constInt(st.(*ssa.Store).Val)
			if !ok {
				r4.Fail("client Run: non-constant state", instrPos(st), "cannot classify", "")
				continue
			}
			if v != stDone && v != stWait {
				continue
			}
			n++
			w1, n1 := (&Cut{Fn: cr, Target: isInstr(st), EdgeCut: edgeNil(isCallResult(0, cvsK), true)}).Run(c)
			w2, n2 := (&Cut{Fn: cr, Target: isInstr(st), EdgeCut: anyEdge(edgeIntBound(isCliState, stDone, stDone, false), edgeIntBound(isCliState, stWait, stWait, false))}).Run(c)
			r4.Check(w1 == "" || w2 == "", "client Run: state = authenticated only past verifySig==nil or from an authenticated state", instrPos(st), n1+n2, "",
				"the client can reach a state in which it reports the server's peer ID without having verified the server's signature", w1)
		}
		if n < 3 {
			r4.Fail("client Run: authenticated-state assignments", cr.Pos(), "expected at least three assignments of Done/WaitingForBearer", "")
		}
	}
	if cv := r4.need(cvsK); cv != nil {
		calls := callsIn(cv, hsP+".verifySig")
		r4.Check(len(calls) == 1 && isLoadOfField(cliT+".serverPubKey")(strip2(calls[0].Common().Args[0])), cvsK+": verifies under h.serverPubKey", cv.Pos(), 1, "", "", "")
		for _, ret := range returnsOf(cv) {
			v := retVal(ret, 0)
			if isNilConst(v) {
				r4.Fail(cvsK+": constant nil return", instrPos(ret), "verification result discarded", "")
			}
		}
		rets := successReturns(cv)
		_ = rets
	}
	r4.onlyIn("write "+cliT+".serverPeerID", fieldWritePred(cliT+".serverPeerID"), c.FnsOfPkg(hsP), "(*"+cliT+").ParseHeader")
	r4.onlyIn("write "+cliT+".serverPubKey", fieldWritePred(cliT+".serverPubKey"), c.FnsOfPkg(hsP), "(*"+cliT+").ParseHeader")
	if ph := r4.need("(*" + cliT + ").ParseHeader"); ph != nil {
		for _, st := range findInstrs(ph, fieldWritePred(cliT+".serverPeerID")) {
			ci := isResultOfCall(st.(*ssa.Store).Val, 0, idFromK)
			r4.Check(ci != nil && isLoadOfField(cliT+".serverPubKey")(strip2(ci.Common().Args[0])), "client ParseHeader: serverPeerID = IDFromPublicKey(serverPubKey)", instrPos(st), 1, "", "", "")
		}
	}
	if pid := r4.need("(*" + cliT + ").PeerID"); pid != nil {
		var idRets []ssa.Instruction
		for _, ret := range returnsOf(pid) {
			if s, ok := constString(retVal(ret, 0)); ok && s == "" {
				continue
			}
			idRets = append(idRets, ret)
		}
		r4.guard(pid, "return a peer ID", idRets, "state in {Done, WaitingForBearer}", anyEdge(edgeIntBound(isCliState, stDone, stDone, false), edgeIntBound(isCliState, stWait, stWait, false)), nil)
	}

	// ---- R5 ---------------------------------------------------------------
	r5 := r.Rule("C19-R5", "E1/E6", 6, "HTTP wrappers: next(peer) only past Run()==nil and PeerID()==nil-error with a validated hostname")
	shK := "(*" + authP + ".ServerPeerIDAuth).ServeHTTPWithNextHandler"
	if sh := r5.need(shK); sh != nil {
		nexts := findInstrs(sh, func(in ssa.Instruction) bool {
			call, ok := in.(*ssa.Call)
			return ok && isParamVar(c, call.Call.Value, "next")
		})
		pidK := "(*" + srvT + ").PeerID"
		r5.guard(sh, "next(peer, w, r)", nexts, "hs.Run()==nil", edgeNil(isCallResult(0, runK), true), nil)
		r5.guard(sh, "next(peer, w, r)", nexts, "hs.PeerID() err==nil", edgeNil(isCallResult(1, pidK), true), nil)
		r5.guard(sh, "next(peer, w, r)", nexts, "ParseHeaderVal==nil", edgeNil(isCallResult(0, "(*"+srvT+").ParseHeaderVal"), true), nil)
		for _, n := range nexts {
			r5.Check(isResultOfCall(n.(*ssa.Call).Call.Args[0], 0, pidK) != nil, shK+": next receives hs.PeerID()", instrPos(n), 1, "", "", "")
		}
		// hostname validated: the variable stored in hs.Hostname (here or in a local constructor closure) is the one
		// compared / validated. The variable is an SSA value, or a cell assigned once when a closure captures it.
		resolveVar := func(v ssa.Value, fn *ssa.Function) ssa.Value {
			v = strip(v)
			ld, ok := v.(*ssa.UnOp)
			if !ok || ld.Op != token.MUL {
				return v
			}
			switch x := ld.X.(type) {
			case *ssa.Alloc:
				return x
			case *ssa.FreeVar:
				for g := fn; g != nil && c.Parent(g) != nil; g = c.Parent(g) {
					var cell ssa.Value
					allInstrs(c.Parent(g), func(in ssa.Instruction) {
						if mc, ok := in.(*ssa.MakeClosure); ok && mc.Fn == ssa.Value(g) {
							for i, fv := range g.FreeVars {
								if fv == x && i < len(mc.Bindings) {
									cell = mc.Bindings[i]
								}
							}
						}
					})
					if cell != nil {
						return cell
					}
				}
			}
			return v
		}
		var host ssa.Value
		var walkFns func(fn *ssa.Function)
		walkFns = func(fn *ssa.Function) {
			for _, st := range findInstrsIn(fn, fieldWritePred(srvT+".Hostname")) {
				hv := resolveVar(st.(*ssa.Store).Val, fn)
				if host == nil {
					host = hv
				} else if hv != host {
					r5.Fail(shK+": hostname handed to the handshake", instrPos(st), "different hostname values are handed to the handshake", "")
				}
			}
			for _, a := range fn.AnonFuncs {
				walkFns(a)
			}
		}
		walkFns(sh)
		isHost := func(v ssa.Value) bool { return host != nil && strip(v) == host }
		if cell, isCell := host.(*ssa.Alloc); isCell {
			nSt := 0
			for _, ref := range *cell.Referrers() {
				if st, ok := ref.(*ssa.Store); ok && st.Addr == ssa.Value(cell) {
					nSt++
				}
			}
			var inClosures func(fn *ssa.Function)
			inClosures = func(fn *ssa.Function) {
				for _, a := range fn.AnonFuncs {
					allInstrs(a, func(in ssa.Instruction) {
						if st, ok := in.(*ssa.Store); ok && resolveVarAddr(c, st.Addr, a) == ssa.Value(cell) {
							nSt++
						}
					})
					inClosures(a)
				}
			}
			inClosures(sh)
			r5.Check(nSt == 1, shK+": the hostname variable is assigned once", cell.Pos(), nSt, "", "the hostname handed to the handshake can differ from the one that was validated", "")
			var stored ssa.Value
			for _, ref := range *cell.Referrers() {
				if st, ok := ref.(*ssa.Store); ok && st.Addr == ssa.Value(cell) {
					stored = strip(st.Val)
				}
			}
			isHost = func(v ssa.Value) bool {
				if ld, ok := v.(*ssa.UnOp); ok && ld.Op == token.MUL && ld.X == ssa.Value(cell) {
					return true
				}
				return nSt == 1 && stored != nil && strip(v) == stored
			}
		}
		if host == nil {
			r5.Fail(shK+": hostname handed to the handshake", sh.Pos(), "store to Hostname not found", "")
		} else {
			validFn := func(v ssa.Value) bool {
				call, ok := v.(*ssa.Call)
				return ok && isDynCallOfField(call, authP+".ServerPeerIDAuth.ValidHostnameFn") && isHost(call.Call.Args[0])
			}
			sni := func(v ssa.Value) bool { f, _ := loadOfField(v); return f != nil && f.Name() == "ServerName" }
			r5.guard(sh, "next(peer, w, r)", nexts, "hostname == r.TLS.ServerName || ValidHostnameFn(hostname)",
				anyEdge(edgeBool(validFn, true), eqEdge(isHost, sni, true)), nil)
			// in NoTLS mode the validator must exist and accept
			var noTLS ssa.Value
			allInstrs(sh, func(in ssa.Instruction) {
				if v, ok := in.(ssa.Value); ok && isLoadOfField(authP+".ServerPeerIDAuth.NoTLS")(v) {
					noTLS = v
				}
			})
			if noTLS != nil {
				r5.guard(sh, "next(peer, w, r) [NoTLS]", nexts, "ValidHostnameFn(hostname)==true", edgeBool(validFn, true), map[ssa.Value]bool{noTLS: true})
				r5.guard(sh, "next(peer, w, r) [TLS]", nexts, "hostname == r.TLS.ServerName", eqEdge(isHost, sni, true), map[ssa.Value]bool{noTLS: false})
			}
		}
	}
	// client wrapper: an ID is returned only from hs.PeerID()
	for _, f := range c.FnsOfPkg(authP) {
		if c.Parent(f) != nil || f.Signature.Results().Len() == 0 {
			continue
		}
		// functions returning a peer.ID
		for i := 0; i < f.Signature.Results().Len(); i++ {
			if types.TypeString(f.Signature.Results().At(i).Type(), nil) != Mod+"core/peer.ID" {
				continue
			}
			for _, ret := range returnsOf(f) {
				v := retVal(ret, i)
				if s, ok := constString(v); ok && s == "" {
					continue
				}
				okSrc := true
				for _, l := range phiLeaves(v) {
					l = strip(l)
					if s, ok := constString(l); ok && s == "" {
						continue
					}
					if isResultOfCall(l, 0, "(*"+cliT+").PeerID", "(*"+srvT+").PeerID") != nil {
						continue
					}
					if ci, _ := resultOf(l); ci != nil && ci.Common().StaticCallee() != nil && ci.Common().StaticCallee().Pkg != nil && ci.Common().StaticCallee().Pkg.Pkg.Path() == Mod+authP {
						continue // result of another function of this package (checked itself)
					}
					if isLoadOfField(authP+".tokenInfo.peerID")(strip2(l)) || derivesFrom(l, func(x ssa.Value) bool { f, _ := loadOfField(x); return f != nil && f.Name() == "peerID" }) {
						continue // cached (token, peer) pair stored after a completed handshake (checked below)
					}
					okSrc = false
				}
				r5.Check(okSrc, fnKey(f)+": returned peer ID comes from the handshake's PeerID()", instrPos(ret), 1, "", "a peer ID is reported that the handshake did not produce", describeVal(v))
			}
		}
	}

	// ---- R6 ---------------------------------------------------------------
	r6 := r.Rule("C19-R6", "E1", 2, "server secret: when no HMAC key is configured a random one is generated and stored before the HMAC pool is built")
	if sh := c.Fn(shK); sh != nil {
		var initFn *ssa.Function
		for _, a := range sh.AnonFuncs {
			if len(callsIn(a, authP+".newHmacPool")) > 0 {
				initFn = a
			}
		}
		if initFn == nil {
			r6.Fail(shK+": HMAC initialisation", sh.Pos(), "initialiser calling newHmacPool not found", "")
		} else {
			keyF := authP + ".ServerPeerIDAuth.HmacKey"
			var nilEdges []CFGEdge
			for _, b := range initFn.Blocks {
				for s := range b.Succs {
					if edgeNil(isLoadOfField(keyF), true)(b, s) {
						nilEdges = append(nilEdges, CFGEdge{b, s})
					}
				}
			}
			if len(nilEdges) == 0 {
				r6.Fail(shK+"$init: HmacKey == nil branch", initFn.Pos(), "not found", "")
			} else {
				randStore := func(in ssa.Instruction) bool {
					if !isFieldWrite(in, keyF) {
						return false
					}
					val := strip(in.(*ssa.Store).Val)
					// the stored buffer is the one filled by crypto/rand.Read
					filled := false
					for _, rc := range callsIn(initFn, "crypto/rand.Read") {
						if strip(rc.Common().Args[0]) == val {
							filled = true
						}
					}
					return filled
				}
				q := &Cut{Fn: initFn, FromEdges: nilEdges, Target: callPred(authP + ".newHmacPool"), Sep: randStore}
				r6.mustPass(initFn, shK+"$init: [HmacKey==nil] newHmacPool only after HmacKey = random bytes", q, len(nilEdges))
			}
			for _, call := range callsIn(initFn, authP+".newHmacPool") {
				r6.Check(isLoadOfField(keyF)(strip2(call.Common().Args[0])), shK+"$init: newHmacPool(a.HmacKey)", instrPos(call.(ssa.Instruction)), 1, "", "", "")
			}
		}
	}

	// ---- R7 ---------------------------------------------------------------
	// freshness: each side's challenge is the encoding of bytes just read from the random source, untouched in between
	r7 := r.Rule("C19-R7", "E7b/E1", 8, "challenges are fresh: encoded from a buffer filled by io.ReadFull(randReader) on that path, with no write to the buffer in between; randReader is crypto/rand.Reader and nothing in the module reassigns it")
	randG := hsP + ".randReader"
	r7.onlyIn("write "+randG, func(in ssa.Instruction) bool {
		st, ok := in.(*ssa.Store)
		if !ok {
			return false
		}
		g, ok := st.Addr.(*ssa.Global)
		return ok && globalKey(g) == randG
	}, c.Fns, hsP+".init")
	if initF := c.Fn(hsP + ".init"); initF != nil {
		n := 0
		allInstrs(initF, func(in ssa.Instruction) {
			st, ok := in.(*ssa.Store)
			if !ok {
				return
			}
			if g, ok := st.Addr.(*ssa.Global); ok && globalKey(g) == randG {
				n++
				src, isLd := strip(st.Val).(*ssa.UnOp)
				okSrc := false
				if isLd {
					if sg, isG := src.X.(*ssa.Global); isG && globalKey(sg) == "crypto/rand.Reader" {
						okSrc = true
					}
				}
				r7.Check(okSrc, "randReader = crypto/rand.Reader", instrPos(in), 1, "", "challenges are drawn from a source other than the system's cryptographic generator", describeVal(st.Val))
			}
		})
		r7.Check(n == 1, "randReader initialised once", initF.Pos(), n, "", "", "")
	}
	for _, site := range []struct{ fn, what string }{
		{"(*" + cliT + ").addChallengeServerParam", "challenge-server"},
		{"(*" + srvT + ").addChallengeClientParam", "challenge-client"},
	} {
		f := r7.need(site.fn)
		if f == nil {
			continue
		}
		fills := callsIn(f, "io.ReadFull")
		encs := callsIn(f, "(*encoding/base64.Encoding).AppendEncode")
		if len(fills) != 1 || len(encs) != 1 {
			r7.Fail(site.fn+": one fill, one encode", f.Pos(), "expected one io.ReadFull and one AppendEncode", fmt.Sprint(len(fills), len(encs)))
			continue
		}
		fill, enc := fills[0], encs[0]
		buf := fill.Common().Args[1]
		rd, isLd := strip(fill.Common().Args[0]).(*ssa.UnOp)
		okRd := false
		if isLd {
			if g, isG := rd.X.(*ssa.Global); isG && globalKey(g) == randG {
				okRd = true
			}
		}
		r7.Check(okRd, site.fn+": the buffer is filled from randReader", instrPos(fill.(ssa.Instruction)), 1, "", "", "")
		src := enc.Common().Args[len(enc.Common().Args)-1]
		r7.Check(sameSlice(src, buf), site.fn+": the bytes encoded are the bytes read", instrPos(enc.(ssa.Instruction)), 1, "", "the "+site.what+" value is not the random bytes", "")
		r7.guard(f, "encode", []ssa.Instruction{enc.(ssa.Instruction)}, "io.ReadFull err==nil", edgeNil(isCallResult(1, "io.ReadFull"), true), nil)
		// between the fill and the encode nothing writes the buffer
		base := sliceBase(buf)
		overwrites := func(in ssa.Instruction) bool {
			if in == fill.(ssa.Instruction) || in == enc.(ssa.Instruction) {
				return false
			}
			switch x := in.(type) {
			case *ssa.Call:
				switch calleeKey(x) {
				case "builtin.clear", "builtin.copy", "io.ReadFull", "(io.Reader).Read":
					a := x.Call.Args[0]
					if calleeKey(x) == "io.ReadFull" {
						a = x.Call.Args[1]
					}
					return base != nil && sameExpr(sliceBase(a), base, 0) || sameSlice(a, buf)
				}
			case *ssa.Store:
				if ia, ok := x.Addr.(*ssa.IndexAddr); ok {
					return base != nil && (sameExpr(ia.X, base, 0) || sameExpr(sliceBase(ia.X), base, 0))
				}
			}
			return false
		}
		w, n := (&Cut{Fn: f, From: []ssa.Instruction{fill.(ssa.Instruction)}, Target: overwrites, Sep: isInstr(enc.(ssa.Instruction))}).Run(c)
		r7.Check(w == "", site.fn+": the random bytes are not overwritten before they are encoded", instrPos(enc.(ssa.Instruction)), n+1, "", "the "+site.what+" sent is not the fresh random value (a constant or stale challenge can be replayed)", w)
		// the challenge kept for verification / sent is the encoding
		isEnc := func(v ssa.Value) bool { return v == enc.Value() }
		nUse := 0
		allInstrs(f, func(in ssa.Instruction) {
			switch x := in.(type) {
			case *ssa.Store:
				fl, _ := fieldAddrOf(x.Addr)
				if fl != nil && (fl.Name() == "challengeServer" || fl.Name() == "ChallengeClient") {
					nUse++
					r7.Check(derivesFrom(x.Val, isEnc), site.fn+": the challenge remembered is the encoded random value", instrPos(in), 1, "", "", "")
				}
			case *ssa.Call:
				if calleeKey(x) == "(*"+hsP+".headerBuilder).writeParam" {
					if s, ok := constString(x.Call.Args[1]); ok && s == site.what {
						nUse++
						arg := x.Call.Args[2]
						okArg := derivesFrom(arg, isEnc)
						if !okArg {
							// read back from the field it was just remembered in (the only store to that field here)
							if ld, isLd := strip(arg).(*ssa.UnOp); isLd && ld.Op == token.MUL {
								nSt, nEnc := 0, 0
								allInstrs(f, func(in2 ssa.Instruction) {
									if st, ok := in2.(*ssa.Store); ok && sameExprAddr(st.Addr, ld.X) {
										nSt++
										if derivesFrom(st.Val, isEnc) && st.Block().Dominates(ld.Block()) {
											nEnc++
										}
									}
								})
								okArg = nSt == 1 && nEnc == 1
							}
						}
						r7.Check(okArg, site.fn+": the challenge sent is the encoded random value", instrPos(in), 1, "", "", "")
					}
				}
			}
		})
		r7.Check(nUse >= 2, site.fn+": challenge remembered and sent", f.Pos(), nUse, "", "", "")
	}
}
