package main

import (
	"fmt"
	"go/token"
	"go/types"

	"golang.org/x/tools/go/ssa"
)

func init() {
	register("C20", checkC20,
		"Decides on every CFG path of the black-hole detector: the address filter removes an address only past IsPublicAddr, the matching protocol test and the matching ==Blocked test of the matching counter, and never on the probing paths; "+
			"state is written only by updateState, Blocked only past a full window and too few successes; a success while Blocked resets; read-only mode never calls a state-writing method and allows only on State()==Allowed; "+
			"HandleRequest answers Blocked only when blocked and not on the probe request; wiring into the dial path; lock discipline.",
		"the exhaustive claim over all request/result sequences (finite state space, but enumerating it is model checking - another family); window arithmetic")
}

func checkC20(c *Ctx, r *Report) {
	ctrT := swarmP + ".BlackHoleSuccessCounter"
	detT := swarmP + ".blackHoleDetector"
	maP := "github.com/multiformats/go-multiaddr"
	pUDP, pIP6 := constIntObj(c, maP, "P_UDP"), constIntObj(c, maP, "P_IP6")
	const (
		stProbing = 0
		stAllowed = 1
		stBlocked = 2
	)
	okConsts := constIntObj(c, swarmP, "blackHoleStateProbing") == stProbing && constIntObj(c, swarmP, "blackHoleStateAllowed") == stAllowed && constIntObj(c, swarmP, "blackHoleStateBlocked") == stBlocked

	// ---- R1 ---------------------------------------------------------------
	r1 := r.Rule("C20-R1", "E1/E6", 8, "FilterAddrs closure: `return false` only past IsPublicAddr(a), matching protocol, matching counter ==Blocked; never when the matching counter is probing")
	r1.Check(okConsts, "state constants", objPos(c, swarmP, "blackHoleStateProbing"), 1, "", "state enumeration changed; the rule tables must be re-confirmed", "")
	fa := r1.need("(*" + swarmP + ".blackHoleDetector).FilterAddrs")
	if fa != nil {
		var cl *ssa.Function
		for _, a := range fa.AnonFuncs {
			if len(callsIn(a, swarmP+".isProtocolAddr")) > 0 {
				cl = a
			}
		}
		if cl == nil {
			r1.Fail("FilterAddrs: filter closure", fa.Pos(), "filter closure not found", "")
		} else {
			// which counter feeds each captured result variable
			counterOf := map[string]string{} // freevar name -> counter field
			var mc *ssa.MakeClosure
			allInstrs(fa, func(in ssa.Instruction) {
				if m, ok := in.(*ssa.MakeClosure); ok && m.Fn == ssa.Value(cl) {
					mc = m
				}
			})
			for i, fv := range cl.FreeVars {
				cell, ok := mc.Bindings[i].(*ssa.Alloc)
				if !ok {
					continue
				}
				fields := map[string]bool{}
				okStores := true
				for _, ref := range *cell.Referrers() {
					st, ok := ref.(*ssa.Store)
					if !ok || st.Addr != ssa.Value(cell) {
						continue
					}
					if n, isC := constInt(st.Val); isC && n == stAllowed {
						continue
					}
					gs := isResultOfCall(st.Val, 0, "(*"+swarmP+".blackHoleDetector).getFilterState")
					if gs == nil {
						okStores = false
						continue
					}
					f, base := loadOfField(strip2(callArgs(gs)[1]))
					if f == nil || fieldKeyOf(base, f) != detT+"."+f.Name() {
						okStores = false
						continue
					}
					fields[f.Name()] = true
				}
				if okStores && len(fields) == 1 {
					for k := range fields {
						counterOf[fv.Name()] = k
					}
				}
			}
			// resCmp: v compares the captured result of one counter with a state constant; sense: true when v means "equal"
			resCmp := func(v ssa.Value, state int64) (ctr string, sense bool, ok bool) {
				b, isB := v.(*ssa.BinOp)
				if !isB || (b.Op != token.EQL && b.Op != token.NEQ) {
					return "", false, false
				}
				x, y := b.X, b.Y
				if _, isC := constInt(x); isC {
					x, y = y, x
				}
				n, isC := constInt(y)
				if !isC || n != state {
					return "", false, false
				}
				u, isU := x.(*ssa.UnOp)
				if !isU || u.Op != token.MUL {
					return "", false, false
				}
				fv, isFV := u.X.(*ssa.FreeVar)
				if !isFV {
					return "", false, false
				}
				ctr, ok = counterOf[fv.Name()]
				return ctr, b.Op == token.EQL, ok
			}
			protoCall := func(v ssa.Value, code int64) bool {
				ci := isResultOfCall(v, 0, swarmP+".isProtocolAddr")
				if ci == nil {
					return false
				}
				n, ok := constInt(ci.Common().Args[1])
				return ok && n == code && isParamVar(c, ci.Common().Args[0], "a")
			}
			// (the answer may be a constant, a flag, or a boolean expression: the table evaluates whatever is returned)
			// the filter's answer as a function of: public, isUDP, isIPv6, and each counter's answer
			const (
				aPublic = iota
				aUDP
				aIP6
				aUDPProbing
				aUDPBlocked
				aIP6Probing
				aIP6Blocked
			)
			stateAtom := func(ctr string, state int64) atomPred {
				return func(v ssa.Value) (bool, bool) {
					k, sense, ok := resCmp(v, state)
					return ok && k == ctr, sense
				}
			}
			atoms := []atomPred{
				func(v ssa.Value) (bool, bool) {
					ci := isResultOfCall(v, 0, "github.com/multiformats/go-multiaddr/net.IsPublicAddr")
					return ci != nil && isParamVar(c, ci.Common().Args[0], "a"), true
				},
				func(v ssa.Value) (bool, bool) { return protoCall(v, pUDP), true },
				func(v ssa.Value) (bool, bool) { return protoCall(v, pIP6), true },
				stateAtom("udp", stProbing), stateAtom("udp", stBlocked),
				stateAtom("ipv6", stProbing), stateAtom("ipv6", stBlocked),
			}
			tab, okTab := boolReturnTable(cl, atoms, 0)
			if !okTab {
				r1.Fail("FilterAddrs$filter: decision table", cl.Pos(), "the filter's control flow could not be tabulated", "")
			}
			bit := func(a, i int) bool { return a&(1<<i) != 0 }
			type cond struct {
				key, why string
				holds    func(a int) bool
			}
			conds := []cond{
				{"FilterAddrs$filter: a removed address is public", "a private address is removed",
					func(a int) bool { return bit(a, aPublic) }},
				{"FilterAddrs$filter: a removed address is of a kind whose own counter is Blocked", "an address can be removed without its own kind's counter being Blocked (other-kind addresses must never be touched)",
					func(a int) bool {
						return (bit(a, aUDP) && bit(a, aUDPBlocked)) || (bit(a, aIP6) && bit(a, aIP6Blocked))
					}},
				{"FilterAddrs$filter: no UDP address is removed while UDP is probing", "probe requests are filtered: while probing every address of that kind must pass",
					func(a int) bool { return !(bit(a, aUDP) && bit(a, aUDPProbing)) }},
				{"FilterAddrs$filter: no IPv6 address is removed while IPv6 is probing", "probe requests are filtered: while probing every address of that kind must pass",
					func(a int) bool { return !(bit(a, aIP6) && bit(a, aIP6Probing)) }},
			}
			nRemoving := 0
			for _, cd := range conds {
				bad := ""
				n := 0
				for a := 0; a < 1<<len(atoms); a++ {
					if (bit(a, aUDPProbing) && bit(a, aUDPBlocked)) || (bit(a, aIP6Probing) && bit(a, aIP6Blocked)) {
						continue // a counter gives one answer
					}
					n++
					if tab[a]&1 != 0 { // may answer false: the address is removed
						nRemoving++
						if !cd.holds(a) && bad == "" {
							bad = fmt.Sprintf("public=%v udp=%v ipv6=%v udpProbing=%v udpBlocked=%v ipv6Probing=%v ipv6Blocked=%v", bit(a, aPublic), bit(a, aUDP), bit(a, aIP6), bit(a, aUDPProbing), bit(a, aUDPBlocked), bit(a, aIP6Probing), bit(a, aIP6Blocked))
						}
					}
				}
				r1.Check(bad == "" && okTab, cd.key, cl.Pos(), n, "", cd.why, bad)
			}
			r1.Check(nRemoving > 0, "FilterAddrs$filter: some address is removed", cl.Pos(), 1, "", "the filter never removes anything: the table did not recognise the removing exit", "")
		}
		// a counter is consulted (which may consume the probe slot) only when the request
		// contains a public address of that counter's kind
		gfs := callsIn(fa, "(*"+swarmP+".blackHoleDetector).getFilterState")
		if len(gfs) < 2 {
			r1.Fail("FilterAddrs: getFilterState per counter", fa.Pos(), "expected one evaluation per counter", "")
		}
		var boolPhis []*ssa.Phi
		allInstrs(fa, func(in ssa.Instruction) {
			if p, ok := in.(*ssa.Phi); ok && types.Identical(p.Type(), types.Typ[types.Bool]) {
				boolPhis = append(boolPhis, p)
			}
		})
		for _, g := range gfs {
			fl, base := loadOfField(strip2(callArgs(g)[1]))
			if fl == nil || fieldKeyOf(base, fl) != detT+"."+fl.Name() {
				r1.Fail("FilterAddrs: getFilterState argument", instrPos(g.(ssa.Instruction)), "argument is not one of the detector's counters", "")
				continue
			}
			code := pUDP
			if fl.Name() == "ipv6" {
				code = pIP6
			}
			ok := false
			for _, p := range boolPhis {
				w, _ := (&Cut{Fn: fa, Target: isInstr(g.(ssa.Instruction)), EdgeCut: edgeBool(isValue(p), true)}).Run(c)
				if w != "" {
					continue
				}
				es := phiEdgesWhere(p, func(v ssa.Value) bool { b, isC := constBool(v); return isC && b })
				if len(es) == 0 {
					continue
				}
				w1, _ := (&Cut{Fn: fa, TargetEdge: edgeSet(es), EdgeCut: edgeBool(isCallResult(0, "github.com/multiformats/go-multiaddr/net.IsPublicAddr"), true)}).Run(c)
				w2, _ := (&Cut{Fn: fa, TargetEdge: edgeSet(es), EdgeCut: edgeBool(func(v ssa.Value) bool {
					ci := isResultOfCall(v, 0, swarmP+".isProtocolAddr")
					if ci == nil {
						return false
					}
					n, isC := constInt(ci.Common().Args[1])
					return isC && n == code
				}, true)}).Run(c)
				if w1 == "" && w2 == "" {
					ok = true
				}
			}
			r1.Check(ok, "FilterAddrs: "+fl.Name()+" counter consulted only when the request has a public address of that kind", instrPos(g.(ssa.Instruction)), len(boolPhis), "",
				"requests with nothing to probe (private or other-kind addresses only) consume the probe slot / touch the counter", "")
		}
	}

	// ---- R2 ---------------------------------------------------------------
	r2 := r.Rule("C20-R2", "E3/E1", 7, "state written only in updateState; Blocked only past full window and successes<MinSuccesses; success while Blocked resets")
	n := r2.onlyIn("write "+ctrT+".state", fieldWritePred(ctrT+".state"), c.FnsOfPkg(swarmP), "(*"+swarmP+".BlackHoleSuccessCounter).updateState")
	if n == 0 {
		r2.Fail("write "+ctrT+".state", token.NoPos, "no writer found", "")
	}
	lenOfField := func(v ssa.Value, field string) bool {
		call, _ := v.(*ssa.Call)
		return call != nil && calleeKey(call) == "builtin.len" && isLoadOfField(ctrT+"."+field)(strip2(call.Call.Args[0]))
	}
	if us := r2.need("(*" + swarmP + ".BlackHoleSuccessCounter).updateState"); us != nil {
		var blockedStores []ssa.Instruction
		for _, st := range findInstrs(us, fieldWritePred(ctrT+".state")) {
			if v, ok := constInt(st.(*ssa.Store).Val); ok && v == stBlocked {
				blockedStores = append(blockedStores, st)
			} else if !ok {
				r2.Fail("updateState: non-constant state", instrPos(st), "cannot classify the state assigned", "")
			}
		}
		r2.guard(us, "state = Blocked", blockedStores, "len(dialResults) >= N", edgeExcl(func(v ssa.Value) bool { return lenOfField(v, "dialResults") },
			func(v ssa.Value) bool { return isLoadOfField(ctrT + ".N")(strip2(v)) }, ordLT), nil)
		r2.guard(us, "state = Blocked", blockedStores, "successes < MinSuccesses", edgeExcl(func(v ssa.Value) bool { return isLoadOfField(ctrT + ".successes")(strip2(v)) },
			func(v ssa.Value) bool { return isLoadOfField(ctrT + ".MinSuccesses")(strip2(v)) }, ordEQ, ordGT), nil)
	}
	resetK := "(*" + swarmP + ".BlackHoleSuccessCounter).reset"
	if rr := r2.need("(*" + swarmP + ".BlackHoleSuccessCounter).RecordResult"); rr != nil {
		var blockedCmp ssa.Value
		blockedWhen := true
		allInstrs(rr, func(in ssa.Instruction) {
			if v, ok := in.(ssa.Value); ok {
				if x, k, isEq, ok := eqConstOf(v); ok && k == stBlocked && isLoadOfField(ctrT+".state")(strip2(x)) {
					blockedCmp, blockedWhen = v, isEq
				}
			}
		})
		succ := param(rr, "success")
		if blockedCmp == nil || succ == nil {
			r2.Fail("RecordResult: state==Blocked && success test", rr.Pos(), "test not found", "")
		} else {
			q := &Cut{Fn: rr, Assume: map[ssa.Value]bool{blockedCmp: blockedWhen, succ: true}, Sep: callPred(resetK),
				Target: func(in ssa.Instruction) bool {
					switch in.(type) {
					case *ssa.Return:
						return true
					}
					return isCallTo(in, "(*"+swarmP+".BlackHoleSuccessCounter).updateState") || isFieldWrite(in, ctrT+".dialResults")
				}}
			r2.mustPass(rr, "RecordResult: [state==Blocked, success] every path resets before anything else", q, 2)
		}
		// eviction: the outcome read to adjust `successes` is the one dropped, i.e. it is
		// read before the window is shortened
		// (the eviction may live in a helper called from RecordResult)
		ev := rr
		hasTrim := func(g *ssa.Function) bool {
			found := false
			allInstrs(g, func(in ssa.Instruction) {
				if st, ok := in.(*ssa.Store); ok && isFieldWrite(in, ctrT+".dialResults") {
					if sl, ok := strip2(st.Val).(*ssa.Slice); ok && sl.Low != nil {
						found = true
					}
				}
			})
			return found
		}
		if !hasTrim(rr) {
			for _, g := range staticClosure(c, rr) {
				if g != rr && fnKey(g) != resetK && hasTrim(g) {
					ev = g
				}
			}
		}
		var trims, evictReads []ssa.Instruction
		allInstrs(ev, func(in ssa.Instruction) {
			if st, ok := in.(*ssa.Store); ok && isFieldWrite(in, ctrT+".dialResults") {
				if sl, ok := strip2(st.Val).(*ssa.Slice); ok && sl.Low != nil {
					trims = append(trims, in)
				}
			}
			if ia, ok := in.(*ssa.IndexAddr); ok && isLoadOfField(ctrT+".dialResults")(strip2(ia.X)) {
				if n, isC := constInt(ia.Index); isC && n == 0 {
					evictReads = append(evictReads, in)
				}
			}
		})
		if len(trims) != 1 || len(evictReads) != 1 {
			r2.Fail("RecordResult: window eviction", ev.Pos(), "expected one read of dialResults[0] and one trimming assignment", "")
		} else {
			w, n := (&Cut{Fn: ev, From: trims, Target: inSet(evictReads)}).Run(c)
			r2.Check(w == "", "RecordResult: evicted outcome is read before the window is shortened", instrPos(evictReads[0]), n+1, "", "successes is adjusted with the wrong (surviving) outcome", w)
			// successes-- only past that read being true
			var decs []ssa.Instruction
			allInstrs(ev, func(in ssa.Instruction) {
				if st, ok := in.(*ssa.Store); ok && isFieldWrite(in, ctrT+".successes") {
					if b, ok := st.Val.(*ssa.BinOp); ok && b.Op == token.SUB {
						decs = append(decs, in)
					}
				}
			})
			r2.guard(ev, "successes--", decs, "dialResults[0] (evicted) was a success", edgeBool(func(v ssa.Value) bool {
				u, ok := v.(*ssa.UnOp)
				return ok && u.Op == token.MUL && u.X == evictReads[0].(ssa.Value)
			}, true), nil)
		}
		// every non-reset path ends in updateState
		q := &Cut{Fn: rr, Target: func(in ssa.Instruction) bool { _, ok := in.(*ssa.Return); return ok },
			Sep: callPred(resetK, "(*"+swarmP+".BlackHoleSuccessCounter).updateState")}
		r2.mustPass(rr, "RecordResult: every exit passes reset or updateState", q, 1)
	}
	if rs := r2.need(resetK); rs != nil {
		zero := func(field string) bool {
			for _, st := range findInstrs(rs, fieldWritePred(ctrT+"."+field)) {
				if v, ok := constInt(st.(*ssa.Store).Val); ok && v == 0 {
					return true
				}
			}
			return false
		}
		r2.Check(zero("successes") && zero("requests") && len(findInstrs(rs, fieldWritePred(ctrT+".dialResults"))) == 1 && len(callsIn(rs, "(*"+swarmP+".BlackHoleSuccessCounter).updateState")) == 1,
			"reset: clears successes, requests, dialResults and re-evaluates the state", rs.Pos(), 4, "", "reset leaves part of the window behind", "")
	}

	// ---- R3 ---------------------------------------------------------------
	r3 := r.Rule("C20-R3", "E1", 5, "read-only mode: no call to a state-writing counter method; Allowed only on State()==Allowed")
	writers := []string{"(*" + swarmP + ".BlackHoleSuccessCounter).RecordResult", "(*" + swarmP + ".BlackHoleSuccessCounter).HandleRequest", resetK}
	notRO := edgeBool(isLoadOfField(detT+".readOnly"), false)
	nsites := 0
	seenW := map[string]bool{}
	covered := map[ssa.Instruction]bool{}
	isDetMethod := func(f *ssa.Function) bool {
		if f.Signature.Recv() == nil {
			return false
		}
		_, tn := typeNameOf(f.Signature.Recv().Type())
		return tn == "blackHoleDetector"
	}
	// decided in the detector's own methods, looking into the function literals they call directly and the helpers
	// extracted from them (the !readOnly test may sit in the method, the call in a local closure)
	for _, f := range c.FnsOfPkg(swarmP) {
		if c.Root(f) != f || !isDetMethod(f) || inlinable(f) {
			continue
		}
		calls := findInstrs(f, callPred(writers...))
		if len(calls) > 0 {
			for _, cl := range calls {
				covered[cl] = true
				seenW[calleeKey(cl.(ssa.CallInstruction))] = true
			}
			nsites += len(calls)
			r3.guard(f, "call of a state-writing counter method", calls, "!readOnly", notRO, nil)
		}
	}
	// function literals of those methods that are not called directly (handed on as values): decided in themselves
	for _, f := range c.FnsOfPkg(swarmP) {
		if c.Root(f) == f || !isDetMethod(c.Root(f)) {
			continue
		}
		var calls []ssa.Instruction
		for _, cl := range findInstrsIn(f, callPred(writers...)) {
			if !covered[cl] {
				calls = append(calls, cl)
				seenW[calleeKey(cl.(ssa.CallInstruction))] = true
			}
		}
		if len(calls) > 0 {
			nsites += len(calls)
			r3.guard(f, "call of a state-writing counter method", calls, "!readOnly", notRO, nil)
		}
	}
	if nsites < 2 || !seenW[writers[0]] || !seenW[writers[1]] {
		r3.Fail("blackHoleDetector: calls of state-writing counter methods", token.NoPos, fmt.Sprintf("expected RecordResult and HandleRequest call sites, found %d", nsites), "")
	}
	if gf := r3.need("(*" + swarmP + ".blackHoleDetector).getFilterState"); gf != nil {
		var ro ssa.Value
		allInstrs(gf, func(in ssa.Instruction) {
			if v, ok := in.(ssa.Value); ok && isLoadOfField(detT+".readOnly")(v) {
				ro = v
			}
		})
		var allowedRets []ssa.Instruction
		for _, ret := range returnsOf(gf) {
			if v, ok := constInt(retVal(ret, 0)); ok && v != stBlocked {
				allowedRets = append(allowedRets, ret)
			}
		}
		if ro == nil {
			r3.Fail("getFilterState: readOnly test", gf.Pos(), "not found", "")
		} else {
			stateIsAllowed := edgeIntBound(func(v ssa.Value) bool {
				return isResultOfCall(v, 0, "(*"+swarmP+".BlackHoleSuccessCounter).State") != nil
			}, stAllowed, stAllowed, false)
			r3.guard(gf, "return non-Blocked constant [readOnly]", allowedRets, "State()==Allowed", stateIsAllowed, map[ssa.Value]bool{ro: true})
			// in read-only mode the answer is a constant, never HandleRequest's
			for _, ret := range returnsOf(gf) {
				if isResultOfCall(retVal(ret, 0), 0, "(*"+swarmP+".BlackHoleSuccessCounter).HandleRequest") != nil {
					q := &Cut{Fn: gf, Target: isInstr(ret), Assume: map[ssa.Value]bool{ro: true}}
					w, n := q.Run(c)
					r3.Check(w == "", "getFilterState: HandleRequest result not returned in read-only mode", instrPos(ret), n+1, "", "", w)
				}
			}
		}
	}

	// ---- R4 ---------------------------------------------------------------
	r4 := r.Rule("C20-R4", "E1/E4", 4, "HandleRequest returns Blocked only when state is neither Allowed nor Probing and this is not the N-th request; fields under mu")
	if hr := r4.need("(*" + swarmP + ".BlackHoleSuccessCounter).HandleRequest"); hr != nil {
		var blockedRets []ssa.Instruction
		isState := func(v ssa.Value) bool { return isLoadOfField(ctrT + ".state")(strip2(v)) }
		stateIs := func(k int64) EdgePred { return edgeIntBound(isState, k, k, false) }
		for _, ret := range returnsOf(hr) {
			rv := retVal(ret, 0)
			v, ok := constInt(rv)
			switch {
			case ok && v == stBlocked:
				blockedRets = append(blockedRets, ret)
			case ok:
			case isState(rv) || isState(ret.Results[0]):
				// `return b.state`: it answers Blocked unless the path established state == Allowed or state == Probing
				if w, _ := (&Cut{Fn: hr, Target: isInstr(ret), EdgeCut: anyEdge(stateIs(stAllowed), stateIs(stProbing))}).Run(c); w != "" {
					blockedRets = append(blockedRets, ret)
				}
			default:
				r4.Fail("HandleRequest: return value", instrPos(ret), "neither a state constant nor the current state", describeVal(rv))
			}
		}
		stateEq := func(k int64) EdgePred {
			return edgeExcl(func(v ssa.Value) bool { return isLoadOfField(ctrT + ".state")(strip2(v)) }, func(v ssa.Value) bool { kk, ok := constInt(v); return ok && kk == k }, ordEQ)
		}
		r4.guard(hr, "return Blocked", blockedRets, "state != Allowed", stateEq(stAllowed), nil)
		r4.guard(hr, "return Blocked", blockedRets, "state != Probing", stateEq(stProbing), nil)
		r4.guard(hr, "return Blocked", blockedRets, "requests % N != 0", edgeExcl(func(v ssa.Value) bool {
			rem, isRem := v.(*ssa.BinOp)
			return isRem && rem.Op == token.REM && isLoadOfField(ctrT+".requests")(strip2(rem.X)) && isLoadOfField(ctrT+".N")(strip2(rem.Y))
		}, func(v ssa.Value) bool { _, ok := constInt(v); return ok }, ordEQ), nil) // any fixed residue lets one request per N through
		// requests++ on every call
		q := &Cut{Fn: hr, Target: func(in ssa.Instruction) bool { _, ok := in.(*ssa.Return); return ok }, Sep: fieldWritePred(ctrT + ".requests")}
		r4.mustPass(hr, "HandleRequest: every exit passes requests++", q, 1)
	}
	lockRule(c, r4, lockSpec{Pkg: swarmP, Type: "BlackHoleSuccessCounter", Mutex: "mu",
		Guarded:  []string{"requests", "dialResults", "successes", "state"},
		Requires: []string{resetK, "(*" + swarmP + ".BlackHoleSuccessCounter).updateState"}})

	// ---- R5 ---------------------------------------------------------------
	// ---- R6: each counter sees only the dials it is about -----------------------------------------------------
	// "blocks only after a full observation window of its own kind": a counter's window is fed with the outcome of
	// a dial only when the dialled address is public and of the counter's kind, and each slot of the detector is the
	// swarm's counter of that kind.
	r6 := r.Rule("C20-R6", "E1/E6", 6, "routing of dial outcomes: detector.RecordResult feeds the UDP counter only with public UDP addresses and the IPv6 counter only with public IPv6 addresses, with the caller's outcome; NewSwarm puts the swarm's UDP / IPv6 counters into the slots of the same name; the options store their argument in the matching field")
	detT6 := swarmP + ".blackHoleDetector"
	if f := r6.need("(*" + detT6 + ").RecordResult"); f != nil {
		isAddr := func(v ssa.Value) bool { return isParamVar(c, v, "addr") }
		public := edgeBool(func(v ssa.Value) bool {
			ci := isResultOfCall(v, 0, "github.com/multiformats/go-multiaddr/net.IsPublicAddr")
			return ci != nil && isAddr(ci.Common().Args[0])
		}, true)
		// The feeding sites are identified on the path (the receiver may be the parameter of a local function that
		// is called once per counter): slotOf answers under the frame the path search is in.
		feedK := "(*" + swarmP + ".BlackHoleSuccessCounter).RecordResult"
		slotOf := func(in ssa.Instruction) string {
			if !isCallTo(in, feedK) {
				return ""
			}
			fl, base := loadOfField(resolveLoad(strip2(callArgs(in.(ssa.CallInstruction))[0])))
			if fl == nil || fieldKeyOf(base, fl) != detT6+"."+fl.Name() || (fl.Name() != "udp" && fl.Name() != "ipv6") {
				return "?"
			}
			return fl.Name()
		}
		isSlot := func(k string) func(ssa.Instruction) bool {
			return func(in ssa.Instruction) bool { return slotOf(in) == k }
		}
		if w, _ := (&Cut{Fn: f, Target: isSlot("?")}).Run(c); w != "" {
			r6.Fail("detector.RecordResult: counter receiver", f.Pos(), "the counter fed is not one of the detector's slots", w)
		}
		n6 := 0
		for _, kind := range []string{"udp", "ipv6"} {
			if w, _ := (&Cut{Fn: f, Target: isSlot(kind)}).Run(c); w == "" {
				continue // (no feeding site of this counter: counted below)
			}
			n6++
			code := constIntObj(c, "github.com/multiformats/go-multiaddr", "P_UDP")
			if kind == "ipv6" {
				code = constIntObj(c, "github.com/multiformats/go-multiaddr", "P_IP6")
			}
			ofKind := edgeBool(func(v ssa.Value) bool {
				ci := isResultOfCall(v, 0, swarmP+".isProtocolAddr")
				if ci == nil || !isAddr(ci.Common().Args[0]) {
					return false
				}
				k, ok := constInt(resolveLoad(ci.Common().Args[1]))
				return ok && k == code
			}, true)
			w, n := (&Cut{Fn: f, Target: isSlot(kind), EdgeCut: public}).Run(c)
			r6.Check(w == "", "(*"+detT6+").RecordResult: feed the "+kind+" counter guarded-by IsPublicAddr(addr)", f.Pos(), n+1, "", "reachable without passing the guard `IsPublicAddr(addr)`", w)
			w, n = (&Cut{Fn: f, Target: isSlot(kind), EdgeCut: ofKind}).Run(c)
			r6.Check(w == "", "(*"+detT6+").RecordResult: feed the "+kind+" counter guarded-by isProtocolAddr(addr, its kind)", f.Pos(), n+1, "", "reachable without passing the guard `isProtocolAddr(addr, its kind)`", w)
			w, n = (&Cut{Fn: f, Target: func(in ssa.Instruction) bool {
				return slotOf(in) == kind && !isParamVar(c, resolveLoad(callArgs(in.(ssa.CallInstruction))[1]), "success") && !isParamVar(c, callArgs(in.(ssa.CallInstruction))[1], "success")
			}}).Run(c)
			r6.Check(w == "", "detector.RecordResult: the "+kind+" counter gets the caller's outcome", f.Pos(), n+1, "", "", w)
		}
		r6.Check(n6 == 2, "detector.RecordResult: feeds the two counters", f.Pos(), n6, "", "", fmt.Sprint(n6))
	}
	if f := r6.need(swarmP + ".NewSwarm"); f != nil {
		want := map[string]string{"udp": "udpBHF", "ipv6": "ipv6BHF"}
		seen := map[string]bool{}
		for _, in := range findInstrs(f, func(in ssa.Instruction) bool {
			st, ok := in.(*ssa.Store)
			if !ok {
				return false
			}
			fl, base := fieldAddrOf(st.Addr)
			return fl != nil && fieldKeyOf(base, fl) == detT6+"."+fl.Name() && want[fl.Name()] != ""
		}) {
			enterScan(f)
			st := in.(*ssa.Store)
			fl, _ := fieldAddrOf(st.Addr)
			seen[fl.Name()] = true
			r6.Check(isLoadOfField(swarmP+".Swarm."+want[fl.Name()])(strip(st.Val)), "NewSwarm: detector."+fl.Name()+" = the swarm's "+want[fl.Name()], instrPos(in), 1, "",
				"one kind's counter sits in the other kind's slot: UDP failures remove IPv6 addresses (or the reverse), and the configured counter is ignored", describeVal(strip(st.Val)))
		}
		r6.Check(seen["udp"] && seen["ipv6"], "NewSwarm: both detector slots are filled", f.Pos(), 2, "", "", fmt.Sprint(seen))
	}
	for opt, fld := range map[string]string{"WithUDPBlackHoleSuccessCounter": "udpBHF", "WithIPv6BlackHoleSuccessCounter": "ipv6BHF"} {
		f := r6.need(swarmP + "." + opt)
		if f == nil {
			continue
		}
		n := 0
		for _, g := range append([]*ssa.Function{f}, allAnon(f)...) {
			for _, in := range findInstrs(g, func(in ssa.Instruction) bool {
				return isFieldWrite(in, swarmP+".Swarm.udpBHF") || isFieldWrite(in, swarmP+".Swarm.ipv6BHF")
			}) {
				n++
				enterScan(g)
				okF := isFieldWrite(in, swarmP+".Swarm."+fld)
				p, isP := strip(in.(*ssa.Store).Val).(*ssa.Parameter)
				r6.Check(okF && isP && p.Parent() == f, opt+": stores its argument in "+fld, instrPos(in), 1, "", "the configured counter ends up in the other kind's field", "")
			}
		}
		r6.Check(n == 1, opt+": one store", f.Pos(), n, "", "", fmt.Sprint(n))
	}

	r5 := r.Rule("C20-R5", "E3/E1", 3, "wiring: FilterAddrs applied in filterKnownUndialables; RecordResult(addr, err==nil) after every transport dial in dialAddr")
	// the detector is consulted once per dial request: HandleRequest advances the request counter, so a second
	// consultation turns the one probe per window into a refusal
	r5.onlyCallers("call bhd.FilterAddrs", []string{"(*" + swarmP + ".blackHoleDetector).FilterAddrs"}, c.FnsOfPkg(swarmP), "(*"+swarmP+".Swarm).filterKnownUndialables")
	if fk := r5.need("(*" + swarmP + ".Swarm).filterKnownUndialables"); fk != nil {
		r5.Check(len(callsIn(fk, "(*"+swarmP+".blackHoleDetector).FilterAddrs")) == 1, "filterKnownUndialables: applies bhd.FilterAddrs", fk.Pos(), 1, "", "black-hole filter no longer applied to dial candidates", "")
	}
	if da := r5.need("(*" + swarmP + ".Swarm).dialAddr"); da != nil {
		dials := findInstrs(da, callPred("(core/transport.*).Dial", "(core/transport.*).DialWithUpdates"))
		recK := "(*" + swarmP + ".blackHoleDetector).RecordResult"
		recs := callsIn(da, recK)
		if len(dials) == 0 || len(recs) == 0 {
			r5.Fail("dialAddr: dial + RecordResult sites", da.Pos(), "required sites missing", "")
		} else {
			q := &Cut{Fn: da, From: dials, Target: func(in ssa.Instruction) bool { _, ok := in.(*ssa.Return); return ok }, Sep: callPred(recK)}
			r5.mustPass(da, "dialAddr: every exit after a transport dial passes bhd.RecordResult", q, len(dials))
			isDialErr := func(v ssa.Value) bool {
				ls := phiLeaves(v)
				if len(ls) == 0 {
					return false
				}
				for _, l := range ls {
					if isResultOfCall(l, 1, "(core/transport.*).Dial", "(core/transport.*).DialWithUpdates") == nil {
						return false
					}
				}
				return true
			}
			for _, d := range dials {
				hasAddr := false
				for _, a := range d.(ssa.CallInstruction).Common().Args {
					if isParamVar(c, a, "addr") {
						hasAddr = true
					}
				}
				r5.Check(hasAddr, "dialAddr: the transport dials addr", instrPos(d), 1, "", "", "")
			}
			for _, rec := range recs {
				a := callArgs(rec)
				in := rec.(ssa.Instruction)
				r5.Check(isParamVar(c, a[1], "addr"), "dialAddr: the outcome is recorded for the dialled address", instrPos(in), 1, "",
					"failures and successes of one dial are charged to different addresses: a blocked kind may never see the success that unblocks it", describeVal(a[1]))
				// the outcome recorded is this dial's: `err == nil`, or a constant on the branch where the error has that nil-ness
				if bv, isC := constBool(strip2(a[2])); isC {
					w, n := (&Cut{Fn: da, Target: isInstr(in), EdgeCut: edgeNil(isDialErr, bv)}).Run(c)
					r5.Check(w == "", fmt.Sprintf("dialAddr: RecordResult(addr, %v) only where the dial error is %snil", bv, map[bool]string{true: "", false: "non-"}[bv]), instrPos(in), n+1, "", "the recorded outcome is not the outcome of this dial", w)
				} else {
					x, isEq, ok := nilCmpOf(strip2(a[2]))
					r5.Check(ok && isEq && isDialErr(x), "dialAddr: RecordResult(addr, dialErr == nil)", instrPos(in), 1, "", "the recorded outcome is not the outcome of this dial", "")
				}
				// one record per dial
				w, n := (&Cut{Fn: da, From: []ssa.Instruction{in}, Target: callPred(recK)}).Run(c)
				r5.Check(w == "", "dialAddr: one RecordResult per dial", instrPos(in), n+1, "", "a dial is counted twice", w)
			}
		}
	}

	// ---- R7 ---------------------------------------------------------------
	r7 := r.Rule("C20-R7", "E7b/E1", 8, "window bookkeeping: every recorded outcome is appended (or resets a blocked counter); successes goes up exactly for a success; the oldest outcome is dropped exactly when the window holds more than N; updateState always sets the state, Probing only below N outcomes and Allowed only with a full window")
	cm20 := func(n string) string { return "(*" + ctrT + ")." + n }
	lenRes := func(v ssa.Value) bool {
		call, _ := resolveLoad(strip2(v)).(*ssa.Call)
		return call != nil && calleeKey(call) == "builtin.len" && isLoadOfField(ctrT+".dialResults")(strip2(call.Call.Args[0]))
	}
	isN := func(v ssa.Value) bool { return isLoadOfField(ctrT + ".N")(strip2(v)) }
	if f := r7.need(cm20("RecordResult")); f != nil {
		sp := f.Params[1]
		isSucc := func(v ssa.Value) bool {
			v = resolveLoad(strip2(v))
			return v == ssa.Value(sp) || isParamCellLoad(c, v, sp)
		}
		resets := findInstrs(f, callPred(cm20("reset")))
		appends := findInstrs(f, func(in ssa.Instruction) bool {
			st, ok := in.(*ssa.Store)
			if !ok || !isFieldWrite(in, ctrT+".dialResults") {
				return false
			}
			call, isC := resolveLoad(strip2(st.Val)).(*ssa.Call)
			if !isC || calleeKey(call) != "builtin.append" || !isLoadOfField(ctrT+".dialResults")(strip2(call.Call.Args[0])) {
				return false
			}
			return derivesFrom(call.Call.Args[1], isSucc) || carriesErr(call, isSucc)
		})
		r7.mustPass(f, cm20("RecordResult")+": the outcome is appended to the window (or resets a blocked counter)", &Cut{Fn: f, Target: isRetInstr, Sep: inSet(append(append([]ssa.Instruction{}, appends...), resets...))}, len(appends))
		step := func(op token.Token) []ssa.Instruction {
			return findInstrs(f, func(in ssa.Instruction) bool {
				st, ok := in.(*ssa.Store)
				if !ok || !isFieldWrite(in, ctrT+".successes") {
					return false
				}
				bo, isB := resolveLoad(strip(st.Val)).(*ssa.BinOp)
				if !isB || !isLoadOfField(ctrT+".successes")(strip2(bo.X)) {
					return false
				}
				k, isC := constInt(bo.Y)
				return isC && ((bo.Op == op && k == 1) || (bo.Op != op && (bo.Op == token.ADD || bo.Op == token.SUB) && k == -1))
			})
		}
		incs := step(token.ADD)
		onSucc := edgeBool(isSucc, true)
		r7.guard(f, "successes++", incs, "the dial succeeded", onSucc, nil)
		var from []CFGEdge
		for _, b := range blocksDeep(f) {
			for si := range b.Succs {
				if onSucc(b, si) {
					from = append(from, CFGEdge{b, si})
				}
			}
		}
		r7.mustPass(f, cm20("RecordResult")+": a success is counted (or resets a blocked counter)", &Cut{Fn: f, FromEdges: from, Target: isRetInstr, Sep: inSet(append(append([]ssa.Instruction{}, incs...), resets...))}, len(from))
		evicts := findInstrs(f, func(in ssa.Instruction) bool {
			st, ok := in.(*ssa.Store)
			if !ok || !isFieldWrite(in, ctrT+".dialResults") {
				return false
			}
			sl, isS := resolveLoad(strip2(st.Val)).(*ssa.Slice)
			if !isS || sl.Low == nil || !isLoadOfField(ctrT+".dialResults")(strip2(sl.X)) {
				return false
			}
			k, isC := constInt(sl.Low)
			return isC && k == 1 && sl.High == nil
		})
		over := edgeExcl(lenRes, isN, ordLT, ordEQ)
		r7.guard(f, "drop the oldest outcome", evicts, "the window holds more than N", over, nil)
		var fromOver []CFGEdge
		for _, b := range blocksDeep(f) {
			for si := range b.Succs {
				if over(b, si) {
					fromOver = append(fromOver, CFGEdge{b, si})
				}
			}
		}
		r7.mustPass(f, cm20("RecordResult")+": a window of more than N outcomes loses its oldest", &Cut{Fn: f, FromEdges: fromOver, Target: isRetInstr, Sep: inSet(evicts)}, len(fromOver))
		// the comparison is exactly `> N`: at N outcomes nothing is dropped
		nOver := 0
		for _, b := range blocksDeep(f) {
			if ifi := ifOf(b); ifi != nil {
				tab := condTable(ifi.Cond, lenRes, isN)
				if tab[ordLT] != triUnknown && tab[ordEQ] != triUnknown && tab[ordGT] != triUnknown {
					nOver++
					r7.Check(tab[ordEQ] == tab[ordLT] && tab[ordGT] != tab[ordEQ], cm20("RecordResult")+": the window test separates `more than N` from the rest", instrPos(ifi), 1, "", "the window is one outcome shorter (or longer) than configured", fmt.Sprint(tab))
				}
			}
		}
		r7.Check(len(fromOver) >= 1 && len(evicts) >= 1 && nOver >= 1, cm20("RecordResult")+": window test and eviction", f.Pos(), nOver, "", "", "")
		decs := step(token.SUB)
		r7.guard(f, "successes--", decs, "the window holds more than N", over, nil)
		r7.Check(len(decs) >= 1, cm20("RecordResult")+": an evicted success is uncounted", f.Pos(), len(decs), "", "successes only grows: a black hole is never detected once enough dials succeeded", "")
	}
	if f := r7.need(cm20("updateState")); f != nil {
		sets := findInstrs(f, fieldWritePred(ctrT+".state"))
		r7.mustPass(f, cm20("updateState")+": the state is set on every path", &Cut{Fn: f, Target: isRetInstr, Sep: inSet(sets)}, len(sets))
		val := func(k int64) []ssa.Instruction {
			var out []ssa.Instruction
			for _, in := range sets {
				if st, ok := in.(*ssa.Store); ok {
					if kv, isC := constInt(st.Val); isC && kv == k {
						out = append(out, in)
					}
				}
			}
			return out
		}
		probing, allowed := constIntObj(c, swarmP, "blackHoleStateProbing"), constIntObj(c, swarmP, "blackHoleStateAllowed")
		if p := val(probing); len(p) > 0 {
			r7.guard(f, "state = Probing", p, "fewer than N outcomes", edgeExcl(lenRes, isN, ordEQ, ordGT), nil)
		}
		if a := val(allowed); len(a) > 0 {
			r7.guard(f, "state = Allowed", a, "the window is full", edgeExcl(lenRes, isN, ordLT), nil)
		}
		var fromShort []CFGEdge
		short := edgeExcl(lenRes, isN, ordEQ, ordGT)
		for _, b := range blocksDeep(f) {
			for si := range b.Succs {
				if short(b, si) {
					fromShort = append(fromShort, CFGEdge{b, si})
				}
			}
		}
		if len(fromShort) > 0 && len(val(probing)) > 0 {
			r7.mustPass(f, cm20("updateState")+": below N outcomes the counter probes", &Cut{Fn: f, FromEdges: fromShort, Target: isRetInstr, Sep: inSet(val(probing))}, len(fromShort))
		} else {
			r7.OK(cm20("updateState")+": below N outcomes the counter probes", f.Pos(), 1, "not decided: the states are not stored as constants behind a `len(dialResults) < N` test")
		}
	}
}
