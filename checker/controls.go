package main

import (
	"fmt"
	"go/token"
	"path/filepath"

	"golang.org/x/tools/go/ssa"
)

// fixtureOverlay adds a virtual package (nothing is written under /repo) that
// holds the good and bad shapes the engines must tell apart on every run.
func fixtureOverlay(repo string) map[string][]byte {
	return map[string][]byte{
		filepath.Join(repo, "internal", "zzverifcontrols", "controls.go"): []byte(controlsSrc),
	}
}

const controlsPkg = "internal/zzverifcontrols"

// Every engine gets at least one shape it must accept ("Good") and one it
// must reject ("Bad"). A control that gives the wrong answer is an ERROR
// (exit 2): the engine, not the repository, is broken, and no verdict of the
// run is to be believed.
const controlsSrc = `package zzverifcontrols

import (
	"errors"
	"sync"
)

var errX = errors.New("x")

//go:noinline
func cond() bool { return len(errX.Error()) > 3 }

// ---- E1 cut: guard / must-pass-through --------------------------------
func sink(x *int) int { return *x }

func GuardGood(x *int) int {
	if x == nil {
		return 0
	}
	return sink(x)
}

func GuardBad(x *int) int {
	if x == nil {
		_ = cond()
	}
	return sink(x)
}

func step() {}

func MustPassGood(ok bool) int {
	if ok {
		step()
		return 1
	}
	step()
	return 2
}

func MustPassBad(ok bool) int {
	if ok {
		step()
		return 1
	}
	return 2
}

// E1b: boolean-consistent pruning
func AssumeGood(closed bool, x *int) int {
	if closed {
		return 0
	}
	n := 1
	if !closed {
		n = sink(x) // reached only with closed == false
	}
	return n
}

// E1 path sensitivity: the same condition tested twice; a guard hidden in a boolean flag
func SameCondGood(x *int, ok bool) int {
	if ok {
		step()
	}
	n := 0
	if ok {
		n = sink(x) // only on paths that did step()
	}
	return n
}

func SameCondBad(x *int, ok, ok2 bool) int {
	if ok {
		step()
	}
	n := 0
	if ok2 {
		n = sink(x)
	}
	return n
}

func FlagGuardGood(x *int) int {
	valid := x != nil && cond()
	if valid {
		return sink(x)
	}
	return 0
}

func FlagGuardBad(x *int) int {
	valid := cond()
	if valid {
		return sink(x)
	}
	return 0
}

// boolean decision table: step() exactly when a || (b && c)
func TableGood(a, b, c bool) {
	if a {
		step()
		return
	}
	both := b && c
	if !both {
		return
	}
	step()
}

func TableBad(a, b, c bool) {
	if a || b {
		step()
	}
}

// release through a wrapper
func closeLogged(r *Res) {
	if cond() {
		_ = errX
	}
	r.Close()
}

func WrapperGood(r *Res) error {
	if cond() {
		closeLogged(r)
		return errX
	}
	keep = append(keep, r)
	return nil
}

func maybeClose(r *Res) {
	if cond() {
		r.Close()
	}
}

func WrapperBad(r *Res) error {
	if cond() {
		maybeClose(r)
		return errX
	}
	keep = append(keep, r)
	return nil
}

// ---- E3 who-may-write ---------------------------------------------------
type Box struct {
	mu sync.Mutex
	v  int
	w  int
}

func (b *Box) WriterAllowed() {
	b.mu.Lock()
	b.v = 1
	b.mu.Unlock()
}

func (b *Box) WriterForbidden() {
	b.mu.Lock()
	b.v = 2
	b.mu.Unlock()
}

// ---- E4 lock -------------------------------------------------------------
type LBox struct {
	mu sync.Mutex
	v  int
}

func (b *LBox) LockGood() int {
	b.mu.Lock()
	defer b.mu.Unlock()
	return b.v
}

func (b *LBox) helperNeedsLock() int { return b.v }

func (b *LBox) LockGoodViaHelper() int {
	b.mu.Lock()
	n := b.helperNeedsLock()
	b.mu.Unlock()
	return n
}

type LBad struct {
	mu sync.Mutex
	v  int
}

func (b *LBad) LockBad() int {
	b.mu.Lock()
	b.mu.Unlock()
	return b.v
}

// ---- E2 ownership -------------------------------------------------------
type Res struct{ n int }

func (r *Res) Close() {}

//go:noinline
func Open() (*Res, error) {
	if cond() {
		return nil, errX
	}
	return &Res{}, nil
}

var keep []*Res

func OwnGood() error {
	r, err := Open()
	if err != nil {
		return err
	}
	if cond() {
		r.Close()
		return errX
	}
	keep = append(keep, r)
	return nil
}

func OwnBad() error {
	r, err := Open()
	if err != nil {
		return err
	}
	if cond() {
		return errX // leaked
	}
	keep = append(keep, r)
	return nil
}

// ---- E7b order tables -----------------------------------------------------
func OrdGood(a, b int) bool { return !(a < b) }

func OrdGood2(a, b int) bool {
	if b > a {
		return false
	}
	return true
}

func OrdBad(a, b int) bool { return a > b }

// ---- E7c bounds ---------------------------------------------------------------
//go:noinline
func use(s []int) int { return len(s) }

func BoundGood(s []int) int {
	if len(s) > 4 {
		s = s[:4]
	}
	return use(s)
}

func BoundGood2(s []int) int {
	return use(s[:min(len(s), 4)])
}

func BoundBad(s []int) int {
	if len(s) > 5 {
		s = s[:5]
	}
	return use(s)
}

func DiffGood(data []int) int {
	n := 0
	for w := 0; w < len(data); {
		end := min(w+4, len(data))
		n += use(data[w:end])
		w = end
	}
	return n
}

func DiffBad(data []int) int {
	n := 0
	for w := 0; w < len(data); {
		end := len(data)
		if end-w > 5 {
			end = w + 4
		}
		n += use(data[w:end])
		w = end
	}
	return n
}

// ---- E8 affine accounting --------------------------------------------------
type Acc struct {
	total int
	items map[string]int
}

func (a *Acc) SetGood(k string, v int) {
	a.total += v - a.items[k]
	a.items[k] = v
}

func (a *Acc) DelGood(k string) {
	old := a.items[k]
	delete(a.items, k)
	a.total = a.total - old
}

func (a *Acc) SetBad(k string, v int) {
	a.total += v
	a.items[k] = v
}

func (a *Acc) DelBad(k string, really bool) {
	if really {
		a.total -= a.items[k]
	}
	delete(a.items, k)
}

// ---- E9 path event counting ---------------------------------------------------
func OnceGood(ch chan int, v int, fast bool) {
	if fast {
		select {
		case ch <- v:
			return
		default:
		}
	}
	ch <- v
}

func OnceBad(ch chan int, v int, fast bool) {
	if fast {
		select {
		case ch <- v:
		default:
		}
	}
	ch <- v
}

func OnceBadDrop(ch chan int, v int) {
	select {
	case ch <- v:
	default:
	}
}

// ---- pattern: element-skipping swap delete ------------------------------------------
func SwapBad(s []int, x int) []int {
	n := len(s)
	for i, v := range s {
		if v == x {
			n--
			s[i] = s[n]
		}
	}
	return s[:n]
}

func SwapGood(s []int, x int) []int {
	n := 0
	for _, v := range s {
		if v != x {
			s[n] = v
			n++
		}
	}
	return s[:n]
}

// ---- pattern: varint length loops (7 payload bits per byte) --------------------------
func VarintLenGood(x uint64) int {
	n := 1
	for x >= 0x80 {
		x >>= 7
		n++
	}
	return n
}

func VarintLenGood2(x uint64) int {
	n := 0
	for {
		n++
		x >>= 7
		if x == 0 {
			return n
		}
	}
}

func VarintLenBad(x uint64) int {
	n := 1
	for x > 0x80 {
		x >>= 7
		n++
	}
	return n
}

// ---- register promotion of variables that closures only read (lift.go) -----------
func acquire(a int) (*int, error) {
	if a > 3 {
		return nil, errX
	}
	return &a, nil
}

// the guard sits in a local predicate; err is assigned twice
func LiftGuardGood(a int) int {
	w, err := acquire(a)
	if err != nil {
		return 0
	}
	_ = w
	v, err := acquire(a + 1)
	failed := func() bool { return err != nil }
	if failed() {
		return 0
	}
	return sink(v)
}

// the predicate reads the error of another call
func LiftGuardBad(a int) int {
	_, err := acquire(a)
	v, err2 := acquire(a + 1)
	_ = err2
	failed := func() bool { return err != nil }
	if failed() {
		return 0
	}
	return sink(v)
}

// the predicate is evaluated before the assignment it would have to see
func LiftGuardStale(a int) int {
	var v *int
	var err error
	failed := func() bool { return err != nil }
	stale := failed()
	v, err = acquire(a)
	if stale {
		return 0
	}
	return sink(v)
}

// a closure writes the variable: it must stay in its cell
func LiftWritten(a int) int {
	x := a
	set := func() { x = 0 }
	if cond() {
		set()
	}
	return x
}

// a 3-clause loop variable read by a predicate (per-iteration copies)
func LiftLoopVar(xs []*int) int {
	n := 0
	for i := 0; i < len(xs); i++ {
		inRange := func() bool { return i < 2 }
		if inRange() {
			n += sink(xs[i])
		}
	}
	return n
}

// a struct variable whose fields a predicate reads
type liftPair struct {
	p   *int
	err error
}

func LiftStructGood(a int) int {
	var r liftPair
	r.p, r.err = acquire(a)
	q := r
	bad := func() bool { return q.err != nil }
	if bad() {
		return 0
	}
	return sink(q.p)
}

// ---- audits (thorough.go): looked-at errors, lock balance, comma-ok discipline --------
func ErrFailGood(a int) (int, error) {
	v, err := acquire(a)
	if err != nil {
		return 0, err
	}
	return *v, nil
}

// the check is there, what it decides is lost
func ErrFailBad(a int) (int, error) {
	v, err := acquire(a)
	if err != nil {
	}
	if v == nil {
		return 1, nil
	}
	return *v, nil
}

// a sentinel is singled out: going on is by design
func ErrFailSentinel(a int) (int, error) {
	v, err := acquire(a)
	if err == errX {
		return 0, nil
	}
	if err != nil {
		return 0, err
	}
	return *v, nil
}

type lockedBox struct {
	mu sync.Mutex
	m  map[int]*int
}

func (b *lockedBox) BalGood(k int) int {
	b.mu.Lock()
	if k > 3 {
		b.mu.Unlock()
		return 0
	}
	b.mu.Unlock()
	return k
}

func (b *lockedBox) BalBad(k int) int {
	b.mu.Lock()
	if k > 3 {
		return 0
	}
	b.mu.Unlock()
	return k
}

// locked and released by a deferred call only on one branch
func (b *lockedBox) BalCondDefer(k int) int {
	if k > 3 {
		b.mu.Lock()
		defer b.mu.Unlock()
	}
	return k
}

func (b *lockedBox) BalRelock(k int) int {
	b.mu.Lock()
	if k > 3 {
		b.mu.Lock()
	}
	b.mu.Unlock()
	return k
}

func (b *lockedBox) OkGood(k int) int {
	b.mu.Lock()
	defer b.mu.Unlock()
	p, ok := b.m[k]
	if !ok {
		return 0
	}
	return *p
}

func (b *lockedBox) OkBad(k int) int {
	b.mu.Lock()
	defer b.mu.Unlock()
	p, ok := b.m[k]
	if ok {
		return 0
	}
	return *p
}
`

func runControls(c *Ctx, rep *Report) {
	ru := rep.Rule(rep.Prop+"-CTRL", "controls", 55, "positive/negative controls of the engines on the fixture package (virtual, via overlay): every engine must accept its Good shapes and reject its Bad ones on this very run")
	if c.Pkg(controlsPkg) == nil {
		ru.Err("fixture", "fixture package not loaded")
		return
	}
	fn := func(name string) *ssa.Function {
		f := c.Fn(controlsPkg + "." + name)
		if f == nil {
			f = c.Fn("(*" + controlsPkg + "." + name)
		}
		return f
	}
	// scratch rule: engine verdicts land here, not in the property's report
	scratch := func() *Rule {
		sr := &Report{Prop: "CTRL", ctx: c}
		return sr.Rule("CTRL-X", "", 0, "")
	}
	nviol := func(r *Rule) int {
		n := 0
		for _, o := range r.Obls {
			if o.Verdict == VViolation {
				n++
			}
		}
		return n
	}
	expect := func(name string, wantViolation bool, got bool) {
		if wantViolation == got {
			what := "accepted"
			if got {
				what = "rejected"
			}
			ru.OK("control "+name, 0, 1, what+" as expected")
		} else {
			ru.Err("control "+name, fmt.Sprintf("engine self-test failed: expected violation=%v, got %v", wantViolation, got))
		}
	}
	isSink := callPred(controlsPkg + ".sink")
	isStep := callPred(controlsPkg + ".step")
	isRet := func(in ssa.Instruction) bool { _, ok := in.(*ssa.Return); return ok }

	// E1
	for _, x := range []struct {
		n   string
		bad bool
	}{{"GuardGood", false}, {"GuardBad", true}} {
		f := fn(x.n)
		if f == nil {
			ru.Err("control "+x.n, "fixture function missing")
			continue
		}
		w, _ := (&Cut{Fn: f, Target: isSink, EdgeCut: edgeNil(func(v ssa.Value) bool { return isParamVar(c, v, "x") }, false)}).Run(c)
		expect("E1 guard "+x.n, x.bad, w != "")
	}
	for _, x := range []struct {
		n   string
		bad bool
	}{{"MustPassGood", false}, {"MustPassBad", true}} {
		f := fn(x.n)
		if f == nil {
			ru.Err("control "+x.n, "fixture function missing")
			continue
		}
		w, _ := (&Cut{Fn: f, Target: isRet, Sep: isStep}).Run(c)
		expect("E1 must-pass "+x.n, x.bad, w != "")
	}
	if f := fn("AssumeGood"); f != nil {
		p := param(f, "closed")
		w1, _ := (&Cut{Fn: f, Target: isSink, Assume: map[ssa.Value]bool{p: true}}).Run(c)
		w2, _ := (&Cut{Fn: f, Target: isSink, Assume: map[ssa.Value]bool{p: false}}).Run(c)
		expect("E1b assume closed=true prunes the sink", false, w1 != "")
		expect("E1b assume closed=false reaches the sink", true, w2 != "")
	} else {
		ru.Err("control AssumeGood", "fixture function missing")
	}
	// E1 path sensitivity
	for _, x := range []struct {
		n   string
		bad bool
	}{{"SameCondGood", false}, {"SameCondBad", true}} {
		f := fn(x.n)
		if f == nil {
			ru.Err("control "+x.n, "fixture function missing")
			continue
		}
		w, _ := (&Cut{Fn: f, Target: isSink, Sep: isStep}).Run(c)
		expect("E1 same condition tested twice "+x.n, x.bad, w != "")
	}
	for _, x := range []struct {
		n   string
		bad bool
	}{{"FlagGuardGood", false}, {"FlagGuardBad", true}} {
		f := fn(x.n)
		if f == nil {
			ru.Err("control "+x.n, "fixture function missing")
			continue
		}
		w, _ := (&Cut{Fn: f, Target: isSink, EdgeCut: edgeNil(func(v ssa.Value) bool { return isParamVar(c, v, "x") }, false)}).Run(c)
		expect("E1 guard carried by a boolean flag "+x.n, x.bad, w != "")
	}
	for _, x := range []struct {
		n   string
		bad bool
	}{{"TableGood", false}, {"TableBad", true}} {
		f := fn(x.n)
		if f == nil {
			ru.Err("control "+x.n, "fixture function missing")
			continue
		}
		atom := func(name string) atomPred {
			return func(v ssa.Value) (bool, bool) { return isParamVar(c, v, name), true }
		}
		tab, ok := boolTable(f, []atomPred{atom("a"), atom("b"), atom("c")}, isStep)
		good := ok
		for a, o := range tab {
			want := a&1 != 0 || (a&2 != 0 && a&4 != 0)
			if want != o.all || want != o.some {
				good = false
			}
		}
		expect("E7b boolean decision table a||(b&&c) "+x.n, x.bad, !good)
	}
	for _, x := range []struct {
		n   string
		bad bool
	}{{"WrapperGood", false}, {"WrapperBad", true}} {
		f := fn(x.n)
		if f == nil {
			ru.Err("control "+x.n, "fixture function missing")
			continue
		}
		w, _ := (&Cut{Fn: f, Sep: func(in ssa.Instruction) bool { return releasesLike(in, "Close") }, Target: func(in ssa.Instruction) bool {
			ret, ok := in.(*ssa.Return)
			return ok && !isNilConst(retVal(ret, 0))
		}}).Run(c)
		expect("release through a wrapper "+x.n, x.bad, w != "")
	}
	// E3
	{
		sr := scratch()
		sr.onlyIn("write Box.v", fieldWritePred(controlsPkg+".Box.v"), c.FnsOfPkg(controlsPkg), "(*"+controlsPkg+".Box).WriterAllowed")
		bad := 0
		okc := 0
		for _, o := range sr.Obls {
			if o.Verdict == VViolation {
				bad++
			} else {
				okc++
			}
		}
		expect("E3 who-may-write: forbidden writer reported, allowed writer accepted", false, !(bad == 1 && okc == 1))
	}
	// E4
	{
		sr := scratch()
		lockRule(c, sr, lockSpec{Pkg: controlsPkg, Type: "LBox", Mutex: "mu", Guarded: []string{"v"}})
		expect("E4 lock: access under lock, helper called under lock", false, nviol(sr) > 0 || len(sr.Obls) < 2)
		sr = scratch()
		lockRule(c, sr, lockSpec{Pkg: controlsPkg, Type: "LBad", Mutex: "mu", Guarded: []string{"v"}})
		expect("E4 lock: access after unlock", true, nviol(sr) > 0)
	}
	// E2
	{
		own := newOwn(c, ownSpec{what: "resource", relNames: []string{"Close"}})
		sr := scratch()
		own.checkAcquireErrorExits(sr, controlsPkg+".OwnGood", []string{controlsPkg + ".Open"}, 0, false)
		expect("E2 own: released on the error exit", false, nviol(sr) > 0 || len(sr.Obls) == 0)
		sr = scratch()
		own.reset()
		own.checkAcquireErrorExits(sr, controlsPkg+".OwnBad", []string{controlsPkg + ".Open"}, 0, false)
		expect("E2 own: leaked on an error exit", true, nviol(sr) > 0)
	}
	// E7b
	for _, x := range []struct {
		n   string
		bad bool
	}{{"OrdGood", false}, {"OrdGood2", false}, {"OrdBad", true}} {
		f := fn(x.n)
		if f == nil {
			ru.Err("control "+x.n, "fixture function missing")
			continue
		}
		tab, ok := orderTable(f, func(v ssa.Value) bool { return isParamVar(c, v, "a") }, func(v ssa.Value) bool { return isParamVar(c, v, "b") }, 0)
		expect("E7b order table (a >= b) "+x.n, x.bad, !(ok && tab == [3]int{1, 2, 2}))
	}
	// E7c
	for _, x := range []struct {
		n   string
		bad bool
	}{{"BoundGood", false}, {"BoundGood2", false}, {"BoundBad", true}} {
		f := fn(x.n)
		if f == nil {
			ru.Err("control "+x.n, "fixture function missing")
			continue
		}
		calls := callsIn(f, controlsPkg+".use")
		if len(calls) != 1 {
			ru.Err("control "+x.n, "use() call missing")
			continue
		}
		w, _ := sliceBoundedAt(c, f, calls[0].(ssa.Instruction), callArgs(calls[0])[0], 4)
		expect("E7c slice bound <= 4 "+x.n, x.bad, w != "")
	}
	for _, x := range []struct {
		n   string
		bad bool
	}{{"DiffGood", false}, {"DiffBad", true}} {
		f := fn(x.n)
		if f == nil {
			ru.Err("control "+x.n, "fixture function missing")
			continue
		}
		calls := callsIn(f, controlsPkg+".use")
		if len(calls) != 1 {
			ru.Err("control "+x.n, "use() call missing")
			continue
		}
		sl, ok := strip2(callArgs(calls[0])[0]).(*ssa.Slice)
		if !ok {
			ru.Err("control "+x.n, "slice argument missing")
			continue
		}
		w, _ := diffBoundedAt(c, f, calls[0].(ssa.Instruction), sl.High, sl.Low, 4)
		expect("E7c difference bound end-w <= 4 "+x.n, x.bad, w != "")
	}
	// E8
	spec := acctSpec{Account: controlsPkg + ".Acc.total", IntMaps: []string{controlsPkg + ".Acc.items"}}
	for _, x := range []struct {
		n   string
		bad bool
	}{{"Acc).SetGood", false}, {"Acc).DelGood", false}, {"Acc).SetBad", true}, {"Acc).DelBad", true}} {
		f := c.Fn("(*" + controlsPkg + "." + x.n)
		if f == nil {
			ru.Err("control "+x.n, "fixture function missing")
			continue
		}
		res := acctCheck(c, f, spec)
		expect("E8 accounting "+x.n, x.bad, len(res.failures) > 0 || res.overflow || res.events == 0)
	}
	// E9
	for _, x := range []struct {
		n   string
		bad bool
	}{{"OnceGood", false}, {"OnceBad", true}, {"OnceBadDrop", true}} {
		f := fn(x.n)
		if f == nil {
			ru.Err("control "+x.n, "fixture function missing")
			continue
		}
		isCh := func(v ssa.Value) bool { return isParamVar(c, v, "ch") }
		isV := func(v ssa.Value) bool { return isParamVar(c, v, "v") }
		res := (&pathEnum{Fn: f,
			Instr: func(in ssa.Instruction) int {
				if s, ok := in.(*ssa.Send); ok && isCh(s.Chan) && isV(s.X) {
					return 1
				}
				return 0
			},
			Edge: func(b *ssa.BasicBlock, s int) int {
				if selectSendEdge(b, s, isCh, isV) {
					return 1
				}
				return 0
			},
			Maybe: func(in ssa.Instruction) bool { return selectSendUntested(in, isCh, isV) }}).Run()
		expect("E9 exactly one send "+x.n, x.bad, !res.only(1))
	}
	// pattern
	for _, x := range []struct {
		n   string
		bad bool
	}{{"SwapGood", false}, {"SwapBad", true}} {
		f := fn(x.n)
		if f == nil {
			ru.Err("control "+x.n, "fixture function missing")
			continue
		}
		expect("pattern swap-delete "+x.n, x.bad, len(swapDeleteSkips(c, f)) > 0)
	}
	for _, x := range []struct {
		n   string
		bad bool
	}{{"VarintLenGood", false}, {"VarintLenGood2", false}, {"VarintLenBad", true}} {
		f := fn(x.n)
		if f == nil {
			ru.Err("control "+x.n, "fixture function missing")
			continue
		}
		loops, bad := varintLoops(f)
		expect("pattern varint length loop "+x.n, x.bad, len(bad) > 0 || loops == 0)
	}
	// register promotion (lift.go): a guard written as a local predicate over a re-assigned variable is the guard
	// (and a predicate over another variable, or evaluated before the assignment, is not); a variable a closure
	// writes stays in its cell; loop variables and struct variables are promoted
	for _, x := range []struct {
		n   string
		bad bool
	}{{"LiftGuardGood", false}, {"LiftGuardBad", true}, {"LiftGuardStale", true}} {
		f := fn(x.n)
		if f == nil {
			ru.Err("control "+x.n, "fixture function missing")
			continue
		}
		var acq ssa.CallInstruction
		for _, ci := range callsIn(f, controlsPkg+".acquire") {
			acq = ci // the last one: the call whose result reaches the sink
		}
		w, _ := (&Cut{Fn: f, Target: isSink, EdgeCut: edgeNil(func(v ssa.Value) bool { ci, i := resultOf(v); return ci == acq && i == 1 }, true)}).Run(c)
		expect("lift guard in a local predicate "+x.n, x.bad, w != "")
	}
	// audits: a looked-at error fails the function (A2), lock balance (A3), comma-ok discipline (A4)
	for _, x := range []struct {
		n   string
		bad bool
	}{{"ErrFailGood", false}, {"ErrFailBad", true}, {"ErrFailSentinel", false}} {
		f := fn(x.n)
		if f == nil {
			ru.Err("control "+x.n, "fixture function missing")
			continue
		}
		sr := scratch()
		sr.errorsFail(f)
		expect("audit A2 "+x.n, x.bad, nviol(sr) > 0)
	}
	for _, x := range []struct {
		n   string
		bad bool
	}{{"lockedBox).BalGood", false}, {"lockedBox).BalBad", true}, {"lockedBox).BalCondDefer", false}, {"lockedBox).BalRelock", true}} {
		f := fn(x.n)
		if f == nil {
			ru.Err("control "+x.n, "fixture function missing")
			continue
		}
		lf := computeLockFlow(f, heldSet{})
		bad := false
		for ret, h := range lf.exitBal {
			for k := range h {
				if !lf.exitDeferred[ret][k] {
					bad = true
				}
			}
		}
		for _, b := range f.Blocks {
			for _, in := range b.Instrs {
				if call, ok := in.(*ssa.Call); ok {
					if op, isM := mutexOps[calleeKey(call)]; isM && op.acquire {
						if _, held := lf.must[in][pathOf(call.Call.Args[0])]; held {
							bad = true
						}
					}
				}
			}
		}
		expect("audit A3 "+x.n, x.bad, bad)
	}
	for _, x := range []struct {
		n   string
		bad bool
	}{{"lockedBox).OkGood", false}, {"lockedBox).OkBad", true}} {
		f := fn(x.n)
		if f == nil {
			ru.Err("control "+x.n, "fixture function missing")
			continue
		}
		sr := scratch()
		commaOkDiscipline(c, sr, []*ssa.Function{f})
		expect("audit A4 "+x.n, x.bad, nviol(sr) > 0)
	}
	cellsOf := func(f *ssa.Function, name string) (promoted, kept int) {
		allInstrsIn(f, func(in ssa.Instruction) {
			if al, ok := in.(*ssa.Alloc); ok && al.Comment == name {
				if liftedCells[al] || liftGroupRep[al] != nil {
					promoted++
				} else {
					kept++
				}
			}
		})
		return
	}
	if f := fn("LiftWritten"); f != nil {
		p, k := cellsOf(f, "x")
		expect("lift leaves a variable that a closure writes in its cell", false, p != 0 || k != 1)
	} else {
		ru.Err("control LiftWritten", "fixture function missing")
	}
	if f := fn("LiftLoopVar"); f != nil {
		p, k := cellsOf(f, "i")
		loads := 0
		allInstrsIn(f, func(in ssa.Instruction) {
			if u, ok := in.(*ssa.UnOp); ok && u.Op == token.MUL {
				if _, isGroup := liftGroupRep[u.X]; isGroup {
					loads++
				}
			}
		})
		expect("lift promotes a 3-clause loop variable read by a predicate (both cells, no read of them left)", false, p != 2 || k != 0 || loads != 0)
		w, _ := (&Cut{Fn: f, Target: isSink, EdgeCut: edgeIntBound(func(v ssa.Value) bool { _, isPhi := v.(*ssa.Phi); return isPhi }, -intInf, 1, false)}).Run(c)
		expect("lift: the loop variable read inside the predicate is the loop's counter", false, w != "")
	} else {
		ru.Err("control LiftLoopVar", "fixture function missing")
	}
	if f := fn("LiftStructGood"); f != nil {
		acqs := callsIn(f, controlsPkg+".acquire")
		w := "no acquire"
		if len(acqs) == 1 {
			w, _ = (&Cut{Fn: f, Target: isSink, EdgeCut: edgeNil(func(v ssa.Value) bool {
				return derivesFrom(v, func(x ssa.Value) bool { ci, i := resultOf(x); return ci == acqs[0] && i == 1 })
			}, true)}).Run(c)
		}
		expect("lift: a field of a struct variable read inside a predicate", false, w != "")
	} else {
		ru.Err("control LiftStructGood", "fixture function missing")
	}
}
