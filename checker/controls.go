package main

import "path/filepath"

// fixtureOverlay adds a virtual package (nothing is written under /repo) that
// holds the good and bad shapes the engines must tell apart on every run.
func fixtureOverlay(repo string) map[string][]byte {
	return map[string][]byte{
		filepath.Join(repo, "internal", "zzverifcontrols", "controls.go"): []byte(controlsSrc),
	}
}

const controlsPkg = "internal/zzverifcontrols"

const controlsSrc = `package zzverifcontrols

func Hello() int { return 1 }
`

func runControls(c *Ctx, rep *Report) {
	ru := rep.Rule(rep.Prop+"-CTRL", "controls", 1, "positive/negative controls of the engines on the fixture package (virtual, via overlay)")
	if c.Pkg(controlsPkg) == nil {
		ru.Err("fixture", "fixture package not loaded")
		return
	}
	ru.OK("fixture-loaded", 0, 1, "")
}
