package main

import (
	"fmt"
	"go/token"
	"go/types"
	"os"
	"strings"

	"golang.org/x/tools/go/ssa"
)

// Cut is the single CFG separation query of engine E1: starting after the
// From instructions (or at function entry), can a Target instruction be
// reached without crossing a separator instruction and without taking a
// favourable edge?  If yes, Run returns a witness path.
type Cut struct {
	Fn         *ssa.Function
	From       []ssa.Instruction // nil => function entry
	FromEdges  []CFGEdge         // additionally: start at the head of these edges' targets
	Target     func(ssa.Instruction) bool
	TargetEdge EdgePred                   // alternatively: reaching (taking) one of these edges
	Sep        func(ssa.Instruction) bool // node separators (may be nil)
	EdgeCut    EdgePred                   // favourable edges, removed (may be nil)
	// StopAtFrom: re-entering a From instruction ends the path (per-iteration
	// regions in accept loops).
	StopAtFrom bool
	// Assume (E1b): SSA booleans with a fixed truth value on the paths of
	// interest; If-edges contradicting the assumption are pruned.
	Assume map[ssa.Value]bool
}

type CFGEdge struct {
	B    *ssa.BasicBlock
	Succ int
}

type loc struct {
	b *ssa.BasicBlock
	i int
}

// runInsensitive is the path-insensitive search (every CFG path, feasible or
// not). It is the fallback of Run when the path-sensitive state space exceeds
// its budget: it can only report more, never less.
func (q *Cut) runInsensitive(c *Ctx) (string, int) {
	type item = cutItem
	fromSet := map[ssa.Instruction]bool{}
	for _, f := range q.From {
		fromSet[f] = true
	}
	var work []*item
	visitedBlockStart := map[*ssa.BasicBlock]bool{}
	if len(q.From) == 0 && len(q.FromEdges) == 0 {
		if len(q.Fn.Blocks) == 0 {
			return "", 0
		}
		work = append(work, &item{l: loc{q.Fn.Blocks[0], 0}})
		visitedBlockStart[q.Fn.Blocks[0]] = true
	}
	for _, f := range q.From {
		work = append(work, &item{l: loc{f.Block(), instrIndex(f) + 1}})
	}
	for _, e := range q.FromEdges {
		t := e.B.Succs[e.Succ]
		if !visitedBlockStart[t] {
			visitedBlockStart[t] = true
			work = append(work, &item{l: loc{t, 0}})
		}
	}
	examined := 0
	for len(work) > 0 {
		it := work[0]
		work = work[1:]
		b := it.l.b
		stopped := false
		for i := it.l.i; i < len(b.Instrs); i++ {
			in := b.Instrs[i]
			if q.Target != nil && q.Target(in) {
				return q.witness(c, it, in), examined
			}
			if q.Sep != nil && q.Sep(in) {
				if os.Getenv("LP2P_DEBUG_CUT") == fnKey(q.Fn) {
					fmt.Printf("CUT sep at b%d: %s\n", b.Index, describeInstr(in))
				}
				stopped = true
				break
			}
			if q.StopAtFrom && fromSet[in] {
				stopped = true
				break
			}
		}
		if stopped {
			continue
		}
		for s, succ := range b.Succs {
			examined++
			if q.EdgeCut != nil && q.EdgeCut(b, s) {
				if os.Getenv("LP2P_DEBUG_CUT") == fnKey(q.Fn) {
					fmt.Printf("CUT edge b%d->b%d removed\n", b.Index, succ.Index)
				}
				continue
			}
			if q.contradicts(b, s) {
				continue
			}
			if q.TargetEdge != nil && q.TargetEdge(b, s) {
				return q.witnessEdge(c, it, b, s), examined
			}
			if visitedBlockStart[succ] {
				continue
			}
			visitedBlockStart[succ] = true
			work = append(work, &item{l: loc{succ, 0}, prev: it})
		}
	}
	return "", examined
}

func (q *Cut) contradicts(b *ssa.BasicBlock, s int) bool {
	if len(q.Assume) == 0 {
		return false
	}
	i := ifOf(b)
	if i == nil {
		return false
	}
	base, neg := stripNotRaw(i.Cond)
	want, ok := q.Assume[base]
	if !ok {
		return false
	}
	// edge 0 is taken when cond is true, i.e. base == !neg
	taken := (s == 0) != neg
	return taken != want
}

type cutItem struct {
	l    loc
	prev *cutItem
}

func (q *Cut) witness(c *Ctx, it *cutItem, target ssa.Instruction) string {
	var parts []string
	for p := it; p != nil; p = p.prev {
		parts = append([]string{fmt.Sprintf("b%d", p.l.b.Index)}, parts...)
	}
	if len(parts) > 14 {
		parts = append(append(parts[:6:6], "…"), parts[len(parts)-6:]...)
	}
	return fmt.Sprintf("%s reaches `%s` at %s via %s", q.startDesc(), describeInstr(target), c.Pos(instrPos(target)), strings.Join(parts, "→"))
}

func (q *Cut) witnessEdge(c *Ctx, it *cutItem, b *ssa.BasicBlock, s int) string {
	var parts []string
	for p := it; p != nil; p = p.prev {
		parts = append([]string{fmt.Sprintf("b%d", p.l.b.Index)}, parts...)
	}
	pos := token.NoPos
	if len(b.Instrs) > 0 {
		pos = instrPos(b.Instrs[len(b.Instrs)-1])
	}
	return fmt.Sprintf("%s reaches edge b%d→b%d at %s via %s", q.startDesc(), b.Index, b.Succs[s].Index, c.Pos(pos), strings.Join(parts, "→"))
}

func (q *Cut) startDesc() string {
	if len(q.From) == 0 && len(q.FromEdges) == 0 {
		return "entry"
	}
	if len(q.From) > 0 {
		return describeInstr(q.From[0])
	}
	return fmt.Sprintf("edge b%d→b%d", q.FromEdges[0].B.Index, q.FromEdges[0].B.Succs[q.FromEdges[0].Succ].Index)
}

func describeInstr(in ssa.Instruction) string {
	switch x := in.(type) {
	case ssa.CallInstruction:
		k := calleeKey(x)
		if k == "" {
			k = "dynamic call"
		}
		switch in.(type) {
		case *ssa.Go:
			return "go " + k
		case *ssa.Defer:
			return "defer " + k
		}
		return "call " + k
	case *ssa.Return:
		var rs []string
		for i := range x.Results {
			rs = append(rs, describeVal(retVal(x, i)))
		}
		return "return " + strings.Join(rs, ", ")
	case *ssa.Store:
		if f, base := fieldAddrOf(x.Addr); f != nil {
			return "store " + fieldKeyOf(base, f)
		}
		return "store"
	case *ssa.MapUpdate:
		return "map update"
	case *ssa.Send:
		return "send"
	case *ssa.Panic:
		return "panic"
	}
	return fmt.Sprintf("%T", in)
}

func instrPos(in ssa.Instruction) token.Pos {
	if in.Pos().IsValid() {
		return in.Pos()
	}
	// fall back to the nearest instruction with a position in the block
	b := in.Block()
	idx := instrIndex(in)
	for i := idx; i >= 0; i-- {
		if b.Instrs[i].Pos().IsValid() {
			return b.Instrs[i].Pos()
		}
	}
	for i := idx; i < len(b.Instrs); i++ {
		if b.Instrs[i].Pos().IsValid() {
			return b.Instrs[i].Pos()
		}
	}
	if r, ok := in.(*ssa.Return); ok {
		for _, v := range r.Results {
			if v.Pos().IsValid() {
				return v.Pos()
			}
		}
	}
	return in.Parent().Pos()
}

// RunPhiSensitive is kept for its callers; Run is path-sensitive itself.
func (q *Cut) RunPhiSensitive(c *Ctx) (string, int) { return q.Run(c) }

// trackedConds: per function, the boolean values worth remembering along a
// path: conditions tested by more than one If (an SSA value is immutable, so
// it has the same truth at both), boolean phis that are tested, and the phis
// feeding them.
type condInfo struct {
	multi map[string]bool   // canonical conditions tested by >= 2 Ifs (or feeding a tested phi)
	phis  map[*ssa.Phi]bool // bool phis tested by an If, or feeding one
}

// condCanon: a canonical spelling of a pure boolean expression over SSA
// values (go/ssa does no common-subexpression elimination: `c == nil` written
// twice is two instructions with the same meaning), and the values it reads.
func condCanon(v ssa.Value) (string, []ssa.Value) {
	return condCanonD(v, 0)
}

func condCanonD(v ssa.Value, d int) (string, []ssa.Value) {
	if d > 6 {
		return v.Name(), []ssa.Value{v}
	}
	switch x := v.(type) {
	case *ssa.Const:
		if x.Value == nil {
			return "nil", nil
		}
		return x.Value.ExactString(), nil
	case *ssa.ChangeType:
		return condCanonD(x.X, d+1)
	case *ssa.BinOp:
		switch x.Op {
		case token.EQL, token.NEQ, token.LSS, token.LEQ, token.GTR, token.GEQ, token.ADD, token.SUB, token.AND, token.OR:
			a, la := condCanonD(x.X, d+1)
			b, lb := condCanonD(x.Y, d+1)
			if (x.Op == token.EQL || x.Op == token.NEQ || x.Op == token.ADD) && b < a {
				a, b = b, a
			}
			return "(" + a + x.Op.String() + b + ")", append(append([]ssa.Value{v}, la...), lb...)
		}
	case *ssa.UnOp:
		if x.Op == token.NOT {
			a, la := condCanonD(x.X, d+1)
			return "!" + a, append([]ssa.Value{v}, la...)
		}
	}
	return uniqName(v), []ssa.Value{v}
}

// names unique across functions (the search may walk into helpers)
var fnIDs = map[*ssa.Function]int{}

func fnID(p *ssa.Function) int {
	id, ok := fnIDs[p]
	if !ok {
		id = len(fnIDs) + 1
		fnIDs[p] = id
	}
	return id
}

func uniqName(v ssa.Value) string {
	p := v.Parent()
	if p == nil {
		return v.Name()
	}
	return fmt.Sprintf("%s@%d", v.Name(), fnID(p))
}

// inlinable: a module function that did not exist at the pinned commit — a helper extracted since. The search
// walks through a plain call of such a function as if its body stood at the call ("a step moved into a helper is
// still the step", for every rule at once): callee returns continue after the call, and a boolean result is bound
// to what the callee returned on that path.
func inlinable(g *ssa.Function) bool {
	if g == nil || g.Blocks == nil || g.Pkg == nil {
		return false
	}
	path := g.Pkg.Pkg.Path()
	if !strings.HasPrefix(path+"/", Mod) {
		return false
	}
	if g.Parent() == nil && strings.HasSuffix(path, controlsPkg) {
		return false
	}
	if g.Parent() != nil {
		// a closure's ordinal name shifts when another closure is added before it, so the pinned table cannot tell
		// an old closure from a new one; walking a plainly called closure as if its body stood at the call is what
		// the call means, whichever it is (go / defer / stored closures are never walked)
		return true
	}
	return !isPinnedFn(fnKey(g))
}

func hasInlinableCall(f *ssa.Function) bool {
	found := false
	allInstrsIn(f, func(in ssa.Instruction) {
		if call, ok := in.(*ssa.Call); ok && len(walkTargets(call)) > 0 {
			found = true
		}
	})
	return found
}

type cutFrame struct {
	call   *ssa.Call
	retB   *ssa.BasicBlock
	retI   int
	parent *cutFrame
	fn     *ssa.Function // the function walked into (the static callee, or one of the literals a function variable may hold)
}

func (f *cutFrame) callee() *ssa.Function {
	if f.fn != nil {
		return f.fn
	}
	return f.call.Call.StaticCallee()
}

func (f *cutFrame) depth() int {
	n := 0
	for ; f != nil; f = f.parent {
		n++
	}
	return n
}

func (f *cutFrame) has(g *ssa.Function) bool {
	for ; f != nil; f = f.parent {
		if f.callee() == g {
			return true
		}
	}
	return false
}

func (f *cutFrame) sig() string {
	s := ""
	for ; f != nil; f = f.parent {
		s += fmt.Sprintf("%p:%p/", f.call, f.fn)
	}
	return s
}

var condInfoMemo = map[*ssa.Function]*condInfo{}

func condInfoOf(f *ssa.Function) *condInfo {
	if ci, ok := condInfoMemo[f]; ok {
		return ci
	}
	ci := &condInfo{multi: map[string]bool{}, phis: map[*ssa.Phi]bool{}}
	count := map[string]int{}
	var addPhi func(p *ssa.Phi)
	addPhi = func(p *ssa.Phi) {
		if ci.phis[p] {
			return
		}
		ci.phis[p] = true
		for _, e := range p.Edges {
			eb, _ := stripNotRaw(e)
			if q, ok := eb.(*ssa.Phi); ok {
				addPhi(q)
			}
		}
	}
	for _, b := range f.Blocks {
		// a boolean phi that is returned: a caller that walks into this function binds its result to the operand
		if len(b.Instrs) > 0 {
			if ret, ok := b.Instrs[len(b.Instrs)-1].(*ssa.Return); ok {
				for _, r := range ret.Results {
					// a nil test of a value that is returned: the caller's own nil test of the result has the same outcome
					for _, cmp := range nilTestsOf(r) {
						k, _ := condCanon(cmp)
						ci.multi[k] = true
					}
					rb, _ := stripNotRaw(r)
					if p, ok := rb.(*ssa.Phi); ok {
						if bt, isB := p.Type().Underlying().(*types.Basic); isB && bt.Kind() == types.Bool {
							addPhi(p)
						}
					}
				}
			}
		}
		i := ifOf(b)
		if i == nil {
			continue
		}
		base, _ := stripNotRaw(i.Cond)
		k, _ := condCanon(base)
		count[k]++
		if p, ok := base.(*ssa.Phi); ok {
			addPhi(p)
		}
		// `x != nil` / `x == y` on a phi x (an error assigned on two branches, then tested once): the path knows
		// which operand x stands for
		if bo, ok := base.(*ssa.BinOp); ok && (bo.Op == token.EQL || bo.Op == token.NEQ) {
			for _, o := range []ssa.Value{bo.X, bo.Y} {
				if p, ok := o.(*ssa.Phi); ok {
					ci.phis[p] = true
				}
			}
		}
	}
	for k, n := range count {
		if n >= 2 {
			ci.multi[k] = true
		}
	}
	// nil tests of the operands of a phi that is itself compared with nil: the path remembers their outcome
	for p := range ci.phis {
		if bt, isB := p.Type().Underlying().(*types.Basic); isB && bt.Kind() == types.Bool {
			continue
		}
		for _, e := range p.Edges {
			for _, cmp := range nilTestsOf(e) {
				k, _ := condCanon(cmp)
				ci.multi[k] = true
			}
		}
	}
	// operands of tracked phis that are themselves conditions elsewhere
	for p := range ci.phis {
		for _, e := range p.Edges {
			eb, _ := stripNotRaw(e)
			k, _ := condCanon(eb)
			if count[k] >= 1 {
				ci.multi[k] = true
			}
		}
	}
	condInfoMemo[f] = ci
	return ci
}

type knownCond struct {
	val    bool
	leaves []ssa.Value
}

type psEnv struct {
	known map[string]knownCond
	phiOp map[*ssa.Phi]ssa.Value
	// alias: the boolean result of a helper the search walked through stands for the (non-constant) boolean the
	// helper returned on this path (`return a || b` on the path where a was false: the result is b)
	alias map[ssa.Value]ssa.Value
}

func (e psEnv) clone() psEnv {
	n := psEnv{known: make(map[string]knownCond, len(e.known)), phiOp: make(map[*ssa.Phi]ssa.Value, len(e.phiOp))}
	for k, v := range e.known {
		n.known[k] = v
	}
	for k, v := range e.phiOp {
		n.phiOp[k] = v
	}
	if len(e.alias) > 0 {
		n.alias = make(map[ssa.Value]ssa.Value, len(e.alias))
		for k, v := range e.alias {
			n.alias[k] = v
		}
	}
	return n
}

func (e psEnv) sig() string {
	var ks []string
	for k, v := range e.known {
		ks = append(ks, fmt.Sprintf("%s=%v", k, v.val))
	}
	for k, v := range e.phiOp {
		ks = append(ks, fmt.Sprintf("%s:%s", uniqName(k), uniqName(v)))
	}
	for k, v := range e.alias {
		ks = append(ks, fmt.Sprintf("%s~%s", uniqName(k), uniqName(v)))
	}
	sortStrings(ks)
	return strings.Join(ks, ",")
}

// Run returns (witness, examinedEdges). witness == "" means the cut holds.
//
// The search is path-sensitive in three cheap ways, all consequences of SSA
// values being immutable: (1) a condition value tested by two Ifs has the
// same outcome at both; (2) a boolean phi carries, on a given path, the
// operand of the edge the path came over — an If on the phi is then an If on
// that operand: constant operands fix the branch, a comparison operand lets
// the edge predicates (guards) be evaluated on the comparison itself; (3)
// Assume fixes values up front. When the state space exceeds the budget the
// path-insensitive search decides (it explores a superset of the paths).
func (q *Cut) Run(c *Ctx) (string, int) {
	if len(q.Fn.Blocks) == 0 {
		return "", 0
	}
	if isScanRoot(q.Fn) && !scanBusy {
		savedRoot := scanRoot
		scanRoot = q.Fn
		defer func() { scanRoot = savedRoot }()
	}
	ci := condInfoOf(q.Fn)
	if len(ci.multi) == 0 && len(ci.phis) == 0 && !hasInlinableCall(q.Fn) {
		return q.runInsensitive(c)
	}
	ciOf := func(fn *ssa.Function) *condInfo {
		if fn == nil {
			return ci
		}
		return condInfoOf(fn)
	}
	type item struct {
		l     loc
		e     psEnv
		prev  *cutItem
		stack *cutFrame
	}
	fromSet := map[ssa.Instruction]bool{}
	for _, f := range q.From {
		fromSet[f] = true
	}
	var work []*item
	seen := map[string]bool{}
	budget := 60000
	overflow := false
	var curStack *cutFrame // the frame stack of the item being expanded (push inherits it unless told otherwise)
	var push func(b *ssa.BasicBlock, i int, e psEnv, prev *cutItem)
	pushS := func(b *ssa.BasicBlock, i int, e psEnv, prev *cutItem, st *cutFrame) {
		old := curStack
		curStack = st
		push(b, i, e, prev)
		curStack = old
	}
	push = func(b *ssa.BasicBlock, i int, e psEnv, prev *cutItem) {
		k := fmt.Sprintf("%d|%d|%d|%s|%s", fnID(b.Parent()), b.Index, i, curStack.sig(), e.sig())
		if seen[k] {
			return
		}
		if len(seen) > budget {
			overflow = true
			return
		}
		seen[k] = true
		work = append(work, &item{loc{b, i}, e, &cutItem{l: loc{b, i}, prev: prev}, curStack})
	}
	// truth of a boolean value on the current path
	var truth func(v ssa.Value, e psEnv, d int) (bool, bool)
	truth = func(v ssa.Value, e psEnv, d int) (bool, bool) {
		if d > 6 {
			return false, false
		}
		base, neg := stripNotRaw(v)
		if b, ok := constBool(base); ok {
			return b != neg, true
		}
		if t, ok := q.Assume[base]; ok {
			return t != neg, true
		}
		if len(q.Assume) > 0 {
			// (the assumed value read through a variable's cell, e.g. inside a local predicate)
			if r := resolveLoad(base); r != base {
				if t, ok := q.Assume[r]; ok {
					return t != neg, true
				}
			}
		}
		if kc, ok := e.known[func() string { k, _ := condCanon(base); return k }()]; ok {
			return kc.val != neg, true
		}
		if p, ok := base.(*ssa.Phi); ok {
			if op, ok := e.phiOp[p]; ok && op != ssa.Value(p) {
				if t, ok := truth(op, e, d+1); ok {
					return t != neg, true
				}
			}
		}
		// `x != nil` on a phi x (an error assigned on several branches, tested once at the end): on this path x is
		// the operand it received, whose nil-ness an earlier test of that operand may have settled
		if bo, ok := base.(*ssa.BinOp); ok && (bo.Op == token.EQL || bo.Op == token.NEQ) {
			var p *ssa.Phi
			switch {
			case isNilConst(bo.Y):
				p, _ = bo.X.(*ssa.Phi)
			case isNilConst(bo.X):
				p, _ = bo.Y.(*ssa.Phi)
			}
			if p != nil {
				if op, bound := e.phiOp[p]; bound && op != ssa.Value(p) {
					isNil, known := false, false
					switch {
					case isNilConst(op):
						isNil, known = true, true
					case types.Identical(op.Type(), types.Universe.Lookup("error").Type()) && !errMayBeNil(op, 0):
						isNil, known = false, true
					default:
						for _, cmp := range nilTestsOf(op) {
							k, _ := condCanon(cmp)
							if kc, ok := e.known[k]; ok {
								isNil, known = kc.val == (cmp.Op == token.EQL), true
							}
						}
					}
					if known {
						return ((bo.Op == token.EQL) == isNil) != neg, true
					}
				}
			}
		}
		if op, ok := e.alias[base]; ok && op != base {
			if t, ok := truth(op, e, d+1); ok {
				return t != neg, true
			}
		}
		return false, false
	}
	learn := func(e psEnv, v ssa.Value, t bool) {
		base, neg := stripNotRaw(v)
		t = t != neg
		ci := ciOf(base.Parent())
		if k, leaves := condCanon(base); ci.multi[k] {
			e.known[k] = knownCond{t, leaves}
		}
		if p, ok := base.(*ssa.Phi); ok {
			if op, ok := e.phiOp[p]; ok && op != ssa.Value(p) {
				ob, oneg := stripNotRaw(op)
				if _, isC := ob.(*ssa.Const); !isC {
					if k, leaves := condCanon(ob); ci.multi[k] {
						e.known[k] = knownCond{t != oneg, leaves}
					}
				}
			}
		}
	}
	enter := func(from, to *ssa.BasicBlock, e psEnv) psEnv {
		idx := -1
		for i, p := range to.Preds {
			if p == from {
				idx = i
			}
		}
		var upd map[*ssa.Phi]ssa.Value
		for _, in := range to.Instrs {
			p, ok := in.(*ssa.Phi)
			if !ok {
				break
			}
			if !ciOf(to.Parent()).phis[p] || idx < 0 || idx >= len(p.Edges) {
				continue
			}
			op := p.Edges[idx]
			if qphi, isPhi := op.(*ssa.Phi); isPhi {
				if r, ok := e.phiOp[qphi]; ok {
					op = r
				}
			}
			if upd == nil {
				upd = map[*ssa.Phi]ssa.Value{}
			}
			upd[p] = op
		}
		if upd == nil {
			return e
		}
		ne := e.clone()
		for p, op := range upd {
			ne.phiOp[p] = op
		}
		return ne
	}
	// evaluate an edge predicate, also on the operand a phi condition stands for
	evalEdge := func(pred EdgePred, b *ssa.BasicBlock, s int, e psEnv) bool {
		if pred == nil {
			return false
		}
		if pred(b, s) {
			return true
		}
		i := ifOf(b)
		if i == nil {
			return false
		}
		base, neg := stripNotRaw(i.Cond)
		if bo, isB := base.(*ssa.BinOp); isB && (bo.Op == token.EQL || bo.Op == token.NEQ) {
			// a comparison of a (non-boolean) phi: evaluate the predicate with the phi standing for its operand
			var set []*ssa.Phi
			for _, o := range []ssa.Value{bo.X, bo.Y} {
				if p, isPhi := o.(*ssa.Phi); isPhi {
					if op, bound := e.phiOp[p]; bound && op != ssa.Value(p) {
						if _, already := valueOverride[p]; !already {
							valueOverride[p] = op
							set = append(set, p)
						}
					}
				}
			}
			if len(set) > 0 {
				r := pred(b, s)
				for _, p := range set {
					delete(valueOverride, p)
				}
				return r
			}
			return false
		}
		var op ssa.Value
		if p, isPhi := base.(*ssa.Phi); isPhi {
			o, ok := e.phiOp[p]
			if !ok || o == ssa.Value(p) {
				return false
			}
			op = o
		} else if o, ok := e.alias[base]; ok && o != base {
			op = o
		} else {
			return false
		}
		// the operand may itself be (the negation of) a boolean phi that received its operand earlier on the
		// path: `ok := g != nil && !(a() && b())` is a phi of a negated phi
		for d := 0; d < 6; d++ {
			b2, n2 := stripNotRaw(op)
			q, isPhi := b2.(*ssa.Phi)
			if !isPhi {
				break
			}
			op2, bound := e.phiOp[q]
			if !bound || op2 == ssa.Value(q) {
				return false
			}
			op = op2
			if n2 {
				neg = !neg
			}
		}
		if b2, n2 := stripNotRaw(op); n2 {
			op = b2
			neg = !neg
		}
		if _, isC := op.(*ssa.Const); isC {
			return false
		}
		if _, isPhi := op.(*ssa.Phi); isPhi {
			return false
		}
		s2 := s
		if neg {
			s2 = 1 - s
		}
		// (a predicate that names the edge by position, e.g. edgeSet, does not look at the condition: it has
		// answered above, and must not be asked about the mirrored successor; nor must one that sees through the
		// alias by itself and has just answered for this successor)
		if s2 != s && pred(b, s2) {
			return false
		}
		condOverride[b] = op
		r := pred(b, s2)
		delete(condOverride, b)
		return r
	}
	start := psEnv{known: map[string]knownCond{}, phiOp: map[*ssa.Phi]ssa.Value{}}
	if len(q.From) == 0 && len(q.FromEdges) == 0 {
		push(q.Fn.Blocks[0], 0, start, nil)
	}
	// a path that starts inside the function has already taken the branches that dominate its start
	dominating := func(e psEnv, b *ssa.BasicBlock) {
		for blk := b; blk != nil && blk.Idom() != nil; blk = blk.Idom() {
			d := blk.Idom()
			i := ifOf(d)
			if i == nil || d.Succs[0] == d.Succs[1] {
				continue
			}
			for s := 0; s < 2; s++ {
				succ := d.Succs[s]
				if len(succ.Preds) == 1 && succ.Dominates(b) {
					// the definition of the condition dominates the test, the test's edge dominates the start: whatever
					// iteration we are in, the last evaluation of the test before reaching the start took this edge
					learn(e, i.Cond, s == 0)
				}
			}
		}
	}
	// a start point inside a helper the search walks into (found by the deep findInstrs): begin there with the
	// frames of the call(s) that lead to it, so that the helper's return continues in q.Fn
	framesTo := func(target *ssa.Function) []*cutFrame {
		var out []*cutFrame
		var walk func(g *ssa.Function, parent *cutFrame, depth int)
		walk = func(g *ssa.Function, parent *cutFrame, depth int) {
			for _, b := range g.Blocks {
				for i, in := range b.Instrs {
					call, ok := in.(*ssa.Call)
					if !ok {
						continue
					}
					for _, h := range walkTargets(call) {
						if parent.has(h) || h == q.Fn {
							continue
						}
						fr := &cutFrame{call: call, retB: b, retI: i + 1, parent: parent, fn: h}
						if h == target {
							out = append(out, fr)
						} else if depth < 1 {
							walk(h, fr, depth+1)
						}
					}
				}
			}
		}
		walk(q.Fn, nil, 0)
		return out
	}
	for _, f := range q.From {
		e := start.clone()
		if f.Parent() != q.Fn {
			if frs := framesTo(f.Parent()); len(frs) > 0 {
				for _, fr := range frs {
					pushS(f.Block(), instrIndex(f)+1, e, nil, fr)
				}
				continue
			}
		}
		dominating(e, f.Block())
		push(f.Block(), instrIndex(f)+1, e, nil)
	}
	for _, fe := range q.FromEdges {
		t := fe.B.Succs[fe.Succ]
		e := start.clone()
		dominating(e, fe.B)
		if i := ifOf(fe.B); i != nil {
			learn(e, i.Cond, fe.Succ == 0)
		}
		if fe.B.Parent() != q.Fn {
			if frs := framesTo(fe.B.Parent()); len(frs) > 0 {
				for _, fr := range frs {
					pushS(t, 0, enter(fe.B, t, e), nil, fr)
				}
				continue
			}
		}
		push(t, 0, enter(fe.B, t, e), nil)
	}
	examined := 0
	savedArgs := frameArgs
	savedSites := frameSite
	defer func() { frameArgs = savedArgs; frameSite = savedSites }()
	for len(work) > 0 && !overflow {
		it := work[0]
		work = work[1:]
		b := it.l.b
		curStack = it.stack
		// (predicates may run searches of their own, on other functions: this search's root again)
		if isScanRoot(q.Fn) && !scanBusy {
			scanRoot = q.Fn
		}
		// predicates evaluated below see the helper's parameters as the call's arguments
		frameArgs = savedArgs
		frameSite = savedSites
		if it.stack != nil {
			frameSite = map[*ssa.Function]*ssa.Call{}
			for k, v := range savedSites {
				frameSite[k] = v
			}
			for fr := it.stack; fr != nil; fr = fr.parent {
				if g := fr.callee(); g != nil && g.Parent() != nil {
					frameSite[g] = fr.call
				}
			}
			frameArgs = map[*ssa.Parameter]ssa.Value{}
			for k, v := range savedArgs {
				frameArgs[k] = v
			}
			for fr := it.stack; fr != nil; fr = fr.parent {
				if g := fr.callee(); g != nil {
					for i, p := range g.Params {
						if i < len(fr.call.Call.Args) {
							frameArgs[p] = fr.call.Call.Args[i]
						}
					}
				}
			}
		}
		stopped := false
		for i := it.l.i; i < len(b.Instrs); i++ {
			in := b.Instrs[i]
			if ret, isRet := in.(*ssa.Return); isRet && it.stack != nil {
				// the end of a helper the search walked into: go on after the call, with its boolean results bound to
				// what was returned on this path
				fr := it.stack
				ne := it.e.clone()
				bind := func(v ssa.Value, res ssa.Value) {
					if bt, isB := v.Type().Underlying().(*types.Basic); !isB || bt.Kind() != types.Bool {
						return
					}
					// (a result spilled through a cell by `defer`: what was stored for this return)
					if t, ok := truth(strip(res), it.e, 0); ok {
						k, _ := condCanon(v)
						ne.known[k] = knownCond{t, []ssa.Value{fr.call}}
						return
					}
					// not known: the result is the boolean the helper computed last on this path
					op := strip(res)
					for d := 0; d < 4; d++ {
						p, isPhi := op.(*ssa.Phi)
						if !isPhi {
							break
						}
						o2, bound := it.e.phiOp[p]
						if !bound || o2 == ssa.Value(p) {
							return
						}
						op = o2
					}
					if _, isC := op.(*ssa.Const); !isC {
						if ne.alias == nil {
							ne.alias = map[ssa.Value]ssa.Value{}
						}
						ne.alias[v] = op
					}
				}
				// ... and the nil-ness of a returned error / pointer, when the path knows it, to the caller's nil tests
				bindNil := func(v ssa.Value, res ssa.Value) {
					var isNil, known bool
					switch {
					case isNilConst(strip(res)):
						isNil, known = true, true
					case !errMayBeNil(res, 0) && types.Identical(res.Type(), types.Universe.Lookup("error").Type()):
						isNil, known = false, true
					default:
						for _, cmp := range nilTestsOf(res) {
							k, _ := condCanon(cmp)
							if kc, ok := it.e.known[k]; ok {
								isNil, known = kc.val == (cmp.Op == token.EQL), true
							}
						}
					}
					if !known {
						return
					}
					for _, cmp := range nilTestsOf(v) {
						k, _ := condCanon(cmp)
						// (valid until the call is executed again)
						ne.known[k] = knownCond{(cmp.Op == token.EQL) == isNil, []ssa.Value{fr.call}}
					}
				}
				if len(ret.Results) == 1 {
					bind(fr.call, ret.Results[0])
					bindNil(fr.call, ret.Results[0])
				} else if refs := fr.call.Referrers(); refs != nil {
					for _, r := range *refs {
						if ex, ok := r.(*ssa.Extract); ok && ex.Index < len(ret.Results) {
							bind(ex, ret.Results[ex.Index])
							bindNil(ex, ret.Results[ex.Index])
						}
					}
				}
				pushS(fr.retB, fr.retI, ne, it.prev, fr.parent)
				stopped = true
				break
			}
			// a value that is computed again (loop iteration) is a new run-time value: forget the old one
			if v, isV := in.(ssa.Value); isV {
				stale := false
				for _, kc := range it.e.known {
					for _, l := range kc.leaves {
						if l == v {
							stale = true
						}
					}
				}
				for _, op := range it.e.phiOp {
					if op == v {
						stale = true
					}
				}
				if _, aliased := it.e.alias[v]; aliased {
					stale = true
				}
				if stale {
					ne := it.e.clone()
					for k, kc := range ne.known {
						for _, l := range kc.leaves {
							if l == v {
								delete(ne.known, k)
								break
							}
						}
					}
					for p, op := range ne.phiOp {
						if op == v {
							delete(ne.phiOp, p)
						}
					}
					delete(ne.alias, v)
					it.e = ne
				}
			}
			if q.Target != nil && q.Target(in) {
				return q.witness(c, it.prev, in), examined
			}
			if q.Sep != nil && q.Sep(in) {
				if os.Getenv("LP2P_DEBUG_CUT") == fnKey(q.Fn) {
					fmt.Printf("CUT sep at b%d: %s\n", b.Index, describeInstr(in))
				}
				stopped = true
				break
			}
			if q.StopAtFrom && fromSet[in] {
				stopped = true
				break
			}
			if call, isCall := in.(*ssa.Call); isCall && it.stack.depth() < 2 {
				walked := false
				for _, g := range walkTargets(call) {
					if !it.stack.has(g) && g != q.Fn {
						pushS(g.Blocks[0], 0, it.e, it.prev, &cutFrame{call: call, retB: b, retI: i + 1, parent: it.stack, fn: g})
						walked = true
					}
				}
				if walked {
					stopped = true
					break
				}
			}
		}
		if stopped {
			continue
		}
		ifi := ifOf(b)
		for s, succ := range b.Succs {
			examined++
			if ifi != nil {
				if t, ok := truth(ifi.Cond, it.e, 0); ok && t != (s == 0) {
					continue // infeasible on this path
				}
			}
			if evalEdge(q.EdgeCut, b, s, it.e) {
				if os.Getenv("LP2P_DEBUG_CUT") == fnKey(q.Fn) {
					fmt.Printf("CUT edge b%d->b%d removed\n", b.Index, succ.Index)
				}
				continue
			}
			if evalEdge(q.TargetEdge, b, s, it.e) {
				return q.witnessEdge(c, it.prev, b, s), examined
			}
			ne := it.e
			if ifi != nil {
				base, _ := stripNotRaw(ifi.Cond)
				_, isPhi := base.(*ssa.Phi)
				if k, _ := condCanon(base); ciOf(b.Parent()).multi[k] || isPhi {
					ne = it.e.clone()
					learn(ne, ifi.Cond, s == 0)
				}
			}
			push(succ, 0, enter(b, succ, ne), it.prev)
		}
	}
	if overflow {
		return q.runInsensitive(c)
	}
	return "", examined
}

func sortStrings(s []string) {
	for i := 1; i < len(s); i++ {
		for j := i; j > 0 && s[j] < s[j-1]; j-- {
			s[j], s[j-1] = s[j-1], s[j]
		}
	}
}

// nilTestsOf: the comparisons of v with nil in v's function (`v != nil`, `nil == v`).
func nilTestsOf(v ssa.Value) []*ssa.BinOp {
	refs := v.Referrers()
	if refs == nil {
		return nil
	}
	var out []*ssa.BinOp
	for _, r := range *refs {
		bo, ok := r.(*ssa.BinOp)
		if !ok || (bo.Op != token.EQL && bo.Op != token.NEQ) {
			continue
		}
		if (bo.X == v && isNilConst(bo.Y)) || (bo.Y == v && isNilConst(bo.X)) {
			out = append(out, bo)
		}
	}
	// through a local cell: `*cell = v; t = *cell; t != nil` (a variable captured by a closure, a named result)
	for _, r := range *refs {
		st, ok := r.(*ssa.Store)
		if !ok || st.Val != v {
			continue
		}
		al, ok := st.Addr.(*ssa.Alloc)
		if !ok {
			continue
		}
		for _, r2 := range *al.Referrers() {
			if ld, ok := r2.(*ssa.UnOp); ok && ld.Op == token.MUL && loadedValue(ld) == v {
				out = append(out, nilTestsOf(ld)...)
			}
		}
	}
	return out
}
