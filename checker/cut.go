package main

import (
	"fmt"
	"os"
	"go/token"
	"strings"

	"golang.org/x/tools/go/ssa"
)

// Cut is the single CFG separation query of engine E1: starting after the
// From instructions (or at function entry), can a Target instruction be
// reached without crossing a separator instruction and without taking a
// favourable edge?  If yes, Run returns a witness path.
type Cut struct {
	Fn         *ssa.Function
	From       []ssa.Instruction // nil => function entry
	FromEdges  []CFGEdge         // additionally: start at the head of these edges' targets
	Target     func(ssa.Instruction) bool
	TargetEdge EdgePred                   // alternatively: reaching (taking) one of these edges
	Sep        func(ssa.Instruction) bool // node separators (may be nil)
	EdgeCut    EdgePred                   // favourable edges, removed (may be nil)
	// StopAtFrom: re-entering a From instruction ends the path (per-iteration
	// regions in accept loops).
	StopAtFrom bool
	// Assume (E1b): SSA booleans with a fixed truth value on the paths of
	// interest; If-edges contradicting the assumption are pruned.
	Assume map[ssa.Value]bool
}

type CFGEdge struct {
	B    *ssa.BasicBlock
	Succ int
}

type loc struct {
	b *ssa.BasicBlock
	i int
}

// Run returns (witness, examinedEdges). witness == "" means the cut holds.
func (q *Cut) Run(c *Ctx) (string, int) {
	type item = cutItem
	fromSet := map[ssa.Instruction]bool{}
	for _, f := range q.From {
		fromSet[f] = true
	}
	var work []*item
	visitedBlockStart := map[*ssa.BasicBlock]bool{}
	if len(q.From) == 0 && len(q.FromEdges) == 0 {
		if len(q.Fn.Blocks) == 0 {
			return "", 0
		}
		work = append(work, &item{l: loc{q.Fn.Blocks[0], 0}})
		visitedBlockStart[q.Fn.Blocks[0]] = true
	}
	for _, f := range q.From {
		work = append(work, &item{l: loc{f.Block(), instrIndex(f) + 1}})
	}
	for _, e := range q.FromEdges {
		t := e.B.Succs[e.Succ]
		if !visitedBlockStart[t] {
			visitedBlockStart[t] = true
			work = append(work, &item{l: loc{t, 0}})
		}
	}
	examined := 0
	for len(work) > 0 {
		it := work[0]
		work = work[1:]
		b := it.l.b
		stopped := false
		for i := it.l.i; i < len(b.Instrs); i++ {
			in := b.Instrs[i]
			if q.Target != nil && q.Target(in) {
				return q.witness(c, it, in), examined
			}
			if q.Sep != nil && q.Sep(in) {
				if os.Getenv("LP2P_DEBUG_CUT") == fnKey(q.Fn) {
					fmt.Printf("CUT sep at b%d: %s\n", b.Index, describeInstr(in))
				}
				stopped = true
				break
			}
			if q.StopAtFrom && fromSet[in] {
				stopped = true
				break
			}
		}
		if stopped {
			continue
		}
		for s, succ := range b.Succs {
			examined++
			if q.EdgeCut != nil && q.EdgeCut(b, s) {
				if os.Getenv("LP2P_DEBUG_CUT") == fnKey(q.Fn) {
					fmt.Printf("CUT edge b%d->b%d removed\n", b.Index, succ.Index)
				}
				continue
			}
			if q.contradicts(b, s) {
				continue
			}
			if q.TargetEdge != nil && q.TargetEdge(b, s) {
				return q.witnessEdge(c, it, b, s), examined
			}
			if visitedBlockStart[succ] {
				continue
			}
			visitedBlockStart[succ] = true
			work = append(work, &item{l: loc{succ, 0}, prev: it})
		}
	}
	return "", examined
}

func (q *Cut) contradicts(b *ssa.BasicBlock, s int) bool {
	if len(q.Assume) == 0 {
		return false
	}
	i := ifOf(b)
	if i == nil {
		return false
	}
	base, neg := stripNot(i.Cond)
	want, ok := q.Assume[base]
	if !ok {
		return false
	}
	// edge 0 is taken when cond is true, i.e. base == !neg
	taken := (s == 0) != neg
	return taken != want
}

type cutItem struct {
	l    loc
	prev *cutItem
}

func (q *Cut) witness(c *Ctx, it *cutItem, target ssa.Instruction) string {
	var parts []string
	for p := it; p != nil; p = p.prev {
		parts = append([]string{fmt.Sprintf("b%d", p.l.b.Index)}, parts...)
	}
	if len(parts) > 14 {
		parts = append(append(parts[:6:6], "…"), parts[len(parts)-6:]...)
	}
	return fmt.Sprintf("%s reaches `%s` at %s via %s", q.startDesc(), describeInstr(target), c.Pos(instrPos(target)), strings.Join(parts, "→"))
}

func (q *Cut) witnessEdge(c *Ctx, it *cutItem, b *ssa.BasicBlock, s int) string {
	var parts []string
	for p := it; p != nil; p = p.prev {
		parts = append([]string{fmt.Sprintf("b%d", p.l.b.Index)}, parts...)
	}
	pos := token.NoPos
	if len(b.Instrs) > 0 {
		pos = instrPos(b.Instrs[len(b.Instrs)-1])
	}
	return fmt.Sprintf("%s reaches edge b%d→b%d at %s via %s", q.startDesc(), b.Index, b.Succs[s].Index, c.Pos(pos), strings.Join(parts, "→"))
}

func (q *Cut) startDesc() string {
	if len(q.From) == 0 && len(q.FromEdges) == 0 {
		return "entry"
	}
	if len(q.From) > 0 {
		return describeInstr(q.From[0])
	}
	return fmt.Sprintf("edge b%d→b%d", q.FromEdges[0].B.Index, q.FromEdges[0].B.Succs[q.FromEdges[0].Succ].Index)
}

func describeInstr(in ssa.Instruction) string {
	switch x := in.(type) {
	case ssa.CallInstruction:
		k := calleeKey(x)
		if k == "" {
			k = "dynamic call"
		}
		switch in.(type) {
		case *ssa.Go:
			return "go " + k
		case *ssa.Defer:
			return "defer " + k
		}
		return "call " + k
	case *ssa.Return:
		var rs []string
		for i := range x.Results {
			rs = append(rs, describeVal(retVal(x, i)))
		}
		return "return " + strings.Join(rs, ", ")
	case *ssa.Store:
		if f, base := fieldAddrOf(x.Addr); f != nil {
			return "store " + fieldKeyOf(base, f)
		}
		return "store"
	case *ssa.MapUpdate:
		return "map update"
	case *ssa.Send:
		return "send"
	case *ssa.Panic:
		return "panic"
	}
	return fmt.Sprintf("%T", in)
}

func instrPos(in ssa.Instruction) token.Pos {
	if in.Pos().IsValid() {
		return in.Pos()
	}
	// fall back to the nearest instruction with a position in the block
	b := in.Block()
	idx := instrIndex(in)
	for i := idx; i >= 0; i-- {
		if b.Instrs[i].Pos().IsValid() {
			return b.Instrs[i].Pos()
		}
	}
	for i := idx; i < len(b.Instrs); i++ {
		if b.Instrs[i].Pos().IsValid() {
			return b.Instrs[i].Pos()
		}
	}
	if r, ok := in.(*ssa.Return); ok {
		for _, v := range r.Results {
			if v.Pos().IsValid() {
				return v.Pos()
			}
		}
	}
	return in.Parent().Pos()
}
