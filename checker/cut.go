package main

import (
	"fmt"
	"go/token"
	"os"
	"strings"

	"golang.org/x/tools/go/ssa"
)

// Cut is the single CFG separation query of engine E1: starting after the
// From instructions (or at function entry), can a Target instruction be
// reached without crossing a separator instruction and without taking a
// favourable edge?  If yes, Run returns a witness path.
type Cut struct {
	Fn         *ssa.Function
	From       []ssa.Instruction // nil => function entry
	FromEdges  []CFGEdge         // additionally: start at the head of these edges' targets
	Target     func(ssa.Instruction) bool
	TargetEdge EdgePred                   // alternatively: reaching (taking) one of these edges
	Sep        func(ssa.Instruction) bool // node separators (may be nil)
	EdgeCut    EdgePred                   // favourable edges, removed (may be nil)
	// StopAtFrom: re-entering a From instruction ends the path (per-iteration
	// regions in accept loops).
	StopAtFrom bool
	// Assume (E1b): SSA booleans with a fixed truth value on the paths of
	// interest; If-edges contradicting the assumption are pruned.
	Assume map[ssa.Value]bool
}

type CFGEdge struct {
	B    *ssa.BasicBlock
	Succ int
}

type loc struct {
	b *ssa.BasicBlock
	i int
}

// Run returns (witness, examinedEdges). witness == "" means the cut holds.
func (q *Cut) Run(c *Ctx) (string, int) {
	type item = cutItem
	fromSet := map[ssa.Instruction]bool{}
	for _, f := range q.From {
		fromSet[f] = true
	}
	var work []*item
	visitedBlockStart := map[*ssa.BasicBlock]bool{}
	if len(q.From) == 0 && len(q.FromEdges) == 0 {
		if len(q.Fn.Blocks) == 0 {
			return "", 0
		}
		work = append(work, &item{l: loc{q.Fn.Blocks[0], 0}})
		visitedBlockStart[q.Fn.Blocks[0]] = true
	}
	for _, f := range q.From {
		work = append(work, &item{l: loc{f.Block(), instrIndex(f) + 1}})
	}
	for _, e := range q.FromEdges {
		t := e.B.Succs[e.Succ]
		if !visitedBlockStart[t] {
			visitedBlockStart[t] = true
			work = append(work, &item{l: loc{t, 0}})
		}
	}
	examined := 0
	for len(work) > 0 {
		it := work[0]
		work = work[1:]
		b := it.l.b
		stopped := false
		for i := it.l.i; i < len(b.Instrs); i++ {
			in := b.Instrs[i]
			if q.Target != nil && q.Target(in) {
				return q.witness(c, it, in), examined
			}
			if q.Sep != nil && q.Sep(in) {
				if os.Getenv("LP2P_DEBUG_CUT") == fnKey(q.Fn) {
					fmt.Printf("CUT sep at b%d: %s\n", b.Index, describeInstr(in))
				}
				stopped = true
				break
			}
			if q.StopAtFrom && fromSet[in] {
				stopped = true
				break
			}
		}
		if stopped {
			continue
		}
		for s, succ := range b.Succs {
			examined++
			if q.EdgeCut != nil && q.EdgeCut(b, s) {
				if os.Getenv("LP2P_DEBUG_CUT") == fnKey(q.Fn) {
					fmt.Printf("CUT edge b%d->b%d removed\n", b.Index, succ.Index)
				}
				continue
			}
			if q.contradicts(b, s) {
				continue
			}
			if q.TargetEdge != nil && q.TargetEdge(b, s) {
				return q.witnessEdge(c, it, b, s), examined
			}
			if visitedBlockStart[succ] {
				continue
			}
			visitedBlockStart[succ] = true
			work = append(work, &item{l: loc{succ, 0}, prev: it})
		}
	}
	return "", examined
}

func (q *Cut) contradicts(b *ssa.BasicBlock, s int) bool {
	if len(q.Assume) == 0 {
		return false
	}
	i := ifOf(b)
	if i == nil {
		return false
	}
	base, neg := stripNot(i.Cond)
	want, ok := q.Assume[base]
	if !ok {
		return false
	}
	// edge 0 is taken when cond is true, i.e. base == !neg
	taken := (s == 0) != neg
	return taken != want
}

type cutItem struct {
	l    loc
	prev *cutItem
}

func (q *Cut) witness(c *Ctx, it *cutItem, target ssa.Instruction) string {
	var parts []string
	for p := it; p != nil; p = p.prev {
		parts = append([]string{fmt.Sprintf("b%d", p.l.b.Index)}, parts...)
	}
	if len(parts) > 14 {
		parts = append(append(parts[:6:6], "…"), parts[len(parts)-6:]...)
	}
	return fmt.Sprintf("%s reaches `%s` at %s via %s", q.startDesc(), describeInstr(target), c.Pos(instrPos(target)), strings.Join(parts, "→"))
}

func (q *Cut) witnessEdge(c *Ctx, it *cutItem, b *ssa.BasicBlock, s int) string {
	var parts []string
	for p := it; p != nil; p = p.prev {
		parts = append([]string{fmt.Sprintf("b%d", p.l.b.Index)}, parts...)
	}
	pos := token.NoPos
	if len(b.Instrs) > 0 {
		pos = instrPos(b.Instrs[len(b.Instrs)-1])
	}
	return fmt.Sprintf("%s reaches edge b%d→b%d at %s via %s", q.startDesc(), b.Index, b.Succs[s].Index, c.Pos(pos), strings.Join(parts, "→"))
}

func (q *Cut) startDesc() string {
	if len(q.From) == 0 && len(q.FromEdges) == 0 {
		return "entry"
	}
	if len(q.From) > 0 {
		return describeInstr(q.From[0])
	}
	return fmt.Sprintf("edge b%d→b%d", q.FromEdges[0].B.Index, q.FromEdges[0].B.Succs[q.FromEdges[0].Succ].Index)
}

func describeInstr(in ssa.Instruction) string {
	switch x := in.(type) {
	case ssa.CallInstruction:
		k := calleeKey(x)
		if k == "" {
			k = "dynamic call"
		}
		switch in.(type) {
		case *ssa.Go:
			return "go " + k
		case *ssa.Defer:
			return "defer " + k
		}
		return "call " + k
	case *ssa.Return:
		var rs []string
		for i := range x.Results {
			rs = append(rs, describeVal(retVal(x, i)))
		}
		return "return " + strings.Join(rs, ", ")
	case *ssa.Store:
		if f, base := fieldAddrOf(x.Addr); f != nil {
			return "store " + fieldKeyOf(base, f)
		}
		return "store"
	case *ssa.MapUpdate:
		return "map update"
	case *ssa.Send:
		return "send"
	case *ssa.Panic:
		return "panic"
	}
	return fmt.Sprintf("%T", in)
}

func instrPos(in ssa.Instruction) token.Pos {
	if in.Pos().IsValid() {
		return in.Pos()
	}
	// fall back to the nearest instruction with a position in the block
	b := in.Block()
	idx := instrIndex(in)
	for i := idx; i >= 0; i-- {
		if b.Instrs[i].Pos().IsValid() {
			return b.Instrs[i].Pos()
		}
	}
	for i := idx; i < len(b.Instrs); i++ {
		if b.Instrs[i].Pos().IsValid() {
			return b.Instrs[i].Pos()
		}
	}
	if r, ok := in.(*ssa.Return); ok {
		for _, v := range r.Results {
			if v.Pos().IsValid() {
				return v.Pos()
			}
		}
	}
	return in.Parent().Pos()
}

// RunPhiSensitive is the E1b variant of Run: along each path the truth value
// of boolean phis is tracked (a phi takes the constant, or the tracked value
// of the phi, that flows in over the edge the path took) and an If on a phi
// whose value is known follows only the consistent edge. Used for flags that
// are set on the path and tested later (`changed = true ... if changed {..}`).
func (q *Cut) RunPhiSensitive(c *Ctx) (string, int) {
	type env map[*ssa.Phi]bool
	sig := func(e env) string {
		var ks []string
		for p, v := range e {
			ks = append(ks, fmt.Sprintf("%s=%v", p.Name(), v))
		}
		sortStrings(ks)
		return strings.Join(ks, ",")
	}
	type item struct {
		l    loc
		e    env
		prev *item
	}
	var work []*item
	seen := map[string]bool{}
	push := func(b *ssa.BasicBlock, i int, e env, prev *item) {
		k := fmt.Sprintf("%d|%d|%s", b.Index, i, sig(e))
		if seen[k] {
			return
		}
		seen[k] = true
		work = append(work, &item{loc{b, i}, e, prev})
	}
	if len(q.From) == 0 && len(q.FromEdges) == 0 {
		push(q.Fn.Blocks[0], 0, env{}, nil)
	}
	for _, f := range q.From {
		push(f.Block(), instrIndex(f)+1, env{}, nil)
	}
	enter := func(from *ssa.BasicBlock, to *ssa.BasicBlock, e env) env {
		idx := -1
		for i, p := range to.Preds {
			if p == from {
				idx = i
			}
		}
		ne := env{}
		for k, v := range e {
			ne[k] = v
		}
		for _, in := range to.Instrs {
			p, ok := in.(*ssa.Phi)
			if !ok {
				break
			}
			if idx < 0 || idx >= len(p.Edges) {
				continue
			}
			switch x := p.Edges[idx].(type) {
			case *ssa.Const:
				if b, isB := constBool(x); isB {
					ne[p] = b
				} else {
					delete(ne, p)
				}
			case *ssa.Phi:
				if v, known := e[x]; known {
					ne[p] = v
				} else {
					delete(ne, p)
				}
			default:
				delete(ne, p)
			}
		}
		return ne
	}
	for _, fe := range q.FromEdges {
		t := fe.B.Succs[fe.Succ]
		push(t, 0, enter(fe.B, t, env{}), nil)
	}
	examined := 0
	for len(work) > 0 {
		it := work[0]
		work = work[1:]
		b := it.l.b
		stopped := false
		for i := it.l.i; i < len(b.Instrs); i++ {
			in := b.Instrs[i]
			if q.Target != nil && q.Target(in) {
				var parts []string
				for p := it; p != nil; p = p.prev {
					parts = append([]string{fmt.Sprintf("b%d", p.l.b.Index)}, parts...)
				}
				if len(parts) > 14 {
					parts = append(append(parts[:6:6], "…"), parts[len(parts)-6:]...)
				}
				return fmt.Sprintf("%s reaches `%s` at %s via %s", q.startDesc(), describeInstr(in), c.Pos(instrPos(in)), strings.Join(parts, "→")), examined
			}
			if q.Sep != nil && q.Sep(in) {
				stopped = true
				break
			}
		}
		if stopped {
			continue
		}
		for s, succ := range b.Succs {
			examined++
			if q.EdgeCut != nil && q.EdgeCut(b, s) {
				continue
			}
			if q.contradicts(b, s) {
				continue
			}
			if i := ifOf(b); i != nil {
				base, neg := stripNot(i.Cond)
				if p, ok := base.(*ssa.Phi); ok {
					if v, known := it.e[p]; known {
						taken := (s == 0) != neg
						if taken != v {
							continue
						}
					}
				}
			}
			push(succ, 0, enter(b, succ, it.e), it)
		}
	}
	return "", examined
}

func sortStrings(s []string) {
	for i := 1; i < len(s); i++ {
		for j := i; j > 0 && s[j] < s[j-1]; j-- {
			s[j], s[j-1] = s[j-1], s[j]
		}
	}
}
