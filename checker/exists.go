package main

import (
	"go/token"
	"strings"

	"golang.org/x/tools/go/ssa"
)

// "Some element of the list satisfies P" (∃-membership), however it is
// written: a loop that sets a flag, a helper that returns true from inside
// its loop, or slices.ContainsFunc with a predicate closure.
//
// matchEdges returns the CFG edges of f on which the membership is
// established, provided that in every form the conjuncts of P are all tested:
// each conjunct is an edge predicate evaluated in the function where the
// test is written, with values seen *through* the call (a helper's parameter
// stands for the caller's argument, a closure's free variable for the
// captured variable).

type conjunct struct {
	name string
	// cond: given a value translator (callee value -> caller value, identity in f itself), says of a boolean value
	// whether it decides the conjunct and which outcome establishes it
	cond func(through func(ssa.Value) ssa.Value) condPred
}

type condPred func(v ssa.Value) (decides bool, trueMeans bool)

// edge: the CFG edges on which the conjunct has just been established.
func (cj conjunct) edge(through func(ssa.Value) ssa.Value) EdgePred {
	cp := cj.cond(through)
	return func(b *ssa.BasicBlock, s int) bool {
		if ifOf(b) == nil {
			return false
		}
		base, neg := stripNot(condOf(b))
		d, tm := cp(base)
		if !d {
			return false
		}
		return (s == 0) == (tm != neg)
	}
}

// eqCond / callCond: the two spellings of a conjunct.
func eqCond(ma, mb func(ssa.Value) bool) condPred {
	return func(v ssa.Value) (bool, bool) {
		bo, ok := v.(*ssa.BinOp)
		if !ok || (bo.Op != token.EQL && bo.Op != token.NEQ) {
			return false, false
		}
		x, y := strip(bo.X), strip(bo.Y)
		if !((ma(x) && mb(y)) || (ma(y) && mb(x))) {
			return false, false
		}
		return true, bo.Op == token.EQL
	}
}

func valCond(m func(ssa.Value) bool) condPred {
	return func(v ssa.Value) (bool, bool) { return m(v), true }
}

type matchResult struct {
	edges   []CFGEdge
	form    string
	missing []string // conjuncts not established in the form found
}

// throughCall: values of callee h seen from the call site: parameters (and their spill cells) become the arguments.
func throughCall(c *Ctx, call *ssa.Call, h *ssa.Function) func(ssa.Value) ssa.Value {
	return func(v ssa.Value) ssa.Value {
		v = strip2(v)
		for i, p := range h.Params {
			if i >= len(call.Call.Args) {
				break
			}
			if v == ssa.Value(p) || isParamCellLoad(c, v, p) {
				return call.Call.Args[i]
			}
		}
		return v
	}
}

// throughClosure: free variables of the closure become (loads of) the captured cells in the parent.
func throughClosure(mc *ssa.MakeClosure) func(ssa.Value) ssa.Value {
	fn := mc.Fn.(*ssa.Function)
	return func(v ssa.Value) ssa.Value {
		v = strip2(v)
		if ld, ok := v.(*ssa.UnOp); ok {
			if fv, isFV := ld.X.(*ssa.FreeVar); isFV {
				for i, q := range fn.FreeVars {
					if q == fv {
						// the captured cell: what was stored into it in the parent (unique store)
						if al, isAl := mc.Bindings[i].(*ssa.Alloc); isAl {
							var stored ssa.Value
							n := 0
							for _, r := range *al.Referrers() {
								if st, isSt := r.(*ssa.Store); isSt && st.Addr == ssa.Value(al) {
									stored = st.Val
									n++
								}
							}
							if n == 1 {
								return stored
							}
							return al
						}
					}
				}
			}
		}
		if fv, isFV := v.(*ssa.FreeVar); isFV {
			for i, q := range fn.FreeVars {
				if q == fv {
					return mc.Bindings[i]
				}
			}
		}
		return v
	}
}

func identity(v ssa.Value) ssa.Value { return v }

// trueGuardedBy: in g, every exit that can answer true lies past all conjuncts (as a branch taken, or as the
// returned boolean itself); returns the missing ones.
func trueGuardedBy(c *Ctx, g *ssa.Function, through func(ssa.Value) ssa.Value, conj []conjunct) []string {
	enterScan(g)
	return answerGuardedBy(c, g, through, conj, true)
}

// answerGuardedBy: whenever g answers `want`, every conjunct has been established.
func answerGuardedBy(c *Ctx, g *ssa.Function, through func(ssa.Value) ssa.Value, conj []conjunct, want bool) []string {
	enterScan(g)
	rets := returnsOf(g)
	if len(rets) == 0 {
		return []string{"no answer"}
	}
	var missing []string
	for _, cj := range conj {
		cp := cj.cond(through)
		ep := cj.edge(through)
		var implied func(v ssa.Value, want bool, at func() bool, depth int) bool
		implied = func(v ssa.Value, want bool, at func() bool, depth int) bool {
			if b, isC := constBool(v); isC {
				return b != want || at()
			}
			base, neg := stripNot(v)
			if d, tm := cp(base); d && tm == (want != neg) {
				return true
			}
			if p, isPhi := base.(*ssa.Phi); isPhi && depth < 4 {
				for i, e := range p.Edges {
					pred := p.Block().Preds[i]
					si := 0
					for k, sb := range pred.Succs {
						if sb == p.Block() {
							si = k
						}
					}
					edge := []CFGEdge{{pred, si}}
					if !implied(e, want != neg, func() bool {
						w, _ := (&Cut{Fn: g, TargetEdge: edgeSet(edge), EdgeCut: ep}).Run(c)
						return w == ""
					}, depth+1) {
						return false
					}
				}
				return true
			}
			return at()
		}
		ok := true
		for _, ret := range rets {
			ret := ret
			if !implied(retVal(ret, 0), want, func() bool {
				w, _ := (&Cut{Fn: g, Target: isInstr(ret), EdgeCut: ep}).Run(c)
				return w == ""
			}, 0) {
				ok = false
			}
		}
		if !ok {
			missing = append(missing, cj.name)
		}
	}
	return missing
}

// negate: the conjunct's complement (for "answers false only when the condition fails").
func (cj conjunct) negate() conjunct {
	return conjunct{name: "not " + cj.name, cond: func(th func(ssa.Value) ssa.Value) condPred {
		cp := cj.cond(th)
		return func(v ssa.Value) (bool, bool) {
			d, tm := cp(v)
			return d, !tm
		}
	}}
}

// matchEdges looks for the membership test over a list satisfying isList in f.
func matchEdges(c *Ctx, f *ssa.Function, isList func(ssa.Value) bool, conj []conjunct) *matchResult {
	enterScan(f)
	// (b) helper / (c) slices.ContainsFunc / IndexFunc: a call whose result decides
	var res *matchResult
	allInstrsIn(f, func(in ssa.Instruction) {
		call, ok := in.(*ssa.Call)
		if !ok || res != nil {
			return
		}
		key := calleeKey(call)
		hasList := false
		for _, a := range call.Call.Args {
			if isList(a) {
				hasList = true
			}
		}
		if !hasList {
			return
		}
		switch {
		case strings.HasPrefix(key, "slices.ContainsFunc"):
			mc, isMC := strip2(call.Call.Args[1]).(*ssa.MakeClosure)
			if !isMC {
				return
			}
			miss := trueGuardedBy(c, mc.Fn.(*ssa.Function), throughClosure(mc), conj)
			res = &matchResult{edges: edgesWhere(f, edgeBool(func(v ssa.Value) bool { return v == ssa.Value(call) }, true)), form: "slices.ContainsFunc", missing: miss}
		default:
			h := call.Call.StaticCallee()
			if h == nil || h.Blocks == nil || h.Pkg == nil || !strings.HasPrefix(h.Pkg.Pkg.Path()+"/", Mod) || h.Signature.Results().Len() != 1 {
				return
			}
			if !strings.HasSuffix(h.Signature.Results().At(0).Type().String(), "bool") {
				return
			}
			miss := trueGuardedBy(c, h, throughCall(c, call, h), conj)
			res = &matchResult{edges: edgesWhere(f, edgeBool(func(v ssa.Value) bool { return v == ssa.Value(call) }, true)), form: "helper " + fnKey(h), missing: miss}
		}
	})
	if res != nil {
		return res
	}
	// (a) a flag set inside a loop over the list: boolean phi with constant true and false operands deciding an If
	for _, b := range f.Blocks {
		i := ifOf(b)
		if i == nil {
			continue
		}
		base, neg := stripNot(i.Cond)
		p, ok := base.(*ssa.Phi)
		if !ok {
			continue
		}
		hasT, hasF := false, false
		for _, l := range phiLeaves(p) {
			if bv, isC := constBool(l); isC {
				if bv {
					hasT = true
				} else {
					hasF = true
				}
			}
		}
		if !hasT || !hasF {
			continue
		}
		es := phiEdgesWhere(p, func(v ssa.Value) bool { bv, isC := constBool(v); return isC && bv })
		var miss []string
		for _, cj := range conj {
			if w, _ := (&Cut{Fn: f, TargetEdge: edgeSet(es), EdgeCut: cj.edge(identity)}).Run(c); w != "" || len(es) == 0 {
				miss = append(miss, cj.name)
			}
		}
		s := 0
		if neg {
			s = 1
		}
		return &matchResult{edges: []CFGEdge{{b, s}}, form: "loop with flag", missing: miss}
	}
	return nil
}
